#!/venv/bin/python
"""./check Cxx --tier quick|thorough [--replay file]

Verdict logic (DESIGN.md section 2.1):
  A. regenerate kernels from /repo's current source, build the property's theorems, the
     generated obligations and the model driver;
  B. audit (no sorry/axiom/native_decide..., `#print axioms` ⊆ standard, statement lock);
  C. correspondence: implementation vs. model driver on the property's generators;
  D. direct oracle on the implementation (always on the generators; and on the witnesses of
     any broken obligation / disagreement);
  E. evidence.
Exit 0: everything held.  Exit 1: VIOLATION line printed.  Exit 2: infrastructure failure.
"""
from __future__ import annotations
import argparse, fcntl, hashlib, importlib, json, os, random, re, subprocess, sys, time, traceback

HERE = os.path.dirname(os.path.abspath(__file__))
ROOT = os.path.abspath(os.path.join(HERE, ".."))
LEAN = os.path.join(ROOT, "lean")
sys.path.insert(0, HERE)
REPO = os.environ.get("VERIF_REPO", "/repo")
if REPO != "/repo":
    sys.path.insert(0, os.path.join(REPO, "src"))

import extract  # noqa: E402

STD_AXIOMS = {"propext", "Classical.choice", "Quot.sound"}
FORBIDDEN = re.compile(r"\b(sorry|admit|native_decide|bv_decide|implemented_by|unsafe|maxHeartbeats\s+0)\b|^\s*axiom\s", re.M)


def sh(cmd, cwd=None, timeout=None, input=None):
    p = subprocess.run(cmd, cwd=cwd, capture_output=True, text=True, timeout=timeout, input=input)
    out = "\n".join(l for l in (p.stdout + p.stderr).splitlines() if not l.startswith("WARNING"))
    return p.returncode, out


class Lock:
    def __enter__(self):
        os.makedirs(os.path.join(LEAN, ".lake"), exist_ok=True)
        self.f = open(os.path.join(LEAN, ".lake", "verif.lock"), "w")
        fcntl.flock(self.f, fcntl.LOCK_EX)
        return self

    def __exit__(self, *a):
        fcntl.flock(self.f, fcntl.LOCK_UN)
        self.f.close()


def lake_build(targets):
    """Build targets; returns (ok_targets, failed: {target: log})."""
    with Lock():
        rc, out = sh(["lake", "build"] + targets, cwd=LEAN, timeout=3000)
    if rc == 0:
        return list(targets), {}, out
    failed = {}
    m = re.search(r"Some required targets logged failures:\n((?:- .*\n?)+)", out)
    names = re.findall(r"- (\S+)", m.group(1)) if m else []
    for n in names:
        failed[n] = out
    if not names:
        failed = {t: out for t in targets}
    # a failed module also fails what imports it; treat every requested target that is not
    # known-good as failed unless it builds on its own
    ok = []
    for t in targets:
        if t in failed:
            continue
        with Lock():
            rc2, out2 = sh(["lake", "build", t], cwd=LEAN, timeout=3000)
        if rc2 == 0:
            ok.append(t)
        else:
            failed[t] = out2
    return ok, failed, out


def strip_comments(src: str) -> str:
    # remove /- ... -/ (nested not needed here) and -- comments
    src = re.sub(r"/-.*?-/", "", src, flags=re.S)
    src = re.sub(r"--.*", "", src)
    return src


def audit_sources():
    bad = []
    for dirpath, _, files in os.walk(LEAN):
        if ".lake" in dirpath:
            continue
        for fn in files:
            if fn.endswith(".lean"):
                p = os.path.join(dirpath, fn)
                code = strip_comments(open(p).read())
                m = FORBIDDEN.search(code)
                if m:
                    bad.append(f"{os.path.relpath(p, ROOT)}: {m.group(0).strip()}")
    return bad


def audit_theorems(prop, theorems, modules):
    """#print axioms + statement of each theorem; returns {thm: {axioms, statement}} or raises."""
    if not theorems:
        return {}, (0, "")
    lines = [f"import {m}" for m in modules]
    for t in theorems:
        lines.append(f'#check @{t}')
        lines.append(f'#print axioms {t}')
    path = os.path.join(LEAN, ".lake", f"audit_{prop}.lean")
    with open(path, "w") as f:
        f.write("\n".join(lines) + "\n")
    with Lock():
        rc, out = sh(["lake", "env", "lean", path], cwd=LEAN, timeout=600)
    res = {}
    # parse sequentially
    chunks = re.split(r"(?m)^(?=@?\S.* : |'[^']+' (?:depends on axioms|does not depend))", out)
    joined = out
    for t in theorems:
        m = re.search(r"(?ms)^@?" + re.escape(t) + r" : (.*?)(?=^'|\Z)", joined)
        stmt = re.sub(r"\s+", " ", m.group(1)).strip() if m else None
        m2 = re.search(r"'" + re.escape(t) + r"' depends on axioms: \[(.*?)\]", joined, re.S)
        m3 = re.search(r"'" + re.escape(t) + r"' does not depend on any axioms", joined)
        if m2:
            axioms = [a.strip() for a in m2.group(1).replace("\n", " ").split(",") if a.strip()]
        elif m3:
            axioms = []
        else:
            axioms = None
        res[t] = {"statement": stmt, "axioms": axioms}
    return res, (rc, out)


class Ctx:
    def __init__(self, prop, tier, seed):
        self.prop, self.tier, self.seed = prop, tier, seed
        self.rng = random.Random(f"{prop}:{seed}")
        self.evaluations = 0
        self.distinct = set()
        self.samples = []
        self.disagreements = []       # (case, impl, model)
        self.kind_only = 0
        self.violations = []          # dict(what=..., input=..., observed=..., required=...)
        self.dist = {}
        self.notes = []
        self.t0 = time.time()

    thorough = property(lambda self: self.tier == "thorough")

    def count(self, key, n=1):
        self.dist[key] = self.dist.get(key, 0) + n

    # --- model driver -----------------------------------------------------------------------
    def model(self, lines):
        """Run the model driver on a batch of op lines (split over parallel driver processes when
        large); returns the list of output lines."""
        if not lines:
            return []
        exe = os.path.join(LEAN, ".lake", "build", "bin", "modeldrv")

        def one(chunk):
            data = "\n".join(chunk) + "\n"
            p = subprocess.run([exe], input=data, capture_output=True, text=True, timeout=3000)
            if p.returncode != 0:
                raise RuntimeError(f"modeldrv failed rc={p.returncode}: {p.stderr[:500]}")
            out = p.stdout.split("\n")
            if out and out[-1] == "":
                out.pop()
            if len(out) != len(chunk):
                raise RuntimeError(f"modeldrv returned {len(out)} lines for {len(chunk)} ops; last: {out[-1:] if out else ''}")
            return out
        total = sum(len(l) for l in lines)
        if len(lines) < 64 or total < 200000:
            return one(lines)
        import concurrent.futures
        n = min(16, max(2, len(lines) // 32))
        size = -(-len(lines) // n)
        chunks = [lines[i:i + size] for i in range(0, len(lines), size)]
        with concurrent.futures.ThreadPoolExecutor(n) as ex:
            res = list(ex.map(one, chunks))
        return [x for r in res for x in r]

    def compare_batch(self, cases, nontrivial=None, deliberate_equiv=True):
        """cases: list of (op_line, impl_out).  Compares with the model driver.
        An impl_out of the form `err <Kind>` and a model_out `err <Kind'>` with both kinds
        deliberate counts as agreement at the granularity the properties speak of (the exact
        deliberate kind depends on the order of checks inside a parser)."""
        outs = self.model([c[0] for c in cases])
        for (line, impl), mod in zip(cases, outs):
            self.evaluations += 1
            key = hashlib.sha1(line.encode()).digest()[:8]
            if nontrivial is None or nontrivial(line, impl):
                self.distinct.add(key)
            if len(self.samples) < 6 and self.rng.random() < 0.02 or len(self.samples) < 2:
                self.samples.append({"op": line[:300], "impl": impl[:200], "model": mod[:200]})
            if impl == mod:
                self.count("agree:" + impl.split(" ")[0])
                if impl.startswith("err "):
                    self.count("errkind:" + impl.split(" ")[1])
                continue
            if deliberate_equiv and impl.startswith("err ") and mod.startswith("err "):
                ki, km = impl.split(" ")[1], mod.split(" ")[1]
                if ki in DELIBERATE and km in DELIBERATE:
                    self.kind_only += 1
                    self.count("agree:err")
                    self.count("errkind:" + ki)
                    continue
            self.disagreements.append({"op": line, "impl": impl, "model": mod})

    def violation(self, what, input, observed=None, required=None, finding_key=None):
        self.violations.append({"what": what, "input": input, "observed": observed, "required": required,
                                "finding_key": finding_key})


DELIBERATE = {"ValueError", "NotImplementedError", "NotEnougData", "InvalidTag", "InvalidUnwrap"}


def canon_exc(e: BaseException) -> str:
    """Map an exception to the PyErr name the model uses (subclass-aware)."""
    import struct
    try:
        from cryptography.exceptions import InvalidTag
        from cryptography.hazmat.primitives.keywrap import InvalidUnwrap
    except Exception:  # pragma: no cover
        InvalidTag = InvalidUnwrap = ()
    from dpapi_ng._asn1 import NotEnougData
    import asyncio
    if isinstance(e, NotEnougData):
        return "NotEnougData"
    if InvalidTag and isinstance(e, InvalidTag):
        return "InvalidTag"
    if InvalidUnwrap and isinstance(e, InvalidUnwrap):
        return "InvalidUnwrap"
    if isinstance(e, NotImplementedError):
        return "NotImplementedError"
    if isinstance(e, ValueError):
        return "ValueError"
    if isinstance(e, IndexError):
        return "IndexError"
    if isinstance(e, OverflowError):
        return "OverflowError"
    if isinstance(e, struct.error):
        return "struct.error"
    if isinstance(e, KeyError):
        return "KeyError"
    if isinstance(e, TypeError):
        return "TypeError"
    if isinstance(e, asyncio.IncompleteReadError):
        return "IncompleteReadError"
    if isinstance(e, ConnectionError):
        return "ConnectionError"
    if type(e).__name__ in ("AuthError", "_AuthError") or any(c.__name__ == "SpnegoError" for c in type(e).__mro__):
        return "Other"
    return "Other:" + type(e).__name__


def hx(b) -> str:
    b = bytes(b)
    return b.hex() if b else "-"


def load_known():
    p = os.path.join(ROOT, "known_findings.json")
    if not os.path.exists(p):
        return {"findings": [], "fixed": []}
    return json.load(open(p))


def write_replay(prop, payload):
    os.makedirs(os.path.join(ROOT, "replays"), exist_ok=True)
    h = hashlib.sha1(json.dumps(payload, sort_keys=True, default=str).encode()).hexdigest()[:12]
    path = os.path.join(ROOT, "replays", f"{prop}-{h}.json")
    with open(path, "w") as f:
        json.dump(payload, f, indent=1, default=str)
    return os.path.relpath(path, ROOT)


def main():
    ap = argparse.ArgumentParser()
    ap.add_argument("prop")
    ap.add_argument("--tier", default=os.environ.get("VERIF_TIER", "quick"), choices=["quick", "thorough"])
    ap.add_argument("--replay")
    ap.add_argument("--no-build", action="store_true")
    args = ap.parse_args()
    prop = args.prop.upper()
    seed = int(os.environ.get("VERIF_SEED", "0") or 0)
    t0 = time.time()
    try:
        mod = importlib.import_module(f"props.{prop.lower()}")
    except ModuleNotFoundError as e:
        print(f"no check for {prop}: {e}")
        return 2
    ctx = Ctx(prop, args.tier, seed)

    if args.replay:
        payload = json.load(open(args.replay if os.path.isabs(args.replay) else os.path.join(ROOT, args.replay)))
        return replay(mod, ctx, payload)

    # --- A. regenerate + build -------------------------------------------------------------
    kernels = []
    for k in extract.kernels_for(prop):
        kernels.append(extract.generate(k))
    gen_targets = [k["module"] for k in kernels if k["status"] == "generated"]
    unsupported = [k for k in kernels if k["status"] != "generated"]
    prop_modules = getattr(mod, "MODULES", [f"DpapiNg.Properties.{prop}"])
    targets = prop_modules + gen_targets + ["modeldrv"]
    broken = []         # descriptions of proof obligations that no longer check
    ok, failed, buildlog = lake_build(targets)
    if "modeldrv" in failed:
        print("infrastructure: model driver does not build\n" + failed["modeldrv"][-3000:])
        return 2
    for t, log in failed.items():
        errs = "\n".join(l for l in log.splitlines() if "error" in l)[:1500]
        broken.append({"obligation": t, "kind": "generated kernel obligation" if t in gen_targets else "property theorem module",
                       "log": errs})
    for k in unsupported:
        # the source no longer has the shape the translator reads: the obligation `Gen.k = Model.k` cannot be stated, so it is not discharged
        ctx.notes.append(f"kernel {k['name']} could not be extracted ({k.get('reason')})")
        broken.append({"obligation": f"DpapiNg.Gen.{k['name']}_eq", "kind": "generated kernel obligation (source expression not found / not translatable)",
                       "log": str(k.get("reason"))})

    # --- B. audit ---------------------------------------------------------------------------
    theorems = list(getattr(mod, "THEOREMS", []))
    gen_thms = [f"DpapiNg.Gen.{k['name']}_eq" for k in kernels if k["status"] == "generated" and k["module"] in ok]
    audit_mods = [m for m in prop_modules if m in ok] + [k["module"] for k in kernels if k["status"] == "generated" and k["module"] in ok]
    audit_fail = []
    src_bad = audit_sources()
    if src_bad:
        audit_fail.append("forbidden construct: " + "; ".join(src_bad))
    aud = {}
    discharged = 0
    if all(m in ok for m in prop_modules):
        aud, raw = audit_theorems(prop, theorems + gen_thms, audit_mods)
        lock_path = os.path.join(LEAN, "statements.lock")
        lock = json.load(open(lock_path)) if os.path.exists(lock_path) else {}
        for t in theorems + gen_thms:
            info = aud.get(t, {})
            if info.get("axioms") is None or info.get("statement") is None:
                audit_fail.append(f"{t}: not found in the build ({raw[1][-300:]})")
                continue
            extra = set(info["axioms"]) - STD_AXIOMS
            if extra:
                audit_fail.append(f"{t}: non-standard axioms {sorted(extra)}")
                continue
            if t in theorems:
                h = hashlib.sha256(info["statement"].encode()).hexdigest()[:16]
                if os.environ.get("VERIF_UPDATE_LOCK"):
                    lock[t] = h
                elif lock.get(t) != h:
                    audit_fail.append(f"{t}: statement differs from statements.lock ({lock.get(t)} → {h})")
                    continue
            discharged += 1
        if os.environ.get("VERIF_UPDATE_LOCK"):
            with open(lock_path, "w") as f:
                json.dump(dict(sorted(lock.items())), f, indent=1)
    if audit_fail:
        for a in audit_fail:
            broken.append({"obligation": a, "kind": "audit"})
    checker_cmd = "cd lean && lake build " + " ".join(targets)
    if args.tier == "thorough" and not broken and getattr(mod, "LEANCHECKER", True):
        with Lock():
            rc, out = sh(["lake", "env", "leanchecker"] + prop_modules + gen_targets, cwd=LEAN, timeout=3000)
        checker_cmd += " && lake env leanchecker " + " ".join(prop_modules + gen_targets)
        if rc != 0:
            broken.append({"obligation": "leanchecker", "kind": "audit", "log": out[-1500:]})

    # --- C. correspondence + D. oracle --------------------------------------------------------
    limit = int(os.environ.get("VERIF_TIMEOUT", "0") or 0) or (6 * 3600 if args.tier == "thorough" else 1800)

    class HarnessTimeout(BaseException):
        pass

    def on_alarm(signum, frame):
        raise HarnessTimeout()
    import signal
    signal.signal(signal.SIGALRM, on_alarm)
    signal.alarm(limit)
    try:
        mod.run(ctx)
    except HarnessTimeout:
        # where was it stuck?  inside the implementation = it does not return on some generated input (every check finishes in
        # minutes on a tree where the property holds); inside the harness / driver = infrastructure
        tb = traceback.extract_tb(sys.exc_info()[2])
        frames = [f"{f.filename}:{f.lineno} {f.name}" for f in tb]
        frames = frames[:-1]             # drop the signal handler itself
        last = max([i for i, f in enumerate(frames) if "/dpapi_ng/" in f], default=-1)
        inside = last >= 0 and len(frames) - 1 - last <= 6     # in the implementation, or in a stub it called directly
        if inside:
            path = write_replay(prop, {"property": prop, "kind": "no-failing-input-found", "broken_obligations": [
                {"obligation": "correspondence run", "kind": f"the implementation did not return within {limit} s", "log": "\n".join(frames[-12:])}],
                "disagreements": ctx.disagreements[:5]})
            print(f"  implementation did not return within {limit} s; innermost frames:\n    " + "\n    ".join(frames[-6:]))
            print(f"VIOLATION property={prop} replay={path} no-failing-input-found")
            return 1
        print(f"infrastructure: timeout after {limit} s\n  " + "\n  ".join(frames[-8:]))
        return 2
    except Exception:
        # The harness drives the implementation in-process and takes its results apart; when it raises here — on the unchanged tree every
        # check runs to the end — the implementation has handed back something the correspondence cannot process (an object without the
        # attribute the decoder used to set, a value its own encoder refuses, …).  That is a correspondence that no longer checks, not a
        # verdict about the property and not silence either: reported as the brief prescribes, with the traceback as the replay.
        tb_text = traceback.format_exc()
        if ctx.violations:
            # the run had already recorded concrete failing inputs before it tripped: those are the report (with their replay), the abort is
            # one more thing that no longer checks
            ctx.notes.append("the correspondence run aborted after recording violations: " + tb_text.splitlines()[-1][:200])
            broken.append({"obligation": "correspondence run", "kind": "the harness raised while driving / decoding the implementation", "log": tb_text[-3000:]})
            path = None
        else:
            path = write_replay(prop, {"property": prop, "kind": "no-failing-input-found", "broken_obligations": broken + [
            {"obligation": "correspondence run", "kind": "the harness raised while driving / decoding the implementation", "log": tb_text[-3000:]}],
                "disagreements": ctx.disagreements[:5]})
        print("  correspondence run aborted: the harness raised while driving the implementation\n" + "\n".join("    " + l for l in tb_text.splitlines()[-8:]))
        if path is not None:
            print(f"VIOLATION property={prop} replay={path} no-failing-input-found")
            return 1
    finally:
        signal.alarm(0)

    # witnesses of broken obligations → direct search on the implementation
    if (broken or ctx.disagreements) and hasattr(mod, "search"):
        try:
            mod.search(ctx, broken, ctx.disagreements)
        except Exception:
            # the failing-input search drives the implementation too; if it trips over what the implementation now does, the broken
            # obligation / correspondence that triggered the search is still reported (with whatever inputs were found before)
            ctx.notes.append("the failing-input search raised: " + traceback.format_exc().splitlines()[-1][:200])
            broken.append({"obligation": "failing-input search", "kind": "the search raised while driving the implementation", "log": traceback.format_exc()[-2000:]})

    # --- verdict ----------------------------------------------------------------------------
    known = load_known()
    known_keys = {f["key"]: f for f in known.get("findings", []) if f.get("property") == prop}
    rc = 0
    real = []
    for v in ctx.violations:
        if v.get("finding_key") in known_keys:
            print(f"KNOWN-FINDING: property={prop} {known_keys[v['finding_key']]['what']}")
        else:
            real.append(v)
    if real:
        v = real[0]
        path = write_replay(prop, {"property": prop, "kind": "failing-input", "violation": v, "all": real[:20],
                                   "broken_obligations": broken, "disagreements": ctx.disagreements[:10],
                                   "rerun": f"./check {prop} --replay <this file>"})
        print(f"  {v['what']}: input={str(v['input'])[:300]} observed={str(v['observed'])[:200]} required={str(v['required'])[:200]}")
        print(f"VIOLATION property={prop} replay={path}")
        rc = 1
    elif broken or ctx.disagreements:
        path = write_replay(prop, {"property": prop, "kind": "no-failing-input-found",
                                   "broken_obligations": broken, "disagreements": ctx.disagreements[:20],
                                   "note": "the property is no longer shown to hold: the named theorem / generated obligation / correspondence case does not check; the direct oracle found no failing input on the implementation"})
        for b in broken[:5]:
            print(f"  broken: {b['kind']}: {b['obligation']}")
            if b.get("log"):
                print("    " + b["log"][:600].replace("\n", "\n    "))
        for d in ctx.disagreements[:5]:
            print(f"  disagreement: op={d['op'][:200]} impl={d['impl'][:120]} model={d['model'][:120]}")
        print(f"VIOLATION property={prop} replay={path} no-failing-input-found")
        rc = 1

    # --- E. evidence ------------------------------------------------------------------------
    n_obl = len(theorems) + len(kernels)
    trusted = ["Lean 4.33.0 kernel", "axioms ⊆ {propext, Classical.choice, Quot.sound} (audited per theorem on this run)",
               "harness/extract.py (Python-expression → Lean translator)", "Py prelude faithfulness to CPython (differentially validated)",
               "correspondence harness (generators, canonicaliser)"] + list(getattr(mod, "TRUSTED", []))
    ev = {
        "property_id": prop, "tier": args.tier, "seed": seed, "level": "proof",
        "coverage": {
            "obligations": n_obl, "discharged": discharged if not broken else min(discharged, n_obl - 1),
            "checker_cmd": checker_cmd, "trusted_base": trusted,
            "theorems": {t: aud.get(t, {}).get("axioms") for t in theorems + gen_thms},
            "kernels": [{k2: k.get(k2) for k2 in ("name", "status", "python", "line", "lean_def", "reason")} for k in kernels],
            "evaluations": ctx.evaluations, "distinct_nontrivial": len(ctx.distinct),
            "rule": getattr(mod, "RULE", "cases are op lines sent to both the implementation and the model driver; distinct by op line"),
            "samples": ctx.samples[:8] or [{"note": "no correspondence cases"}],
            "disagreements_checked": ctx.evaluations, "disagreements": len(ctx.disagreements),
            "deliberate_kind_only_differences": ctx.kind_only,
            "input_distribution": dict(sorted(ctx.dist.items())),
            "notes": ctx.notes, "exhaustive": bool(getattr(ctx, "exhaustive", False)),
        },
        "assumptions": list(getattr(mod, "ASSUMPTIONS", [])),
        "wall_s": round(time.time() - t0, 2), "violations": len(real) + (1 if (rc and not real) else 0),
    }
    os.makedirs(os.path.join(ROOT, "evidence"), exist_ok=True)
    with open(os.path.join(ROOT, "evidence", f"{prop}.json"), "w") as f:
        json.dump(ev, f, indent=1, default=str)
    if rc == 0:
        print(f"OK property={prop} tier={args.tier} obligations={n_obl} discharged={discharged} evaluations={ctx.evaluations} "
              f"distinct={len(ctx.distinct)} wall={ev['wall_s']}s")
    return rc


def replay(mod, ctx, payload):
    if payload.get("kind") == "no-failing-input-found":
        # nothing to replay on the implementation: the replay names the proof obligations / correspondence that did not check.
        # Replaying it = regenerating and re-checking them on the current tree (the quick tier of this check).
        print("no failing input was recorded; what did not check:")
        for b in payload.get("broken_obligations", []):
            print(f"  {b.get('kind')}: {b.get('obligation')}")
            for l in str(b.get("log", "")).splitlines()[-4:]:
                print("      " + l[:200])
        for d in payload.get("disagreements", [])[:3]:
            print("  disagreement:", str(d)[:300])
        print("re-checking on the current tree:")
        rc, out = sh([sys.executable, os.path.abspath(__file__), ctx.prop, "--tier", "quick"], cwd=ROOT, timeout=3 * 3600)
        print("\n".join("  " + l for l in out.splitlines()[-6:]))
        return rc
    if not hasattr(mod, "replay"):
        print("this property has no replay handler")
        return 2
    ok = mod.replay(ctx, payload)
    if ok:
        print(f"replay: the recorded input now behaves as required")
        return 0
    print(f"VIOLATION property={ctx.prop} replay={payload.get('_path', 'given')}")
    return 1


if __name__ == "__main__":
    try:
        sys.exit(main())
    except subprocess.TimeoutExpired as e:
        print(f"infrastructure: timeout {e}")
        sys.exit(2)
