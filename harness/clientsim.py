"""Drives the real client functions (sync and async) of dpapi_ng under the toy crypto, a scripted
clock, a scripted RNG and a fake DC, and produces the model's step ops (`client …` lines) with the
outputs the implementation exhibited, for comparison with the model driver."""
from __future__ import annotations
import asyncio, contextlib, uuid
import gen, toycrypto, refdc, refimpl
from check import canon_exc, hx
from gen import u16

EPOCH = 116444736000000000
B = 360000000000


def time_ns_for(l0, l1, l2, off=12345):
    t = (l0 * 1024 + l1 * 32 + l2) * B + off
    return (t - EPOCH) * 100


class NoReply(Exception):
    pass


def opt(b):
    return "none" if b is None else hx(b)


def toy_kdf_factory(hash_name):
    hid = toycrypto.HASH_ID[hash_name.lower()]
    return lambda k, c: toycrypto.stream(10 + hid, [k, refimpl.LABEL, c, (64).to_bytes(4, "little")], 64)


def toy_public_key(rec, seed):
    """group public key under the toy crypto (toy EC group; real modexp for DH)"""
    hid = toycrypto.HASH_ID[rec.hash_name.lower()]
    plen = -(-rec.private_key_length // 8)
    x = int.from_bytes(toycrypto.stream(10 + hid, [seed, refimpl.LABEL, refimpl.u16z(rec.secret_algorithm), plen.to_bytes(4, "little")], plen), "big")
    if rec.secret_algorithm == "DH":
        kl, p, g = refimpl.parse_ffc_params(rec.secret_parameters)
        return refimpl.ffc_key(kl, p, g, pow(g, x, p))
    cv = {"ECDH_P256": "secp256r1", "ECDH_P384": "secp384r1"}[rec.secret_algorithm]
    q, w = toycrypto.Q[cv], toycrypto.WIDTH[cv]
    X = (7 * x) % q
    return {"secp256r1": b"ECK1", "secp384r1": b"ECK3"}[cv] + w.to_bytes(4, "little") + X.to_bytes(w, "big") + ((3 * X + 1) % q).to_bytes(w, "big")


class Sim:
    """One KeyCache under test + the scripted world around it."""
    def __init__(self, dc: refdc.KeyServer, real_crypto=False):
        import dpapi_ng
        self.dc = dc
        self.cache = dpapi_ng.KeyCache()
        self.now_ns = time_ns_for(*dc.now)
        self.draw_idx = 0
        self.real = real_crypto
        self.steps = []          # (model step text, expected output)
        self.dc_calls = 0
        self.reply_filter = None

    # ---- scripted world -----------------------------------------------------------------------
    def _rng(self, n):
        self.draw_idx += 1
        return toycrypto.stream(90, [self.draw_idx.to_bytes(4, "little")], n)

    @contextlib.contextmanager
    def world(self):
        import dpapi_ng._client as c
        sim = self

        class T:
            @staticmethod
            def time_ns():
                return sim.now_ns

        def lookup(domain_name=None):
            sim.lookups.append(domain_name)
            return type("Srv", (), {"target": "dc.test", "port": 389, "weight": 0, "priority": 0})()

        async def alookup(domain_name=None):
            return lookup(domain_name)

        def reply_for(sd, rk, l0, l1, l2):
            sim.dc_calls += 1
            f = sim.dc.get_key(bytes(sd), rk, l0, l1, l2)
            import dpapi_ng._gkdi as g
            return g.GroupKeyEnvelope(**f)

        def sync_get_key(server, target_sd, root_key_id=None, l0=-1, l1=-1, l2=-1, username=None, password=None, auth_protocol="negotiate"):
            sim.requests.append((bytes(target_sd), root_key_id, l0, l1, l2))
            if sim.no_reply:
                raise NoReply()
            env = reply_for(target_sd, root_key_id, l0, l1, l2)
            sim.replies.append(env)
            return env

        async def async_get_key(server, target_sd, root_key_id, l0=-1, l1=-1, l2=-1, username=None, password=None, auth_protocol="negotiate"):
            sim.requests.append((bytes(target_sd), root_key_id, l0, l1, l2))
            if sim.gate is not None:
                fut = asyncio.get_event_loop().create_future()
                sim.gate.append(fut)
                await fut
            if sim.no_reply:
                raise NoReply()
            env = reply_for(target_sd, root_key_id, l0, l1, l2)
            sim.replies.append(env)
            return env

        saved = (c.time, c.lookup_dc, c.async_lookup_dc, c._sync_get_key, c._async_get_key)
        c.time, c.lookup_dc, c.async_lookup_dc, c._sync_get_key, c._async_get_key = T, lookup, alookup, sync_get_key, async_get_key
        cm = toycrypto.recording(self._rng) if self.real else toycrypto.toy(self._rng)
        try:
            with cm as log:
                self.log = log
                yield
        finally:
            c.time, c.lookup_dc, c.async_lookup_dc, c._sync_get_key, c._async_get_key = saved

    def _reset(self, no_reply=False, gate=None):
        self.requests, self.replies, self.lookups, self.no_reply, self.gate = [], [], [], no_reply, gate
        self.log.urandom.clear()
        self.log.reset_budget()

    # ---- steps -----------------------------------------------------------------------------------
    def load(self, rec: refdc.RootKeyRec, explicit_params=True, empty_secret_parameters=False):
        kw = dict(key=rec.key, root_key_id=rec.id, version=rec.version, kdf_algorithm="SP800_108_CTR_HMAC",
                  kdf_parameters=rec.kdf_parameters if explicit_params else None, secret_algorithm=rec.secret_algorithm,
                  secret_parameters=b"" if empty_secret_parameters else ((rec.secret_parameters or None) if explicit_params else None),
                  private_key_length=rec.private_key_length, public_key_length=rec.public_key_length)
        self.cache.load_key(**kw)
        self.steps.append((f"load {hx(rec.id.bytes_le)} {hx(rec.key)} {rec.version} {hx(u16('SP800_108_CTR_HMAC'))} {opt(kw['kdf_parameters'])} "
                           f"{hx(u16(rec.secret_algorithm))} {opt(kw['secret_parameters'])} {rec.private_key_length} {rec.public_key_length}", "ok"))

    def _net_line(self, domain_u16):
        sd, rk, l0, l1, l2 = self.requests[0]
        return f"net {hx(sd)} {opt(rk.bytes_le if rk else None)} {l0} {l1} {l2} {domain_u16}"

    def _outcome(self, f, fmt=hx):
        try:
            return "done " + fmt(f()), None
        except NoReply:
            return None, None
        except Exception as e:  # noqa
            return "err " + canon_exc(e), e

    def unprotect(self, blob: bytes, no_reply=False, use_async=False):
        import dpapi_ng
        self._reset(no_reply)
        if use_async:
            out, exc = self._outcome(lambda: asyncio.run(dpapi_ng.async_ncrypt_unprotect_secret(blob, cache=self.cache)))
        else:
            out, exc = self._outcome(lambda: dpapi_ng.ncrypt_unprotect_secret(blob, cache=self.cache))
        self._emit_unprotect(blob, out)
        return out

    def _emit_unprotect(self, blob, out):
        if self.requests:
            dom = hx(u16(self.lookups[0])) if self.lookups and self.lookups[0] is not None else "none"
            self.steps.append((f"ubegin {hx(blob)}", self._net_line(dom)))
            if self.replies:
                self.steps.append((f"ufin {hx(blob)} {gen.env_fields(self.replies[0])}", out))
        else:
            self.steps.append((f"ubegin {hx(blob)}", out))

    def protect(self, data: bytes, sid: str, rk=None, domain=None, no_reply=False, use_async=False):
        import dpapi_ng
        self._reset(no_reply)
        idx0 = self.draw_idx
        if use_async:
            out, exc = self._outcome(lambda: asyncio.run(dpapi_ng.async_ncrypt_protect_secret(data, sid, root_key_identifier=rk, domain_name=domain, cache=self.cache)))
        else:
            out, exc = self._outcome(lambda: dpapi_ng.ncrypt_protect_secret(data, sid, root_key_identifier=rk, domain_name=domain, cache=self.cache))
        draws = list(self.log.urandom)
        self.last_draws = list(draws)
        while len(draws) < 3:
            draws.append(b"")
        cek, iv, rnd = (hx(d) for d in draws[:3])
        sidh = hx(sid.encode("utf-8", "surrogatepass"))
        dom = hx(u16(domain)) if domain else "none"
        if self.requests:
            ldom = hx(u16(self.lookups[0])) if self.lookups and self.lookups[0] else "none"
            self.steps.append((f"pbegin {hx(data)} {sidh} {opt(rk.bytes_le if rk else None)} {dom} {self.now_ns} {cek} {iv} {rnd}", self._net_line(ldom)))
            if self.replies:
                self.steps.append((f"pfin {hx(data)} {sidh} {cek} {iv} {rnd} {gen.env_fields(self.replies[0])}", out))
        else:
            self.steps.append((f"pbegin {hx(data)} {sidh} {opt(rk.bytes_le if rk else None)} {dom} {self.now_ns} {cek} {iv} {rnd}", out))
        return out

    def dump(self):
        rows = []
        for rk, by_sd in self.cache._seed_keys.items():
            for sd, by_l0 in by_sd.items():
                for l0, e in by_l0.items():
                    rows.append(f"{hx(rk.bytes_le)}/{hx(sd)}/{l0}@{e.l1},{e.l2},{e.flags},{hx(e.l1_key)},{hx(e.l2_key)}")
        self.steps.append(("dump", ("dump " + " ".join(sorted(rows))).rstrip() if rows else "dump "))

    def line(self):
        return "client " + " ; ".join(s for s, _ in self.steps), " ; ".join((e if e is not None else "?") for _, e in self.steps)


# ---- step budget via sys.monitoring (line events inside dpapi_ng only) ---------------------------------
class StepBudgetExceeded(Exception):
    pass


class StepCounter:
    """Counts LINE events in dpapi_ng code objects; raises StepBudgetExceeded past `budget`
    (so that a non-terminating decoder is reported, not hung)."""
    TOOL = 4

    def __init__(self, budget):
        self.budget, self.n = budget, 0

    def __enter__(self):
        import sys
        mon = sys.monitoring
        self.mon = mon
        try:
            mon.use_tool_id(self.TOOL, "verif-steps")
        except ValueError:
            mon.free_tool_id(self.TOOL)
            mon.use_tool_id(self.TOOL, "verif-steps")

        def on_line(code, line):
            if "dpapi_ng" not in code.co_filename:
                return mon.DISABLE
            self.n += 1
            if self.n > self.budget:
                raise StepBudgetExceeded()
        mon.register_callback(self.TOOL, mon.events.LINE, on_line)
        mon.set_events(self.TOOL, mon.events.LINE)
        return self

    def __exit__(self, *a):
        self.mon.set_events(self.TOOL, 0)
        self.mon.register_callback(self.TOOL, self.mon.events.LINE, None)
        self.mon.free_tool_id(self.TOOL)
        return False


HASHES = ["SHA1", "SHA256", "SHA384", "SHA512"]
SMALL_DH = (4, 4294967291, 2)


def standard_roots(real=False):
    """root keys covering 4 hashes × {DH default group, small DH group (toy only), ECDH_P256, ECDH_P384}"""
    out = []
    i = 0
    for hn in HASHES:
        for sa, sp, plen, publen in (("DH", None, 512, 2048), ("DH", refimpl.ffc_params(*SMALL_DH), 64, 32), ("ECDH_P256", b"", 256, 256), ("ECDH_P384", b"", 384, 384)):
            i += 1
            rid = uuid.UUID(int=(0xd778c271902595a82f6dcb8960b8ad00 << 0) + i)
            out.append(refdc.RootKeyRec(rid, bytes((7 * i + j) & 0xFF for j in range(64)), hn, sa, sp, plen, publen))
    return out


def odd_roots():
    """toy-only root keys whose private key length is not a whole number of octets (the draw is ceil(bits / 8) octets, used as is)"""
    out = []
    for i, (hn, plen) in enumerate((("SHA512", 61), ("SHA256", 63), ("SHA1", 65), ("SHA384", 57))):
        rid = uuid.UUID(int=0xd778c271902595a82f6dcb8960b8ae00 + i)
        out.append(refdc.RootKeyRec(rid, bytes((11 * i + j) & 0xFF for j in range(64)), hn, "DH", refimpl.ffc_params(*SMALL_DH), plen, 32))
    return out
