"""Independent strict DER reader (X.690): rejects non-minimal lengths, indefinite lengths, non-minimal
integers, non-minimal high tag numbers and OID arcs, trailing garbage inside constructed values.
Written from the standard; imports nothing from dpapi_ng."""
from __future__ import annotations


class DerError(Exception):
    pass


def read_tlv(b: bytes, off: int = 0):
    """returns (cls, constructed, number, content, next_offset)"""
    if off >= len(b):
        raise DerError("truncated identifier")
    o = b[off]
    cls, cons, num = o >> 6, bool(o & 0x20), o & 0x1F
    off += 1
    if num == 0x1F:
        num = 0
        first = True
        while True:
            if off >= len(b):
                raise DerError("truncated high tag")
            o = b[off]
            off += 1
            if first and o == 0x80:
                raise DerError("non-minimal high tag number")
            first = False
            num = (num << 7) | (o & 0x7F)
            if not o & 0x80:
                break
        if num < 31:
            raise DerError("high-tag form for a low tag number")
    if off >= len(b):
        raise DerError("truncated length")
    l = b[off]
    off += 1
    if l == 0x80:
        raise DerError("indefinite length")
    if l & 0x80:
        n = l & 0x7F
        if off + n > len(b):
            raise DerError("truncated long length")
        if b[off] == 0:
            raise DerError("non-minimal length (leading zero)")
        l = int.from_bytes(b[off:off + n], "big")
        if l < 128:
            raise DerError("long form for a short length")
        off += n
    if off + l > len(b):
        raise DerError("content truncated")
    return cls, cons, num, b[off:off + l], off + l


def parse(b: bytes):
    """parse exactly one value, nothing left over → tree (cls, cons, num, content|children)"""
    cls, cons, num, content, end = read_tlv(b, 0)
    if end != len(b):
        raise DerError("trailing bytes")
    return _node(cls, cons, num, content)


def _node(cls, cons, num, content):
    if cons:
        kids, off = [], 0
        while off < len(content):
            c, k, n, cc, off = read_tlv(content, off)
            kids.append(_node(c, k, n, cc))
        return (cls, True, num, kids)
    return (cls, False, num, bytes(content))


def integer(content: bytes) -> int:
    if not content:
        raise DerError("empty INTEGER")
    if len(content) > 1 and ((content[0] == 0 and content[1] < 0x80) or (content[0] == 0xFF and content[1] >= 0x80)):
        raise DerError("non-minimal INTEGER")
    return int.from_bytes(content, "big", signed=True)


def oid(content: bytes) -> str:
    if not content:
        raise DerError("empty OID")
    arcs, v, started = [], 0, False
    for i, o in enumerate(content):
        if not started and o == 0x80:
            raise DerError("non-minimal OID arc")
        started = True
        v = (v << 7) | (o & 0x7F)
        if not o & 0x80:
            arcs.append(v)
            v, started = 0, False
    if started:
        raise DerError("truncated OID arc")
    first = arcs[0]
    a = 2 if first >= 80 else first // 40
    return ".".join(str(x) for x in [a, first - 40 * a] + arcs[1:])


def enc_len(n: int) -> bytes:
    if n < 128:
        return bytes([n])
    b = n.to_bytes((n.bit_length() + 7) // 8, "big")
    return bytes([0x80 | len(b)]) + b


def enc(cls, cons, num, content: bytes) -> bytes:
    assert num < 31
    return bytes([(cls << 6) | (0x20 if cons else 0) | num]) + enc_len(len(content)) + content


def enc_int(v: int) -> bytes:
    n = (v + (v < 0)).bit_length() // 8 + 1
    return enc(0, False, 2, v.to_bytes(n, "big", signed=True))


def enc_oid(s: str) -> bytes:
    arcs = [int(x) for x in s.split(".")]
    vals = [40 * arcs[0] + arcs[1]] + arcs[2:]
    out = bytearray()
    for v in vals:
        chunk = [v & 0x7F]
        v >>= 7
        while v:
            chunk.append(0x80 | (v & 0x7F))
            v >>= 7
        out += bytes(reversed(chunk))
    return enc(0, False, 6, bytes(out))


def encode_tree(node) -> bytes:
    """inverse of parse (minimal DER)"""
    cls, cons, num, body = node
    return enc(cls, cons, num, b"".join(encode_tree(k) for k in body) if cons else body)


def to_trailing(blob: bytes) -> bytes:
    """the same DPAPI-NG blob in the layout LAPS uses: the [0] encryptedContent element is taken out of the EncryptedContentInfo
    and its octets follow the ContentInfo (done on the DER tree — nothing of dpapi_ng is involved)"""
    cls, cons, num, content, end = read_tlv(blob, 0)
    ci = _node(cls, cons, num, content)
    ed = ci[3][1][3][0]                      # ContentInfo.content [0] → EnvelopedData
    eci = ed[3][-1]                          # EncryptedContentInfo
    kids = list(eci[3])
    enc_content = b""
    if kids and kids[-1][0] == 2 and kids[-1][2] == 0 and not kids[-1][1]:
        enc_content = kids.pop()[3]
    eci2 = (eci[0], True, eci[2], kids)
    ed2 = (ed[0], True, ed[2], list(ed[3][:-1]) + [eci2])
    ci2 = (ci[0], True, ci[2], [ci[3][0], (ci[3][1][0], True, ci[3][1][2], [ed2])])
    return encode_tree(ci2) + enc_content + blob[end:]
