#!/usr/bin/env python3
"""Kernel extractor: regenerates Lean definitions for arithmetic/boolean kernels from the
Python AST of /repo's *current* source, together with the obligation `Gen.k = Model.k`
that Lean must re-prove on this run.

A kernel is located by (file, function qualname, locator).  Locators:
  ("assign", var)            the value of the (first) assignment `var = <expr>` in the function
  ("assign_n", var, n)       the n-th such assignment
  ("if_test", n)             the test of the n-th `if` statement (source order, nested included)
  ("call_kw", func, kw)      the keyword argument `kw` of the first call to `func` inside the function
  ("mult_zero", n)           the multiplier of the n-th `b"\\x00" * <expr>` expression
  ("slice_upper", var)       the upper bound of the first subscript slice of `var` that has one
  ("slice_upper_n", var, n)  the upper bound of the n-th subscript slice of `var` that has one
  ("slice_lower_n", var, n)  the lower bound of the n-th OPEN-ENDED subscript slice of `var` (`var[<lower>:]`: how far a decoder moves)
  ("slice_from_n", var, n)   the lower bound of the n-th subscript slice of `var` that has one (with or without an upper bound)
  ("return_elt", ...)        not needed so far

The translator accepts a closed subset of Python expressions: integer literals, names,
+ - * // % **, unary minus, `/` only directly under `int(...)` (→ Py.trueDivTrunc),
math.ceil(x / 8) (→ Py.ceilDiv8), len(...) / attribute reads through the substitution table,
comparisons, and/or/not.  Anything else ⇒ the kernel is reported `unsupported` and its
obligation counts as unchecked (the check then falls back to the correspondence run).
"""
from __future__ import annotations
import ast, hashlib, json, os, sys

REPO = os.environ.get("VERIF_REPO", "/repo")
SRC = os.path.join(REPO, "src", "dpapi_ng")
HERE = os.path.dirname(os.path.abspath(__file__))
GEN_DIR = os.path.join(HERE, "..", "lean", "DpapiNg", "Gen")


class Unsupported(Exception):
    pass


def find_function(tree: ast.AST, qualname: str) -> ast.AST:
    parts = qualname.split(".")
    node = tree
    for p in parts:
        for child in ast.iter_child_nodes(node):
            if isinstance(child, (ast.FunctionDef, ast.AsyncFunctionDef, ast.ClassDef)) and child.name == p:
                node = child
                break
        else:
            raise Unsupported(f"cannot find {qualname}")
    return node


def locate(fn: ast.AST, locator) -> ast.AST:
    kind = locator[0]
    if kind in ("assign", "assign_n"):
        var = locator[1]
        n = locator[2] if kind == "assign_n" else 0
        hits = []
        for node in ast.walk(fn):
            if isinstance(node, ast.Assign) and len(node.targets) == 1:
                tgt = node.targets[0]
                if isinstance(tgt, ast.Name) and tgt.id == var:
                    hits.append(node)
            if isinstance(node, ast.AnnAssign) and isinstance(node.target, ast.Name) and node.target.id == var and node.value:
                hits.append(node)
        hits.sort(key=lambda x: (x.lineno, x.col_offset))
        if len(hits) <= n:
            raise Unsupported(f"assignment #{n} to {var} not found")
        return hits[n].value
    if kind == "assign_tuple_elt":
        var, idx = locator[1], locator[2]
        hits = [n for n in ast.walk(fn) if isinstance(n, ast.Assign) and len(n.targets) == 1 and isinstance(n.targets[0], ast.Name)
                and n.targets[0].id == var and isinstance(n.value, ast.Tuple)]
        hits.sort(key=lambda x: (x.lineno, x.col_offset))
        if not hits or len(hits[0].value.elts) <= idx:
            raise Unsupported(f"tuple assignment to {var} not found")
        return hits[0].value.elts[idx]
    if kind == "if_test":
        hits = [n for n in ast.walk(fn) if isinstance(n, (ast.If, ast.While, ast.IfExp))]
        hits.sort(key=lambda x: (x.lineno, x.col_offset))
        n = locator[1]
        if len(hits) <= n:
            raise Unsupported(f"if #{n} not found")
        return hits[n].test
    if kind == "while_test":
        hits = [n for n in ast.walk(fn) if isinstance(n, ast.While)]
        hits.sort(key=lambda x: (x.lineno, x.col_offset))
        if len(hits) <= locator[1]:
            raise Unsupported(f"while #{locator[1]} not found")
        return hits[locator[1]].test
    if kind == "if_containing":
        # the test of the first if/while whose source text contains the given fragment
        frag = locator[1]
        hits = [n for n in ast.walk(fn) if isinstance(n, (ast.If, ast.While))]
        hits.sort(key=lambda x: (x.lineno, x.col_offset))
        for h in hits:
            if frag in ast.unparse(h.test):
                return h.test
        raise Unsupported(f"no if/while test containing {frag!r}")
    if kind == "call_kw":
        func, kw = locator[1], locator[2]
        for node in sorted((n for n in ast.walk(fn) if isinstance(n, ast.Call)), key=lambda x: (x.lineno, x.col_offset)):
            name = ast.unparse(node.func)
            if name == func:
                for k in node.keywords:
                    if k.arg == kw:
                        return k.value
        raise Unsupported(f"call {func}({kw}=...) not found")
    if kind == "mult_zero":
        n = locator[1]
        hits = []
        for node in ast.walk(fn):
            if isinstance(node, ast.BinOp) and isinstance(node.op, ast.Mult):
                for a, b in ((node.left, node.right), (node.right, node.left)):
                    if isinstance(a, ast.Constant) and a.value == b"\x00":
                        hits.append((node.lineno, node.col_offset, b))
        hits.sort(key=lambda x: (x[0], x[1]))
        if len(hits) <= n:
            raise Unsupported(f"zero-padding #{n} not found")
        return hits[n][2]
    if kind == "slice_upper":
        # upper bound of the first subscript slice of the named variable
        var = locator[1]
        for node in sorted((n for n in ast.walk(fn) if isinstance(n, ast.Subscript)), key=lambda x: (x.lineno, x.col_offset)):
            if ast.unparse(node.value) == var and isinstance(node.slice, ast.Slice) and node.slice.upper is not None:
                return node.slice.upper
        raise Unsupported(f"slice of {var} not found")
    if kind == "slice_from_n":
        # the lower bound of the n-th subscript slice of the named variable that has one (whether or not it also has an upper bound)
        var, n = locator[1], locator[2]
        hits = [node.slice.lower for node in sorted((x for x in ast.walk(fn) if isinstance(x, ast.Subscript)), key=lambda x: (x.lineno, x.col_offset))
                if ast.unparse(node.value) == var and isinstance(node.slice, ast.Slice) and node.slice.step is None and node.slice.lower is not None]
        if len(hits) <= n:
            raise Unsupported(f"slice #{n} of {var} not found ({len(hits)} such slices)")
        return hits[n]
    if kind in ("slice_upper_n", "slice_lower_n"):
        # the n-th subscript slice of the named variable that has an upper bound / that is open-ended with a lower bound (source order)
        var, n = locator[1], locator[2]
        hits = []
        for node in sorted((x for x in ast.walk(fn) if isinstance(x, ast.Subscript)), key=lambda x: (x.lineno, x.col_offset)):
            if ast.unparse(node.value) == var and isinstance(node.slice, ast.Slice) and node.slice.step is None:
                if kind == "slice_upper_n" and node.slice.upper is not None:
                    hits.append(node.slice.upper)
                if kind == "slice_lower_n" and node.slice.upper is None and node.slice.lower is not None:
                    hits.append(node.slice.lower)
        if len(hits) <= n:
            raise Unsupported(f"slice #{n} of {var} not found ({len(hits)} such slices)")
        return hits[n]
    raise Unsupported(f"unknown locator {locator}")


def local_constants(fn: ast.AST) -> dict:
    """Names assigned exactly once in the function to an integer-literal expression."""
    counts, vals = {}, {}
    for node in ast.walk(fn):
        if isinstance(node, ast.Assign) and len(node.targets) == 1 and isinstance(node.targets[0], ast.Name):
            name = node.targets[0].id
            counts[name] = counts.get(name, 0) + 1
            vals[name] = node.value
        elif isinstance(node, (ast.AugAssign,)) and isinstance(node.target, ast.Name):
            counts[node.target.id] = counts.get(node.target.id, 0) + 2
    out = {}
    for name, c in counts.items():
        if c == 1:
            try:
                v = ast.literal_eval(vals[name])
            except Exception:
                continue
            if isinstance(v, int) and not isinstance(v, bool):
                out[name] = v
    return out


class Tr:
    """Python expression → Lean term."""

    def __init__(self, subst: dict, consts: dict, typ: str):
        self.subst = subst      # unparse text → Lean variable
        self.consts = consts
        self.typ = typ          # "Nat" or "Int"
        self.used_truediv = False

    def const_value(self, node):
        try:
            src = ast.unparse(node)
            val = eval(compile(ast.Expression(node), "<k>", "eval"), {"__builtins__": {}}, dict(self.consts))
            if isinstance(val, int) and not isinstance(val, bool):
                return val
        except Exception:
            pass
        return None

    def num(self, node) -> str:
        text = ast.unparse(node)
        if text in self.subst:
            return self.subst[text]
        if isinstance(node, ast.Constant):
            if isinstance(node.value, bool) or not isinstance(node.value, int):
                raise Unsupported(f"constant {node.value!r}")
            if node.value < 0:
                if self.typ == "Nat":
                    raise Unsupported("negative literal in a Nat kernel")
                return f"(-{-node.value})"
            return str(node.value)
        if isinstance(node, ast.Name):
            if node.id in self.consts:
                return str(self.consts[node.id])
            raise Unsupported(f"free name {node.id}")
        if isinstance(node, ast.UnaryOp) and isinstance(node.op, ast.USub):
            if self.typ == "Nat":
                raise Unsupported("unary minus in a Nat kernel")
            return f"(-{self.num(node.operand)})"
        if isinstance(node, ast.BinOp):
            op = node.op
            if isinstance(op, (ast.FloorDiv, ast.Mod)):
                d = self.const_value(node.right)
                if d is None or d <= 0:
                    raise Unsupported("// or % by something that is not a positive constant")
                sym = "/" if isinstance(op, ast.FloorDiv) else "%"
                return f"({self.num(node.left)} {sym} {self.num(node.right)})"
            if isinstance(op, ast.Add):
                return f"({self.num(node.left)} + {self.num(node.right)})"
            if isinstance(op, ast.Sub):
                if self.typ == "Nat":
                    raise Unsupported("subtraction in a Nat kernel")
                return f"({self.num(node.left)} - {self.num(node.right)})"
            if isinstance(op, ast.Mult):
                return f"({self.num(node.left)} * {self.num(node.right)})"
            if isinstance(op, ast.Pow):
                e = self.const_value(node.right)
                if e is None or e < 0:
                    raise Unsupported("** with a non-constant exponent")
                return f"({self.num(node.left)} ^ {e})"
            if isinstance(op, ast.LShift):
                e = self.const_value(node.right)
                if e is None or e < 0:
                    raise Unsupported("<< with a non-constant shift")
                return f"({self.num(node.left)} * {2 ** e})"
            raise Unsupported(f"operator {type(op).__name__}")
        if isinstance(node, ast.Call):
            f = ast.unparse(node.func)
            if f == "int" and len(node.args) == 1 and isinstance(node.args[0], ast.BinOp) and isinstance(node.args[0].op, ast.Div):
                if self.typ != "Nat":
                    raise Unsupported("true division in an Int kernel")
                self.used_truediv = True
                a, b = node.args[0].left, node.args[0].right
                return f"(Py.trueDivTrunc {self.num(a)} {self.num(b)})"
            if f == "int" and len(node.args) == 1:
                return self.num(node.args[0])
            if f == "math.ceil" and len(node.args) == 1 and isinstance(node.args[0], ast.BinOp) and isinstance(node.args[0].op, ast.Div):
                a, b = node.args[0].left, node.args[0].right
                d = self.const_value(b)
                if d != 8:
                    raise Unsupported("math.ceil(x / d) with d != 8")
                return f"(Py.ceilDiv8 {self.num(a)})"
            raise Unsupported(f"call {f}")
        if isinstance(node, ast.IfExp):
            return f"(if {self.prop(node.test)} then {self.num(node.body)} else {self.num(node.orelse)})"
        raise Unsupported(f"expression {ast.dump(node)[:60]}")

    def prop(self, node) -> str:
        text = ast.unparse(node)
        if text in self.subst:
            v = self.subst[text]
            return v
        if isinstance(node, ast.BoolOp):
            sym = " ∧ " if isinstance(node.op, ast.And) else " ∨ "
            return "(" + sym.join(self.prop(v) for v in node.values) + ")"
        if isinstance(node, ast.UnaryOp) and isinstance(node.op, ast.Not):
            return f"(¬ {self.prop(node.operand)})"
        if isinstance(node, ast.Compare):
            parts = []
            left = node.left
            for op, right in zip(node.ops, node.comparators):
                sym = {ast.Lt: "<", ast.LtE: "≤", ast.Gt: ">", ast.GtE: "≥", ast.Eq: "=", ast.NotEq: "≠"}.get(type(op))
                if sym is None:
                    raise Unsupported(f"comparison {type(op).__name__}")
                parts.append(f"({self.num(left)} {sym} {self.num(right)})")
                left = right
            return "(" + " ∧ ".join(parts) + ")"
        if isinstance(node, ast.Call) and ast.unparse(node.func) == "all" and len(node.args) == 1 and isinstance(node.args[0], ast.GeneratorExp):
            # all(<pred(idx)> for idx in (a, b, c))
            ge = node.args[0]
            if len(ge.generators) == 1 and isinstance(ge.generators[0].target, ast.Name) and isinstance(ge.generators[0].iter, ast.Tuple) and not ge.generators[0].ifs:
                var = ge.generators[0].target.id
                outs = []
                for elt in ge.generators[0].iter.elts:
                    sub = dict(self.subst)
                    sub[var] = self.num(elt)
                    t2 = Tr(sub, self.consts, self.typ)
                    outs.append(t2.prop(ge.elt))
                return "(" + " ∧ ".join(outs) + ")"
            raise Unsupported("all(...) form")
        # truthiness of a number
        return f"({self.num(node)} ≠ 0)"


# ---------------------------------------------------------------------------------------------
# Kernel table.  `params`: Lean binder list for the generated def.  `model`: the Lean term the
# generated def must equal (or be equivalent to, for `kind: prop`).  `obl_vars`: binders of the
# obligation.  `call`: how the def is applied in the obligation.  `unfold`: model names to unfold.
KERNELS = [
    dict(name="TimeCurrent", props=["C09", "C01"], file="_client.py", func="_get_protection_gke_from_cache",
         loc=("assign", "current_time"), typ="Nat", subst={"time.time_ns()": "ns", "_EPOCH_FILETIME": "116444736000000000"},
         params="(ns : Nat)", obl="(ns : Nat)", call="ns", model="Time.currentTime ns", imports=["Model.Time"],
         unfold=["Time.currentTime", "Time.epochFiletime"]),
    dict(name="TimeL0", props=["C09", "C01"], file="_client.py", func="_get_protection_gke_from_cache",
         loc=("assign", "l0"), typ="Nat", subst={"current_time": "t"},
         params="(t : Nat)", obl="(t : Nat)", call="t", model="Time.l0 t", imports=["Model.Time"],
         unfold=["Time.l0", "Time.base"]),
    dict(name="TimeL1", props=["C09", "C01"], file="_client.py", func="_get_protection_gke_from_cache",
         loc=("assign", "l1"), typ="Nat", subst={"current_time": "t"},
         params="(t : Nat)", obl="(t : Nat)", call="t", model="Time.l1 t", imports=["Model.Time"],
         unfold=["Time.l1", "Time.base"]),
    dict(name="TimeL2", props=["C09", "C01"], file="_client.py", func="_get_protection_gke_from_cache",
         loc=("assign", "l2"), typ="Nat", subst={"current_time": "t"},
         params="(t : Nat)", obl="(t : Nat)", call="t", model="Time.l2 t", imports=["Model.Time"],
         unfold=["Time.l2", "Time.base"]),
    # _asn1._pack_asn1: short/long-form threshold and the high-tag-number threshold
    dict(name="TlvShortForm", props=["C07", "C06"], file="_asn1.py", func="_pack_asn1", kind="prop",
         loc=("if_containing", "length"), typ="Nat", subst={"length": "n"},
         params="(n : Nat)", obl="(n : Nat)", call="n", model="(Asn1.lengthOctets n = [n])", imports=["Model.Asn1", "Proofs.Kernels"],
         unfold=[], tactic="exact (Kernels.shortForm_iff n).symm"),
    # _gkdi.GetKey: NDR64 padding of the security descriptor, on both sides
    dict(name="GetKeyPackPad", props=["C11", "C17"], file="_gkdi.py", func="GetKey.pack", loc=("mult_zero", 1), typ="Int",
         subst={"len(self.target_sd)": "n"}, params="(n : Int)", obl="(n : Nat)", call="(n : Int)", model="Py.negMod n 8",
         imports=["Model.Py"], unfold=["Py.negMod"]),
    dict(name="GetKeyUnpackPad", props=["C11", "C17"], file="_gkdi.py", func="GetKey.unpack", loc=("assign", "padding"), typ="Int",
         subst={"target_sd_len": "n"}, params="(n : Int)", obl="(n : Nat)", call="(n : Int)", model="Py.negMod n 8",
         imports=["Model.Py"], unfold=["Py.negMod"]),
    # _gkdi.compute_l2_key: the guard added by the fix (range, then cover)
    dict(name="L2Range", props=["C02", "C05", "C10"], file="_gkdi.py", func="compute_l2_key", kind="prop",
         loc=("if_containing", "all("), typ="Nat", subst={"request_l1": "r1", "request_l2": "r2", "l1": "a", "l2": "b"},
         params="(r1 r2 a b : Nat)", obl="(r1 r2 a b : Nat)", call="r1 r2 a b", model="(31 < r1 ∨ 31 < r2 ∨ 31 < a ∨ 31 < b)",
         imports=["Model.Chain"], unfold=[]),
    dict(name="L2Cover", props=["C02", "C05", "C10"], file="_gkdi.py", func="compute_l2_key", kind="prop",
         loc=("if_containing", "request_l1 > l1"), typ="Nat", subst={"request_l1": "r1", "request_l2": "r2", "l1": "a", "l2": "b"},
         params="(r1 r2 a b : Nat)", obl="(r1 r2 a b : Nat)", call="r1 r2 a b", model="(a < r1 ∨ (a = r1 ∧ b < r2))",
         imports=["Model.Chain"], unfold=[]),
    dict(name="L2PreDec", props=["C02"], file="_gkdi.py", func="compute_l2_key", kind="prop",
         loc=("if_containing", "l2 != 31 and"), typ="Nat", subst={"request_l1": "r1", "l1": "a", "l2": "b"},
         params="(r1 a b : Nat)", obl="(r1 a b : Nat)", call="r1 a b", model="(b ≠ 31 ∧ a ≠ r1)",
         imports=["Model.Chain"], unfold=[]),
    # the control skeleton of the walk: when the L2 chain restarts from the L1 key, and when each loop runs
    dict(name="L2ReseedInit", props=["C02", "C01"], file="_gkdi.py", func="compute_l2_key", kind="prop",
         loc=("assign", "reseed_l2"), typ="Nat", subst={"request_l1": "r1", "rk.l1": "a", "l2": "b"},
         params="(r1 a b : Nat)", obl="(r1 a b : Nat)", call="r1 a b", model="(b = 31 ∨ a ≠ r1)",
         imports=["Model.Chain"], unfold=[]),
    dict(name="L2Walk1Cond", props=["C02", "C01"], file="_gkdi.py", func="compute_l2_key", kind="prop",
         loc=("while_test", 0), typ="Nat", subst={"request_l1": "r1", "l1": "a"},
         params="(r1 a : Nat)", obl="(r1 a : Nat)", call="r1 a", model="(a ≠ r1)",
         imports=["Model.Chain"], unfold=[]),
    dict(name="L2Walk2Cond", props=["C02", "C01"], file="_gkdi.py", func="compute_l2_key", kind="prop",
         loc=("while_test", 1), typ="Nat", subst={"request_l2": "r2", "l2": "b"},
         params="(r2 b : Nat)", obl="(r2 b : Nat)", call="r2 b", model="(b ≠ r2)",
         imports=["Model.Chain"], unfold=[]),
    # _gkdi.GroupKeyEnvelope.get_kek / new_kek: math.ceil(private_key_length / 8)
    dict(name="CeilPrivLenGet", props=["C03"], file="_gkdi.py", func="GroupKeyEnvelope.get_kek", loc=("call_kw", "compute_kek_from_public_key", "private_key_length"),
         typ="Nat", subst={"self.private_key_length": "n"}, params="(n : Nat)", obl="(n : Nat)", call="n", model="(n + 7) / 8",
         imports=["Model.Py"], unfold=[]),
    dict(name="CeilPrivLenNew", props=["C03", "C19"], file="_gkdi.py", func="GroupKeyEnvelope.new_kek", loc=("assign", "private_key"),
         typ="Nat", subst={"self.private_key_length": "n"}, params="(n : Nat)", obl="(n : Nat)", call="n", model="(n + 7) / 8",
         imports=["Model.Py"], unfold=[], unwrap_call="os.urandom"),
    # _client.KeyCache: the cover test of _get_key and the "later" test of _store_key
    dict(name="CacheCover", props=["C10", "C02"], file="_client.py", func="KeyCache._get_key", kind="prop",
         loc=("if_containing", "seed_key.l1 > l1"), typ="Nat",
         subst={"seed_key": "True", "seed_key.l1": "a", "seed_key.l2": "b", "l1": "r1", "l2": "r2"},
         params="(a b r1 r2 : Nat)", obl="(a b r1 r2 : Nat)", call="a b r1 r2", model="Cache.Pos.le ⟨r1, r2⟩ ⟨a, b⟩",
         imports=["Model.Cache"], unfold=["Cache.Pos.le"], tactic="simp only [true_and]; constructor <;> intro h <;> omega"),
    dict(name="CacheLater", props=["C10"], file="_client.py", func="KeyCache._store_key", kind="prop",
         loc=("if_containing", "existing"), typ="Nat",
         subst={"existing": "hasEx", "key.l1": "k1", "key.l2": "k2", "existing.l1": "a", "existing.l2": "b"},
         params="(hasEx : Prop) (k1 k2 a b : Nat)", obl="(hasEx : Prop) (k1 k2 a b : Nat)", call="hasEx k1 k2 a b",
         model="(¬ hasEx ∨ Cache.Pos.lt ⟨a, b⟩ ⟨k1, k2⟩)", imports=["Model.Cache"], unfold=["Cache.Pos.lt"],
         tactic="simp only []; by_cases h : hasEx <;> simp only [h, not_true_eq_false, not_false_eq_true, false_or, true_or] <;> omega"),
    # _rpc/_bind.py: alignment of the secondary address / version list
    dict(name="BindAckPackPad", props=["C12"], file="_rpc/_bind.py", func="BindAck.pack", loc=("assign", "padding"), typ="Int",
         subst={"sec_addr_len": "n"}, params="(n : Int)", obl="(n : Nat)", call="(n : Int)", model="Py.negMod (2 + n) 4", imports=["Model.Py"], unfold=["Py.negMod"]),
    dict(name="BindAckUnpackPad", props=["C12"], file="_rpc/_bind.py", func="BindAck._unpack", loc=("assign", "padding"), typ="Int",
         subst={"sec_addr_len": "n"}, params="(n : Int)", obl="(n : Nat)", call="(n : Int)", model="Py.negMod (2 + n) 4", imports=["Model.Py"], unfold=["Py.negMod"]),
    dict(name="BindNakPackPad", props=["C12"], file="_rpc/_bind.py", func="BindNak.pack", loc=("assign", "padding"), typ="Int",
         subst={"len(b_versions)": "n"}, params="(n : Int)", obl="(n : Nat)", call="(n : Int)", model="Py.negMod (2 + n) 4", imports=["Model.Py"], unfold=["Py.negMod"]),
    # _epm.py: NDR64 tower padding on all four sides
    dict(name="EptMapPackPad", props=["C12", "C18"], file="_epm.py", func="EptMap.pack", loc=("assign", "tower_padding"), typ="Int",
         subst={"len(b_tower)": "n"}, params="(n : Int)", obl="(n : Nat)", call="(n : Int)", model="Py.negMod (n + 4) 8", imports=["Model.Py"], unfold=["Py.negMod"]),
    dict(name="EptMapUnpackPad", props=["C12", "C18"], file="_epm.py", func="EptMap.unpack", loc=("assign", "padding"), typ="Int",
         subst={"tower_length": "n"}, params="(n : Int)", obl="(n : Nat)", call="(n : Int)", model="Py.negMod (n + 4) 8", imports=["Model.Py"], unfold=["Py.negMod"]),
    dict(name="EptResPackPad", props=["C12", "C18"], file="_epm.py", func="EptMapResult.pack", loc=("assign", "padding"), typ="Int",
         subst={"len(b_t)": "n"}, params="(n : Int)", obl="(n : Nat)", call="(n : Int)", model="Py.negMod (n + 4) 8", imports=["Model.Py"], unfold=["Py.negMod"]),
    dict(name="EptResUnpackPad", props=["C12", "C18"], file="_epm.py", func="EptMapResult.unpack", loc=("assign", "padding"), typ="Int",
         subst={"tower_length": "n"}, params="(n : Int)", obl="(n : Nat)", call="(n : Int)", model="Py.negMod (n + 4) 8", imports=["Model.Py"], unfold=["Py.negMod"]),
    dict(name="EptResTowerGuard", props=["C18", "C12"], file="_epm.py", func="EptMapResult.unpack", kind="prop", loc=("if_containing", "len(view)"), typ="Nat",
         subst={"len(view)": "n"}, params="(n : Nat)", obl="(n : Nat)", call="n", model="(n < 14)", imports=["Model.Py"], unfold=[]),
    # _rpc/_client.py: request framing
    dict(name="ReqVtPad", props=["C13"], file="_rpc/_client.py", func="RpcClient._create_request", loc=("assign", "padding"), typ="Int",
         subst={"len(stub_data)": "n"}, params="(n : Int)", obl="(n : Nat)", call="(n : Int)", model="Py.negMod n 4", imports=["Model.Py"], unfold=["Py.negMod"]),
    dict(name="ReqAuthPad", props=["C13", "C16"], file="_rpc/_client.py", func="RpcClient._create_request", loc=("assign", "pad_length"), typ="Int",
         subst={"len(stub_data)": "n"}, params="(n : Int)", obl="(n : Nat)", call="(n : Int)", model="Py.negMod n 16", imports=["Model.Py"], unfold=["Py.negMod"]),
    dict(name="RespTrailerOffset", props=["C13", "C16"], file="_rpc/_client.py", func="RpcClient._process_response", loc=("assign", "sec_trailer_offset"), typ="Int",
         subst={"pdu_header.frag_len": "f", "pdu_header.auth_len": "a"}, params="(f a : Int)", obl="(f a : Nat)", call="(f : Int) (a : Int)",
         model="((f : Int) - ((a : Int) + 8))", model_is_nat=False, imports=["Model.Py"], unfold=[]),
    dict(name="VtGuard", props=["C12"], file="_rpc/_verification.py", func="VerificationTrailer.unpack", kind="prop", loc=("if_containing", "len(view)"), typ="Nat",
         subst={"len(view)": "n"}, params="(n : Nat)", obl="(n : Nat)", call="n", model="(n < 4)", imports=["Model.Py"], unfold=[]),
    # how far the bind-side decoders move through the view: the fixed part of a context element (24) and each transfer syntax (20), the fixed
    # part of a bind body (12) and each context (24 + 20 per transfer syntax), the result count word (4) and each result (24), the bind_nak
    # version count (3) and each version pair (2)
    dict(name="CtxAbstractAt", props=["C12", "C15"], file="_rpc/_bind.py", func="ContextElement.unpack", loc=('slice_lower_n', 'view', 0), typ="Nat",
         subst={}, params="", obl="", call="", model="4", imports=["Model.Py"], unfold=[]),
    dict(name="CtxSkipFixed", props=["C12", "C15"], file="_rpc/_bind.py", func="ContextElement.unpack", loc=('slice_lower_n', 'view', 1), typ="Nat",
         subst={}, params="", obl="", call="", model="24", imports=["Model.Py"], unfold=[]),
    dict(name="CtxSkipSyntax", props=["C12", "C15"], file="_rpc/_bind.py", func="ContextElement.unpack", loc=('slice_lower_n', 'view', 2), typ="Nat",
         subst={}, params="", obl="", call="", model="20", imports=["Model.Py"], unfold=[]),
    dict(name="BindSkipFixed", props=["C12", "C15"], file="_rpc/_bind.py", func="Bind._unpack", loc=('slice_lower_n', 'view', 0), typ="Nat",
         subst={}, params="", obl="", call="", model="12", imports=["Model.Py"], unfold=[]),
    dict(name="BindAdvance", props=["C12", "C15"], file="_rpc/_bind.py", func="Bind._unpack", loc=('slice_lower_n', 'view', 1), typ="Nat",
         subst={'len(c.transfer_syntaxes)': 'n'}, params="(n : Nat)", obl="(n : Nat)", call="n", model="24 + n * 20", imports=["Model.Py"], unfold=[]),
    dict(name="AckSkipCount", props=["C12", "C15"], file="_rpc/_bind.py", func="BindAck._unpack", loc=('slice_lower_n', 'view', 1), typ="Nat",
         subst={}, params="", obl="", call="", model="4", imports=["Model.Py"], unfold=[]),
    dict(name="AckAdvance", props=["C12", "C15"], file="_rpc/_bind.py", func="BindAck._unpack", loc=('slice_lower_n', 'view', 2), typ="Nat",
         subst={}, params="", obl="", call="", model="24", imports=["Model.Py"], unfold=[]),
    dict(name="NakSkipFixed", props=["C12", "C15"], file="_rpc/_bind.py", func="BindNak._unpack", loc=('slice_lower_n', 'view', 0), typ="Nat",
         subst={}, params="", obl="", call="", model="3", imports=["Model.Py"], unfold=[]),
    dict(name="NakAdvance", props=["C12", "C15"], file="_rpc/_bind.py", func="BindNak._unpack", loc=('slice_lower_n', 'view', 1), typ="Nat",
         subst={}, params="", obl="", call="", model="2", imports=["Model.Py"], unfold=[]),
    # where `Floor.unpack` reads (lhs up to lhs_len + 2, the rhs length word, the rhs) and how far the tower decoders of `EptMap.unpack` and
    # `EptMapResult.unpack` move (header words, 14 octets of tower header, each floor = lhs + rhs + 5, the referent ids 8 per tower)
    dict(name="FloorLhsEnd", props=["C12", "C18"], file="_epm.py", func="Floor.unpack", loc=('slice_upper_n', 'view', 1), typ="Nat",
         subst={'lhs_len': 'n'}, params="(n : Nat)", obl="(n : Nat)", call="n", model="n + 2", imports=["Model.Py"], unfold=[]),
    dict(name="FloorOffset", props=["C12", "C18"], file="_epm.py", func="Floor.unpack", loc=('assign', 'offset'), typ="Nat",
         subst={'lhs_len': 'n'}, params="(n : Nat)", obl="(n : Nat)", call="n", model="n + 2", imports=["Model.Py"], unfold=[]),
    dict(name="FloorRhsLenEnd", props=["C12", "C18"], file="_epm.py", func="Floor.unpack", loc=('slice_upper_n', 'view', 2), typ="Nat",
         subst={'offset': 'n'}, params="(n : Nat)", obl="(n : Nat)", call="n", model="n + 2", imports=["Model.Py"], unfold=[]),
    dict(name="FloorRhsEnd", props=["C12", "C18"], file="_epm.py", func="Floor.unpack", loc=('slice_upper_n', 'view', 3), typ="Nat",
         subst={'offset': 'n', 'rhs_len': 'm'}, params="(n m : Nat)", obl="(n m : Nat)", call="n m", model="n + m + 2", imports=["Model.Py"], unfold=[]),
    dict(name="EptMapSkipHeader", props=["C12", "C18"], file="_epm.py", func="EptMap.unpack", loc=('slice_lower_n', 'view', 0), typ="Nat",
         subst={}, params="", obl="", call="", model="32", imports=["Model.Py"], unfold=[]),
    dict(name="EptMapSkipTowerHeader", props=["C12", "C18"], file="_epm.py", func="EptMap.unpack", loc=('slice_lower_n', 'view', 1), typ="Nat",
         subst={}, params="", obl="", call="", model="14", imports=["Model.Py"], unfold=[]),
    dict(name="EptMapFloorAdvance", props=["C12", "C18"], file="_epm.py", func="EptMap.unpack", loc=('slice_lower_n', 'view', 2), typ="Nat",
         subst={'len(floor.lhs)': 'n', 'len(floor.rhs)': 'm'}, params="(n m : Nat)", obl="(n m : Nat)", call="n m", model="n + m + 5", imports=["Model.Py"], unfold=[]),
    dict(name="EptResReferents", props=["C12", "C18"], file="_epm.py", func="EptMapResult.unpack", loc=('assign', 'tower_data_offset'), typ="Nat",
         subst={'tower_count': 'n'}, params="(n : Nat)", obl="(n : Nat)", call="n", model="8 * n", imports=["Model.Py"], unfold=[]),
    dict(name="EptResSkipHeader", props=["C12", "C18"], file="_epm.py", func="EptMapResult.unpack", loc=('slice_lower_n', 'view', 1), typ="Nat",
         subst={'tower_data_offset': 'n'}, params="(n : Nat)", obl="(n : Nat)", call="n", model="48 + n", imports=["Model.Py"], unfold=[]),
    dict(name="EptResSkipTowerHeader", props=["C12", "C18"], file="_epm.py", func="EptMapResult.unpack", loc=('slice_lower_n', 'view', 2), typ="Nat",
         subst={}, params="", obl="", call="", model="14", imports=["Model.Py"], unfold=[]),
    dict(name="EptResFloorAdvance", props=["C12", "C18"], file="_epm.py", func="EptMapResult.unpack", loc=('slice_lower_n', 'view', 3), typ="Nat",
         subst={'len(floor.lhs)': 'n', 'len(floor.rhs)': 'm'}, params="(n m : Nat)", obl="(n m : Nat)", call="n m", model="n + m + 5", imports=["Model.Py"], unfold=[]),
    # `PDU.unpack`: the body is [16, frag_len) of the data, the security trailer its last auth_len + 8 octets, the body proper what precedes them
    dict(name="PduBodyStart", props=["C12", "C14", "C16"], file="_rpc/_pdu.py", func="PDU.unpack", loc=("slice_from_n", "view", 0), typ="Nat",
         subst={}, params="", obl="", call="", model="16", imports=["Model.Py"], unfold=[]),
    dict(name="PduBodyEnd", props=["C12", "C14", "C16"], file="_rpc/_pdu.py", func="PDU.unpack", loc=("slice_upper_n", "view", 0), typ="Nat",
         subst={"header.frag_len": "n"}, params="(n : Nat)", obl="(n : Nat)", call="n", model="n", imports=["Model.Py"], unfold=[]),
    dict(name="PduTrailerFrom", props=["C12", "C14", "C16"], file="_rpc/_pdu.py", func="PDU.unpack", loc=("slice_from_n", "view", 1), typ="Int",
         subst={"header.auth_len": "a"}, params="(a : Int)", obl="(a : Nat)", call="(a : Int)", model="(-((a : Int) + 8))", model_is_nat=False, imports=["Model.Py"], unfold=[]),
    dict(name="PduBodyTo", props=["C12", "C14", "C16"], file="_rpc/_pdu.py", func="PDU.unpack", loc=("slice_upper_n", "view", 1), typ="Int",
         subst={"header.auth_len": "a"}, params="(a : Int)", obl="(a : Nat)", call="(a : Int)", model="(-((a : Int) + 8))", model_is_nat=False, imports=["Model.Py"], unfold=[]),
    # how far `VerificationTrailer.unpack` and `Command.unpack` move: past the 8-octet signature, past each command (4 + its value), the value's end
    dict(name="VtSkipSignature", props=["C12"], file="_rpc/_verification.py", func="VerificationTrailer.unpack", loc=("slice_lower_n", "view", 0), typ="Nat",
         subst={}, params="", obl="", call="", model="8", imports=["Model.Py"], unfold=[]),
    dict(name="VtAdvance", props=["C12"], file="_rpc/_verification.py", func="VerificationTrailer.unpack", loc=("slice_lower_n", "view", 1), typ="Nat",
         subst={"len(cmd.value)": "n"}, params="(n : Nat)", obl="(n : Nat)", call="n", model="4 + n", imports=["Model.Py"], unfold=[]),
    dict(name="CmdValueEnd", props=["C12"], file="_rpc/_verification.py", func="Command.unpack", loc=("slice_upper_n", "view", 2), typ="Nat",
         subst={"command_length": "n"}, params="(n : Nat)", obl="(n : Nat)", call="n", model="4 + n", imports=["Model.Py"], unfold=[]),
    dict(name="ReqEncEnd", props=["C13", "C16"], file="_rpc/_client.py", func="RpcClient._create_request", loc=("assign_tuple_elt", "encrypt_offsets", 1), typ="Nat",
         subst={"len(stub_data)": "n"}, params="(n : Nat)", obl="(n : Nat)", call="n", model="24 + n", imports=["Model.Py"], unfold=[]),
    dict(name="ReqEncStart", props=["C13", "C16"], file="_rpc/_client.py", func="RpcClient._create_request", loc=("assign_tuple_elt", "encrypt_offsets", 0), typ="Nat",
         subst={}, params="(n : Nat)", obl="(n : Nat)", call="n", model="24", imports=["Model.Py"], unfold=[]),
    dict(name="TlvLowTag", props=["C07", "C06"], file="_asn1.py", func="_pack_asn1", kind="prop",
         loc=("if_containing", "tag_number"), typ="Nat", subst={"tag_number": "n"},
         params="(n : Nat)", obl="(n : Nat)", call="n", model="(n < 31)", imports=["Model.Asn1"],
         unfold=[]),
]


# ---------------------------------------------------------------------------------------------
# Named constants: labels, magic numbers, OIDs, interface ids.  The right-hand side of the assignment is
# evaluated by a tiny evaluator (literals, str.encode, uuid.UUID, SyntaxId(...), dataclasses.field(default=…))
# and written as a Lean literal; the obligation is `Gen.c = Model.c` by evaluation in the kernel.
def C(name, props, file, scope, var, conv, model, imports):
    return dict(name=name, props=props, file=file, func=scope, kind="const", loc=("const", var), conv=conv, model=model, imports=imports,
                typ={"bytes": "Bytes", "int": "Nat", "oid": "List Nat", "syntax": "Rpc.SyntaxId", "member": "String"}[conv])


KERNELS += [
    C("ConstKdsServiceLabel", ["C02", "C03", "C11"], "_gkdi.py", "", "KDS_SERVICE_LABEL", "bytes", "Gkdi.kdsServiceLabel", ["Model.Gkdi"]),
    C("ConstKdsPublicKeyLabel", ["C03"], "_gkdi.py", "compute_kek", "kek_context", "bytes", "Gkdi.kdsPublicKeyLabel", ["Model.Gkdi"]),
    C("ConstMagicDhpm", ["C11"], "_gkdi.py", "FFCDHParameters", "magic", "bytes", "Gkdi.dhpm", ["Model.Gkdi"]),
    C("ConstMagicDhpb", ["C11", "C03"], "_gkdi.py", "FFCDHKey", "magic", "bytes", "Gkdi.dhpb", ["Model.Gkdi"]),
    C("ConstMagicEck", ["C11"], "_gkdi.py", "ECDHKey", "magic", "bytes", "(Gkdi.curveMagic .p256).take 3", ["Model.Gkdi"]),
    C("ConstMagicEnvelope", ["C11"], "_gkdi.py", "GroupKeyEnvelope", "magic", "bytes", "Gkdi.kdsk", ["Model.Gkdi"]),
    C("ConstMagicKeyId", ["C11", "C06"], "_blob.py", "KeyIdentifier", "magic", "bytes", "Gkdi.kdsk", ["Model.Gkdi"]),
    C("ConstEpochFiletime", ["C09"], "_client.py", "", "_EPOCH_FILETIME", "int", "Time.epochFiletime", ["Model.Time"]),
    C("ConstIntervalBase", ["C09"], "_client.py", "_get_protection_gke_from_cache", "base", "int", "Time.base", ["Model.Time"]),
    C("ConstOidSid", ["C06"], "_blob.py", "ProtectionDescriptorType", "SID", "oid", "Blob.oidSidProtector", ["Model.Blob"]),
    C("ConstOidMicrosoftSoftware", ["C06"], "_blob.py", "DPAPINGBlob", "MICROSOFT_SOFTWARE_OID", "oid", "Blob.oidMicrosoftSoftware", ["Model.Blob"]),
    C("ConstOidEnvelopedData", ["C06"], "_pkcs7.py", "EnvelopedData", "CONTENT_TYPE_ENVELOPED_DATA_OID", "oid", "Blob.oidEnvelopedData", ["Model.Blob"]),
    C("ConstOidData", ["C06"], "_pkcs7.py", "EnvelopedData", "CONTENT_TYPE_DATA_OID", "oid", "Blob.oidData", ["Model.Blob"]),
    C("ConstOidAes256Wrap", ["C06", "C04"], "_crypto.py", "AlgorithmOID", "AES256_WRAP", "oid", "Blob.oidAes256Wrap", ["Model.Blob"]),
    C("ConstOidAes256Gcm", ["C06", "C04"], "_crypto.py", "AlgorithmOID", "AES256_GCM", "oid", "Blob.oidAes256Gcm", ["Model.Blob"]),
    C("ConstIsdKey", ["C17"], "_gkdi.py", "", "ISD_KEY", "syntax", "Online.isdKey", ["Model.Online"]),
    C("ConstEpm", ["C17", "C18"], "_epm.py", "", "EPM", "syntax", "Online.epm", ["Model.Online"]),
    C("ConstNdr", ["C17"], "_rpc/_client.py", "", "NDR", "syntax", "Online.ndr", ["Model.Online"]),
    C("ConstNdr64", ["C17"], "_rpc/_client.py", "", "NDR64", "syntax", "Online.ndr64", ["Model.Online"]),
]


KERNELS += [
    dict(name="SidAuthorityRange", props=["C08", "C05"], file="_security_descriptor.py", func="sid_to_bytes", kind="prop",
         loc=("if_containing", "authority >="), typ="Nat", subst={"authority": "a"},
         params="(a : Nat)", obl="(a : Nat)", call="a", model="(a ≥ 2 ^ 48)", imports=["Model.SecDesc"], unfold=[]),
    dict(name="SidSubAuthorityRange", props=["C08", "C05"], file="_security_descriptor.py", func="sid_to_bytes", kind="prop",
         loc=("if_containing", "sub_auth >="), typ="Nat", subst={"sub_auth": "a"},
         params="(a : Nat)", obl="(a : Nat)", call="a", model="(a ≥ 2 ^ 32)", imports=["Model.SecDesc"], unfold=[]),
    dict(name="ConstSidPattern", props=["C08", "C05"], file="_security_descriptor.py", func="sid_to_bytes", kind="const", loc=("const", "sid_pattern"),
         conv="str", typ="String", model="SecDesc.sidPatternSource", imports=["Model.SecDesc"]),
]


def const_value(node):
    """evaluate the small expression language constants are written in"""
    import uuid as _uuid
    if isinstance(node, ast.Constant) and isinstance(node.value, (int, str, bytes)) and not isinstance(node.value, bool):
        return node.value
    if isinstance(node, ast.Attribute) and isinstance(node.value, ast.Name):
        return ("member", ast.unparse(node))
    if isinstance(node, ast.Call):
        f = ast.unparse(node.func)
        if isinstance(node.func, ast.Attribute) and node.func.attr == "encode" and len(node.args) == 1 and not node.keywords:
            return const_value(node.func.value).encode(const_value(node.args[0]))
        if f == "re.compile" and len(node.args) == 1 and not node.keywords:
            return const_value(node.args[0])
        if f == "uuid.UUID" and len(node.args) == 1 and not node.keywords:
            return _uuid.UUID(const_value(node.args[0]))
        if f == "SyntaxId" and len(node.args) == 3 and not node.keywords:
            return ("syntax",) + tuple(const_value(a) for a in node.args)
        if f == "dataclasses.field":
            for kw in node.keywords:
                if kw.arg == "default":
                    return const_value(kw.value)
    raise Unsupported(f"constant expression {ast.unparse(node)[:60]}")


def find_const(tree, scope, var):
    body = tree.body if not scope else find_function(tree, scope).body
    hits = []
    for st in body:
        if isinstance(st, ast.Assign) and any(isinstance(t, ast.Name) and t.id == var for t in st.targets):
            hits.append(st.value)
        if isinstance(st, ast.AnnAssign) and isinstance(st.target, ast.Name) and st.target.id == var and st.value is not None:
            hits.append(st.value)
    if len(hits) != 1:
        raise Unsupported(f"{len(hits)} assignments to {var} in {scope or 'module'}")
    return hits[0]


def lean_const(v, conv):
    import uuid as _uuid
    if conv == "bytes" and isinstance(v, bytes):
        return "[" + ", ".join(str(b) for b in v) + "]"
    if conv == "int" and isinstance(v, int) and v >= 0:
        return str(v)
    if conv == "str" and isinstance(v, str) and all(32 <= ord(ch) < 127 for ch in v):
        return '"' + v.replace("\\", "\\\\").replace('"', '\\"') + '"' 
    if conv == "member" and isinstance(v, tuple) and v[0] == "member" and all(32 <= ord(ch) < 127 and ch not in '"\\' for ch in v[1]):
        return '"' + v[1] + '"'
    if conv == "oid" and isinstance(v, str) and all(p.isdigit() for p in v.split(".")):
        return "[" + ", ".join(str(int(p)) for p in v.split(".")) + "]"
    if conv == "syntax" and isinstance(v, tuple) and v[0] == "syntax" and isinstance(v[1], _uuid.UUID):
        return "⟨[" + ", ".join(str(b) for b in v[1].bytes_le) + f"], {int(v[2])}, {int(v[3])}⟩"
    raise Unsupported(f"constant {v!r} is not a {conv}")


def generate_const(k: dict) -> dict:
    path = os.path.join(SRC, k["file"])
    out = {"name": k["name"], "file": k["file"], "func": k["func"] or "<module>"}
    try:
        tree = ast.parse(open(path).read())
        node = find_const(tree, k["func"], k["loc"][1])
        out["python"] = f"{k['loc'][1]} = {ast.unparse(node)}"
        out["line"] = getattr(node, "lineno", None)
        body = lean_const(const_value(node), k["conv"])
    except (Unsupported, OSError, SyntaxError, ValueError, LookupError) as e:
        out["status"] = "unsupported"
        out["reason"] = f"{type(e).__name__}: {e}"
        p = os.path.join(GEN_DIR, k["name"] + ".lean")
        if os.path.exists(p):
            os.remove(p)
        return out
    name = k["name"]
    imports = "\n".join(f"import DpapiNg.{m}" for m in k["imports"])
    lean = f"""-- GENERATED by harness/extract.py from src/dpapi_ng/{k['file']}:{out['line']} ({out['func']}) — do not edit.
-- python: {out['python']}
{imports}
namespace DpapiNg.Gen
open DpapiNg

def {name} : {k['typ']} := {body}

theorem {name}_eq : {name} = {k['model']} := by
  first | rfl | decide | decide +kernel

end DpapiNg.Gen
"""
    os.makedirs(GEN_DIR, exist_ok=True)
    p = os.path.join(GEN_DIR, name + ".lean")
    old = open(p).read() if os.path.exists(p) else None
    if old != lean:
        with open(p, "w") as f:
            f.write(lean)
    out.update(status="generated", lean_path=p, lean_def=body, module=f"DpapiNg.Gen.{name}", sha=hashlib.sha256(lean.encode()).hexdigest()[:16])
    return out


# ---------------------------------------------------------------------------------------------
# Byte layouts: a `pack` method of the form `return b"".join([...])` is translated item by item into a
# `List Layout.Item`; `Proofs/Layout.lean` proves the hand-written pack model is the interpretation of that list.
def L(name, props, file, cls, model):
    return dict(name=name, props=props, file=file, func=cls + ".pack", kind="layout", loc=("layout",), model=model,
                imports=["Proofs.Layout"], typ="List Layout.Item")


KERNELS += [
    L("LayoutEnvelope", ["C11"], "_gkdi.py", "GroupKeyEnvelope", "Gkdi.envelopeLayout"),
    L("LayoutKeyId", ["C11", "C06"], "_blob.py", "KeyIdentifier", "Gkdi.keyIdLayout"),
    L("LayoutPduHeader", ["C12", "C13"], "_rpc/_pdu.py", "PDUHeader", "Rpc.headerLayout"),
    L("LayoutDataRep", ["C12", "C13"], "_rpc/_pdu.py", "DataRep", "Rpc.dataRepLayout"),
    L("LayoutSecTrailer", ["C12", "C13"], "_rpc/_pdu.py", "SecTrailer", "Rpc.secTrailerLayout"),
    L("LayoutRequest", ["C12", "C13"], "_rpc/_request.py", "Request", "Rpc.requestLayout"),
    L("LayoutResponse", ["C12", "C16"], "_rpc/_request.py", "Response", "Rpc.responseLayout"),
    L("LayoutFault", ["C12"], "_rpc/_pdu.py", "Fault", "Rpc.faultLayout"),
    L("LayoutKdfParams", ["C11"], "_gkdi.py", "KDFParameters", "Gkdi.kdfParamsLayout"),
    L("LayoutFfcKey", ["C11", "C03"], "_gkdi.py", "FFCDHKey", "Gkdi.ffcKeyLayout"),
    L("LayoutSyntaxId", ["C12"], "_rpc/_bind.py", "SyntaxId", "Rpc.syntaxLayout"),
    L("LayoutContextResult", ["C12", "C15"], "_rpc/_bind.py", "ContextResult", "Rpc.resultLayout"),
    # presentation contexts and the bind / alter-context bodies (AlterContext inherits Bind.pack: resolved through the base class)
    L("LayoutContextElement", ["C12", "C15"], "_rpc/_bind.py", "ContextElement", "Rpc.contextLayout"),
    L("LayoutBind", ["C12", "C15"], "_rpc/_bind.py", "Bind", "Rpc.bindLayout"),
    L("LayoutAlterContext", ["C12", "C15"], "_rpc/_bind.py", "AlterContext", "Rpc.bindLayout"),
    L("LayoutBindAck", ["C12", "C15"], "_rpc/_bind.py", "BindAck", "Rpc.bindAckLayout"),
    L("LayoutAlterContextResponse", ["C12", "C15"], "_rpc/_bind.py", "AlterContextResponse", "Rpc.bindAckLayout"),
    # the verification trailer, its generic command and the value of the three known commands
    L("LayoutCommand", ["C12", "C13"], "_rpc/_verification.py", "Command", "Rpc.commandLayout"),
    L("LayoutVerificationTrailer", ["C12", "C13"], "_rpc/_verification.py", "VerificationTrailer", "Rpc.vtLayout"),
    dict(L("LayoutBitmaskValue", ["C12", "C13"], "_rpc/_verification.py", "CommandBitmask", "Rpc.bitmaskValueLayout"), value_of="Command"),
    dict(L("LayoutPContextValue", ["C12", "C13"], "_rpc/_verification.py", "CommandPContext", "Rpc.pcontextValueLayout"), value_of="Command"),
    dict(L("LayoutHeader2Value", ["C12", "C13"], "_rpc/_verification.py", "CommandHeader2", "Rpc.header2ValueLayout"), value_of="Command"),
]


def find_method(tree, qualname):
    """`Cls.method`, looked up through single inheritance inside the module when `Cls` does not define it"""
    cls_name, meth = qualname.split(".")
    seen = set()
    while True:
        cls = find_function(tree, cls_name)
        if not isinstance(cls, ast.ClassDef) or cls_name in seen:
            raise Unsupported(f"cannot find {qualname}")
        seen.add(cls_name)
        for child in cls.body:
            if isinstance(child, (ast.FunctionDef, ast.AsyncFunctionDef)) and child.name == meth:
                return child, cls
        if len(cls.bases) != 1 or not isinstance(cls.bases[0], ast.Name):
            raise Unsupported(f"{qualname}: not defined and base classes are {[ast.unparse(b) for b in cls.bases]}")
        cls_name = cls.bases[0].id


def list_fields(cls):
    """names of the dataclass fields annotated `t.List[...]`"""
    return {st.target.id for st in cls.body if isinstance(st, ast.AnnAssign) and isinstance(st.target, ast.Name)
            and ast.unparse(st.annotation).startswith(("t.List[", "typing.List[", "List[", "list["))}


def value_join(fn, wrapper):
    """a known verification command: `[value = <bytes expr>]` then `return <wrapper>(self.command, self.flags, <value>).pack()`;
    returns a synthetic function `return b"".join([...])` of the value's pieces"""
    body = [st for st in fn.body if not (isinstance(st, ast.Expr) and isinstance(st.value, ast.Constant))]
    ret = body[-1]
    if not (isinstance(ret, ast.Return) and isinstance(ret.value, ast.Call) and isinstance(ret.value.func, ast.Attribute) and ret.value.func.attr == "pack"
            and not ret.value.args and not ret.value.keywords and isinstance(ret.value.func.value, ast.Call)):
        raise Unsupported("pack does not end in `return <wrapper>(...).pack()`")
    inner = ret.value.func.value
    if not (ast.unparse(inner.func) == wrapper and not inner.keywords and len(inner.args) == 3
            and ast.unparse(inner.args[0]) == "self.command" and ast.unparse(inner.args[1]) == "self.flags"):
        raise Unsupported(f"wrapped as {ast.unparse(inner)[:60]}")
    val = inner.args[2]
    if len(body) == 2:
        st = body[0]
        if not (isinstance(st, ast.Assign) and len(st.targets) == 1 and isinstance(st.targets[0], ast.Name) and isinstance(val, ast.Name)
                and st.targets[0].id == val.id):
            raise Unsupported(f"statement before the return: {ast.unparse(st)[:60]}")
        val = st.value
    elif len(body) != 1:
        raise Unsupported(f"{len(body)} statements")

    def pieces(e):
        if isinstance(e, ast.BinOp) and isinstance(e.op, ast.Add):
            return pieces(e.left) + pieces(e.right)
        return [e]
    if isinstance(val, ast.Call) and ast.unparse(val.func) == "b''.join" and len(val.args) == 1 and isinstance(val.args[0], ast.List) and not val.keywords:
        elts = val.args[0].elts
    else:
        elts = pieces(val)
    join = ast.Call(func=ast.Attribute(value=ast.Constant(value=b""), attr="join", ctx=ast.Load()), args=[ast.List(elts=list(elts), ctx=ast.Load())], keywords=[])
    synthetic = ast.FunctionDef(name=fn.name, args=fn.args, body=[ast.Return(value=join)], decorator_list=[], lineno=fn.lineno)
    return ast.fix_missing_locations(synthetic)


def layout_items(fn, lists=frozenset()):
    """[Lean item, ...] for `return b"".join([...])`; locals of the form `(self.x + "\0").encode("utf-16-le")` are named utf16z:x"""
    body = [st for st in fn.body if not (isinstance(st, ast.Expr) and isinstance(st.value, ast.Constant))]
    locs = {}
    lens = {}      # integer local -> the bytes reference whose length it is (`n = len(x)`)
    pads = {}      # integer local -> (k, bytes reference, m) for `p = -(k + n) % m`
    ints = {}      # integer local -> the name of the assembled integer
    pre = list(body[:-1])
    i = 0
    merged = []
    while i < len(pre):
        st = pre[i]
        # `x = b""` / `if self.f:` / `    x = self.f.encode("utf-8") + b"\x00"`  — a NUL-terminated string that is empty when the field is
        if i + 1 < len(pre) and isinstance(st, ast.Assign) and len(st.targets) == 1 and isinstance(st.targets[0], ast.Name) \
                and isinstance(st.value, ast.Constant) and st.value.value == b"" and isinstance(pre[i + 1], ast.If) and not pre[i + 1].orelse \
                and len(pre[i + 1].body) == 1 and ast.unparse(pre[i + 1].test).startswith("self.") and ast.unparse(pre[i + 1].test).count(".") == 1:
            f = ast.unparse(pre[i + 1].test)[5:]
            if ast.unparse(pre[i + 1].body[0]) == f"{st.targets[0].id} = self.{f}.encode('utf-8') + b'\\x00'":
                locs[st.targets[0].id] = "cstr:" + f
                i += 2
                continue
        merged.append(st)
        i += 1
    for st in merged:
        ok = False
        if isinstance(st, ast.Assign) and len(st.targets) == 1 and isinstance(st.targets[0], ast.Name):
            v = st.value
            tname = st.targets[0].id
            if isinstance(v, ast.Call) and ast.unparse(v.func) == "len" and len(v.args) == 1 and not v.keywords and isinstance(v.args[0], ast.Name) \
                    and v.args[0].id in locs:
                lens[tname] = locs[v.args[0].id]
                ok = True
            if isinstance(v, ast.BinOp) and isinstance(v.op, ast.Mod) and isinstance(v.right, ast.Constant) and isinstance(v.right.value, int) \
                    and v.right.value > 0 and isinstance(v.left, ast.UnaryOp) and isinstance(v.left.op, ast.USub) and isinstance(v.left.operand, ast.BinOp) \
                    and isinstance(v.left.operand.op, ast.Add) and isinstance(v.left.operand.left, ast.Constant) and isinstance(v.left.operand.left.value, int) \
                    and v.left.operand.left.value >= 0 and isinstance(v.left.operand.right, ast.Name) and v.left.operand.right.id in lens:
                pads[tname] = (v.left.operand.left.value, lens[v.left.operand.right.id], v.right.value)
                ok = True
            # `n = self.a << k | self.b`: an integer assembled from two fields
            if isinstance(v, ast.BinOp) and isinstance(v.op, ast.BitOr) and isinstance(v.left, ast.BinOp) and isinstance(v.left.op, ast.LShift) \
                    and isinstance(v.left.right, ast.Constant) and isinstance(v.left.right.value, int) and 0 <= v.left.right.value < 64 \
                    and all(ast.unparse(x).startswith("self.") and ast.unparse(x).count(".") == 1 for x in (v.left.left, v.right)):
                ints[tname] = f"{ast.unparse(v.left.left)[5:]}<<{v.left.right.value}|{ast.unparse(v.right)[5:]}"
                ok = True
            if isinstance(v, ast.Call) and ast.unparse(v.func) == "b''.join" and len(v.args) == 1 and isinstance(v.args[0], (ast.ListComp, ast.GeneratorExp)):
                locs[tname] = None      # resolved by ref() below
                locs[tname] = ("defer", v)
                ok = True
            if (isinstance(v, ast.Call) and isinstance(v.func, ast.Attribute) and v.func.attr == "encode" and len(v.args) == 1
                    and isinstance(v.args[0], ast.Constant) and v.args[0].value == "utf-16-le" and isinstance(v.func.value, ast.BinOp)
                    and isinstance(v.func.value.op, ast.Add) and ast.unparse(v.func.value.left).startswith("self.")
                    and isinstance(v.func.value.right, ast.Constant) and v.func.value.right.value == "\0"):
                locs[st.targets[0].id] = "utf16z:" + ast.unparse(v.func.value.left)[5:]
                ok = True
            kws = {k.arg: k.value for k in v.keywords} if isinstance(v, ast.Call) else {}
            if (isinstance(v, ast.Call) and isinstance(v.func, ast.Attribute) and v.func.attr == "to_bytes" and len(v.args) == 1 and set(kws) == {"byteorder"}
                    and isinstance(kws["byteorder"], ast.Constant) and kws["byteorder"].value == "big"
                    and ast.unparse(v.func.value).startswith("self.") and ast.unparse(v.func.value).count(".") == 1
                    and ast.unparse(v.args[0]).startswith("self.") and ast.unparse(v.args[0]).count(".") == 1):
                locs[st.targets[0].id] = "be:" + ast.unparse(v.func.value)[5:] + ":" + ast.unparse(v.args[0])[5:]
                ok = True
        if not ok:
            raise Unsupported(f"statement before the join: {ast.unparse(st)[:60]}")
    ret = body[-1]
    if not (isinstance(ret, ast.Return) and isinstance(ret.value, ast.Call) and ast.unparse(ret.value.func) == "b''.join"
            and len(ret.value.args) == 1 and isinstance(ret.value.args[0], ast.List)):
        raise Unsupported("pack is not `return b''.join([...])`")

    def ref(node):
        t = ast.unparse(node)
        if isinstance(node, ast.Name) and node.id in locs:
            if isinstance(locs[node.id], tuple):
                return ref(locs[node.id][1])
            return locs[node.id]
        # b"".join([x.pack() for x in self.f]) / b"".join(x.pack() for x in self.f)
        if isinstance(node, ast.Call) and ast.unparse(node.func) == "b''.join" and len(node.args) == 1 and not node.keywords \
                and isinstance(node.args[0], (ast.ListComp, ast.GeneratorExp)):
            comp = node.args[0]
            if len(comp.generators) == 1 and not comp.generators[0].ifs and not comp.generators[0].is_async \
                    and isinstance(comp.generators[0].target, ast.Name) and ast.unparse(comp.elt) == comp.generators[0].target.id + ".pack()":
                src = ast.unparse(comp.generators[0].iter)
                if src.startswith("self.") and src.count(".") == 1 and src[5:] in lists:
                    return "packs:" + src[5:]
            raise Unsupported(f"joined comprehension {t[:60]}")
        if t.startswith("self.") and t.count(".") == 1:
            return t[5:]
        if t.startswith("self.") and t.endswith(".bytes_le") and t.count(".") == 2:
            return "uuid_le:" + t[5:-9]
        if t.startswith("self.") and t.endswith(".pack()") and t.count(".") == 2:
            return "pack:" + t[5:-7]
        raise Unsupported(f"layout reference {t[:60]}")

    def little(call):
        kws = {k.arg: k.value for k in call.keywords}
        if len(call.args) == 1 and set(kws) == {"byteorder"} and isinstance(kws["byteorder"], ast.Constant) and kws["byteorder"].value == "little" \
                and isinstance(call.args[0], ast.Constant) and isinstance(call.args[0].value, int):
            return call.args[0].value
        raise Unsupported(f"to_bytes form {ast.unparse(call)[:60]}")
    items = []
    for e in ret.value.args[0].elts:
        if isinstance(e, ast.Constant) and isinstance(e.value, bytes):
            items.append(".const [" + ", ".join(str(b) for b in e.value) + "]")
        elif isinstance(e, ast.Call) and isinstance(e.func, ast.Attribute) and e.func.attr == "to_bytes":
            w = little(e)
            tgt = e.func.value
            if isinstance(tgt, ast.Call) and ast.unparse(tgt.func) == "len" and len(tgt.args) == 1:
                arg = ast.unparse(tgt.args[0])
                if arg.startswith("self.") and arg[5:] in lists:
                    items.append(f'.countOf "{arg[5:]}" {w}')
                else:
                    items.append(f'.lenOf "{ref(tgt.args[0])}" {w}')
            elif isinstance(tgt, ast.Name) and tgt.id in lens:
                items.append(f'.lenOf "{lens[tgt.id]}" {w}')
            elif isinstance(tgt, ast.Name) and tgt.id in ints:
                items.append(f'.int "{ints[tgt.id]}" {w}')
            elif isinstance(tgt, ast.BinOp) and isinstance(tgt.op, ast.Add) and isinstance(tgt.right, ast.Constant) and isinstance(tgt.right.value, int) \
                    and not isinstance(tgt.right.value, bool) and tgt.right.value >= 0 and isinstance(tgt.left, ast.Call) \
                    and ast.unparse(tgt.left.func) == "len" and len(tgt.left.args) == 1 and not tgt.left.keywords:
                items.append(f'.lenPlus {tgt.right.value} "{ref(tgt.left.args[0])}" {w}')
            elif isinstance(tgt, ast.BinOp) and isinstance(tgt.op, ast.BitOr) and all(
                    ast.unparse(x).startswith("self.") and ast.unparse(x).endswith(".value") and ast.unparse(x).count(".") == 2 for x in (tgt.left, tgt.right)):
                items.append(f'.int "{ast.unparse(tgt.left)[5:]}|{ast.unparse(tgt.right)[5:]}" {w}')
            else:
                r = ref(tgt)
                if ":" in r:
                    raise Unsupported(f"integer field {r}")
                items.append(f'.int "{r}" {w}')
        elif isinstance(e, ast.BinOp) and isinstance(e.op, ast.Mult) and isinstance(e.left, ast.Constant) and e.left.value == b"\x00" \
                and isinstance(e.right, ast.Name) and e.right.id in pads:
            k_, r_, m_ = pads[e.right.id]
            items.append(f'.zerosNegMod {k_} "{r_}" {m_}')
        elif isinstance(e, ast.IfExp) and isinstance(e.orelse, ast.Constant) and e.orelse.value == b"" and ast.unparse(e.test).startswith("self."):
            r = ref(e.body)
            if r.split(":")[-1] != ast.unparse(e.test)[5:] or ":" not in r:
                raise Unsupported(f"conditional element {ast.unparse(e)[:60]}")
            items.append(f'.bytes "opt{"" if r.startswith("pack") else "_"}{r}"')
        else:
            items.append(f'.bytes "{ref(e)}"')
    return items


def generate_layout(k: dict) -> dict:
    path = os.path.join(SRC, k["file"])
    out = {"name": k["name"], "file": k["file"], "func": k["func"]}
    try:
        tree = ast.parse(open(path).read())
        fn, cls = find_method(tree, k["func"])
        out["line"] = fn.lineno
        if k.get("value_of"):
            fn = value_join(fn, k["value_of"])
        items = layout_items(fn, list_fields(cls))
        out["python"] = f"{cls.name}.{fn.name}: b''.join of {len(items)} items"
    except (Unsupported, OSError, SyntaxError, ValueError, LookupError) as e:
        out["status"] = "unsupported"
        out["reason"] = f"{type(e).__name__}: {e}"
        p = os.path.join(GEN_DIR, k["name"] + ".lean")
        if os.path.exists(p):
            os.remove(p)
        return out
    name = k["name"]
    body = "[" + ",\n   ".join(items) + "]"
    lean = f"""-- GENERATED by harness/extract.py from src/dpapi_ng/{k['file']}:{out['line']} ({k['func']}) — do not edit.
{chr(10).join("import DpapiNg." + m for m in k["imports"])}
namespace DpapiNg.Gen
open DpapiNg DpapiNg.Layout

def {name} : List Item :=
  {body}

theorem {name}_eq : {name} = {k['model']} := by
  decide

end DpapiNg.Gen
"""
    os.makedirs(GEN_DIR, exist_ok=True)
    p = os.path.join(GEN_DIR, name + ".lean")
    old = open(p).read() if os.path.exists(p) else None
    if old != lean:
        with open(p, "w") as f:
            f.write(lean)
    out.update(status="generated", lean_path=p, lean_def=body.replace("\n   ", " "), module=f"DpapiNg.Gen.{name}", sha=hashlib.sha256(lean.encode()).hexdigest()[:16])
    return out


# ---------------------------------------------------------------------------------------------
# Decoder plans: an `unpack` classmethod that is a straight line of fixed-offset integer reads, a magic test,
# `view = view[n:]` advances and `x = view[:n].tobytes()[.decode("utf-16-le")]` reads ending in `return Cls(kw=local, ...)` is
# translated statement by statement into a `List Plan.Step` plus the keyword → local table; `Proofs/Plan.lean` proves the
# hand-written unpack model is the interpretation of that plan.  Any other statement form is Unsupported (a broken obligation).
def P(name, props, file, cls, model):
    return dict(name=name, props=props, file=file, func=cls + ".unpack", kind="plan", loc=("plan",), model=model,
                imports=["Proofs.Plan"], typ="List Plan.Step × List (String × String)")


KERNELS += [
    P("PlanEnvelope", ["C11", "C02"], "_gkdi.py", "GroupKeyEnvelope", "Gkdi.envelopePlan"),
    P("PlanKeyId", ["C11", "C06", "C05"], "_blob.py", "KeyIdentifier", "Gkdi.keyIdPlan"),
    P("PlanFfcParams", ["C11", "C04", "C03"], "_gkdi.py", "FFCDHParameters", "Gkdi.ffcParamsPlan"),
    P("PlanFfcKey", ["C11", "C04", "C03", "C05"], "_gkdi.py", "FFCDHKey", "Gkdi.ffcKeyPlan"),
    P("PlanKdfParams", ["C11", "C02", "C05"], "_gkdi.py", "KDFParameters", "Gkdi.kdfParamsPlan"),
]


def plan_steps(fn):
    body = [st for st in fn.body if not (isinstance(st, ast.Expr) and isinstance(st.value, ast.Constant))]
    if not body:
        raise Unsupported("empty unpack")

    def const_slice(node):
        """view[a:b] with literal bounds → (a, b)"""
        if not (isinstance(node, ast.Subscript) and isinstance(node.value, ast.Name) and node.value.id == "view" and isinstance(node.slice, ast.Slice)
                and node.slice.step is None):
            raise Unsupported(f"slice form {ast.unparse(node)[:60]}")
        lo, hi = node.slice.lower, node.slice.upper
        a = 0 if lo is None else lo.value if isinstance(lo, ast.Constant) and isinstance(lo.value, int) and lo.value >= 0 else None
        b = hi.value if isinstance(hi, ast.Constant) and isinstance(hi.value, int) and hi.value >= 0 else None
        if a is None or b is None:
            raise Unsupported(f"slice bounds {ast.unparse(node)[:60]}")
        return a, b

    def tobytes_of(node):
        """X.tobytes() → X"""
        if isinstance(node, ast.Call) and isinstance(node.func, ast.Attribute) and node.func.attr == "tobytes" and not node.args and not node.keywords:
            return node.func.value
        raise Unsupported(f"expected .tobytes(): {ast.unparse(node)[:60]}")

    def prefix_len(node, minus2):
        """view[:n] (or view[: n - 2]) with a local name n → n"""
        if not (isinstance(node, ast.Subscript) and isinstance(node.value, ast.Name) and node.value.id == "view" and isinstance(node.slice, ast.Slice)
                and node.slice.lower is None and node.slice.step is None and node.slice.upper is not None):
            raise Unsupported(f"prefix slice form {ast.unparse(node)[:60]}")
        up = node.slice.upper
        if minus2:
            if not (isinstance(up, ast.BinOp) and isinstance(up.op, ast.Sub) and isinstance(up.left, ast.Name)
                    and isinstance(up.right, ast.Constant) and up.right.value == 2):
                raise Unsupported(f"text length {ast.unparse(up)[:60]}")
            return up.left.id
        if not isinstance(up, ast.Name):
            raise Unsupported(f"length {ast.unparse(up)[:60]}")
        return up.id

    def expr(node):
        """offset arithmetic over decoded unsigned integers: literals, locals, + and *"""
        if isinstance(node, ast.Constant) and isinstance(node.value, int) and not isinstance(node.value, bool) and node.value >= 0:
            return f"(.lit {node.value})"
        if isinstance(node, ast.Name) and node.id in ints:
            return f'(.var "{node.id}")'
        if isinstance(node, ast.BinOp) and isinstance(node.op, (ast.Add, ast.Mult)):
            return f"(.{'add' if isinstance(node.op, ast.Add) else 'mul'} {expr(node.left)} {expr(node.right)})"
        raise Unsupported(f"offset expression {ast.unparse(node)[:60]}")

    steps, ints = [], set()
    first = body[0]
    if not (isinstance(first, ast.Assign) and ast.unparse(first) == "view = memoryview(data)"):
        raise Unsupported(f"first statement {ast.unparse(first)[:60]}")
    for st in body[1:-1]:
        if isinstance(st, ast.If) and isinstance(st.test, ast.Compare) and ast.unparse(st.test.left) == "len(view)":
            # if len(view) < <expr>: raise ValueError(...)
            t = st.test
            if not (len(t.ops) == 1 and isinstance(t.ops[0], ast.Lt) and not st.orelse and len(st.body) == 1 and isinstance(st.body[0], ast.Raise)
                    and isinstance(st.body[0].exc, ast.Call) and ast.unparse(st.body[0].exc.func) == "ValueError"):
                raise Unsupported(f"length guard {ast.unparse(t)[:60]}")
            steps.append(f".guardLen {expr(t.comparators[0])}")
            continue
        if isinstance(st, ast.If) and isinstance(st.test, ast.BoolOp) and isinstance(st.test.op, ast.Or):
            # if view[a:b].tobytes() != b"..." or view[c:d].tobytes() != b"...": raise ValueError(...)
            if not (not st.orelse and len(st.body) == 1 and isinstance(st.body[0], ast.Raise) and isinstance(st.body[0].exc, ast.Call)
                    and ast.unparse(st.body[0].exc.func) == "ValueError"):
                raise Unsupported(f"if statement {ast.unparse(st.test)[:60]}")
            for t in st.test.values:
                if not (isinstance(t, ast.Compare) and len(t.ops) == 1 and isinstance(t.ops[0], ast.NotEq) and isinstance(t.comparators[0], ast.Constant)
                        and isinstance(t.comparators[0].value, bytes)):
                    raise Unsupported(f"magic disjunct {ast.unparse(t)[:60]}")
                a, b = const_slice(tobytes_of(t.left))
                steps.append(f".magicLit {a} {b} [" + ", ".join(str(x) for x in t.comparators[0].value) + "]")
            continue
        if isinstance(st, ast.If):
            # if view[a:b].tobytes() != cls.magic: raise ValueError(...)
            t = st.test
            if not (isinstance(t, ast.Compare) and len(t.ops) == 1 and isinstance(t.ops[0], ast.NotEq) and ast.unparse(t.comparators[0]) == "cls.magic"
                    and not st.orelse and len(st.body) == 1 and isinstance(st.body[0], ast.Raise) and isinstance(st.body[0].exc, ast.Call)
                    and ast.unparse(st.body[0].exc.func) == "ValueError"):
                raise Unsupported(f"if statement {ast.unparse(t)[:60]}")
            a, b = const_slice(tobytes_of(t.left))
            steps.append(f".magic {a} {b}")
            continue

        if not (isinstance(st, ast.Assign) and len(st.targets) == 1 and isinstance(st.targets[0], ast.Name)):
            raise Unsupported(f"statement {ast.unparse(st)[:60]}")
        tgt, v = st.targets[0].id, st.value
        if tgt == "view":
            # view = view[n:]
            if not (isinstance(v, ast.Subscript) and isinstance(v.value, ast.Name) and v.value.id == "view" and isinstance(v.slice, ast.Slice)
                    and v.slice.upper is None and v.slice.step is None and v.slice.lower is not None):
                raise Unsupported(f"advance {ast.unparse(st)[:60]}")
            lo = v.slice.lower
            if isinstance(lo, ast.Constant) and isinstance(lo.value, int) and lo.value >= 0:
                steps.append(f".skip {lo.value}")
            elif isinstance(lo, ast.Name) and lo.id in ints:
                steps.append(f'.skipLen "{lo.id}"')
            else:
                steps.append(f".skipE {expr(lo)}")
            continue
        if isinstance(v, ast.Call) and ast.unparse(v.func) == "int.from_bytes":
            kws = {k.arg: k.value for k in v.keywords}
            if not (len(v.args) == 1 and set(kws) == {"byteorder"} and isinstance(kws["byteorder"], ast.Constant) and kws["byteorder"].value == "little"):
                raise Unsupported(f"from_bytes form {ast.unparse(v)[:70]}")
            a, b = const_slice(v.args[0])
            steps.append(f'.int "{tgt}" {a} {b}')
            ints.add(tgt)
            continue
        if isinstance(v, ast.Call) and ast.unparse(v.func) == "uuid.UUID":
            if not (not v.args and len(v.keywords) == 1 and v.keywords[0].arg == "bytes_le"):
                raise Unsupported(f"UUID form {ast.unparse(v)[:60]}")
            a, b = const_slice(tobytes_of(v.keywords[0].value))
            steps.append(f'.uuid "{tgt}" {a} {b}')
            continue
        if isinstance(v, ast.Call) and isinstance(v.func, ast.Attribute) and v.func.attr == "decode":
            if not (len(v.args) == 1 and not v.keywords and isinstance(v.args[0], ast.Constant) and v.args[0].value == "utf-16-le"):
                raise Unsupported(f"decode form {ast.unparse(v)[:60]}")
            sl = tobytes_of(v.func.value)
            if isinstance(sl, ast.Subscript) and isinstance(sl.slice, ast.Slice) and sl.slice.lower is not None:
                # name = view[lo : hi - k].tobytes().decode("utf-16-le")
                up = sl.slice.upper
                if not (isinstance(sl.value, ast.Name) and sl.value.id == "view" and sl.slice.step is None and isinstance(up, ast.BinOp) and isinstance(up.op, ast.Sub)
                        and isinstance(up.right, ast.Constant) and isinstance(up.right.value, int) and up.right.value >= 0):
                    raise Unsupported(f"text slice {ast.unparse(sl)[:60]}")
                steps.append(f'.textSub "{tgt}" {expr(sl.slice.lower)} {expr(up.left)} {up.right.value}')
                continue
            n = prefix_len(sl, True)
            if n not in ints:
                raise Unsupported(f"length {n} is not a decoded integer")
            steps.append(f'.text "{tgt}" "{n}"')
            continue
        sl = tobytes_of(v)
        if isinstance(sl, ast.Subscript) and isinstance(sl.slice, ast.Slice) and sl.slice.lower is None and isinstance(sl.slice.upper, ast.Name):
            n = prefix_len(sl, False)
            if n not in ints:
                raise Unsupported(f"length {n} is not a decoded integer")
            steps.append(f'.bytes "{tgt}" "{n}"')
        else:
            # name = view[lo:hi].tobytes() with computed bounds
            if not (isinstance(sl, ast.Subscript) and isinstance(sl.value, ast.Name) and sl.value.id == "view" and isinstance(sl.slice, ast.Slice)
                    and sl.slice.step is None and sl.slice.upper is not None):
                raise Unsupported(f"slice form {ast.unparse(sl)[:60]}")
            lo = "(.lit 0)" if sl.slice.lower is None else expr(sl.slice.lower)
            steps.append(f'.slice "{tgt}" {lo} {expr(sl.slice.upper)}')
    ret = body[-1]
    if not (isinstance(ret, ast.Return) and isinstance(ret.value, ast.Call) and isinstance(ret.value.func, ast.Name) and not ret.value.args
            and all(k.arg for k in ret.value.keywords)):
        raise Unsupported("unpack does not end in `return Cls(kw=..., ...)`")
    table = []
    for k in ret.value.keywords:
        v = k.value
        if isinstance(v, ast.Name):
            table.append(f'("{k.arg}", "{v.id}")')
            continue
        # kw=int.from_bytes(local, byteorder="big")
        kws = {x.arg: x.value for x in v.keywords} if isinstance(v, ast.Call) else {}
        if (isinstance(v, ast.Call) and ast.unparse(v.func) == "int.from_bytes" and len(v.args) == 1 and isinstance(v.args[0], ast.Name) and set(kws) == {"byteorder"}
                and isinstance(kws["byteorder"], ast.Constant) and kws["byteorder"].value == "big"):
            steps.append(f'.beInt "be:{v.args[0].id}" "{v.args[0].id}"')
            table.append(f'("{k.arg}", "be:{v.args[0].id}")')
            continue
        raise Unsupported(f"constructor argument {ast.unparse(v)[:60]}")
    return steps, table, ret.value.func.id


def generate_plan(k: dict) -> dict:
    path = os.path.join(SRC, k["file"])
    out = {"name": k["name"], "file": k["file"], "func": k["func"]}
    try:
        tree = ast.parse(open(path).read())
        fn = find_function(tree, k["func"])
        out["line"] = fn.lineno
        steps, table, ctor = plan_steps(fn)
        if ctor != k["func"].split(".")[0]:
            raise Unsupported(f"unpack returns {ctor}(...)")
        out["python"] = f"{k['func']}: {len(steps)} decoding steps, {len(table)} constructor keywords"
    except (Unsupported, OSError, SyntaxError, ValueError, LookupError) as e:
        out["status"] = "unsupported"
        out["reason"] = f"{type(e).__name__}: {e}"
        p = os.path.join(GEN_DIR, k["name"] + ".lean")
        if os.path.exists(p):
            os.remove(p)
        return out
    name = k["name"]
    body = "([" + ",\n    ".join(steps) + "],\n   [" + ", ".join(table) + "])"
    lean = f"""-- GENERATED by harness/extract.py from src/dpapi_ng/{k['file']}:{out['line']} ({k['func']}) — do not edit.
import DpapiNg.Proofs.Plan
namespace DpapiNg.Gen
open DpapiNg DpapiNg.Plan

def {name} : List Step × List (String × String) :=
  {body}

theorem {name}_eq : {name} = {k['model']} := by
  decide

end DpapiNg.Gen
"""
    os.makedirs(GEN_DIR, exist_ok=True)
    p = os.path.join(GEN_DIR, name + ".lean")
    old = open(p).read() if os.path.exists(p) else None
    if old != lean:
        with open(p, "w") as f:
            f.write(lean)
    out.update(status="generated", lean_path=p, lean_def=body.replace("\n    ", " ").replace("\n   ", " "), module=f"DpapiNg.Gen.{name}", sha=hashlib.sha256(lean.encode()).hexdigest()[:16])
    return out



# ---------------------------------------------------------------------------------------------
# Field tables: a decoder of the form `view = memoryview(data); return cls(kw=<read at literal offsets>, ...)` is translated
# keyword by keyword into a `List (String × Fields.Field)`; `Proofs/Fields.lean` proves the hand-written model of the decoder is
# the left-to-right interpretation of that table.
def F(name, props, file, func, model):
    return dict(name=name, props=props, file=file, func=func, kind="fields", loc=("fields",), model=model,
                imports=["Proofs.Fields"], typ="List (String × Fields.Field)")


KERNELS += [
    F("FieldsPduHeader", ["C12", "C14", "C16"], "_rpc/_pdu.py", "PDUHeader.unpack", "Rpc.headerFields"),
    F("FieldsSecTrailer", ["C12", "C16", "C15"], "_rpc/_pdu.py", "SecTrailer.unpack", "Rpc.secTrailerFields"),
    F("FieldsSyntaxId", ["C12"], "_rpc/_bind.py", "SyntaxId.unpack", "Rpc.syntaxFields"),
    F("FieldsContextResult", ["C12", "C15"], "_rpc/_bind.py", "ContextResult.unpack", "Rpc.resultFields"),
    F("FieldsResponse", ["C12", "C16", "C13"], "_rpc/_request.py", "Response._unpack", "Rpc.responseFields"),
    F("FieldsFault", ["C12", "C15"], "_rpc/_pdu.py", "Fault._unpack", "Rpc.faultFields"),
    F("FieldsHeader2", ["C12", "C13"], "_rpc/_verification.py", "CommandHeader2._unpack", "Rpc.header2Fields"),
]


def field_table(fn):
    body = [st for st in fn.body if not (isinstance(st, ast.Expr) and isinstance(st.value, ast.Constant))]
    if len(body) != 2 or ast.unparse(body[0]) not in ("view = memoryview(data)", "view = memoryview(value)") \
            or ast.unparse(body[0])[18:-1] not in {a.arg for a in fn.args.args}:
        raise Unsupported("decoder is not `view = memoryview(data); return cls(...)`")
    ret = body[1]
    if not (isinstance(ret, ast.Return) and isinstance(ret.value, ast.Call) and ast.unparse(ret.value.func) == "cls" and not ret.value.args):
        raise Unsupported("decoder does not end in `return cls(kw=..., ...)`")
    params = {a.arg for a in fn.args.args}

    def lit(n):
        if n is None:
            return None
        if isinstance(n, ast.Constant) and isinstance(n.value, int) and not isinstance(n.value, bool) and n.value >= 0:
            return n.value
        raise Unsupported(f"offset {ast.unparse(n)[:40]}")

    def view_slice(node):
        if not (isinstance(node, ast.Subscript) and isinstance(node.value, ast.Name) and node.value.id == "view" and isinstance(node.slice, ast.Slice)
                and node.slice.step is None):
            raise Unsupported(f"slice form {ast.unparse(node)[:60]}")
        return lit(node.slice.lower) or 0, lit(node.slice.upper)

    def view_index(node):
        if isinstance(node, ast.Subscript) and isinstance(node.value, ast.Name) and node.value.id == "view" and not isinstance(node.slice, ast.Slice):
            return lit(node.slice)
        return None

    def from_bytes(node):
        if isinstance(node, ast.Call) and ast.unparse(node.func) == "int.from_bytes":
            kws = {k.arg: k.value for k in node.keywords}
            if not (len(node.args) == 1 and set(kws) == {"byteorder"} and isinstance(kws["byteorder"], ast.Constant) and kws["byteorder"].value == "little"):
                raise Unsupported(f"from_bytes form {ast.unparse(node)[:70]}")
            a, b = view_slice(node.args[0])
            if b is None:
                raise Unsupported(f"open-ended integer {ast.unparse(node)[:60]}")
            return a, b
        return None

    def read(e):
        i = view_index(e)
        if i is not None:
            return f".byte {i}"
        fb = from_bytes(e)
        if fb:
            return f".int {fb[0]} {fb[1]}"
        if isinstance(e, ast.Name) and e.id in params:
            return f'.param "{e.id}"'
        if isinstance(e, ast.Call) and ast.unparse(e.func) == "uuid.UUID":
            if e.args or len(e.keywords) != 1 or e.keywords[0].arg != "bytes_le":
                raise Unsupported(f"UUID form {ast.unparse(e)[:60]}")
            v = e.keywords[0].value
            if not (isinstance(v, ast.Call) and isinstance(v.func, ast.Attribute) and v.func.attr == "tobytes" and not v.args):
                raise Unsupported(f"UUID form {ast.unparse(e)[:60]}")
            a, b = view_slice(v.func.value)
            if b is None:
                raise Unsupported("open-ended uuid")
            return f".uuid {a} {b}"
        if isinstance(e, ast.Call) and isinstance(e.func, ast.Attribute) and e.func.attr == "tobytes" and not e.args and not e.keywords:
            a, b = view_slice(e.func.value)
            if b is not None:
                raise Unsupported(f"bounded bytes field {ast.unparse(e)[:60]}")
            return f".rest {a}"
        if isinstance(e, ast.Call) and isinstance(e.func, ast.Attribute) and e.func.attr == "unpack" and isinstance(e.func.value, ast.Name) \
                and len(e.args) == 1 and not e.keywords:
            a, b = view_slice(e.args[0])
            if b is None:
                raise Unsupported("open-ended sub-structure")
            return f'.sub "{e.func.value.id}" {a} {b}'
        if isinstance(e, ast.Call) and isinstance(e.func, ast.Name) and len(e.args) == 1 and not e.keywords:
            i = view_index(e.args[0])
            if i is not None:
                return f'.enum "{e.func.id}" {i}'
            fb = from_bytes(e.args[0])
            if fb:
                return f'.enumInt "{e.func.id}" {fb[0]} {fb[1]}'
        raise Unsupported(f"field expression {ast.unparse(e)[:70]}")

    rows = []
    for k in ret.value.keywords:
        if not k.arg:
            raise Unsupported("**kwargs")
        rows.append(f'("{k.arg}", {read(k.value)})')
    return rows


def generate_fields(k: dict) -> dict:
    path = os.path.join(SRC, k["file"])
    out = {"name": k["name"], "file": k["file"], "func": k["func"]}
    try:
        tree = ast.parse(open(path).read())
        fn = find_function(tree, k["func"])
        out["line"] = fn.lineno
        rows = field_table(fn)
        out["python"] = f"{k['func']}: cls(...) with {len(rows)} keyword reads"
    except (Unsupported, OSError, SyntaxError, ValueError, LookupError) as e:
        out["status"] = "unsupported"
        out["reason"] = f"{type(e).__name__}: {e}"
        p = os.path.join(GEN_DIR, k["name"] + ".lean")
        if os.path.exists(p):
            os.remove(p)
        return out
    name = k["name"]
    body = "[" + ",\n   ".join(rows) + "]"
    lean = f"""-- GENERATED by harness/extract.py from src/dpapi_ng/{k['file']}:{out['line']} ({k['func']}) — do not edit.
import DpapiNg.Proofs.Fields
namespace DpapiNg.Gen
open DpapiNg DpapiNg.Fields

def {name} : List (String × Field) :=
  {body}

theorem {name}_eq : {name} = {k['model']} := by
  decide

end DpapiNg.Gen
"""
    os.makedirs(GEN_DIR, exist_ok=True)
    p = os.path.join(GEN_DIR, name + ".lean")
    old = open(p).read() if os.path.exists(p) else None
    if old != lean:
        with open(p, "w") as f:
            f.write(lean)
    out.update(status="generated", lean_path=p, lean_def=body.replace("\n   ", " "), module=f"DpapiNg.Gen.{name}", sha=hashlib.sha256(lean.encode()).hexdigest()[:16])
    return out



# ---------------------------------------------------------------------------------------------
# ASN.1 writer programs: a `pack(self, writer)` method made of nested `with w.push_sequence(...) as w2:` blocks around
# `w.write_*(self.f[, ASN1Tag(...)])`, `self.f.pack(w)`, `if self.f:` and `for x in self.f: x.pack(w)` is translated statement
# by statement into a `List WProg.Op`; `Proofs/WProg.lean` proves the hand-written pack model is the interpretation of that
# program.  Every statement must write to the innermost open writer (anything else changes the byte order and is Unsupported).
def W(name, props, file, cls, model):
    return dict(name=name, props=props, file=file, func=cls + ".pack", kind="wprog", loc=("wprog",), model=model,
                imports=["Proofs.WProg"], typ="List WProg.Op")


KERNELS += [
    W("WProgAlgId", ["C06", "C04"], "_pkcs7.py", "AlgorithmIdentifier", "Blob.algIdProg"),
    W("WProgOtherAttr", ["C06"], "_pkcs7.py", "OtherKeyAttribute", "Blob.otherAttrProg"),
    W("WProgKekId", ["C06"], "_pkcs7.py", "KEKIdentifier", "Blob.kekIdProg"),
    W("WProgKekRi", ["C06", "C04"], "_pkcs7.py", "KEKRecipientInfo", "Blob.kekRiProg"),
    W("WProgEncContentInfo", ["C06", "C04", "C01"], "_pkcs7.py", "EncryptedContentInfo", "Blob.encContentInfoProg"),
    W("WProgEnvelopedData", ["C06"], "_pkcs7.py", "EnvelopedData", "Blob.envelopedDataProg"),
    W("WProgContentInfo", ["C06"], "_pkcs7.py", "ContentInfo", "Blob.contentInfoProg"),
    W("WProgProtDesc", ["C06", "C08"], "_blob.py", "ProtectionDescriptor", "Blob.protDescProg"),
]

_WRITE_OPS = {"write_integer": "int", "write_object_identifier": "oid", "write_octet_string": "octets",
              "write_generalized_time": "genTime", "write_utf8_string": "utf8", "write_raw": "raw"}


def _class_node(tree, cls):
    for n in tree.body:
        if isinstance(n, ast.ClassDef) and n.name == cls:
            return n
    raise Unsupported(f"class {cls} not found")


def _tag_classes():
    """TagClass member → value, read from _asn1.py's current source"""
    t = ast.parse(open(os.path.join(SRC, "_asn1.py")).read())
    out = {}
    for st in _class_node(t, "TagClass").body:
        if isinstance(st, ast.Assign) and len(st.targets) == 1 and isinstance(st.targets[0], ast.Name) and isinstance(st.value, ast.Constant) \
                and isinstance(st.value.value, int):
            out[st.targets[0].id] = st.value.value
    fields = [st.target.id for st in _class_node(t, "ASN1Tag").body if isinstance(st, ast.AnnAssign) and isinstance(st.target, ast.Name)]
    return out, fields


def _field_default(clsnode, name):
    for st in clsnode.body:
        if isinstance(st, ast.AnnAssign) and isinstance(st.target, ast.Name) and st.target.id == name and st.value is not None:
            v = st.value
            if isinstance(v, ast.Constant) and isinstance(v.value, int) and not isinstance(v.value, bool):
                return v.value
            if isinstance(v, ast.Call) and ast.unparse(v.func) in ("dataclasses.field", "field"):
                for kw in v.keywords:
                    if kw.arg == "default" and isinstance(kw.value, ast.Constant) and isinstance(kw.value.value, int):
                        return kw.value.value
    raise Unsupported(f"no integer default for self.{name}")


def _field_class(clsnode, name, want_list=False):
    """class named by the annotation of dataclass field `name` (through Optional[...] / List[...])"""
    for st in clsnode.body:
        if isinstance(st, ast.AnnAssign) and isinstance(st.target, ast.Name) and st.target.id == name:
            a = st.annotation
            seen_list = False
            while isinstance(a, ast.Subscript):
                head = ast.unparse(a.value)
                if head in ("t.Optional", "typing.Optional", "Optional"):
                    a = a.slice
                elif head in ("t.List", "typing.List", "List", "list"):
                    seen_list = True
                    a = a.slice
                else:
                    raise Unsupported(f"annotation {ast.unparse(st.annotation)}")
            if isinstance(a, ast.Constant) and isinstance(a.value, str):
                a = ast.parse(a.value, mode="eval").body
            if not isinstance(a, ast.Name) or seen_list != want_list:
                raise Unsupported(f"annotation {ast.unparse(st.annotation)} of {name}")
            return a.id
    raise Unsupported(f"field {name} has no annotation")


def _asn1_tag(node, clsnode):
    """Lean `Option Tag` for an `ASN1Tag(...)` expression"""
    classes, order = _tag_classes()
    if not (isinstance(node, ast.Call) and ast.unparse(node.func) == "ASN1Tag"):
        raise Unsupported(f"tag expression {ast.unparse(node)[:60]}")
    vals = {}
    for i, a in enumerate(node.args):
        if i >= len(order):
            raise Unsupported("too many ASN1Tag arguments")
        vals[order[i]] = a
    for kw in node.keywords:
        if kw.arg in vals or kw.arg not in order:
            raise Unsupported(f"ASN1Tag keyword {kw.arg}")
        vals[kw.arg] = kw.value
    if set(vals) != {"tag_class", "tag_number", "is_constructed"}:
        raise Unsupported(f"ASN1Tag arguments {sorted(vals)}")
    c = ast.unparse(vals["tag_class"])
    if not c.startswith("TagClass.") or c[9:] not in classes:
        raise Unsupported(f"tag class {c}")
    n = vals["tag_number"]
    if isinstance(n, ast.Constant) and isinstance(n.value, int) and not isinstance(n.value, bool) and n.value >= 0:
        num = n.value
    elif ast.unparse(n).startswith("self.") and ast.unparse(n).count(".") == 1:
        num = _field_default(clsnode, ast.unparse(n)[5:])
    else:
        raise Unsupported(f"tag number {ast.unparse(n)}")
    k = vals["is_constructed"]
    if not (isinstance(k, ast.Constant) and isinstance(k.value, bool)):
        raise Unsupported(f"is_constructed {ast.unparse(k)}")
    return f"(some ⟨{classes[c[9:]]}, {num}, {'true' if k.value else 'false'}⟩)"


def _self_field(node):
    t = ast.unparse(node)
    if t.startswith("self.") and all(part.isidentifier() for part in t.split(".")) and t.count(".") in (1, 2):
        return t[5:]
    raise Unsupported(f"not a field of self: {t[:60]}")


def wprog_ops(fn, clsnode):
    body = [st for st in fn.body if not (isinstance(st, ast.Expr) and isinstance(st.value, ast.Constant))]
    params = [a.arg for a in fn.args.args]
    if params == ["self", "writer"]:
        root = "writer"
    elif params == ["self"]:
        # `writer = ASN1Writer()` … `return writer.get_data()`
        if not (len(body) >= 2 and isinstance(body[0], ast.Assign) and len(body[0].targets) == 1 and isinstance(body[0].targets[0], ast.Name)
                and ast.unparse(body[0].value) == "ASN1Writer()"):
            raise Unsupported("pack(self) does not start with `writer = ASN1Writer()`")
        root = body[0].targets[0].id
        if not (isinstance(body[-1], ast.Return) and body[-1].value is not None and ast.unparse(body[-1].value) == f"{root}.get_data()"):
            raise Unsupported("pack(self) does not end with `return writer.get_data()`")
        body = body[1:-1]
    else:
        raise Unsupported(f"pack parameters {params}")

    def tag_arg(call, pos):
        """optional tag of a write_* / push_* call: positional at `pos` or keyword `tag`"""
        tags = [a for a in call.args[pos:]] + [kw.value for kw in call.keywords if kw.arg == "tag"]
        if len(call.args) > pos + 1 or any(kw.arg != "tag" for kw in call.keywords) or len(tags) > 1:
            raise Unsupported(f"arguments of {ast.unparse(call)[:60]}")
        return _asn1_tag(tags[0], clsnode) if tags else "none"

    def stmts(sts, w):
        out = []
        for st in sts:
            if isinstance(st, ast.With):
                if len(st.items) != 1 or not isinstance(st.items[0].optional_vars, ast.Name):
                    raise Unsupported("with statement form")
                call = st.items[0].context_expr
                if not (isinstance(call, ast.Call) and isinstance(call.func, ast.Attribute) and isinstance(call.func.value, ast.Name)
                        and call.func.value.id == w):
                    raise Unsupported(f"with on {ast.unparse(call)[:50]} while the open writer is {w}")
                inner = stmts(st.body, st.items[0].optional_vars.id)
                if call.func.attr == "push_sequence":
                    out.append(f".seq {tag_arg(call, 0)} [{', '.join(inner)}]")
                elif call.func.attr in ("push_set_of", "push_set"):
                    if call.args or call.keywords:
                        raise Unsupported("tagged set")
                    out.append(f".setOf [{', '.join(inner)}]")
                else:
                    raise Unsupported(f"with {call.func.attr}")
            elif isinstance(st, ast.Expr) and isinstance(st.value, ast.Call) and isinstance(st.value.func, ast.Attribute):
                call = st.value
                tgt = call.func.value
                if isinstance(tgt, ast.Name) and tgt.id == w and call.func.attr in _WRITE_OPS:
                    if not call.args:
                        raise Unsupported(f"{call.func.attr} without a value")
                    f = _self_field(call.args[0])
                    op = _WRITE_OPS[call.func.attr]
                    if op == "octets":
                        out.append(f'.octets "{f}" {tag_arg(call, 1)}')
                    else:
                        if len(call.args) != 1 or call.keywords:
                            raise Unsupported(f"arguments of {ast.unparse(call)[:60]}")
                        out.append(f'.{op} "{f}"')
                elif call.func.attr == "pack" and len(call.args) == 1 and not call.keywords and isinstance(call.args[0], ast.Name) and call.args[0].id == w:
                    f = _self_field(tgt)
                    out.append(f'.sub "{f}" "{_field_class(clsnode, f)}"')
                else:
                    raise Unsupported(f"statement {ast.unparse(st)[:60]} (open writer {w})")
            elif isinstance(st, ast.If) and not st.orelse:
                f = _self_field(st.test)
                out.append(f'.ifTruthy "{f}" [{", ".join(stmts(st.body, w))}]')
            elif isinstance(st, ast.For) and not st.orelse and isinstance(st.target, ast.Name) and len(st.body) == 1:
                f = _self_field(st.iter)
                b = st.body[0]
                if not (isinstance(b, ast.Expr) and isinstance(b.value, ast.Call) and ast.unparse(b.value) == f"{st.target.id}.pack({w})"):
                    raise Unsupported(f"loop body {ast.unparse(b)[:60]}")
                out.append(f'.each "{f}" "{_field_class(clsnode, f, want_list=True)}"')
            else:
                raise Unsupported(f"statement {ast.unparse(st)[:60]}")
        return out
    return stmts(body, root)


def generate_wprog(k: dict) -> dict:
    path = os.path.join(SRC, k["file"])
    out = {"name": k["name"], "file": k["file"], "func": k["func"]}
    try:
        tree = ast.parse(open(path).read())
        fn = find_function(tree, k["func"])
        out["line"] = fn.lineno
        ops = wprog_ops(fn, _class_node(tree, k["func"].split(".")[0]))
        out["python"] = f"{k['func']}: writer program of {len(ops)} top-level statement(s)"
    except (Unsupported, OSError, SyntaxError, ValueError, LookupError) as e:
        out["status"] = "unsupported"
        out["reason"] = f"{type(e).__name__}: {e}"
        p = os.path.join(GEN_DIR, k["name"] + ".lean")
        if os.path.exists(p):
            os.remove(p)
        return out
    name = k["name"]
    body = "[" + ", ".join(ops) + "]"
    lean = f"""-- GENERATED by harness/extract.py from src/dpapi_ng/{k['file']}:{out['line']} ({k['func']}) — do not edit.
import DpapiNg.Proofs.WProg
namespace DpapiNg.Gen
open DpapiNg DpapiNg.WProg

def {name} : List Op :=
  {body}

theorem {name}_eq : {name} = {k['model']} := by
  rfl

end DpapiNg.Gen
"""
    os.makedirs(GEN_DIR, exist_ok=True)
    p = os.path.join(GEN_DIR, name + ".lean")
    old = open(p).read() if os.path.exists(p) else None
    if old != lean:
        with open(p, "w") as f:
            f.write(lean)
    out.update(status="generated", lean_path=p, lean_def=body, module=f"DpapiNg.Gen.{name}", sha=hashlib.sha256(lean.encode()).hexdigest()[:16])
    return out


# ---------------------------------------------------------------------------------------------
# ASN.1 reader programs: an `unpack` classmethod of _pkcs7.py / _blob.py made of `reader = <reader>.read_sequence(...)`,
# `x = reader.read_*(...)`, `header = reader.peek_header()`, `x = None`, `if header.tag… == …:`, `if reader:`, `x = Cls.unpack(reader…)`,
# the `while set_reader:` loop and a final `return Cls(kw=x, …)` is translated statement by statement into a
# `List RProg.Op × RProg.Ret`; `Proofs/RProg.lean` proves the hand-written unpack model is the interpretation of that program.
def R(name, props, file, cls, model):
    return dict(name=name, props=props, file=file, func=cls + ".unpack", kind="rprog", loc=("rprog",), model=model,
                imports=["Proofs.RProg"], typ="List RProg.Op × RProg.Ret")


KERNELS += [
    R("RProgAlgId", ["C06", "C05"], "_pkcs7.py", "AlgorithmIdentifier", "Blob.algIdRProg"),
    R("RProgOtherAttr", ["C06", "C05"], "_pkcs7.py", "OtherKeyAttribute", "Blob.otherAttrRProg"),
    R("RProgKekId", ["C06", "C05"], "_pkcs7.py", "KEKIdentifier", "Blob.kekIdRProg"),
    R("RProgKekRi", ["C06", "C05", "C04"], "_pkcs7.py", "KEKRecipientInfo", "Blob.kekRiRProg"),
    R("RProgRecipientInfo", ["C06", "C05"], "_pkcs7.py", "RecipientInfo", "Blob.recipientInfoRProg"),
    R("RProgEncContentInfo", ["C06", "C05", "C04"], "_pkcs7.py", "EncryptedContentInfo", "Blob.encContentInfoRProg"),
    R("RProgEnvelopedData", ["C06", "C05"], "_pkcs7.py", "EnvelopedData", "Blob.envelopedDataRProg"),
    R("RProgContentInfo", ["C06", "C05"], "_pkcs7.py", "ContentInfo", "Blob.contentInfoRProg"),
    R("RProgProtDesc", ["C06", "C05", "C08"], "_blob.py", "ProtectionDescriptor", "Blob.protDescRProg"),
]

_READ_OPS = {"read_object_identifier": "readOid", "read_integer": "readInt", "read_octet_string": "readOctets",
             "read_utf8_string": "readUtf8", "read_generalized_time": "readGenTime"}
_ERRS = {"NotImplementedError": ".notImplemented", "ValueError": ".valueError"}


def _enum_values(file, cls):
    t = ast.parse(open(os.path.join(SRC, file)).read())
    out = {}
    for st in _class_node(t, cls).body:
        if isinstance(st, ast.Assign) and len(st.targets) == 1 and isinstance(st.targets[0], ast.Name) and isinstance(st.value, ast.Constant):
            out[st.targets[0].id] = st.value.value
    return out


def _oid_arcs(text):
    parts = text.split(".")
    if not parts or not all(p.isdigit() for p in parts):
        raise Unsupported(f"not a dotted OID: {text!r}")
    return "[" + ", ".join(str(int(p)) for p in parts) + "]"


def rprog(fn, clsnode, tree):
    body = [st for st in fn.body if not (isinstance(st, ast.Expr) and isinstance(st.value, ast.Constant))]
    params = [a.arg for a in fn.args.args]
    if params[:1] != ["cls"] or len(params) < 2 or params[1] not in ("reader", "data") or params[2:] not in ([], ["header"]):
        raise Unsupported(f"unpack parameters {params}")
    tag_classes, _ = _tag_classes()
    type_tags = _enum_values("_asn1.py", "TypeTagNumber")
    st_ = {"rd": params[1] if params[1] == "reader" else None, "data": params[1] if params[1] == "data" else None,
           "tags": {}, "alias": {"header.tag": "header.tag"}, "set_readers": {}}

    def use_header(call, allowed=("header", "hint")):
        """True when the call passes header=header; other keywords must be `hint` (diagnostics only)"""
        used = False
        for kw in call.keywords:
            if kw.arg not in allowed:
                raise Unsupported(f"keyword {kw.arg} in {ast.unparse(call)[:60]}")
            if kw.arg == "header":
                if ast.unparse(kw.value) != "header":
                    raise Unsupported(f"header={ast.unparse(kw.value)}")
                used = True
        return used

    def tag_of(node):
        if isinstance(node, ast.Name) and node.id in st_["tags"]:
            return st_["tags"][node.id]
        return _asn1_tag(node, clsnode)

    def header_test(test):
        """`<header.tag>.tag_class == TagClass.X and <header.tag>.tag_number == <number>` → (cls, num)"""
        if not (isinstance(test, ast.BoolOp) and isinstance(test.op, ast.And) and len(test.values) == 2):
            raise Unsupported(f"condition {ast.unparse(test)[:60]}")
        vals = {}
        for cmp_ in test.values:
            if not (isinstance(cmp_, ast.Compare) and len(cmp_.ops) == 1 and isinstance(cmp_.ops[0], ast.Eq)):
                raise Unsupported(f"condition {ast.unparse(cmp_)[:60]}")
            left, right = ast.unparse(cmp_.left), ast.unparse(cmp_.comparators[0])
            base, _, attr = left.rpartition(".")
            if st_["alias"].get(base) != "header.tag" or attr not in ("tag_class", "tag_number") or attr in vals:
                raise Unsupported(f"condition on {left}")
            if attr == "tag_class":
                if not right.startswith("TagClass.") or right[9:] not in tag_classes:
                    raise Unsupported(f"tag class {right}")
                vals[attr] = tag_classes[right[9:]]
            else:
                if right.startswith("TypeTagNumber.") and right[14:] in type_tags:
                    vals[attr] = type_tags[right[14:]]
                elif right.endswith(".choice") and right.count(".") == 1:
                    vals[attr] = _field_default(_class_node(tree, right[:-7]), "choice")
                elif right.isdigit():
                    vals[attr] = int(right)
                else:
                    raise Unsupported(f"tag number {right}")
        if set(vals) != {"tag_class", "tag_number"}:
            raise Unsupported(f"condition {ast.unparse(test)[:60]}")
        return vals["tag_class"], vals["tag_number"]

    def err_of(raise_st):
        if not (isinstance(raise_st, ast.Raise) and isinstance(raise_st.exc, ast.Call) and ast.unparse(raise_st.exc.func) in _ERRS):
            raise Unsupported(f"raise form {ast.unparse(raise_st)[:60]}")
        return _ERRS[ast.unparse(raise_st.exc.func)]

    def enter_chain(value):
        """<reader | ASN1Reader(data)>.read_sequence(...)[.read_sequence()…] → [useHdr, …] or None"""
        flags = []
        node = value
        while isinstance(node, ast.Call) and isinstance(node.func, ast.Attribute) and node.func.attr == "read_sequence":
            if node.args:
                raise Unsupported("positional argument to read_sequence")
            flags.append(use_header(node))
            node = node.func.value
        if not flags:
            return None
        if isinstance(node, ast.Name) and node.id == st_["rd"]:
            pass
        elif st_["rd"] is None and ast.unparse(node) == f"ASN1Reader({st_['data']})":
            pass
        else:
            raise Unsupported(f"read_sequence on {ast.unparse(node)[:40]}")
        return list(reversed(flags))

    def stmts(sts, top):
        ops, ret, i = [], None, 0
        while i < len(sts):
            st = sts[i]
            last = top and i == len(sts) - 1
            if isinstance(st, ast.AnnAssign) and isinstance(st.target, ast.Name) and st.value is not None:
                st = ast.Assign(targets=[st.target], value=st.value)
            if isinstance(st, ast.Assign) and len(st.targets) == 1 and isinstance(st.targets[0], ast.Name):
                x, v = st.targets[0].id, st.value
                chain = enter_chain(v)
                if chain is not None:
                    if x != (st_["rd"] or "reader"):
                        raise Unsupported(f"sub-reader bound to {x}")
                    st_["rd"] = x
                    ops += [f".enter {'true' if f else 'false'}" for f in chain]
                elif isinstance(v, ast.Constant) and v.value is None:
                    ops.append(f'.setNone "{x}"')
                elif isinstance(v, ast.Call) and ast.unparse(v.func) == "ASN1Tag":
                    st_["tags"][x] = _asn1_tag(v, clsnode)
                elif ast.unparse(v) == "header.tag":
                    st_["alias"][x] = "header.tag"
                elif isinstance(v, ast.List) and not v.elts:
                    # `xs = []`, `r = reader.read_set_of(...)`, `while r: info = Cls.unpack(r); xs.append(info)`
                    if i + 2 >= len(sts):
                        raise Unsupported("list initialisation without the set loop")
                    a, w = sts[i + 1], sts[i + 2]
                    if not (isinstance(a, ast.Assign) and len(a.targets) == 1 and isinstance(a.targets[0], ast.Name) and isinstance(a.value, ast.Call)
                            and isinstance(a.value.func, ast.Attribute) and a.value.func.attr in ("read_set_of", "read_set")
                            and isinstance(a.value.func.value, ast.Name) and a.value.func.value.id == st_["rd"] and not a.value.args):
                        raise Unsupported(f"expected `r = reader.read_set_of()`, got {ast.unparse(a)[:60]}")
                    use_header(a.value, allowed=("hint",))
                    r2 = a.targets[0].id
                    if not (isinstance(w, ast.While) and isinstance(w.test, ast.Name) and w.test.id == r2 and not w.orelse and len(w.body) == 2):
                        raise Unsupported(f"expected `while {r2}:` with two statements")
                    b0, b1 = w.body
                    if not (isinstance(b0, ast.Assign) and len(b0.targets) == 1 and isinstance(b0.targets[0], ast.Name) and isinstance(b0.value, ast.Call)
                            and isinstance(b0.value.func, ast.Attribute) and b0.value.func.attr == "unpack" and isinstance(b0.value.func.value, ast.Name)
                            and [ast.unparse(z) for z in b0.value.args] == [r2] and not b0.value.keywords
                            and ast.unparse(b1) == f"{x}.append({b0.targets[0].id})"):
                        raise Unsupported(f"loop body {ast.unparse(w.body[0])[:50]}; {ast.unparse(w.body[1])[:50]}")
                    ops.append(f'.setOfLoop "{x}" "{b0.value.func.value.id}"')
                    i += 2
                elif isinstance(v, ast.Call) and isinstance(v.func, ast.Attribute) and isinstance(v.func.value, ast.Name):
                    recv, meth = v.func.value.id, v.func.attr
                    if recv == st_["rd"] and meth == "peek_header" and not v.args and not v.keywords:
                        if x != "header":
                            raise Unsupported(f"peeked header bound to {x}")
                        ops.append(".peek")
                    elif recv == st_["rd"] and meth == "get_remaining_data" and not v.args and not v.keywords:
                        ops.append(f'.remaining "{x}"')
                    elif recv == st_["rd"] and meth in _READ_OPS:
                        op = _READ_OPS[meth]
                        if op == "readOctets":
                            tags = list(v.args) + [kw.value for kw in v.keywords if kw.arg == "tag"]
                            if len(tags) > 1 or any(kw.arg not in ("tag", "hint") for kw in v.keywords):
                                raise Unsupported(f"arguments of {ast.unparse(v)[:60]}")
                            ops.append(f'.readOctets "{x}" {tag_of(tags[0]) if tags else "none"}')
                        elif op == "readGenTime":
                            if v.args:
                                raise Unsupported(f"arguments of {ast.unparse(v)[:60]}")
                            ops.append(f'.readGenTime "{x}" {"true" if use_header(v) else "false"}')
                        else:
                            if v.args or use_header(v, allowed=("hint",)):
                                raise Unsupported(f"arguments of {ast.unparse(v)[:60]}")
                            ops.append(f'.{op} "{x}"')
                    elif meth == "unpack" and [ast.unparse(z) for z in v.args] == [st_["rd"]]:
                        ops.append(f'.sub "{x}" "{recv}" {"true" if use_header(v, allowed=("header",)) else "false"}')
                    else:
                        raise Unsupported(f"statement {ast.unparse(st)[:60]}")
                else:
                    raise Unsupported(f"statement {ast.unparse(st)[:60]}")
            elif isinstance(st, ast.If):
                t = st.test
                if isinstance(t, ast.Name) and t.id == st_["rd"] and not st.orelse:
                    b, r = stmts(st.body, False)
                    ops.append(f'.ifMore [{", ".join(b)}]')
                elif (isinstance(t, ast.Compare) and len(t.ops) == 1 and isinstance(t.ops[0], ast.NotEq) and isinstance(t.left, ast.Name)
                      and isinstance(t.comparators[0], ast.Constant) and isinstance(t.comparators[0].value, int) and not st.orelse and len(st.body) == 1):
                    ops.append(f'.requireInt "{t.left.id}" {t.comparators[0].value} {err_of(st.body[0])}')
                elif top and i == len(sts) - 2 and not st.orelse and len(st.body) == 1 and isinstance(st.body[0], ast.Return):
                    # `if <header test>: return Target.unpack(reader, header=header)` followed by `raise Err(...)`
                    c, n = header_test(t)
                    rv = st.body[0].value
                    if not (isinstance(rv, ast.Call) and isinstance(rv.func, ast.Attribute) and rv.func.attr == "unpack" and isinstance(rv.func.value, ast.Name)
                            and [ast.unparse(z) for z in rv.args] == [st_["rd"]] and use_header(rv, allowed=("header",))):
                        raise Unsupported(f"dispatch {ast.unparse(rv)[:60]}")
                    ret = f'.dispatch {c} {n} "{rv.func.value.id}" {err_of(sts[i + 1])}'
                    i += 1
                elif last and len(st.body) == 1 and isinstance(st.body[0], ast.Return) and len(st.orelse) == 1:
                    # `if x == <const> and y == "<text>": return Cls(value)` `else: raise Err(...)`
                    conds = []
                    for cmp_ in (t.values if isinstance(t, ast.BoolOp) and isinstance(t.op, ast.And) else [t]):
                        if not (isinstance(cmp_, ast.Compare) and len(cmp_.ops) == 1 and isinstance(cmp_.ops[0], ast.Eq) and isinstance(cmp_.left, ast.Name)):
                            raise Unsupported(f"condition {ast.unparse(cmp_)[:60]}")
                        rhs = cmp_.comparators[0]
                        if isinstance(rhs, ast.Constant) and isinstance(rhs.value, str):
                            conds.append(f'.textIs "{cmp_.left.id}" [{", ".join(str(b) for b in rhs.value.encode("utf-8"))}]')
                        else:
                            parts = ast.unparse(rhs).split(".")
                            if len(parts) != 3 or parts[2] != "value":
                                raise Unsupported(f"comparison with {ast.unparse(rhs)[:40]}")
                            members = {s_.targets[0].id: s_.value.value for s_ in _class_node(tree, parts[0]).body
                                       if isinstance(s_, ast.Assign) and isinstance(s_.targets[0], ast.Name) and isinstance(s_.value, ast.Constant)}
                            conds.append(f'.oidIs "{cmp_.left.id}" {_oid_arcs(members[parts[1]])}')
                    rv = st.body[0].value
                    if not (isinstance(rv, ast.Call) and len(rv.args) == 1 and isinstance(rv.args[0], ast.Name) and not rv.keywords):
                        raise Unsupported(f"return {ast.unparse(rv)[:60]}")
                    ret = f'.guarded [{", ".join(conds)}] "{rv.args[0].id}" {err_of(st.orelse[0])}'
                elif not st.orelse:
                    c, n = header_test(t)
                    b, r = stmts(st.body, False)
                    ops.append(f'.ifHeader {c} {n} [{", ".join(b)}]')
                else:
                    raise Unsupported(f"if statement {ast.unparse(t)[:60]}")
            elif isinstance(st, ast.Return) and last:
                rv = st.value
                if not (isinstance(rv, ast.Call) and isinstance(rv.func, ast.Name)):
                    raise Unsupported(f"return {ast.unparse(st)[:60]}")
                target = _class_node(tree, rv.func.id)
                order = [f.target.id for f in target.body if isinstance(f, ast.AnnAssign) and isinstance(f.target, ast.Name)
                         and not (isinstance(f.value, ast.Call) and any(kw.arg == "init" and isinstance(kw.value, ast.Constant) and kw.value.value is False for kw in f.value.keywords))
                         and "ClassVar" not in ast.unparse(f.annotation)]
                pairs = []
                for j, a in enumerate(rv.args):
                    if not isinstance(a, ast.Name) or j >= len(order):
                        raise Unsupported(f"constructor argument {ast.unparse(a)[:40]}")
                    pairs.append((order[j], a.id))
                for kw in rv.keywords:
                    if not isinstance(kw.value, ast.Name) or kw.arg is None:
                        raise Unsupported(f"constructor keyword {kw.arg}")
                    pairs.append((kw.arg, kw.value.id))
                ret = ".build [" + ", ".join(f'("{k}", "{x}")' for k, x in pairs) + "]"
            else:
                raise Unsupported(f"statement {ast.unparse(st)[:60]}")
            i += 1
        return ops, ret
    ops, ret = stmts(body, True)
    if ret is None:
        raise Unsupported("no return statement of a known form at the end")
    return ops, ret


def generate_rprog(k: dict) -> dict:
    path = os.path.join(SRC, k["file"])
    out = {"name": k["name"], "file": k["file"], "func": k["func"]}
    try:
        tree = ast.parse(open(path).read())
        fn = find_function(tree, k["func"])
        out["line"] = fn.lineno
        ops, ret = rprog(fn, _class_node(tree, k["func"].split(".")[0]), tree)
        out["python"] = f"{k['func']}: reader program of {len(ops)} top-level statement(s)"
    except (Unsupported, OSError, SyntaxError, ValueError, LookupError) as e:
        out["status"] = "unsupported"
        out["reason"] = f"{type(e).__name__}: {e}"
        p = os.path.join(GEN_DIR, k["name"] + ".lean")
        if os.path.exists(p):
            os.remove(p)
        return out
    name = k["name"]
    body = "([" + ", ".join(ops) + "],\n   " + ret + ")"
    lean = f"""-- GENERATED by harness/extract.py from src/dpapi_ng/{k['file']}:{out['line']} ({k['func']}) — do not edit.
import DpapiNg.Proofs.RProg
namespace DpapiNg.Gen
open DpapiNg DpapiNg.RProg

def {name} : List Op × Ret :=
  {body}

theorem {name}_eq : {name} = {k['model']} := by
  rfl

end DpapiNg.Gen
"""
    os.makedirs(GEN_DIR, exist_ok=True)
    p = os.path.join(GEN_DIR, name + ".lean")
    old = open(p).read() if os.path.exists(p) else None
    if old != lean:
        with open(p, "w") as f:
            f.write(lean)
    out.update(status="generated", lean_path=p, lean_def=body.replace("\n   ", " "), module=f"DpapiNg.Gen.{name}", sha=hashlib.sha256(lean.encode()).hexdigest()[:16])
    return out


# ---------------------------------------------------------------------------------------------
# Function layouts: a module-level function `def f(params): <locals>; return b"".join([...])` (ace_to_bytes, acl_to_bytes) is
# translated into a `List Layout.Item` over its parameters: `x = g(param)` is the bytes-valued local `call:g:param`,
# `x = b"".join(param)` is `join:param`, `len(param)` of a list parameter is the integer `count:param`.
def FL(name, props, file, func, model):
    return dict(name=name, props=props, file=file, func=func, kind="flayout", loc=("flayout",), model=model,
                imports=["Proofs.Layout"], typ="List Layout.Item")


KERNELS += [
    FL("LayoutAce", ["C08"], "_security_descriptor.py", "ace_to_bytes", "SecDesc.aceLayout"),
    FL("LayoutAcl", ["C08"], "_security_descriptor.py", "acl_to_bytes", "SecDesc.aclLayout"),
]


def flayout_items(fn):
    body = [st for st in fn.body if not (isinstance(st, ast.Expr) and isinstance(st.value, ast.Constant))]
    params = {a.arg: ast.unparse(a.annotation) if a.annotation is not None else "" for a in fn.args.args}
    locs = {}
    for st in body[:-1]:
        if not (isinstance(st, ast.Assign) and len(st.targets) == 1 and isinstance(st.targets[0], ast.Name) and isinstance(st.value, ast.Call)):
            raise Unsupported(f"statement before the join: {ast.unparse(st)[:60]}")
        v = st.value
        if isinstance(v.func, ast.Name) and len(v.args) == 1 and not v.keywords and isinstance(v.args[0], ast.Name) and v.args[0].id in params:
            locs[st.targets[0].id] = f"call:{v.func.id}:{v.args[0].id}"
        elif ast.unparse(v.func) == "b''.join" and len(v.args) == 1 and isinstance(v.args[0], ast.Name) and v.args[0].id in params:
            locs[st.targets[0].id] = f"join:{v.args[0].id}"
        else:
            raise Unsupported(f"local {ast.unparse(st)[:60]}")
    ret = body[-1]
    if not (isinstance(ret, ast.Return) and isinstance(ret.value, ast.Call) and ast.unparse(ret.value.func) == "b''.join"
            and len(ret.value.args) == 1 and isinstance(ret.value.args[0], ast.List)):
        raise Unsupported("function is not `return b''.join([...])`")

    def width(call):
        kws = {k.arg: k.value for k in call.keywords}
        if len(call.args) == 1 and set(kws) == {"byteorder"} and isinstance(kws["byteorder"], ast.Constant) and kws["byteorder"].value == "little" \
                and isinstance(call.args[0], ast.Constant) and isinstance(call.args[0].value, int):
            return call.args[0].value
        raise Unsupported(f"to_bytes form {ast.unparse(call)[:60]}")

    def bytes_ref(node):
        if isinstance(node, ast.Name) and node.id in locs:
            return locs[node.id]
        if isinstance(node, ast.Name) and node.id in params and "bytes" in params[node.id] and "List" not in params[node.id]:
            return node.id
        raise Unsupported(f"bytes reference {ast.unparse(node)[:40]}")

    def len_arg(node):
        if isinstance(node, ast.Call) and ast.unparse(node.func) == "len" and len(node.args) == 1 and not node.keywords:
            return node.args[0]
        return None
    items = []
    for e in ret.value.args[0].elts:
        if isinstance(e, ast.Constant) and isinstance(e.value, bytes):
            items.append(".const [" + ", ".join(str(b) for b in e.value) + "]")
        elif isinstance(e, ast.Call) and isinstance(e.func, ast.Attribute) and e.func.attr == "to_bytes":
            w = width(e)
            tgt = e.func.value
            la = len_arg(tgt)
            if la is not None:
                if isinstance(la, ast.Name) and la.id in params and "List" in params[la.id]:
                    items.append(f'.int "count:{la.id}" {w}')
                else:
                    items.append(f'.lenOf "{bytes_ref(la)}" {w}')
            elif isinstance(tgt, ast.BinOp) and isinstance(tgt.op, ast.Add) and isinstance(tgt.left, ast.Constant) and isinstance(tgt.left.value, int) \
                    and tgt.left.value >= 0 and len_arg(tgt.right) is not None:
                items.append(f'.lenPlus {tgt.left.value} "{bytes_ref(len_arg(tgt.right))}" {w}')
            elif isinstance(tgt, ast.Name) and tgt.id in params and params[tgt.id] == "int":
                items.append(f'.int "{tgt.id}" {w}')
            else:
                raise Unsupported(f"integer item {ast.unparse(tgt)[:50]}")
        else:
            items.append(f'.bytes "{bytes_ref(e)}"')
    return items


def generate_flayout(k: dict) -> dict:
    path = os.path.join(SRC, k["file"])
    out = {"name": k["name"], "file": k["file"], "func": k["func"]}
    try:
        tree = ast.parse(open(path).read())
        fn = find_function(tree, k["func"])
        out["line"] = fn.lineno
        items = flayout_items(fn)
        out["python"] = f"{k['func']}: b''.join of {len(items)} items"
    except (Unsupported, OSError, SyntaxError, ValueError, LookupError) as e:
        out["status"] = "unsupported"
        out["reason"] = f"{type(e).__name__}: {e}"
        p = os.path.join(GEN_DIR, k["name"] + ".lean")
        if os.path.exists(p):
            os.remove(p)
        return out
    name = k["name"]
    body = "[" + ", ".join(items) + "]"
    lean = f"""-- GENERATED by harness/extract.py from src/dpapi_ng/{k['file']}:{out['line']} ({k['func']}) — do not edit.
import DpapiNg.Proofs.Layout
namespace DpapiNg.Gen
open DpapiNg DpapiNg.Layout

def {name} : List Item :=
  {body}

theorem {name}_eq : {name} = {k['model']} := by
  rfl

end DpapiNg.Gen
"""
    os.makedirs(GEN_DIR, exist_ok=True)
    p = os.path.join(GEN_DIR, name + ".lean")
    old = open(p).read() if os.path.exists(p) else None
    if old != lean:
        with open(p, "w") as f:
            f.write(lean)
    out.update(status="generated", lean_path=p, lean_def=body, module=f"DpapiNg.Gen.{name}", sha=hashlib.sha256(lean.encode()).hexdigest()[:16])
    return out


# ---------------------------------------------------------------------------------------------
# Third-party call shapes: the arguments a `_crypto.py` wrapper hands to `cryptography` (which the model abstracts as a parameter of
# `Crypto`) are regenerated as a sorted (argument, source expression) table: positional `#i`, keywords by name, `local:x` for the
# expression a passed-on local was assigned from, `return` for the returned expression when it is not the call itself.
def CK(name, props, func, callee, model, with_return=False, file="_crypto.py", index=None):
    return dict(name=name, props=props, file=file, func=func, kind="callkw", loc=("callkw", callee), model=model, callee=callee,
                with_return=with_return, index=index, imports=["Model.Crypto"], typ="List (String × String)")


KERNELS += [
    CK("CallKbkdf", ["C02", "C03"], "kdf", "KBKDFHMAC", "CryptoCalls.kbkdf", with_return=True),
    CK("CallConcatKdf", ["C03"], "kdf_concat", "ConcatKDFHash", "CryptoCalls.concatKdf", with_return=True),
    CK("CallCekGenerateKey", ["C19", "C01"], "cek_generate", "AESGCM.generate_key", "CryptoCalls.cekGenerateKey"),
    CK("CallCekGenerateNonce", ["C19", "C01"], "cek_generate", "os.urandom", "CryptoCalls.cekGenerateNonce"),
    CK("CallGcmDecrypt", ["C04", "C01"], "content_decrypt", "cipher.decrypt", "CryptoCalls.gcmDecrypt"),
    CK("CallGcmEncrypt", ["C01", "C19"], "content_encrypt", "cipher.encrypt", "CryptoCalls.gcmEncrypt"),
    CK("CallKeyUnwrap", ["C04", "C01"], "cek_decrypt", "keywrap.aes_key_unwrap", "CryptoCalls.keyUnwrap"),
    CK("CallKeyWrap", ["C01"], "cek_encrypt", "keywrap.aes_key_wrap", "CryptoCalls.keyWrap"),
    # the key-derivation calls of the MS-GKDI chain: which key feeds which step, under which context
    CK("CallL1Seed", ["C02"], "compute_l1_key", "kdf", "CryptoCalls.l1Seed", file="_gkdi.py", index=0),
    CK("CallL1Key", ["C02"], "compute_l1_key", "kdf", "CryptoCalls.l1Key", file="_gkdi.py", index=1),
    CK("CallL2WalkL1", ["C02"], "compute_l2_key", "kdf", "CryptoCalls.l2WalkL1", file="_gkdi.py", index=0),
    CK("CallL2Reseed", ["C02"], "compute_l2_key", "kdf", "CryptoCalls.l2Reseed", file="_gkdi.py", index=1),
    CK("CallL2WalkL2", ["C02"], "compute_l2_key", "kdf", "CryptoCalls.l2WalkL2", file="_gkdi.py", index=2),
    # the seed envelope KeyCache builds from a loaded root key: position (31, 31), the L1 key of index 31, NO L2 key
    CK("CallRootEnvelope", ["C10", "C02"], "KeyCache._get_key", "GroupKeyEnvelope", "CryptoCalls.rootEnvelope", file="_client.py"),
    CK("CallRootL1", ["C10", "C02"], "KeyCache._get_key", "compute_l1_key", "CryptoCalls.rootL1", file="_client.py"),
]

# endpoint-mapper floors and verification-trailer commands (Proofs/WireTables.lean): the raw floor's layout, the protocol / command numbers,
# which number each known class carries, and what each known floor hands to `Floor(...)`
_WT = ["Proofs.WireTables"]
KERNELS += [
    dict(L("LayoutFloor", ["C12", "C18"], "_epm.py", "Floor", "Epm.floorLayout"), imports=_WT),
    C("ConstFloorTcp", ["C12", "C18"], "_epm.py", "FloorProtocol", "TCP", "int", "Epm.protoTcp", _WT),
    C("ConstFloorIp", ["C12", "C18"], "_epm.py", "FloorProtocol", "IP", "int", "Epm.protoIp", _WT),
    C("ConstFloorRpcCo", ["C12", "C18"], "_epm.py", "FloorProtocol", "RPC_CONNECTION_ORIENTED", "int", "Epm.protoRpcCo", _WT),
    C("ConstFloorUuid", ["C12", "C18"], "_epm.py", "FloorProtocol", "UUID_ID", "int", "Epm.protoUuid", _WT),
    C("ConstTcpFloorProtocol", ["C12", "C18"], "_epm.py", "TCPFloor", "protocol", "member", "Epm.tcpFloorProtocol", _WT),
    C("ConstIpFloorProtocol", ["C12", "C18"], "_epm.py", "IPFloor", "protocol", "member", "Epm.ipFloorProtocol", _WT),
    C("ConstRpcCoFloorProtocol", ["C12", "C18"], "_epm.py", "RPCConnectionOrientedFloor", "protocol", "member", "Epm.rpcCoFloorProtocol", _WT),
    C("ConstUuidFloorProtocol", ["C12", "C18"], "_epm.py", "UUIDFloor", "protocol", "member", "Epm.uuidFloorProtocol", _WT),
    dict(CK("CallFloorTcp", ["C12", "C18"], "TCPFloor.pack", "Floor", "Epm.tcpFloorCall", file="_epm.py"), imports=_WT),
    dict(CK("CallFloorIp", ["C12", "C18"], "IPFloor.pack", "Floor", "Epm.ipFloorCall", file="_epm.py"), imports=_WT),
    dict(CK("CallFloorRpcCo", ["C12", "C18"], "RPCConnectionOrientedFloor.pack", "Floor", "Epm.rpcCoFloorCall", file="_epm.py"), imports=_WT),
    dict(CK("CallFloorUuid", ["C12", "C18"], "UUIDFloor.pack", "Floor", "Epm.uuidFloorCall", file="_epm.py"), imports=_WT),
    C("ConstCmdBitmask1", ["C12", "C13"], "_rpc/_verification.py", "CommandType", "SEC_VT_COMMAND_BITMASK_1", "int", "Rpc.cmdBitmask1", _WT),
    C("ConstCmdPContext", ["C12", "C13"], "_rpc/_verification.py", "CommandType", "SEC_VT_COMMAND_PCONTEXT", "int", "Rpc.cmdPContext", _WT),
    C("ConstCmdHeader2", ["C12", "C13"], "_rpc/_verification.py", "CommandType", "SEC_VT_COMMAND_HEADER2", "int", "Rpc.cmdHeader2", _WT),
    C("ConstCmdFlagEnd", ["C12", "C13"], "_rpc/_verification.py", "CommandFlags", "SEC_VT_COMMAND_END", "int", "Rpc.cmdFlagEnd", _WT),
    C("ConstCmdFlagMustProcess", ["C12", "C13"], "_rpc/_verification.py", "CommandFlags", "SEC_VT_MUST_PROCESS_COMMAND", "int", "Rpc.cmdFlagMustProcess", _WT),
    C("ConstBitmaskCommand", ["C12", "C13"], "_rpc/_verification.py", "CommandBitmask", "command", "member", "Rpc.bitmaskCommand", _WT),
    C("ConstPContextCommand", ["C12", "C13"], "_rpc/_verification.py", "CommandPContext", "command", "member", "Rpc.pcontextCommand", _WT),
    C("ConstHeader2Command", ["C12", "C13"], "_rpc/_verification.py", "CommandHeader2", "command", "member", "Rpc.header2Command", _WT),
    C("ConstVtSignature", ["C12", "C13"], "_rpc/_verification.py", "VerificationTrailer", "signature", "bytes", "Rpc.vtSignature", ["Model.Rpc"]),
]


def callkw_table(fn, callee, with_return, index=None):
    calls = sorted((n for n in ast.walk(fn) if isinstance(n, ast.Call) and ast.unparse(n.func) == callee), key=lambda x: (x.lineno, x.col_offset))
    if index is None:
        if len(calls) != 1:
            raise Unsupported(f"{len(calls)} calls to {callee}")
        call = calls[0]
    else:
        if len(calls) <= index:
            raise Unsupported(f"call #{index} to {callee} not found ({len(calls)} calls)")
        call = calls[index]
        # the table also records how many such calls the function makes
        return sorted([(f"#{i}", ast.unparse(a)) for i, a in enumerate(call.args)] + [(kw.arg, ast.unparse(kw.value)) for kw in call.keywords]
                      + [("calls", str(len(calls)))])
    rows = [(f"#{i}", ast.unparse(a)) for i, a in enumerate(call.args)]
    for kw in call.keywords:
        if kw.arg is None:
            raise Unsupported("**kwargs")
        rows.append((kw.arg, ast.unparse(kw.value)))
    names = {n.id for a in list(call.args) + [kw.value for kw in call.keywords] for n in ast.walk(a) if isinstance(n, ast.Name)}
    if isinstance(call.func, ast.Attribute) and isinstance(call.func.value, ast.Name):
        names.add(call.func.value.id)
    params = {a.arg for a in fn.args.args}
    for st in ast.walk(fn):
        if isinstance(st, ast.Assign) and len(st.targets) == 1 and isinstance(st.targets[0], ast.Name) and st.targets[0].id in names - params \
                and st.value is not call:
            rows.append((f"local:{st.targets[0].id}", ast.unparse(st.value)))
    if with_return:
        rets = [n for n in ast.walk(fn) if isinstance(n, ast.Return)]
        if len(rets) != 1 or rets[0].value is None:
            raise Unsupported("return statements")
        rows.append(("return", ast.unparse(rets[0].value)))
    for k_, v_ in rows:
        if not all(32 <= ord(ch) < 127 for ch in k_ + v_):
            raise Unsupported("non-ASCII source text")
    return sorted(rows)


def generate_callkw(k: dict) -> dict:
    path = os.path.join(SRC, k["file"])
    out = {"name": k["name"], "file": k["file"], "func": k["func"]}
    try:
        tree = ast.parse(open(path).read())
        fn = find_function(tree, k["func"])
        out["line"] = fn.lineno
        rows = callkw_table(fn, k["callee"], k["with_return"], k.get("index"))
        out["python"] = f"{k['func']}: call to {k['callee']} with {len(rows)} recorded argument(s)"
    except (Unsupported, OSError, SyntaxError, ValueError, LookupError) as e:
        out["status"] = "unsupported"
        out["reason"] = f"{type(e).__name__}: {e}"
        p = os.path.join(GEN_DIR, k["name"] + ".lean")
        if os.path.exists(p):
            os.remove(p)
        return out
    name = k["name"]
    q = lambda t: '"' + t.replace("\\", "\\\\").replace('"', '\\"') + '"'
    body = "[" + ", ".join(f"({q(a)}, {q(b)})" for a, b in rows) + "]"
    lean = f"""-- GENERATED by harness/extract.py from src/dpapi_ng/{k['file']}:{out['line']} ({k['func']}) — do not edit.
{chr(10).join("import DpapiNg." + m for m in k["imports"])}
namespace DpapiNg.Gen
open DpapiNg

def {name} : List (String × String) :=
  {body}

theorem {name}_eq : {name} = {k['model']} := by
  rfl

end DpapiNg.Gen
"""
    os.makedirs(GEN_DIR, exist_ok=True)
    p = os.path.join(GEN_DIR, name + ".lean")
    old = open(p).read() if os.path.exists(p) else None
    if old != lean:
        with open(p, "w") as f:
            f.write(lean)
    out.update(status="generated", lean_path=p, lean_def=body, module=f"DpapiNg.Gen.{name}", sha=hashlib.sha256(lean.encode()).hexdigest()[:16])
    return out


# ---------------------------------------------------------------------------------------------
# Pack plan of DPAPINGBlob.pack: `x = Cls(kw=<expr>, …)` bindings (nested constructor calls, `self.f`, `self.f.pack()`, class OID
# constants, integer literals, lists, `a if blob_in_envelope else b`), `writer = ASN1Writer(); x.pack(writer)` rounds and the final
# `b"".join([...])` become a `List BPlan.Step × List BPlan.CExpr`; the dataclass schemas (init fields in declaration order) of the CMS
# classes are regenerated as a table.  `Proofs/BPlan.lean` proves `Blob.blobPack` is the interpretation of the plan.
KERNELS += [
    dict(name="BPlanBlob", props=["C06", "C01"], file="_blob.py", func="DPAPINGBlob.pack", kind="bplan", loc=("bplan",), model="Blob.blobPackPlan",
         imports=["Proofs.BPlan"], typ="List BPlan.Step × List BPlan.CExpr"),
    dict(name="BPlanSchema", props=["C06"], file="_pkcs7.py", func="", kind="bschema", loc=("bschema",), model="Blob.schemaTable",
         imports=["Proofs.BPlan"], typ="List (String × List String)"),
]
_CMS_CLASSES = ["AlgorithmIdentifier", "ContentInfo", "EncryptedContentInfo", "EnvelopedData", "KEKIdentifier", "KEKRecipientInfo", "OtherKeyAttribute"]


def _init_fields(clsnode):
    out = []
    for f in clsnode.body:
        if isinstance(f, ast.AnnAssign) and isinstance(f.target, ast.Name) and "ClassVar" not in ast.unparse(f.annotation):
            if isinstance(f.value, ast.Call) and any(kw.arg == "init" and isinstance(kw.value, ast.Constant) and kw.value.value is False for kw in f.value.keywords):
                continue
            out.append(f.target.id)
    return out


def _class_consts(tree):
    """ClassName.CONST → dotted-OID string constants of every class in a module"""
    out = {}
    for n in tree.body:
        if isinstance(n, ast.ClassDef):
            for st in n.body:
                if isinstance(st, ast.Assign) and len(st.targets) == 1 and isinstance(st.targets[0], ast.Name) and isinstance(st.value, ast.Constant) \
                        and isinstance(st.value.value, str):
                    out[f"{n.name}.{st.targets[0].id}"] = st.value.value
    return out


def bplan(fn, blob_tree, cms_tree):
    body = [st for st in fn.body if not (isinstance(st, ast.Expr) and isinstance(st.value, ast.Constant))]
    params = [a.arg for a in fn.args.args]
    if params != ["self", "blob_in_envelope"]:
        raise Unsupported(f"pack parameters {params}")
    consts = dict(_class_consts(cms_tree), **_class_consts(blob_tree))
    classes = {n.name: n for n in cms_tree.body if isinstance(n, ast.ClassDef)}
    var_cls, last_packed = {}, [None]

    def expr(e):
        t = ast.unparse(e)
        if isinstance(e, ast.Constant) and isinstance(e.value, int) and not isinstance(e.value, bool):
            return f".int {e.value}" if e.value >= 0 else f".int ({e.value})"
        if isinstance(e, ast.Constant) and e.value == b"":
            return ".emptyBytes"
        if t in consts:
            return f".oid {_oid_arcs(consts[t])}"
        if t.startswith("self.") and t.count(".") == 1 and t[5:].isidentifier():
            return f'.field "{t[5:]}"'
        if t.startswith("self.") and t.endswith(".pack()") and t.count(".") == 2:
            return f'.packOf "{t[5:-7]}"'
        if t == "writer.get_data()":
            if last_packed[0] is None:
                raise Unsupported("writer.get_data() before any pack")
            return f'.buf "{last_packed[0]}"'
        if isinstance(e, ast.Name) and e.id in var_cls:
            return f'.var "{e.id}"'
        if isinstance(e, ast.List):
            return ".list [" + ", ".join(expr(x) for x in e.elts) + "]"
        if isinstance(e, ast.IfExp) and ast.unparse(e.test) == "blob_in_envelope":
            return f".ifLayout ({expr(e.body)}) ({expr(e.orelse)})"
        if isinstance(e, ast.Call) and isinstance(e.func, ast.Name) and e.func.id in classes:
            order = _init_fields(classes[e.func.id])
            pairs = []
            for j, a in enumerate(e.args):
                if j >= len(order):
                    raise Unsupported(f"too many positional arguments to {e.func.id}")
                pairs.append((order[j], expr(a)))
            for kw in e.keywords:
                if kw.arg is None or kw.arg not in order or kw.arg in [k for k, _ in pairs]:
                    raise Unsupported(f"keyword {kw.arg} of {e.func.id}")
                pairs.append((kw.arg, expr(kw.value)))
            return f'.obj "{e.func.id}" [' + ", ".join(f'("{k}", {v})' for k, v in pairs) + "]"
        raise Unsupported(f"expression {t[:60]}")
    steps, i = [], 0
    while i < len(body) - 1:
        st = body[i]
        if isinstance(st, ast.Assign) and len(st.targets) == 1 and isinstance(st.targets[0], ast.Name):
            x, v = st.targets[0].id, st.value
            if ast.unparse(v) == "ASN1Writer()" and x == "writer":
                nxt = body[i + 1]
                if isinstance(nxt, ast.Expr) and isinstance(nxt.value, ast.Call) and isinstance(nxt.value.func, ast.Attribute) and nxt.value.func.attr == "pack" \
                        and isinstance(nxt.value.func.value, ast.Name) and nxt.value.func.value.id in var_cls and [ast.unparse(a) for a in nxt.value.args] == ["writer"] \
                        and not nxt.value.keywords:
                    y = nxt.value.func.value.id
                    steps.append(f'.packTo "{y}" "{var_cls[y]}"')
                    last_packed[0] = y
                    i += 2
                    continue
                if last_packed[0] is None and not any("writer" in ast.unparse(b) for b in body[i + 1:i + 2]):
                    i += 1          # a writer that is replaced before anything is written to it
                    continue
                raise Unsupported("writer = ASN1Writer() not followed by <local>.pack(writer)")
            if isinstance(v, ast.Call) and isinstance(v.func, ast.Name) and v.func.id in classes:
                steps.append(f'.bind "{x}" ({expr(v)})')
                var_cls[x] = v.func.id
                i += 1
                continue
        raise Unsupported(f"statement {ast.unparse(st)[:60]}")
    ret = body[-1]
    if not (isinstance(ret, ast.Return) and isinstance(ret.value, ast.Call) and ast.unparse(ret.value.func) == "b''.join"
            and len(ret.value.args) == 1 and isinstance(ret.value.args[0], ast.List)):
        raise Unsupported("pack does not end with `return b''.join([...])`")
    return steps, [expr(e) for e in ret.value.args[0].elts]


def generate_bplan(k: dict) -> dict:
    out = {"name": k["name"], "file": k["file"], "func": k["func"] or "<module>"}
    try:
        blob_tree = ast.parse(open(os.path.join(SRC, "_blob.py")).read())
        cms_tree = ast.parse(open(os.path.join(SRC, "_pkcs7.py")).read())
        if k["kind"] == "bplan":
            fn = find_function(blob_tree, k["func"])
            out["line"] = fn.lineno
            steps, join = bplan(fn, blob_tree, cms_tree)
            body = "([" + ",\n    ".join(steps) + "],\n   [" + ", ".join(join) + "])"
            out["python"] = f"{k['func']}: pack plan of {len(steps)} step(s)"
            typ, opens, tactic = "List Step × List CExpr", "open DpapiNg DpapiNg.BPlan", "rfl"
        else:
            classes = {n.name: n for n in cms_tree.body if isinstance(n, ast.ClassDef)}
            rows = []
            for c in _CMS_CLASSES:
                if c not in classes:
                    raise Unsupported(f"class {c} not found")
                rows.append(f'("{c}", [' + ", ".join(f'"{f}"' for f in _init_fields(classes[c])) + "])")
            body = "[" + ",\n   ".join(rows) + "]"
            out["line"] = 1
            out["python"] = f"dataclass init fields of {len(rows)} CMS classes"
            typ, opens, tactic = "List (String × List String)", "open DpapiNg", "decide"
    except (Unsupported, OSError, SyntaxError, ValueError, LookupError) as e:
        out["status"] = "unsupported"
        out["reason"] = f"{type(e).__name__}: {e}"
        p = os.path.join(GEN_DIR, k["name"] + ".lean")
        if os.path.exists(p):
            os.remove(p)
        return out
    name = k["name"]
    lean = f"""-- GENERATED by harness/extract.py from src/dpapi_ng/{k['file']}:{out['line']} ({out['func']}) — do not edit.
import DpapiNg.Proofs.BPlan
namespace DpapiNg.Gen
{opens}

def {name} : {typ} :=
  {body}

theorem {name}_eq : {name} = {k['model']} := by
  {tactic}

end DpapiNg.Gen
"""
    os.makedirs(GEN_DIR, exist_ok=True)
    p = os.path.join(GEN_DIR, name + ".lean")
    old = open(p).read() if os.path.exists(p) else None
    if old != lean:
        with open(p, "w") as f:
            f.write(lean)
    out.update(status="generated", lean_path=p, lean_def=body.replace("\n    ", " ").replace("\n   ", " "), module=f"DpapiNg.Gen.{name}", sha=hashlib.sha256(lean.encode()).hexdigest()[:16])
    return out


# ---------------------------------------------------------------------------------------------
# Unpack plan of DPAPINGBlob.unpack: the split at the outer ContentInfo, `if a or b …: raise ValueError` rejection tests,
# `x = Cls.unpack(<attribute path>)`, aliases, `e or b""` / `e or remaining_data.tobytes()` fallbacks and the keyword table of the
# final constructor call become a `List UPlan.Step × List (String × UPlan.UExpr)`; `Proofs/UPlan.lean` proves `Blob.blobUnpack` is
# the interpretation of the plan.
KERNELS += [
    dict(name="UPlanBlob", props=["C06", "C05", "C04"], file="_blob.py", func="DPAPINGBlob.unpack", kind="uplan", loc=("uplan",), model="Blob.blobUnpackPlan",
         imports=["Proofs.UPlan"], typ="List UPlan.Step × List (String × UPlan.UExpr)"),
]
_SPLIT = ["view = memoryview(data)", "header = ASN1Reader(view).peek_header()",
          "{x} = ContentInfo.unpack(view[:header.tag_length + header.length], header=header)", "remaining_data = view[header.tag_length + header.length:]"]


def uplan(fn, blob_tree, cms_tree):
    body = [st for st in fn.body if not (isinstance(st, ast.Expr) and isinstance(st.value, ast.Constant))]
    if [a.arg for a in fn.args.args] != ["cls", "data"]:
        raise Unsupported("unpack parameters")
    consts = dict(_class_consts(cms_tree), **_class_consts(blob_tree))

    def ex(e):
        if isinstance(e, ast.Name):
            return f'(.var "{e.id}")'
        if isinstance(e, ast.Attribute):
            return f'(.attr {ex(e.value)} "{e.attr}")'
        if isinstance(e, ast.Subscript) and isinstance(e.slice, ast.Constant) and e.slice.value == 0:
            return f"(.first {ex(e.value)})"
        if isinstance(e, ast.BoolOp) and isinstance(e.op, ast.Or) and len(e.values) == 2:
            rhs = ast.unparse(e.values[1])
            if rhs == "b''":
                return f"(.orEmpty {ex(e.values[0])})"
            if rhs == "remaining_data.tobytes()":
                return f"(.orRest {ex(e.values[0])})"
        raise Unsupported(f"expression {ast.unparse(e)[:60]}")

    def cond(c):
        if isinstance(c, ast.Compare) and len(c.ops) == 1 and isinstance(c.ops[0], ast.NotEq):
            l, r = c.left, c.comparators[0]
            if isinstance(l, ast.Call) and ast.unparse(l.func) == "len" and len(l.args) == 1 and isinstance(r, ast.Constant) and isinstance(r.value, int):
                return f".lenNe {ex(l.args[0])} {r.value}"
            if isinstance(r, ast.Constant) and isinstance(r.value, int) and not isinstance(r.value, bool):
                return f".intNe {ex(l)} {r.value}"
            if ast.unparse(r) in consts:
                return f".oidNe {ex(l)} {_oid_arcs(consts[ast.unparse(r)])}"
        if isinstance(c, ast.UnaryOp) and isinstance(c.op, ast.Not):
            o = c.operand
            if isinstance(o, ast.Call) and ast.unparse(o.func) == "isinstance" and len(o.args) == 2 and isinstance(o.args[1], ast.Name):
                return f'.notInstance {ex(o.args[0])} "{o.args[1].id}"'
            return f".falsy {ex(o)}"
        raise Unsupported(f"condition {ast.unparse(c)[:60]}")
    steps, i = [], 0
    if len(body) >= 4 and isinstance(body[2], ast.Assign) and isinstance(body[2].targets[0], ast.Name):
        x = body[2].targets[0].id
        if [ast.unparse(b) for b in body[:4]] == [t.format(x=x) for t in _SPLIT]:
            steps.append(f'.split "{x}"')
            i = 4
    if not steps:
        raise Unsupported("the function does not start with the split at the outer ContentInfo")
    while i < len(body) - 1:
        st = body[i]
        if isinstance(st, ast.If) and not st.orelse and len(st.body) == 1 and isinstance(st.body[0], ast.Raise) \
                and isinstance(st.body[0].exc, ast.Call) and ast.unparse(st.body[0].exc.func) == "ValueError":
            t = st.test
            conds = t.values if isinstance(t, ast.BoolOp) and isinstance(t.op, ast.Or) else [t]
            steps.append(".reject [" + ", ".join(cond(c) for c in conds) + "]")
        elif isinstance(st, ast.Assign) and len(st.targets) == 1 and isinstance(st.targets[0], ast.Name):
            x, v = st.targets[0].id, st.value
            if isinstance(v, ast.Call) and isinstance(v.func, ast.Attribute) and v.func.attr == "unpack" and isinstance(v.func.value, ast.Name) \
                    and len(v.args) == 1 and not v.keywords:
                steps.append(f'.unpack "{x}" "{v.func.value.id}" {ex(v.args[0])}')
            else:
                steps.append(f'.alias "{x}" {ex(v)}')
        else:
            raise Unsupported(f"statement {ast.unparse(st)[:60]}")
        i += 1
    ret = body[-1]
    if not (isinstance(ret, ast.Return) and isinstance(ret.value, ast.Call) and ast.unparse(ret.value.func) == "DPAPINGBlob" and not ret.value.args):
        raise Unsupported("the function does not end with `return DPAPINGBlob(kw=…)`")
    table = [f'("{kw.arg}", {ex(kw.value)})' for kw in ret.value.keywords]
    return steps, table


def generate_uplan(k: dict) -> dict:
    out = {"name": k["name"], "file": k["file"], "func": k["func"]}
    try:
        blob_tree = ast.parse(open(os.path.join(SRC, "_blob.py")).read())
        cms_tree = ast.parse(open(os.path.join(SRC, "_pkcs7.py")).read())
        fn = find_function(blob_tree, k["func"])
        out["line"] = fn.lineno
        steps, table = uplan(fn, blob_tree, cms_tree)
        out["python"] = f"{k['func']}: unpack plan of {len(steps)} step(s)"
    except (Unsupported, OSError, SyntaxError, ValueError, LookupError) as e:
        out["status"] = "unsupported"
        out["reason"] = f"{type(e).__name__}: {e}"
        p = os.path.join(GEN_DIR, k["name"] + ".lean")
        if os.path.exists(p):
            os.remove(p)
        return out
    name = k["name"]
    body = "([" + ",\n    ".join(steps) + "],\n   [" + ",\n    ".join(table) + "])"
    lean = f"""-- GENERATED by harness/extract.py from src/dpapi_ng/{k['file']}:{out['line']} ({k['func']}) — do not edit.
import DpapiNg.Proofs.UPlan
namespace DpapiNg.Gen
open DpapiNg DpapiNg.UPlan

def {name} : List Step × List (String × UExpr) :=
  {body}

theorem {name}_eq : {name} = {k['model']} := by
  rfl

end DpapiNg.Gen
"""
    os.makedirs(GEN_DIR, exist_ok=True)
    p = os.path.join(GEN_DIR, name + ".lean")
    old = open(p).read() if os.path.exists(p) else None
    if old != lean:
        with open(p, "w") as f:
            f.write(lean)
    out.update(status="generated", lean_path=p, lean_def=body.replace("\n    ", " ").replace("\n   ", " "), module=f"DpapiNg.Gen.{name}", sha=hashlib.sha256(lean.encode()).hexdigest()[:16])
    return out


def register(k: dict) -> None:
    KERNELS.append(k)


def kernels_for(prop: str):
    return [k for k in KERNELS if prop in k["props"]]


def generate(k: dict) -> dict:
    """Returns {name, status: generated|unsupported, reason?, lean_path, source_line, python}."""
    if k.get("kind") == "const":
        return generate_const(k)
    if k.get("kind") == "layout":
        return generate_layout(k)
    if k.get("kind") == "plan":
        return generate_plan(k)
    if k.get("kind") == "fields":
        return generate_fields(k)
    if k.get("kind") == "wprog":
        return generate_wprog(k)
    if k.get("kind") == "rprog":
        return generate_rprog(k)
    if k.get("kind") == "flayout":
        return generate_flayout(k)
    if k.get("kind") == "callkw":
        return generate_callkw(k)
    if k.get("kind") in ("bplan", "bschema"):
        return generate_bplan(k)
    if k.get("kind") == "uplan":
        return generate_uplan(k)
    path = os.path.join(SRC, k["file"])
    out = {"name": k["name"], "file": k["file"], "func": k["func"]}
    try:
        tree = ast.parse(open(path).read())
        fn = find_function(tree, k["func"])
        node = locate(fn, k["loc"])
        if k.get("unwrap_call"):
            if isinstance(node, ast.Call) and ast.unparse(node.func) == k["unwrap_call"] and len(node.args) == 1:
                node = node.args[0]
            else:
                raise Unsupported(f"expected a call to {k['unwrap_call']}")
        out["python"] = ast.unparse(node)
        out["line"] = getattr(node, "lineno", None)
        consts = local_constants(fn)
        consts.update(k.get("consts", {}))
        tr = Tr(dict(k.get("subst", {})), consts, k["typ"])
        kind = k.get("kind", "num")
        body = tr.prop(node) if kind == "prop" else tr.num(node)
    except Unsupported as e:
        out["status"] = "unsupported"
        out["reason"] = str(e)
        # remove a stale generated file so it cannot be built by accident
        p = os.path.join(GEN_DIR, k["name"] + ".lean")
        if os.path.exists(p):
            os.remove(p)
        return out
    except (OSError, SyntaxError) as e:
        out["status"] = "unsupported"
        out["reason"] = f"{type(e).__name__}: {e}"
        return out
    rettype = "Prop" if kind == "prop" else k["typ"]
    name = k["name"]
    imports = "\n".join(f"import DpapiNg.{m}" for m in (k.get("imports", []) + ["Proofs.KernelTac"]))
    unfold = " ".join(k.get("unfold", []))
    rel = "↔" if kind == "prop" else "="
    model = k["model"]
    if kind != "prop" and k["typ"] == "Int" and k.get("model_is_nat", True):
        model = f"((({model}) : Nat) : Int)"
    prem = k.get("premises", "")
    lean = f"""-- GENERATED by harness/extract.py from src/dpapi_ng/{k['file']}:{out['line']} ({k['func']}) — do not edit.
-- python: {out['python']}
{imports}
namespace DpapiNg.Gen
open DpapiNg

def {name} {k['params']} : {rettype} := {body}

theorem {name}_eq {k['obl']} {prem}: {name} {k['call']} {rel} {model} := by
  unfold {name} {unfold}
  {k.get('tactic', 'kernel_tac')}

end DpapiNg.Gen
"""
    os.makedirs(GEN_DIR, exist_ok=True)
    p = os.path.join(GEN_DIR, name + ".lean")
    old = open(p).read() if os.path.exists(p) else None
    if old != lean:
        with open(p, "w") as f:
            f.write(lean)
    out["status"] = "generated"
    out["lean_path"] = p
    out["lean_def"] = body
    out["module"] = f"DpapiNg.Gen.{name}"
    out["sha"] = hashlib.sha256(lean.encode()).hexdigest()[:16]
    return out


def main(argv):
    props = argv[1:] or None
    res = []
    for k in KERNELS:
        if props and not any(p in k["props"] for p in props):
            continue
        res.append(generate(k))
    json.dump(res, sys.stdout, indent=1)
    print()


if __name__ == "__main__":
    main(sys.argv)
