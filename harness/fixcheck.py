#!/usr/bin/env python3
"""Regression suite for the checks: for every `fixed:` line of known_findings.json, take the repair back out of /repo's working
tree (git revert --no-commit, undone straight afterwards) and confirm the property's quick check reports the violation again with a
failing input.   fixcheck.py [commit ...]      (needs a clean /repo; not registered in MANIFEST.json)"""
import json, os, re, subprocess, sys

ROOT = os.path.dirname(os.path.dirname(os.path.abspath(__file__)))
fixed = json.load(open(os.path.join(ROOT, "known_findings.json")))["fixed"]
pairs = []
for line in fixed:
    m = re.match(r"fixed: property=(C\d\d) ([0-9a-f]{7,})", line)
    if m and (m.group(2), m.group(1)) not in pairs and (not sys.argv[1:] or m.group(2) in sys.argv[1:]):
        pairs.append((m.group(2), m.group(1)))
assert subprocess.run(["git", "-C", "/repo", "status", "--short"], capture_output=True, text=True).stdout.strip() == "", "/repo not clean"
bad = 0
for commit, prop in pairs:
    r = subprocess.run(["git", "-C", "/repo", "revert", "--no-commit", commit], capture_output=True, text=True)
    try:
        if r.returncode:
            print(f"{commit} {prop}: revert does not apply cleanly ({r.stderr.strip()[:120]})")
            bad += 1
            continue
        p = subprocess.run([os.path.join(ROOT, "check"), prop, "--tier", "quick"], capture_output=True, text=True, cwd=ROOT, timeout=3000)
        lines = [l for l in p.stdout.splitlines() if l.startswith("VIOLATION")]
        verdict = "MISSED" if p.returncode != 1 else ("caught, no failing input" if any("no-failing-input-found" in l for l in lines) else "caught with failing input")
        print(f"{commit} reverted: {prop} exit={p.returncode} {verdict}")
        bad += verdict != "caught with failing input"
    finally:
        subprocess.run(["git", "-C", "/repo", "revert", "--abort"], capture_output=True)
        subprocess.run(["git", "-C", "/repo", "reset", "--hard", "-q", "HEAD"])
print("re-run ./run_all.sh on the clean tree before committing evidence/")
sys.exit(1 if bad else 0)
