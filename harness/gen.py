"""Shared generators and field (de)serialisation for the line protocol."""
from __future__ import annotations
import uuid
from check import hx

KDF_ALG = "SP800_108_CTR_HMAC"
NAMES = ["", "a", "domain.test", "FOREST.LOCAL", "dömäin.tëst", "日本.テスト", "😀.corp", "x" * 63, "a\x00b", "ab", "abc", "\ufeffcorp.example", "\ufffecorp", "corp\ufeff"]
HASHES = ["SHA1", "SHA256", "SHA384", "SHA512"]


def u16(s: str) -> bytes:
    return s.encode("utf-16-le")


def rand_name(rng):
    if rng.random() < 0.7:
        return rng.choice(NAMES)
    # (U+FEFF / U+FFFE are ordinary characters in a UTF-16-LE field: no byte-order-mark sniffing; U+0000 may occur inside a name)
    return "".join(rng.choice("abcXYZ.-_é中😀\ufeff\ufffe") for _ in range(rng.randrange(0, 12)))


def rand_u32(rng):
    return rng.choice([0, 1, 2, 31, 32, 255, 256, 2**31 - 1, 2**31, 2**32 - 1, rng.randrange(2**32), rng.randrange(64)])


def rand_bytes(rng, n=None, lens=(0, 1, 2, 3, 7, 8, 16, 31, 32, 33, 64, 65)):
    if n is None:
        n = rng.choice(lens)
    return bytes(rng.randrange(256) for _ in range(n))


def kdf_params(hash_name="SHA512") -> bytes:
    from dpapi_ng._gkdi import KDFParameters
    return KDFParameters(hash_name).pack()


def env_fields(e) -> str:
    """GroupKeyEnvelope → the 16 driver tokens."""
    return " ".join([str(e.version), str(e.flags), str(e.l0), str(e.l1), str(e.l2), hx(e.root_key_identifier.bytes_le),
                     hx(u16(e.kdf_algorithm)), hx(e.kdf_parameters), hx(u16(e.secret_algorithm)), hx(e.secret_parameters),
                     str(e.private_key_length), str(e.public_key_length), hx(u16(e.domain_name)), hx(u16(e.forest_name)),
                     hx(e.l1_key), hx(e.l2_key)])


def kid_fields(k) -> str:
    return " ".join([str(k.version), str(k.flags), str(k.l0), str(k.l1), str(k.l2), hx(k.root_key_identifier.bytes_le),
                     hx(k.key_info), hx(u16(k.domain_name)), hx(u16(k.forest_name))])


def make_env(**kw):
    from dpapi_ng._gkdi import GroupKeyEnvelope
    d = dict(version=1, flags=0, l0=361, l1=17, l2=13, root_key_identifier=uuid.UUID("d778c271-9025-9a82-f6dc-b8960b8ad8c5"),
             kdf_algorithm=KDF_ALG, kdf_parameters=kdf_params(), secret_algorithm="DH", secret_parameters=b"",
             private_key_length=512, public_key_length=2048, domain_name="domain.test", forest_name="domain.test",
             l1_key=b"\x11" * 64, l2_key=b"\x22" * 64)
    d.update(kw)
    return GroupKeyEnvelope(**d)


def rand_env(rng):
    return make_env(version=rand_u32(rng), flags=rand_u32(rng), l0=rand_u32(rng), l1=rand_u32(rng), l2=rand_u32(rng),
                    root_key_identifier=uuid.UUID(bytes=rand_bytes(rng, 16)),
                    kdf_algorithm=rng.choice([KDF_ALG, rand_name(rng)]), kdf_parameters=rng.choice([kdf_params(rng.choice(HASHES)), rand_bytes(rng)]),
                    secret_algorithm=rng.choice(["DH", "ECDH_P256", "ECDH_P384", rand_name(rng)]), secret_parameters=rand_bytes(rng),
                    private_key_length=rand_u32(rng), public_key_length=rand_u32(rng), domain_name=rand_name(rng), forest_name=rand_name(rng),
                    l1_key=rand_bytes(rng), l2_key=rand_bytes(rng))


def make_kid(**kw):
    from dpapi_ng._blob import KeyIdentifier
    d = dict(version=1, flags=0, l0=361, l1=17, l2=13, root_key_identifier=uuid.UUID("d778c271-9025-9a82-f6dc-b8960b8ad8c5"),
             key_info=b"\x33" * 32, domain_name="domain.test", forest_name="domain.test")
    d.update(kw)
    return KeyIdentifier(**d)


def rand_kid(rng):
    return make_kid(version=rand_u32(rng), flags=rand_u32(rng), l0=rand_u32(rng), l1=rand_u32(rng), l2=rand_u32(rng),
                    root_key_identifier=uuid.UUID(bytes=rand_bytes(rng, 16)), key_info=rand_bytes(rng, rng.choice([0, 1, 32, 33, 100, 524, 800])),
                    domain_name=rand_name(rng), forest_name=rand_name(rng))


def edit_consistency(ctx, pairs, pack=lambda o: o.pack(), label="object"):
    """codec objects are plain records: an object that was packed (or came from unpack) and is then EDITED field by field must encode
    exactly as a freshly constructed object holding the same field values — whatever an earlier pack / unpack left behind in it.
    `pairs`: (a, b) of the same dataclass; a is packed, then takes over b's fields one at a time."""
    import dataclasses
    for a, b in pairs:
        if type(a) is not type(b) or not dataclasses.is_dataclass(a):
            continue
        params = getattr(type(a), "__dataclass_params__", None)
        if params is not None and params.frozen:
            continue            # immutable records cannot be edited
        names = [f.name for f in dataclasses.fields(a) if f.init]
        try:
            x = dataclasses.replace(a)
            pack(x)
        except Exception:  # noqa
            continue
        for i, name in enumerate(names):
            try:
                setattr(x, name, getattr(b, name))
                fresh = dataclasses.replace(b, **{n: getattr(a, n) for n in names[i + 1:]})
                want = bytes(pack(fresh))
            except Exception:  # noqa
                break
            try:
                got = bytes(pack(x))
            except Exception as e:  # noqa
                got = ("raised " + type(e).__name__).encode()
            ctx.count(f"edited_{label}:{type(a).__name__}")
            if got != want:
                ctx.violation(f"an edited {type(a).__name__} does not encode as a freshly constructed one with the same fields",
                              {"scenario": "edit_consistency", "class": type(a).__name__, "edited_field": name}, hx(got)[:120], hx(want)[:120])
                return False
    return True


class PurityRecorder:
    """The codec functions are functions: the outcome of a call depends on its arguments only — not on what was called before it in the
    process (a memo with an incomplete key, state left behind by a failed call, a shared buffer).  While the check runs, the named
    module-level functions record (arguments → outcome) for the first occurrences of each distinct argument tuple; afterwards every
    recorded call is made again, in reverse order, and must give the same outcome."""
    def __init__(self, module, names, limit=400):
        self.module, self.names, self.limit = module, names, limit
        self.calls, self.orig, self.per = [], {}, {}

    @staticmethod
    def _freeze(a):
        if isinstance(a, (bytearray, memoryview)):
            return ("bytes", bytes(a))
        if isinstance(a, (list, tuple)):
            return (type(a).__name__,) + tuple(PurityRecorder._freeze(x) for x in a)
        return a

    @staticmethod
    def _outcome(f, args, kwargs):
        try:
            r = f(*args, **kwargs)
            return ("ok", PurityRecorder._freeze(r) if isinstance(r, (bytes, bytearray, memoryview, list, tuple, int, str, type(None))) else repr(r))
        except Exception as e:  # noqa
            return ("err", type(e).__name__)

    def __enter__(self):
        seen = set()
        for name in self.names:
            f = getattr(self.module, name)
            self.orig[name] = f

            def wrapper(*args, _f=f, _name=name, **kwargs):
                if self.per.get(_name, 0) < self.limit:
                    try:
                        key = (_name, tuple(self._freeze(a) for a in args), tuple(sorted((k, self._freeze(v)) for k, v in kwargs.items())))
                        hash(key)
                    except TypeError:
                        key = None
                    if key is not None and key not in seen:
                        seen.add(key)
                        self.per[_name] = self.per.get(_name, 0) + 1
                        out = self._outcome(_f, args, kwargs)
                        self.calls.append((_name, args, kwargs, out))
                        if out[0] == "err":
                            return _f(*args, **kwargs)          # raise the original exception to the caller
                        return _f(*args, **kwargs)
                return _f(*args, **kwargs)
            setattr(self.module, name, wrapper)
        return self

    def __exit__(self, *exc):
        for name, f in self.orig.items():
            setattr(self.module, name, f)
        return False

    def verify(self, ctx, what):
        for (name, args, kwargs, out) in reversed(self.calls):
            again = self._outcome(self.orig[name], args, kwargs)
            if again == out:
                again = self._outcome(self.orig[name], args, kwargs)        # and once more, back to back (state left by the call itself)
            ctx.count(f"purity_replays:{name}")
            if again != out:
                ctx.violation(f"{what}: the same call gives a different outcome later in the process",
                              {"scenario": "purity", "function": name, "arguments": repr(args)[:300]}, repr(again)[:120], repr(out)[:120])
                return False
        return True
