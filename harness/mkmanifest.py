#!/usr/bin/env python3
"""Regenerates MANIFEST.json from harness/props/*.py metadata (MANIFEST dict in each module)."""
import importlib, json, os, sys
HERE = os.path.dirname(os.path.abspath(__file__))
ROOT = os.path.dirname(HERE)
sys.path.insert(0, HERE)
props = [json.loads(l) for l in open(os.path.join(ROOT, "properties.jsonl"))]
checks, na = [], []
for p in props:
    pid = p["id"]
    path = os.path.join(HERE, "props", pid.lower() + ".py")
    meta = None
    if os.path.exists(path):
        src = open(path).read()
        ns = {}
        # the MANIFEST dict is a literal at module level
        import ast
        for node in ast.parse(src).body:
            if isinstance(node, ast.Assign) and getattr(node.targets[0], "id", None) == "MANIFEST":
                meta = ast.literal_eval(node.value)
    if meta is None:
        na.append({"property_id": pid, "reason": "check not built yet in this session (work in progress, see DESIGN.md section 7); the technique applies"})
        continue
    checks.append({
        "property_id": pid,
        "quick_cmd": f"./check {pid} --tier quick",
        "thorough_cmd": f"./check {pid} --tier thorough",
        "evidence_file": f"evidence/{pid}.json",
        "replay_cmd_template": f"./check {pid} --replay {{path}}",
        "engine": "lean-model+theorems+correspondence",
        "level_claimed": {"category": "proof", "text": meta["text"], "design_ref": f"DESIGN.md section 7 ({pid})"},
        "level_note": meta["note"],
        "technique": meta["technique"],
    })
man = {
    "version": 1,
    "setup_cmd": "./setup.sh",
    "hooks": {
        "guard": "DPAPI_NG_VERIF",
        "enable": "no source hooks are needed: the harness substitutes the third-party API names (cryptography, os.urandom, time, socket, asyncio streams, spnego, dns) on the imported modules in-process",
        "baseline_off_cmd": "cd /repo && /venv/bin/python -m pytest -ra -q -p no:cacheprovider --timeout=900 --continue-on-collection-errors",
        "source_commits": [],
        "add_only": True,
    },
    "engines": [
        {"name": "lean-model+theorems", "path": "lean/", "serves_properties": [c["property_id"] for c in checks],
         "kind_free_text": "hand-written executable Lean 4 model (Mathlib-free) + property theorems; axiom audit + statement lock on every run"},
        {"name": "kernel-extractor", "path": "harness/extract.py", "serves_properties": [c["property_id"] for c in checks],
         "kind_free_text": "regenerates Lean defs for arithmetic/boolean kernels from the Python AST on every run, with obligations Gen.k = Model.k re-proved by omega"},
        {"name": "correspondence", "path": "harness/", "serves_properties": [c["property_id"] for c in checks],
         "kind_free_text": "in-process differential check of the real implementation against the native model driver (modeldrv) + direct oracles for failing-input search"},
    ],
    "checks": checks,
    "not_applicable": na,
    "notes": "Fifteen genuine defects were repaired by unguarded fix: commits in /repo (see known_findings.json, DESIGN.md sections 8 and 12.3).",
}
json.dump(man, open(os.path.join(ROOT, "MANIFEST.json"), "w"), indent=1)
print(f"{len(checks)} checks, {len(na)} not yet claimed")
