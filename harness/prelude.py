"""Differential validation of the Py prelude against CPython (part of every check)."""
from __future__ import annotations


def prelude_cases(rng, n=300):
    cases = []
    Y = 1024 * 360000000000
    # trueDivTrunc around 2^53 and around L0 boundaries
    for _ in range(n):
        k = rng.randrange(1, 2000)
        d = rng.randrange(-70, 70)
        a = k * Y + d
        if a > 0:
            cases.append((f"truediv {a} {Y}", f"ok {int(a / Y)}"))
        a = rng.randrange(1, 1 << rng.randrange(1, 120))
        b = rng.randrange(1, 1 << rng.randrange(1, 64))
        cases.append((f"truediv {a} {b}", f"ok {int(a / b)}"))
    for a in (2**53 - 1, 2**53, 2**53 + 1, 2**54 + 3, 3 * 2**53 + 1, 0, 1):
        for b in (1, 2, 3, 7):
            cases.append((f"truediv {a} {b}", f"ok {int(a / b)}"))
    # slices with every sign combination
    data = bytes(range(1, 8))
    for i in range(-9, 10):
        for j in range(-9, 10):
            cases.append((f"slice {data.hex()} {i} {j}", "ok " + (data[i:j].hex() or "-")))
    # to_bytes / from_bytes edges
    for k in (0, 1, 2, 4, 8):
        for n_ in (0, 1, 255, 256, 2**(8 * k) - 1 if k else 0, 2**(8 * k), -1, -(2**(8 * k - 1)) if k else 0,
                   2**(8 * k - 1) - 1 if k else 0, 2**(8 * k - 1) if k else 1, -(2**(8 * k - 1)) - 1 if k else -1):
            for order, signed in (("little", 0), ("big", 0), ("little", 1)):
                try:
                    exp = "ok " + (n_.to_bytes(k, order, signed=bool(signed)).hex() or "-")
                except OverflowError:
                    exp = "err OverflowError"
                cases.append((f"tobytes {n_} {k} {order} {signed}", exp))
    for _ in range(100):
        b = bytes(rng.randrange(256) for _ in range(rng.randrange(0, 9)))
        h = b.hex() or "-"
        cases.append((f"frombytes {h} little 0", f"ok {int.from_bytes(b, 'little')}"))
        cases.append((f"frombytes {h} big 0", f"ok {int.from_bytes(b, 'big')}"))
        cases.append((f"frombytes {h} little 1", f"ok {int.from_bytes(b, 'little', signed=True)}"))
        n_, m = rng.randrange(0, 5000), rng.choice([4, 8, 16])
        cases.append((f"negmod {n_} {m}", f"ok {-n_ % m}"))
        bb, e, mm = rng.randrange(0, 10**6), rng.randrange(0, 10**6), rng.randrange(1, 10**6)
        cases.append((f"powmod {bb} {e} {mm}", f"ok {pow(bb, e, mm)}"))
    return cases


def validate(ctx):
    cases = prelude_cases(ctx.rng)
    before = len(ctx.disagreements)
    ev, di = ctx.evaluations, set(ctx.distinct)
    ctx.compare_batch(cases)
    ctx.count("prelude_cases", len(cases))
    # prelude cases are support, not property cases: do not count them as property evaluations
    ctx.evaluations, ctx.distinct = ev, di
    ctx.samples = [s for s in ctx.samples if not s["op"].startswith(("truediv", "slice", "tobytes", "frombytes", "negmod", "powmod"))]
    for d in ctx.disagreements[before:]:
        d["prelude"] = True
