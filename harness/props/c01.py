"""C01 — protect then unprotect returns the plaintext for every input, config and time."""
from __future__ import annotations
import uuid
import der, prelude, gen, clientsim, refdc, toycrypto, refimpl
from check import canon_exc, hx

MANIFEST = {
    "text": "Lean theorems for an arbitrary Crypto satisfying the functional laws (unwrap∘wrap, decrypt∘encrypt): decrypt_encrypt (_decrypt_blob ∘ _encrypt_blob = id whenever the decrypting side derives the same KEK — any plaintext, so every length is an instance), protect_unprotect_nonce and protect_unprotect_dh (composition with the C03 agreement theorems, hence with C02), gcm_parameters (the nonce is carried by SEQUENCE{OCTET STRING, INTEGER 16} and read back unchanged); time-index kernels regenerated from source; the four public functions (sync and async, on a real event loop) are tied to the model by exact byte-for-byte correspondence of blobs, DC requests and cache contents under the toy crypto, and a real-crypto round-trip oracle runs over plaintext lengths, SID shapes, 4 hashes × {nonce, DH, P-256, P-384}, clock boundaries and both layouts; protect_then_unprotect_same_cache: at the level of the public functions' model, for every plaintext, SID string, clock value, draws and cache state, a protect answered from the cache followed by unprotect on the same cache returns the plaintext without a DC (composition of the cache machine, the chain walk, KEK agreement and — as a named premise — C06.unpack_pack)",
    "note": "Trusted: Lean kernel; hand-written model of the client glue (differential tie); the functional laws of AES-KW / AES-GCM / ECDH are premises exercised against the real `cryptography` by the oracle; the whole-pipeline theorem through the cache is the composition stated in DESIGN.md (C06 unpack∘pack + C10 transparent + these)",
    "technique": "Lean 4 proof (composition of round-trip and agreement theorems) + kernel extraction + byte-exact correspondence + real-crypto round-trip oracle",
}
THEOREMS = ["DpapiNg.C01.decrypt_encrypt", "DpapiNg.C01.protect_unprotect_nonce", "DpapiNg.C01.protect_unprotect_dh", "DpapiNg.C01.gcm_parameters", "DpapiNg.C01.protect_then_unprotect_same_cache"]
RULE = ("plaintext lengths {0,1,15,16,17,31,32,33,4095,4096 (+65535,65536,70001 thorough)} × SIDs with n in 1..15 sub-authorities and values {0,1,2^31,2^32-1} × "
        "4 hashes × {nonce, DH, ECDH_P256, ECDH_P384} × clock values on/around L2/L1/L0 boundaries × {in-envelope, trailing} × {sync, async}; "
        "toy-crypto cases are compared byte for byte with the model, real-crypto cases are round-trip checked; distinct by op line")
ASSUMPTIONS = ["Crypto.Laws (unwrap∘wrap = id, decrypt∘encrypt = id, ECDH agreement)", "DC replies conforming (reference DC)"]

# plaintext lengths: AES block edges, and the lengths at which the ciphertext (plaintext + 16-octet tag) crosses a DER length-form
# boundary (127/128, 255/256, 65535/65536); the enclosing SEQUENCEs cross the same boundaries a little earlier, hence the dense runs
LENS_Q = [0, 1, 15, 16, 17, 31, 32, 33, 111, 112, 113, 239, 240, 241, 4095, 4096, 65519, 65520, 65521] + list(range(180, 246, 1))
LENS_T = LENS_Q + [65535, 65536, 70001] + list(range(60, 130)) + list(range(65000, 65540, 1))


def sids(rng, k):
    out = ["S-1-5-21-2185496602-3367037166-1388177638-1103", "S-1-5-18", "S-1-1-0"]
    for n in range(1, 16):
        out.append("S-1-5" + "".join("-%d" % rng.choice([0, 1, 2**31, 2**32 - 1, rng.randrange(2**32)]) for _ in range(n)))
    rng.shuffle(out)
    return out[:k]


def clocks(rng, k):
    B = clientsim.B
    out = []
    for unit in (1024 * B, 32 * B, B):
        kk = rng.randrange(361 * (1024 * B // unit), 400 * (1024 * B // unit))
        for d in (-1, 0, 1, -64, 64):
            out.append((kk * unit + d - clientsim.EPOCH) * 100 + rng.randrange(100))
    rng.shuffle(out)
    return out[:k]


def relayout(blob: bytes) -> bytes:
    return der.to_trailing(blob)      # DER surgery, independent of the library's packer


def roundtrip(ctx, real, rec, data, sid, now_ns, mode, use_async, cases):
    """mode: 'cache' (root key loaded), 'dc' (seed keys from the DC), 'public' (sender gets the public key only)"""
    kw = {} if real else dict(kdf_factory=clientsim.toy_kdf_factory, public_key_fn=clientsim.toy_public_key)
    t = now_ns // 100 + clientsim.EPOCH
    now = (t // (1024 * clientsim.B), (t // (32 * clientsim.B)) % 32, (t // clientsim.B) % 32)
    dc = refdc.KeyServer(now=now, public_for=(lambda sd: True) if mode == "public" else (lambda sd: False), **kw)
    dc.add_root(rec)
    sender = clientsim.Sim(dc, real_crypto=real)
    sender.now_ns = now_ns
    with sender.world():
        if mode == "cache":
            sender.load(rec, explicit_params=ctx.rng.random() < 0.7 or rec.secret_algorithm != "DH" or rec.hash_name != "SHA512")
        out = sender.protect(data, sid, rk=rec.id if mode == "cache" or ctx.rng.random() < 0.5 else None, use_async=use_async)
        # the sender reads its own blob back through the cache it protected with (the commonest use of the API)
        own = sender.unprotect(bytes.fromhex(out[5:]), use_async=use_async) if out.startswith("done ") and mode != "public" else None
        sender.dump()
    if own is not None and own != "done " + hx(data):
        ctx.violation("unprotect(protect(x)) != x on the protecting cache", {"hash": rec.hash_name, "alg": rec.secret_algorithm, "mode": mode, "layout": "own-cache", "sid": sid, "len": len(data),
                                                                            "time_ns": now_ns, "async": use_async, "real_crypto": real}, own[:80], "done " + hx(data)[:60])
    if not real:
        cases.append(sender.line())
    if not out.startswith("done "):
        ctx.violation("protect fails for a supported configuration", {"hash": rec.hash_name, "alg": rec.secret_algorithm, "mode": mode, "sid": sid, "len": len(data), "time_ns": now_ns}, out, "a blob")
        return
    blob = bytes.fromhex(out[5:])
    for layout in ("in-envelope", "trailing", "trailing-by-library"):
        if layout == "trailing-by-library":
            # the trailing layout as the library itself writes it (DPAPINGBlob.pack(blob_in_envelope=False)); if that packer
            # refuses the value it is no concern of C01, but bytes it does emit must decrypt
            try:
                from dpapi_ng._blob import DPAPINGBlob
                wire = DPAPINGBlob.unpack(blob).pack(blob_in_envelope=False)
            except Exception:  # noqa
                ctx.count("trailing-by-library:not-emitted")
                continue
        else:
            wire = blob if layout == "in-envelope" else relayout(blob)
        # the receiver: a seed holder (fresh cache with the root key, or a DC that hands out seed keys)
        dc2 = refdc.KeyServer(now=now, **kw)
        dc2.add_root(rec)
        recv = clientsim.Sim(dc2, real_crypto=real)
        with recv.world():
            if ctx.rng.random() < 0.5:
                recv.load(rec)
            back = recv.unprotect(wire, use_async=use_async)
            recv.dump()
        if not real:
            cases.append(recv.line())
        ctx.count(f"{'real' if real else 'toy'}:{mode}:{layout}")
        if back != "done " + hx(data):
            ctx.violation("unprotect(protect(x)) != x", {"hash": rec.hash_name, "alg": rec.secret_algorithm, "mode": mode, "layout": layout, "sid": sid, "len": len(data),
                                                        "time_ns": now_ns, "async": use_async, "real_crypto": real}, back[:80], "done " + hx(data)[:60])


def several_sids(ctx, rec, real, cases):
    """one producer cache serving several protection descriptors in a row; every blob must decrypt on a fresh cache and on a
    cache that met the SIDs in the opposite order (key material of one descriptor must never leak into another's)"""
    kw = {} if real else dict(kdf_factory=clientsim.toy_kdf_factory, public_key_fn=clientsim.toy_public_key)
    now = (361, 9, 17)
    sid_list = ["S-1-5-21-1-2-3-1103", "S-1-5-18", "S-1-5-21-1-2-3-1104"]
    dc = refdc.KeyServer(now=now, **kw)
    dc.add_root(rec)
    prod = clientsim.Sim(dc, real_crypto=real)
    prod.now_ns = clientsim.time_ns_for(*now)
    blobs = []
    with prod.world():
        prod.load(rec)
        for i, sid in enumerate(sid_list):
            out = prod.protect(b"for " + sid.encode(), sid, rk=rec.id)
            if not out.startswith("done "):
                ctx.violation("protect fails for a supported configuration", {"hash": rec.hash_name, "alg": rec.secret_algorithm, "mode": "cache", "sid": sid, "len": 4, "time_ns": prod.now_ns}, out, "a blob")
                return
            blobs.append((sid, bytes.fromhex(out[5:])))
        prod.dump()
    if not real:
        cases.append(prod.line())
    for order in (blobs, blobs[::-1], blobs[1:] + blobs[:1]):
        dc2 = refdc.KeyServer(now=now, **kw)
        dc2.add_root(rec)
        cons = clientsim.Sim(dc2, real_crypto=real)
        with cons.world():
            cons.load(rec)
            for sid, blob in order:
                back = cons.unprotect(blob)
                ctx.count("several_sids_on_one_cache")
                if back != "done " + hx(b"for " + sid.encode()):
                    ctx.violation("a blob protected on a cache that served several SIDs does not decrypt elsewhere",
                                  {"hash": rec.hash_name, "alg": rec.secret_algorithm, "producer_order": sid_list, "consumer_order": [x for x, _ in order], "sid": sid,
                                   "real_crypto": real, "scenario": "several_sids"}, back[:60], "the plaintext")
                    return
            cons.dump()
        if not real:
            cases.append(cons.line())



def ticking(ctx):
    """a clock that advances on every read (one 100 ns tick), started just before an L2 / L1 / L0 boundary: whatever instants the
    protect call happens to see, the blob it returns must decrypt — on the protecting cache and on a fresh cache holding the same root
    key — to the plaintext (real crypto, sync and async, both layouts)"""
    import asyncio, uuid
    import dpapi_ng, dpapi_ng._client as c
    B, EPOCH = 360000000000, 116444736000000000
    rk = uuid.UUID("d778c271-9025-9a82-f6dc-b8960b8ad8c5")
    root = bytes(range(7, 71))
    old = c.time
    try:
        for span, label in ((1, "L2"), (32, "L1"), (1024, "L0")):
            for back in (1, 2, 3):
                for hn in (("SHA512", "SHA256") if back == 1 else ("SHA512",)):
                    for use_async in (False, True):
                        k = (EPOCH // (span * B) + 400) * span * B          # a boundary of this level in the 2010s
                        t0 = (k - back - EPOCH) * 100
                        shown = []

                        class T:
                            @staticmethod
                            def time_ns():
                                shown.append(t0 + 100 * len(shown))
                                return shown[-1]
                        c.time = T
                        kp = None
                        from dpapi_ng import _gkdi as g
                        cache_a, cache_b = dpapi_ng.KeyCache(), dpapi_ng.KeyCache()
                        for ch in (cache_a, cache_b):
                            ch.load_key(root, root_key_id=rk, kdf_parameters=g.KDFParameters(hn).pack())
                        data = b"ticking " + label.encode()
                        inp = {"scenario": "ticking_clock", "boundary": label, "ticks_before": back, "hash": hn, "async": use_async}
                        try:
                            blob = asyncio.run(dpapi_ng.async_ncrypt_protect_secret(data, "S-1-5-18", root_key_identifier=rk, cache=cache_a)) if use_async else \
                                dpapi_ng.ncrypt_protect_secret(data, "S-1-5-18", root_key_identifier=rk, cache=cache_a)
                        except Exception as e:  # noqa
                            ctx.violation("protect fails under a moving clock", inp, canon_exc(e), "a blob")
                            return
                        ctx.count("ticking_clock:" + label)
                        for who, ch in (("fresh cache", cache_b), ("protecting cache", cache_a)):
                            for wire in (blob, relayout(blob)):
                                try:
                                    got = asyncio.run(dpapi_ng.async_ncrypt_unprotect_secret(wire, cache=ch)) if use_async else dpapi_ng.ncrypt_unprotect_secret(wire, cache=ch)
                                except Exception as e:  # noqa
                                    got = ("raised " + canon_exc(e)).encode()
                                if got != data:
                                    ctx.violation("a blob protected while the clock crossed an interval boundary does not decrypt to the plaintext",
                                                  {**inp, "unprotect_on": who, "clock_readings_during_protect": len(shown)}, got.decode("latin-1")[:100], data.decode())
                                    return
    finally:
        c.time = old



def skewed_clocks(ctx):
    """"at whatever wall-clock time the protect call happens": the unprotecting side (another host, a fresh cache holding the same root
    key) may see an EARLIER clock than the protecting side did — a blob naming an interval that has not started by the local clock must
    still decrypt from the root key, without a domain controller"""
    import asyncio, uuid
    import dpapi_ng, dpapi_ng._client as c, dpapi_ng._dns as d
    from dpapi_ng import _gkdi as g
    B, EPOCH = 360000000000, 116444736000000000
    rk = uuid.UUID("d778c271-9025-9a82-f6dc-b8960b8ad8c5")
    root = bytes(range(9, 73))
    old = c.time

    def at(ft):
        ns = (ft - EPOCH) * 100
        return type("T", (), {"time_ns": staticmethod(lambda: ns)})
    try:
        for hn in ("SHA512", "SHA1"):
            for (l0, l1, l2) in ((361, 17, 13), (361, 31, 31), (362, 0, 0)):
                t_protect = ((l0 * 32 + l1) * 32 + l2) * B + 77
                for back, label in ((0, "same clock"), (B, "one L2 interval earlier"), (40 * B, "an L1 interval earlier"), (1100 * B, "an L0 interval earlier"),
                                    (t_protect - EPOCH - 5, "1970")):
                    for use_async in (False, True):
                        a_, b_ = dpapi_ng.KeyCache(), dpapi_ng.KeyCache()
                        for ch in (a_, b_):
                            ch.load_key(root, root_key_id=rk, kdf_parameters=g.KDFParameters(hn).pack())
                        data = b"skewed " + label.encode()
                        c.time = at(t_protect)
                        blob = dpapi_ng.ncrypt_protect_secret(data, "S-1-5-18", root_key_identifier=rk, cache=a_)
                        c.time = at(t_protect - back)
                        inp = {"scenario": "skewed_clocks", "hash": hn, "protect_interval": [l0, l1, l2], "unprotect_clock": label, "async": use_async}
                        for wire in (blob, relayout(blob)):
                            try:
                                got = asyncio.run(dpapi_ng.async_ncrypt_unprotect_secret(wire, cache=b_, server="dc.invalid")) if use_async else \
                                    dpapi_ng.ncrypt_unprotect_secret(wire, cache=b_, server="dc.invalid")
                            except Exception as e:  # noqa
                                got = ("raised " + canon_exc(e)).encode()
                            ctx.count("skewed_clocks:" + label)
                            if got != data:
                                ctx.violation("a blob protected under a later clock does not decrypt on a fresh cache holding the root key",
                                              inp, got.decode("latin-1")[:100], data.decode())
                                return
    finally:
        c.time = old



def moving_clock_history(ctx):
    """one cache without a root key, a domain controller, and a clock that moves between calls: protect at (L1, L2), protect again after the
    clock entered a later interval (the DC's newer seed key replaces the older one in the cache), then unprotect BOTH blobs on that cache —
    the older blob's key must derive from the newer seed (same L1, the next L1 with L2 ≠ 31 / = 31, two L1 on, across the L1 30→31 edge)"""
    recs = [r for r in clientsim.standard_roots(real=True) if r.secret_algorithm == "ECDH_P256"][:2]
    sid = "S-1-5-21-1-2-3-1103"
    for rec in recs:
        for (p1, p2) in (((5, 3), (6, 7)), ((30, 9), (31, 4)), ((5, 31), (6, 0)), ((5, 3), (5, 9)), ((5, 3), (7, 7)), ((5, 3), (6, 31)), ((0, 0), (1, 1))):
            for use_async in (False, True):
                dc = refdc.KeyServer(now=(361,) + p1)
                dc.add_root(rec)
                s = clientsim.Sim(dc, real_crypto=True)
                s.now_ns = clientsim.time_ns_for(361, *p1)
                inp = {"scenario": "moving_clock_history", "hash": rec.hash_name, "first_protect_at": [361, *p1], "second_protect_at": [361, *p2], "async": use_async}
                with s.world():
                    b1 = s.protect(b"first secret", sid, rk=None, use_async=use_async)
                    dc.now = (361,) + p2
                    s.now_ns = clientsim.time_ns_for(361, *p2)
                    b2 = s.protect(b"second secret", sid, rk=None, use_async=use_async)
                    if not (b1.startswith("done ") and b2.startswith("done ")):
                        ctx.violation("protect via the DC fails", inp, (b1[:40], b2[:40]), "blobs")
                        return
                    ctx.count("moving_clock_history")
                    for which, blob, want in (("first", b1, b"first secret"), ("second", b2, b"second secret")):
                        for wire in (bytes.fromhex(blob[5:]), relayout(bytes.fromhex(blob[5:]))):
                            back = s.unprotect(wire, use_async=use_async)
                            if back != "done " + hx(want):
                                ctx.violation("after the clock moved on and a newer seed key replaced the cached one, an earlier blob no longer decrypts on that cache",
                                              {**inp, "blob": which}, str(back)[:80], "done " + hx(want))
                                return



def chunk_boundaries(ctx):
    """plaintext lengths on and around the sizes a streaming cipher would cut the content at (64 KiB, 1 MiB, 2 MiB, each ± 1 … 16 octets —
    the 16-octet GCM tag then straddles a chunk boundary): protect then unprotect on a fresh root-key cache returns the plaintext (real
    crypto, in-envelope and trailing layout)"""
    import uuid
    import dpapi_ng
    from dpapi_ng import _gkdi as g
    rk = uuid.UUID("d778c271-9025-9a82-f6dc-b8960b8ad8c5")
    root = bytes(range(11, 75))
    sizes = sorted({base + d for base in (1 << 16, 1 << 20, 2 << 20) for d in (-17, -16, -15, -8, -1, 0, 1, 15, 16)} if ctx.thorough else
                   {(1 << 20) - 15, (1 << 20) - 1, (1 << 20), (1 << 16) - 15, (1 << 16) - 1, (2 << 20) - 8, (1 << 20) + 1})
    block = bytes(range(256)) * 4096
    for n in sizes:
        data = (block * (n // len(block) + 1))[:n]
        a, b = dpapi_ng.KeyCache(), dpapi_ng.KeyCache()
        for ch in (a, b):
            ch.load_key(root, root_key_id=rk, kdf_parameters=g.KDFParameters("SHA256").pack())
        try:
            blob = dpapi_ng.ncrypt_protect_secret(data, "S-1-5-18", root_key_identifier=rk, cache=a)
        except Exception as e:  # noqa
            ctx.violation("protect fails for a plaintext length", {"scenario": "chunk_boundaries", "len": n}, canon_exc(e), "a blob")
            return
        for layout, wire in (("in-envelope", blob), ("trailing", relayout(blob))):
            try:
                got = dpapi_ng.ncrypt_unprotect_secret(wire, cache=b)
            except Exception as e:  # noqa
                got = ("raised " + canon_exc(e) + ": " + str(e)[:60]).encode()
            ctx.count("chunk_boundaries:" + layout)
            if got != data:
                ctx.violation("protect then unprotect does not return the plaintext at a chunk-boundary length",
                              {"scenario": "chunk_boundaries", "len": n, "layout": layout}, (got[:80] if got.startswith(b"raised") else b"a different plaintext").decode("latin-1"), f"the {n} octets")
                return


def run(ctx):
    prelude.validate(ctx)
    rng = ctx.rng
    cases = []
    lens = LENS_T if ctx.thorough else LENS_Q
    # ---- toy crypto: byte-exact correspondence with the model -------------------------------------------------
    roots = clientsim.standard_roots()
    plan = []
    for rec in roots:
        for mode in ("cache", "dc", "public"):
            plan.append((rec, mode))
    reps = 3 if ctx.thorough else 1
    for rec, mode in plan * reps:
        n = rng.choice(lens)
        data = toycrypto.stream(77, [n.to_bytes(4, "little")], n)
        sid = sids(rng, 1)[0]
        now_ns = clocks(rng, 1)[0]
        ctx.count(f"plaintext_len:{'small' if n < 64 else 'large'}")
        roundtrip(ctx, False, rec, data, sid, now_ns, mode, rng.random() < 0.3, cases)
    # every interval boundary of the clock, for every key configuration (L2 = 31 / 0, L1 = 31 / 0, L0 change)
    B = clientsim.B
    for rec in roots:
        for (l0, l1, l2, d) in ((361, 5, 31, 0), (361, 5, 31, B - 1), (361, 31, 31, B - 1), (362, 0, 0, 0), (361, 6, 0, 0)):
            now_ns = (((l0 * 32 + l1) * 32 + l2) * B + d - clientsim.EPOCH) * 100
            roundtrip(ctx, False, rec, b"boundary", "S-1-5-21-1-2-3-1103", now_ns, "cache", False, cases)
            ctx.count("clock:boundary")
    for rec in (roots[0], roots[5], roots[10]):
        several_sids(ctx, rec, False, cases)
    for n in lens:
        rec = rng.choice(roots)
        roundtrip(ctx, False, rec, toycrypto.stream(78, [n.to_bytes(4, "little")], n), "S-1-5-21-1-2-3-1103", clocks(rng, 1)[0], "cache", False, cases)
    for i in range(0, len(cases), 40):
        ctx.compare_batch(cases[i:i + 40], nontrivial=lambda line, impl: "done" in impl)
    # ---- real crypto: the round trip itself -------------------------------------------------------------------------
    for rec in clientsim.standard_roots(real=True):
        if rec.secret_parameters and len(rec.secret_parameters) < 100 and rec.secret_algorithm == "DH" and not ctx.thorough and rng.random() < 0.5:
            continue
        for mode in ("cache", "dc", "public"):
            if mode != "cache" and rec.secret_algorithm == "DH" and len(rec.secret_parameters) > 100 and not ctx.thorough and rng.random() < 0.6:
                continue     # 2048-bit modexp is the slow part
            n = rng.choice(lens)
            roundtrip(ctx, True, rec, bytes(rng.randrange(256) for _ in range(min(n, 5000))) + b"\x00" * max(0, n - 5000), sids(rng, 1)[0], clocks(rng, 1)[0], mode, rng.random() < 0.3, [])
    ticking(ctx)
    skewed_clocks(ctx)
    moving_clock_history(ctx)
    chunk_boundaries(ctx)


def search(ctx, broken, disagreements):
    pass  # the round-trip oracle ran on every generated case


def replay(ctx, payload):
    v = payload["violation"]["input"]
    print("recorded input:", v)
    if v.get("scenario") == "chunk_boundaries":
        c2 = type(ctx)(ctx.prop, "quick", ctx.seed)
        chunk_boundaries(c2)
        for x in c2.violations:
            print(" ", x["what"], x["input"], x["observed"])
        return not c2.violations
    if v.get("scenario") == "moving_clock_history":
        c2 = type(ctx)(ctx.prop, "quick", ctx.seed)
        moving_clock_history(c2)
        for x in c2.violations:
            print(" ", x["what"], x["input"], x["observed"])
        return not c2.violations
    if v.get("scenario") == "skewed_clocks":
        c2 = type(ctx)(ctx.prop, "quick", ctx.seed)
        skewed_clocks(c2)
        for x in c2.violations:
            print(" ", x["what"], x["input"], x["observed"])
        return not c2.violations
    if v.get("scenario") == "ticking_clock":
        c2 = type(ctx)(ctx.prop, "quick", ctx.seed)
        ticking(c2)
        for x in c2.violations:
            print(" ", x["what"], x["input"], x["observed"])
        return not c2.violations
    if v.get("scenario") == "several_sids":
        rec = [r for r in clientsim.standard_roots(real=v.get("real_crypto", False)) if r.hash_name == v["hash"] and r.secret_algorithm == v["alg"]][0]
        c2 = type(ctx)(ctx.prop, "quick", ctx.seed)
        several_sids(c2, rec, v.get("real_crypto", False), [])
        for x in c2.violations:
            print(" ", x["what"], x["observed"])
        return not c2.violations
    rec = [r for r in clientsim.standard_roots(real=v.get("real_crypto", False)) if r.hash_name == v["hash"] and r.secret_algorithm == v["alg"]][0]
    c2 = type(ctx)(ctx.prop, "quick", ctx.seed)
    n = v["len"]
    roundtrip(c2, v.get("real_crypto", False), rec, bytes(n), v["sid"], v["time_ns"], v["mode"], v.get("async", False), [])
    for x in c2.violations:
        print(" ", x["what"], x["observed"])
    return not c2.violations
