"""C02 — derived group keys equal the MS-GKDI chain from any covering seed material."""
from __future__ import annotations
import hashlib, hmac, struct, uuid
import prelude, gen, toycrypto, refserver, refimpl
from check import canon_exc, hx

MANIFEST = {
    "text": "Lean theorems over an arbitrary KDF and arbitrary context functions (so for every hash / root key / SD / L0 at once): computeL2_correct (every conforming envelope shape at every position of the 32×32 lattice derives exactly the chain key K2 for every covered request — induction, no enumeration), computeL2_rejects / computeL2_some_covered (a key is returned iff the request is in range and covered), steps_le (≤ 63 KDF invocations), rootEnvelope_conforming, seed_independent; the cover test of compute_l2_key is regenerated from source each run; compute_l2_key / compute_l1_key / compute_kdf_context are tied to the model by correspondence under a scripted KDF (keys and KDF-call counts) and checked against an independent spec chain with real HMAC",
    "note": "Trusted: Lean kernel; hand-written model of the two while loops (tie: extracted guard + differential on the boundary lattice quick / the whole 2^20 lattice thorough); KBKDF-HMAC itself is `cryptography`'s (a parameter of the theorems)",
    "technique": "Lean 4 proof (induction on the lattice walk, refinement to the spec chain) + kernel extraction + correspondence",
}
THEOREMS = ["DpapiNg.C02.computeL2_correct", "DpapiNg.C02.computeL2_rejects", "DpapiNg.C02.computeL2_some_covered",
            "DpapiNg.C02.steps_le", "DpapiNg.C02.rootEnvelope_conforming", "DpapiNg.C02.root_derives_everything",
            "DpapiNg.C02.seed_independent"]
RULE = ("(envelope position, requested position) pairs: quick = all combinations of {0,1,15,30,31}^4 × allowed envelope shapes + out-of-range requests "
        "{32,40,2^31,2^32-1} + random lattice points; thorough = the entire 32^4 lattice × shapes; keys compared with the model under the toy KDF and with an "
        "independent HMAC spec chain for the 4 real hashes; KDF-call counts compared with the model's `steps`; distinct by op line")
ASSUMPTIONS = ["envelopes are `Conforming` (the shapes MS-GKDI 2.2.4 allows) for the correctness theorem; rejection/step-bound theorems need no assumption"]
RK = uuid.UUID("d778c271-9025-9a82-f6dc-b8960b8ad8c5")
LABEL = "KDS service\0".encode("utf-16-le")


def kctx(rk, l0, l1, l2):
    return rk.bytes_le + struct.pack("<iii", l0, l1, l2)


def kbkdf_hmac(hashname, key, label, context, length):
    """independent SP800-108 counter-mode KDF (rlen=4, llen=4, counter before fixed data)"""
    out, i = b"", 1
    while len(out) < length:
        out += hmac.new(key, struct.pack(">I", i) + label + b"\x00" + context + struct.pack(">I", length * 8), hashname).digest()
        i += 1
    return out[:length]


class SpecChain:
    """K1 / K2 tables of the MS-GKDI chain for one (kdf, root key, SD, L0)."""
    def __init__(self, kdf, root_key, sd, l0, rk=RK):
        l0seed = kdf(root_key, kctx(rk, l0, -1, -1))
        self.K1 = {31: kdf(l0seed, kctx(rk, l0, 31, -1) + sd)}
        for i in range(30, -1, -1):
            self.K1[i] = kdf(self.K1[i + 1], kctx(rk, l0, i, -1))
        self.K2 = {}
        for i in range(32):
            self.K2[(i, 31)] = kdf(self.K1[i], kctx(rk, l0, i, 31))
            for j in range(30, -1, -1):
                self.K2[(i, j)] = kdf(self.K2[(i, j + 1)], kctx(rk, l0, i, j))

    def envelopes(self, a, b):
        """the envelope shapes the spec allows at position (a, b): (l1_key, l2_key)"""
        if b == 31:
            return [(self.K1[a], self.K2[(a, 31)]), (self.K1[a], b"")]
        return [(self.K1[a - 1] if a > 0 else b"", self.K2[(a, b)])]


def toy_kdf(secret, context, alg="sha512"):
    return toycrypto.stream(10 + toycrypto.HASH_ID[alg], [secret, LABEL, context, (64).to_bytes(4, "little")], 64)


def wire_reply(env):
    """the GetKey reply stub a server sends for this envelope: packed by the reference DC's packer, NDR64 wrapping by hand"""
    f = {k: getattr(env, k) for k in ("version", "flags", "l0", "l1", "l2", "root_key_identifier", "kdf_algorithm", "kdf_parameters", "secret_algorithm",
                                      "secret_parameters", "private_key_length", "public_key_length", "domain_name", "forest_name", "l1_key", "l2_key")}
    wire = refserver.ReferenceDC.pack_envelope(f)
    reply = struct.pack("<I", len(wire)) + b"\x00" * 4 + struct.pack("<Q", 0x20000) + struct.pack("<Q", len(wire)) + wire
    return reply + b"\x00" * (-len(reply) % 4) + struct.pack("<I", 0)


def run(ctx):
    import dpapi_ng._gkdi as g
    from cryptography.hazmat.primitives import hashes
    prelude.validate(ctx)
    rng = ctx.rng
    cases = []
    sd = bytes.fromhex("010004805c0000006800000000000000140000000200480002000000000024000300000001050000000000051500000001000000020000000300000051040000000014000200000001010000000000010000000001010000000000051200000001010000000000051200000000")
    root = bytes(range(64))
    l0 = 361
    B = [0, 1, 15, 30, 31]
    pts = [(a, b, r1, r2) for a in B for b in B for r1 in B for r2 in B]
    for _ in range(600):
        pts.append(tuple(rng.randrange(32) for _ in range(4)))
    # out-of-range / non-covering requests and envelope positions
    odd = [32, 40, 2**31 - 1, 2**31, 2**32 - 1]
    for o in odd:
        pts += [(5, 5, o, 0), (5, 5, 0, o), (o, 5, 0, 0), (5, o, 0, 0), (31, 31, o, o)]
    pts += [(5, 5, 5, 6), (5, 5, 6, 0), (0, 0, 0, 1), (30, 31, 31, 0)]

    # ---- model correspondence under the toy KDF ------------------------------------------------
    with toycrypto.toy() as log:
        spec = SpecChain(lambda k, c: toy_kdf(k, c), root, sd, l0)
        for (a, b, r1, r2) in pts:
            shapes = spec.envelopes(a, b) if (a < 32 and b < 32) else [(b"\x11" * 64, b"\x22" * 64)]
            for (k1, k2) in shapes:
                env = gen.make_env(l0=l0, l1=a, l2=b, l1_key=k1, l2_key=k2)
                n0 = log.count("kdf")
                log.reset_budget()
                try:
                    out = "ok " + hx(g.compute_l2_key(hashes.SHA512(), r1, r2, env))
                except Exception as e:  # noqa
                    out = "err " + canon_exc(e)
                calls = log.count("kdf") - n0
                cases.append((f"l2key sha512 {r1} {r2} {gen.env_fields(env)}", out))
                covered = r1 <= 31 and r2 <= 31 and a <= 31 and b <= 31 and (r1 < a or (r1 == a and r2 <= b))
                ctx.count("request:covered" if covered else "request:rejected")
                if covered:
                    cases.append((f"l2steps {r1} {r2} {gen.env_fields(env)}", f"ok {calls}"))
                    want = "ok " + hx(spec.K2[(r1, r2)])
                    if out != want:
                        ctx.violation("derived L2 key differs from the MS-GKDI chain", {"envelope": [a, b], "request": [r1, r2], "l2_key_present": bool(k2)}, out[:40], want[:40])
                else:
                    if not out.startswith("err ") or calls > 70:
                        ctx.violation("non-covering / out-of-range request does not end in an error", {"envelope": [a, b], "request": [r1, r2]}, f"{out[:40]} after {calls} KDF calls", "error")
                if calls > 63:
                    ctx.violation("more than 63 KDF invocations", {"envelope": [a, b], "request": [r1, r2]}, calls, "≤ 63")
        if log.bad:
            ctx.violation("KDF called with unexpected parameters", {"params": str(log.bad[0])}, "BADPARAM", "rlen=4 llen=4 CounterMode BeforeFixed")
        # compute_l1_key and compute_kdf_context
        for l0_ in (0, 1, 361, 2**31 - 1, 2**31, 2**32 - 1):
            for alg, h in (("sha1", hashes.SHA1()), ("sha256", hashes.SHA256()), ("sha384", hashes.SHA384()), ("sha512", hashes.SHA512())):
                try:
                    out = "ok " + hx(g.compute_l1_key(sd, RK, l0_, root, h))
                except Exception as e:  # noqa
                    out = "err " + canon_exc(e)
                cases.append((f"l1key {hx(sd)} {hx(RK.bytes_le)} {l0_} {hx(root)} {alg}", out))
        for (x, y, z) in [(0, 0, 0), (361, 17, 13), (361, -1, -1), (361, 31, -1), (2**31 - 1, 31, 31), (2**31, 0, 0), (-2**31, -1, -1), (-2**31 - 1, 0, 0), (0, 2**31, 0), (0, 0, 2**32 - 1)]:
            try:
                out = "ok " + hx(g.compute_kdf_context(RK, x, y, z))
            except Exception as e:  # noqa
                out = "err " + canon_exc(e)
            cases.append((f"kdfctx {hx(RK.bytes_le)} {x} {y} {z}", out))
            if -2**31 <= min(x, y, z) and max(x, y, z) < 2**31:
                if out != "ok " + hx(kctx(RK, x, y, z)):
                    ctx.violation("KDF context is not RKID ‖ L0 ‖ L1 ‖ L2 (signed little-endian)", {"ids": [x, y, z]}, out, hx(kctx(RK, x, y, z)))
    ctx.compare_batch(cases, nontrivial=lambda line, impl: True)

    # ---- independent spec chain with real HMAC, all four hashes -----------------------------------
    n_real = 0
    with toycrypto.recording() as rlog:
        for hn, h in (("sha1", hashes.SHA1()), ("sha256", hashes.SHA256()), ("sha384", hashes.SHA384()), ("sha512", hashes.SHA512())):
            spec = SpecChain(lambda k, c, hn=hn: kbkdf_hmac(hn, k, LABEL, c, 64), root, sd, l0)
            # root-key path: compute_l1_key must be K1(31)
            if g.compute_l1_key(sd, RK, l0, root, h) != spec.K1[31]:
                ctx.violation("compute_l1_key differs from the spec chain (real HMAC)", {"hash": hn}, "differs", "K1(31)")
            sample = [(31, 31, 17, 13), (31, 31, 0, 0), (31, 31, 31, 31), (17, 13, 17, 13), (17, 13, 16, 31), (17, 13, 0, 0), (17, 31, 17, 0), (0, 5, 0, 0),
                      (17, 31, 17, 31), (0, 31, 0, 31), (9, 31, 9, 31), (9, 0, 9, 0)]      # requests AT the envelope's own position
            for _ in range(400 if ctx.thorough else 40):
                a, b = rng.randrange(32), rng.randrange(32)
                r1 = rng.randrange(a + 1)
                r2 = rng.randrange(32) if r1 < a else rng.randrange(b + 1)
                sample.append((a, b, r1, r2))
            for (a, b, r1, r2) in sample:
                for (k1, k2) in spec.envelopes(a, b):
                    env = gen.make_env(l0=l0, l1=a, l2=b, l1_key=k1, l2_key=k2)
                    rlog.reset_budget()
                    try:
                        got = g.compute_l2_key(h, r1, r2, env)
                    except Exception as e:  # noqa  (a covered request must derive a key; a runaway walk hits the KDF budget)
                        got = ("raised " + type(e).__name__).encode()
                    n_real += 1
                    if got != spec.K2[(r1, r2)]:
                        ctx.violation("derived L2 key differs from the MS-GKDI chain (real HMAC)", {"hash": hn, "envelope": [a, b], "request": [r1, r2]}, hx(got)[:32], hx(spec.K2[(r1, r2)])[:32])
                    # the consumer of the derivation: GroupKeyEnvelope.get_kek for a (nonce-mode) key identifier at the requested position
                    # must use the chain key, whichever shortcut it takes to get there: KEK = KDF(K2(r1, r2), label, key_info)
                    env_h = gen.make_env(l0=l0, l1=a, l2=b, l1_key=k1, l2_key=k2, kdf_parameters=gen.kdf_params(hn.upper()))
                    kid = gen.make_kid(l0=l0, l1=r1, l2=r2, flags=0, key_info=bytes([r1, r2, a, b]) * 8)
                    rlog.reset_budget()
                    try:
                        gotk = env_h.get_kek(kid)
                    except Exception as e:  # noqa
                        gotk = ("raised " + type(e).__name__).encode()
                    ctx.count("real_hmac_get_kek_cases")
                    wantk = refimpl.kek_nonce(hn, spec.K2[(r1, r2)], kid.key_info)
                    if gotk != wantk:
                        ctx.violation("get_kek derives the KEK from a key that is not the MS-GKDI chain key of the requested position (real HMAC)",
                                      {"hash": hn, "envelope": [a, b], "request": [r1, r2], "l2_key_present": bool(k2), "scenario": "get_kek"}, hx(gotk)[:32], hx(wantk)[:32])
                    # the same seed material as it arrives from a server: packed by the reference DC's own packer (not the library's),
                    # wrapped in the NDR64 GetKey reply, decoded by GetKey.unpack_response
                    reply = wire_reply(env)
                    rlog.reset_budget()
                    try:
                        got = g.compute_l2_key(h, r1, r2, g.GetKey.unpack_response(reply))
                    except Exception as e:  # noqa
                        got = ("raised " + type(e).__name__).encode()
                    ctx.count("real_hmac_wire_cases")
                    if got != spec.K2[(r1, r2)]:
                        ctx.violation("L2 key derived from a GetKey reply differs from the MS-GKDI chain (real HMAC)",
                                      {"hash": hn, "envelope": [a, b], "request": [r1, r2], "l2_key_present": bool(k2), "scenario": "wire"}, hx(got)[:32], hx(spec.K2[(r1, r2)])[:32])
    ctx.count("real_hmac_cases", n_real)
    through_cache(ctx, g, hashes)
    across_l0(ctx, g, hashes)
    dc_seeds_through_cache(ctx, g, hashes)
    optimized_interpreter(ctx)

    # ---- thorough: the entire lattice against the spec chain (fast KDF), step counts against the model
    if ctx.thorough:
        lattice(ctx, g, hashes, sd, root, l0)


def through_cache(ctx, g, hashes):
    """the seed material as the KeyCache hands it out after real API calls: load a root key, protect at interval ends, then derive
    L2 keys for several positions through KeyCache._get_key + compute_l2_key and compare with the independent chain (real HMAC)"""
    import dpapi_ng, dpapi_ng._client as c
    from dpapi_ng._blob import ProtectionDescriptor
    sid = "S-1-5-21-1-2-3-1103"
    sd = ProtectionDescriptor.parse(sid).get_target_sd()
    root = bytes(range(64))
    for (n1, n2) in ((31, 31), (31, 30), (17, 31), (17, 13), (0, 0)):
        for hn, h in (("sha512", hashes.SHA512()), ("sha256", hashes.SHA256())):
            now_ns = (((361 * 32 + n1) * 32 + n2) * 360000000000 + 5 - 116444736000000000) * 100

            class T:
                @staticmethod
                def time_ns():
                    return now_ns
            old = c.time
            c.time = T
            try:
                cache = dpapi_ng.KeyCache()
                cache.load_key(root, root_key_id=RK, kdf_parameters=g.KDFParameters(hn.upper()).pack())
                with toycrypto.recording() as rlog:
                    # the same cache serves two protection descriptors in a row: each must get the chain bound to ITS security descriptor
                    for sid_i in (sid, "S-1-5-18"):
                        sd_i = ProtectionDescriptor.parse(sid_i).get_target_sd()
                        rlog.reset_budget()
                        dpapi_ng.ncrypt_protect_secret(b"x", sid_i, root_key_identifier=RK, cache=cache)
                        spec = SpecChain(lambda k, cc, hn=hn: kbkdf_hmac(hn, k, LABEL, cc, 64), root, sd_i, 361)
                        for (r1, r2) in ((n1, n2), (n1, 0), (17, 13), (0, 0), (max(n1 - 1, 0), 31)):
                            if (r1, r2) > (n1, n2):
                                continue
                            rlog.reset_budget()
                            try:
                                env = cache._get_key(sd_i, RK, 361, r1, r2)
                                got = g.compute_l2_key(h, r1, r2, env)
                            except Exception as e:  # noqa
                                got = ("raised " + type(e).__name__).encode()
                            ctx.count("through_cache_after_protect")
                            if got != spec.K2[(r1, r2)]:
                                ctx.violation("after a protect call the cache hands out seed material from which the wrong key derives",
                                              {"hash": hn, "protect_at": [361, n1, n2], "sid": sid_i, "request": [r1, r2], "scenario": "through_cache"}, hx(got)[:32], hx(spec.K2[(r1, r2)])[:32])
                                return
            finally:
                c.time = old



def across_l0(ctx, g, hashes):
    """one cache used across several L0 intervals in every order (a current secret, then one from the previous ~427-day interval, …):
    each request must get seed material of ITS L0 chain — both through KeyCache._get_key + compute_l2_key (independent HMAC chain as
    the oracle) and through the public protect / unprotect functions with a moving clock"""
    import dpapi_ng, dpapi_ng._client as c
    from dpapi_ng._blob import ProtectionDescriptor
    sid = "S-1-5-21-1-2-3-1103"
    sd = ProtectionDescriptor.parse(sid).get_target_sd()
    root = bytes(range(1, 65))
    hn, h = "sha512", hashes.SHA512()
    specs = {l0: SpecChain(lambda k, cc: kbkdf_hmac(hn, k, LABEL, cc, 64), root, sd, l0) for l0 in (360, 361, 362)}
    for order in ((362, 361), (361, 362), (362, 361, 362), (360, 362, 361), (362, 360, 362, 361)):
        cache = dpapi_ng.KeyCache()
        cache.load_key(root, root_key_id=RK, kdf_parameters=g.KDFParameters(hn.upper()).pack())
        with toycrypto.recording() as rlog:
            for step, l0 in enumerate(order):
                for (r1, r2) in ((9, 7), (5, 3), (31, 31), (0, 0)):
                    rlog.reset_budget()
                    try:
                        env = cache._get_key(sd, RK, l0, r1, r2)
                        got = g.compute_l2_key(h, r1, r2, env) if env.l0 == l0 else ("envelope of L0 %d" % env.l0).encode()
                    except Exception as e:  # noqa
                        got = ("raised " + type(e).__name__).encode()
                    ctx.count("across_l0:get_key")
                    if got != specs[l0].K2[(r1, r2)]:
                        ctx.violation("one cache used across L0 intervals hands out seed material of the wrong interval",
                                      {"hash": hn, "l0_order": list(order), "step": step, "request": [l0, r1, r2], "scenario": "across_l0"},
                                      (got if got[:1] in (b"r", b"e") else hx(got)[:32].encode()).decode(), hx(specs[l0].K2[(r1, r2)])[:32])
                        return
    # the public functions: protect at clocks in different L0 intervals (own caches), then unprotect all of them on ONE cache in each order
    blobs = {}
    old = c.time
    try:
        for l0 in (360, 361, 362):
            now_ns = (((l0 * 32 + 9) * 32 + 7) * 360000000000 + 5 - 116444736000000000) * 100
            c.time = type("T", (), {"time_ns": staticmethod(lambda now_ns=now_ns: now_ns)})
            cache = dpapi_ng.KeyCache()
            cache.load_key(root, root_key_id=RK, kdf_parameters=g.KDFParameters(hn.upper()).pack())
            blobs[l0] = dpapi_ng.ncrypt_protect_secret(b"secret of %d" % l0, sid, root_key_identifier=RK, cache=cache)
        for order in ((362, 361), (361, 362), (362, 360, 362, 361)):
            cache = dpapi_ng.KeyCache()
            cache.load_key(root, root_key_id=RK, kdf_parameters=g.KDFParameters(hn.upper()).pack())
            for step, l0 in enumerate(order):
                try:
                    got = dpapi_ng.ncrypt_unprotect_secret(blobs[l0], cache=cache)
                except Exception as e:  # noqa
                    got = ("raised " + type(e).__name__ + ": " + str(e)[:80]).encode()
                ctx.count("across_l0:unprotect")
                if got != b"secret of %d" % l0:
                    ctx.violation("one cache used across L0 intervals cannot decrypt a blob its root key covers",
                                  {"hash": hn, "l0_order": list(order), "step": step, "blob_l0": l0, "scenario": "across_l0"}, got.decode("latin-1")[:120], "the plaintext")
                    return
    finally:
        c.time = old



def dc_seeds_through_cache(ctx, g, hashes):
    """seed envelopes as a DC returns them (every MS-GKDI 2.2.4 shape: L2 = 31 with / without an L2 key; L2 ≠ 31 with the previous L1 key,
    none at L1 = 0), stored in a KeyCache the way the client stores a reply, then handed out again for every covered position: the key that
    derives from what the cache hands out must be the chain's (independent HMAC chain) — storing a seed must not lose material"""
    import dpapi_ng
    sd = b"\x01\x00\x04\x80" + bytes(16)
    root = bytes(range(2, 66))
    hn, h = "sha512", hashes.SHA512()
    spec = SpecChain(lambda k, cc: kbkdf_hmac(hn, k, LABEL, cc, 64), root, sd, 361)
    for (a, b) in ((6, 7), (6, 31), (1, 1), (0, 5), (0, 31), (31, 30), (31, 31), (17, 0)):
        for (k1, k2) in spec.envelopes(a, b):
            cache = dpapi_ng.KeyCache()
            cache._store_key(sd, gen.make_env(l0=361, l1=a, l2=b, l1_key=k1, l2_key=k2, root_key_identifier=RK, kdf_parameters=gen.kdf_params("SHA512")))
            with toycrypto.recording() as rlog:
                for (r1, r2) in {(a, b), (a, max(b - 1, 0)), (a, 0), (max(a - 1, 0), 31), (max(a - 1, 0), 4), (0, 0)}:
                    if (r1, r2) > (a, b):
                        continue
                    rlog.reset_budget()
                    try:
                        env = cache._get_key(sd, RK, 361, r1, r2)
                        got = g.compute_l2_key(h, r1, r2, env) if env is not None else b"not served from the cache"
                    except Exception as e:  # noqa
                        got = ("raised " + type(e).__name__).encode()
                    ctx.count("dc_seed_through_cache")
                    if got != spec.K2[(r1, r2)]:
                        ctx.violation("a DC seed envelope stored in the cache no longer yields the chain's key for a position it covers",
                                      {"scenario": "dc_seeds_through_cache", "envelope": [a, b], "l1_key": "present" if k1 else "empty", "l2_key": "present" if k2 else "empty",
                                       "request": [r1, r2]}, (got if got[:1] in (b"r", b"n") else hx(got)[:32].encode()).decode(), hx(spec.K2[(r1, r2)])[:32])
                        return



def optimized_interpreter(ctx):
    """the guards of the derivation are part of its behaviour in every interpreter mode: under `python -O` (assert statements compiled
    away, common in production images) a request the seed does not cover, or an index outside 0..31, must still end in an error within the
    KDF budget — never in a key, never in an endless walk"""
    import subprocess, sys, json, os
    here = os.path.dirname(os.path.dirname(os.path.abspath(__file__)))
    code = r"""
import sys, json
sys.path.insert(0, %r)
import gen
import dpapi_ng._gkdi as g
from cryptography.hazmat.primitives import hashes
n = [0]
class Budget(Exception): pass
def kdf(algorithm, secret, label, context, length):
    n[0] += 1
    if n[0] > 200: raise Budget()
    return b"\x00" * length
g.kdf = kdf
out = []
for (a, b, r1, r2) in [(9, 12, 9, 13), (9, 12, 10, 0), (9, 12, 32, 0), (9, 12, 4, -1), (9, 12, -1, 5), (9, 12, 9, 32), (32, 0, 5, 5), (9, 12, 9, 12), (9, 12, 3, 3)]:
    n[0] = 0
    env = gen.make_env(l0=361, l1=a, l2=b, l1_key=b"\x11" * 64, l2_key=b"\x22" * 64)
    try:
        g.compute_l2_key(hashes.SHA512(), r1, r2, env)
        out.append([a, b, r1, r2, "key"])
    except Budget:
        out.append([a, b, r1, r2, "loop"])
    except Exception as e:
        out.append([a, b, r1, r2, "err " + type(e).__name__])
print(json.dumps(out))
""" % (os.path.join(here, "harness") if not here.endswith("harness") else here)
    for flag in ("-O", "-OO"):
        try:
            res = subprocess.run([sys.executable, flag, "-c", code], capture_output=True, text=True, timeout=300, env=dict(os.environ))
            rows = json.loads(res.stdout.strip().splitlines()[-1])
        except Exception as e:  # noqa
            ctx.notes.append(f"optimized-interpreter run ({flag}) could not be evaluated: {type(e).__name__}")
            continue
        for (a, b, r1, r2, got) in rows:
            covered = max(a, b, r1, r2) <= 31 and min(r1, r2) >= 0 and (r1, r2) <= (a, b)
            ctx.count("optimized_interpreter:" + flag)
            if covered != (got == "key"):
                ctx.violation("under an optimising interpreter a request the seed does not cover (or an out-of-range index) yields a key or an endless walk",
                              {"scenario": "optimized_interpreter", "flag": flag, "envelope": [a, b], "request": [r1, r2]}, got, "key" if covered else "an error")
                return


def lattice(ctx, g, hashes, sd, root, l0):
    calls = [0]

    def fast(k, c):
        return hashlib.blake2b(c, key=k[:64], digest_size=64).digest()

    class KB:
        def __init__(self, algorithm, mode, length, rlen, llen, location, label, context, fixed):
            self.c = context

        def derive(self, secret):
            calls[0] += 1
            if calls[0] > 200:
                raise toycrypto.KdfBudgetExceeded()
            return fast(secret, self.c)
    import dpapi_ng._crypto as c
    old = c.KBKDFHMAC
    c.KBKDFHMAC = KB
    step_cases = []
    try:
        spec = SpecChain(fast, root, sd, l0)
        alg = hashes.SHA512()
        for a in range(32):
            for b in range(32):
                for (k1, k2) in spec.envelopes(a, b):
                    env = gen.make_env(l0=l0, l1=a, l2=b, l1_key=k1, l2_key=k2)
                    ef = gen.env_fields(gen.make_env(l0=l0, l1=a, l2=b, l1_key=b"\x01", l2_key=b"\x02" if k2 else b""))
                    for r1 in range(32):
                        for r2 in range(32):
                            calls[0] = 0
                            covered = r1 < a or (r1 == a and r2 <= b)
                            try:
                                got = g.compute_l2_key(alg, r1, r2, env)
                                ok = covered and got == spec.K2[(r1, r2)]
                            except ValueError:
                                ok = not covered
                            except toycrypto.KdfBudgetExceeded:
                                ok = False
                            if not ok or calls[0] > 63:
                                ctx.violation("lattice point: wrong key / missing error / too many KDF calls",
                                              {"envelope": [a, b], "request": [r1, r2], "l2_key_present": bool(k2)}, f"calls={calls[0]}", "chain key or ValueError")
                            if covered:
                                step_cases.append((f"l2steps {r1} {r2} {ef}", f"ok {calls[0]}"))
                            ctx.count("lattice_points")
    finally:
        c.KBKDFHMAC = old
    ctx.exhaustive = True
    for i in range(0, len(step_cases), 200000):
        ctx.compare_batch(step_cases[i:i + 200000], nontrivial=lambda line, impl: True)


def search(ctx, broken, disagreements):
    """A broken obligation / disagreement: sweep the whole lattice on the implementation."""
    if ctx.thorough:
        return
    import dpapi_ng._gkdi as g
    from cryptography.hazmat.primitives import hashes
    sd = b"\x01\x02\x03"
    lattice(ctx, g, hashes, sd, bytes(range(64)), 361)
    ctx.disagreements[:] = [d for d in ctx.disagreements]


def replay(ctx, payload):
    import dpapi_ng._gkdi as g
    from cryptography.hazmat.primitives import hashes
    v = payload["violation"]["input"]
    if v.get("scenario") == "through_cache":
        c2 = type(ctx)(ctx.prop, "quick", ctx.seed)
        through_cache(c2, g, hashes)
        for x in c2.violations:
            print(" ", x["what"], x["input"], x["observed"])
        return not c2.violations
    if v.get("scenario") == "optimized_interpreter":
        c2 = type(ctx)(ctx.prop, "quick", ctx.seed)
        optimized_interpreter(c2)
        for x in c2.violations:
            print(" ", x["what"], x["input"], x["observed"])
        return not c2.violations
    if v.get("scenario") == "dc_seeds_through_cache":
        c2 = type(ctx)(ctx.prop, "quick", ctx.seed)
        dc_seeds_through_cache(c2, g, hashes)
        for x in c2.violations:
            print(" ", x["what"], x["input"], x["observed"])
        return not c2.violations
    if v.get("scenario") == "across_l0":
        c2 = type(ctx)(ctx.prop, "quick", ctx.seed)
        across_l0(c2, g, hashes)
        for x in c2.violations:
            print(" ", x["what"], x["input"], x["observed"])
        return not c2.violations
    a, b = v["envelope"]
    r1, r2 = v["request"]
    root, sd, l0 = bytes(range(64)), b"\x01\x02\x03", 361
    hn = v.get("hash", "sha512")
    hobj = {"sha1": hashes.SHA1(), "sha256": hashes.SHA256(), "sha384": hashes.SHA384(), "sha512": hashes.SHA512()}[hn]
    spec = SpecChain(lambda k, c: kbkdf_hmac(hn, k, LABEL, c, 64), root, sd, l0)
    covered = max(a, b, r1, r2) <= 31 and (r1 < a or (r1 == a and r2 <= b))
    shapes = spec.envelopes(a, b) if max(a, b) <= 31 else [(b"\x11" * 64, b"\x22" * 64)]
    okall = True
    for (k1, k2) in shapes:
        env = gen.make_env(l0=l0, l1=a, l2=b, l1_key=k1, l2_key=k2)
        with toycrypto.recording() as log:
            try:
                if v.get("scenario") == "get_kek":
                    kid = gen.make_kid(l0=l0, l1=r1, l2=r2, flags=0, key_info=bytes([r1, r2, a, b]) * 8)
                    env_h = gen.make_env(l0=l0, l1=a, l2=b, l1_key=k1, l2_key=k2, kdf_parameters=gen.kdf_params(hn.upper()))
                    got = env_h.get_kek(kid)
                    ok = covered and got == refimpl.kek_nonce(hn, spec.K2[(r1, r2)], kid.key_info)
                else:
                    got = g.compute_l2_key(hobj, r1, r2, g.GetKey.unpack_response(wire_reply(env)) if v.get("scenario") == "wire" else env)
                    ok = covered and got == spec.K2[(r1, r2)]
            except ValueError:
                ok = not covered
            except toycrypto.KdfBudgetExceeded:
                ok = False
            print(f"envelope ({a},{b}) request ({r1},{r2}): {'ok' if ok else 'WRONG'} after {log.count('kdf')} KDF calls")
            okall = okall and ok and log.count("kdf") <= 63
    return okall
