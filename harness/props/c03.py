"""C03 — KEK derivation agrees on both sides and with an independent implementation."""
from __future__ import annotations
import struct
import base64, json, os, uuid
import prelude, gen, toycrypto, refimpl
from check import canon_exc, hx
from gen import u16

MANIFEST = {
    "text": "Lean theorems for an arbitrary Crypto: kek_agree_nonce and kek_agree_dh (sender's new_kek and seed holder's get_kek yield the same KEK; DH is concrete — Py.powMod is proved to be b^e mod m and (g^x)^e ≡ (g^e)^x — with both sides padding to key_length), kek_agree_ec from the group's agreement law, shared_secret_width (leading zeros kept), ceilDiv8 kernel regenerated from source; new_kek/get_kek/compute_kek/compute_public_key tied to the model by correspondence under the toy crypto (incl. the scripted EC whose coordinates and secrets have leading zeros), and checked with real crypto against an independent hashlib/hmac/pure-Python-ECC implementation and the 16 Windows vectors",
    "note": "Trusted: Lean kernel; hand-written model (differential tie); ECDH commutativity and KDF determinism are premises about `cryptography`; the independent implementation in harness/refimpl.py is differential support for the construction Windows uses, not a proof",
    "technique": "Lean 4 proof (modular exponentiation by induction, composition of round trips) + kernel extraction + correspondence + independent re-implementation",
}
THEOREMS = ["DpapiNg.C03.kek_agree_nonce", "DpapiNg.C03.kek_agree_dh", "DpapiNg.C03.kek_agree_ec", "DpapiNg.C03.powMod_eq",
            "DpapiNg.C03.shared_secret_width", "DpapiNg.C03.ceilDiv8_spec"]
RULE = ("4 hashes × {nonce, DH (RFC 5114 group and small groups p < 2^16..2^32 with key_length 2..4), ECDH_P256, ECDH_P384}; L2 seeds, nonces and ephemeral keys random; "
        "toy-crypto cases compare new_kek/get_kek/compute_kek/compute_public_key with the model; real-crypto cases check sender = receiver = independent implementation; "
        "a case is non-trivial when a shared secret / public value / coordinate has a leading zero byte (counted)")
ASSUMPTIONS = ["ECDH commutativity (Crypto.Laws.ec_agree) and determinism of the KDFs are premises", "0 < p ≤ 256^key_length, g < 256^key_length"]
HASHES = ["SHA1", "SHA256", "SHA384", "SHA512"]
SMALL_GROUPS = [(2, 65521, 17), (2, 65267, 2), (3, 16776989, 3), (4, 4294967291, 2), (3, 65537, 3), (4, 65521, 17)]


def hobj(name):
    from cryptography.hazmat.primitives import hashes
    return {"SHA1": hashes.SHA1(), "SHA256": hashes.SHA256(), "SHA384": hashes.SHA384(), "SHA512": hashes.SHA512()}[name]


def call(f, fmt):
    try:
        return "ok " + fmt(f())
    except Exception as e:  # noqa
        return "err " + canon_exc(e)



def seed_shapes(ctx):
    """the KEK for a key identifier at the seed envelope's OWN position, for every shape a seed envelope has there: MS-GKDI 2.2.4 gives an
    envelope positioned at L2 = 31 no L2 key (only the L1 key — the shape KeyCache builds from a root key and a DC returns), elsewhere the
    L2 key and the previous L1 key.  The receiving side's KEK must be the construction's (independent HMAC chain → L2 seed → KEK) at equal
    and at earlier positions, for nonce and public-key (ECDH P-256, real crypto) identifiers"""
    from props import c02
    rng = ctx.rng
    root, sd = bytes(range(3, 67)), b"\x01\x02\x03\x04"
    for hn in (HASHES if ctx.thorough else [HASHES[0], HASHES[3]]):
        spec = c02.SpecChain(lambda k, cc: c02.kbkdf_hmac(hn.lower(), k, c02.LABEL, cc, 64), root, sd, 361)
        for (a, b) in ((31, 31), (17, 31), (0, 31), (17, 13), (0, 0), (31, 0)):
            for (k1, k2) in spec.envelopes(a, b):
                for (r1, r2) in {(a, b), (a, max(b - 1, 0)), (max(a - 1, 0), 31)}:
                    if (r1, r2) > (a, b):
                        continue
                    for mode in ("nonce", "ECDH_P256"):
                        sa = "DH" if mode == "nonce" else mode
                        env = gen.make_env(l0=361, l1=a, l2=b, l1_key=k1, l2_key=k2, kdf_parameters=gen.kdf_params(hn), secret_algorithm=sa, secret_parameters=b"",
                                           private_key_length=256 if mode != "nonce" else 512, public_key_length=512)
                        seed = spec.K2[(r1, r2)]
                        inp = {"scenario": "seed_shapes", "hash": hn, "mode": mode, "envelope": [a, b], "l1_key": "present" if k1 else "empty",
                               "l2_key": "present" if k2 else "empty", "key_identifier_position": [r1, r2]}
                        try:
                            if mode == "nonce":
                                kid = gen.make_kid(l0=361, l1=r1, l2=r2, flags=0, key_info=gen.rand_bytes(rng, 32))
                                want = refimpl.kek_nonce(hn.lower(), seed, kid.key_info)
                            else:
                                # the sender's side, from the group public key that belongs to this L2 seed (independent implementation)
                                pub = refimpl.group_public_key(hn.lower(), seed, sa, b"", 256)
                                pub_env = gen.make_env(l0=361, l1=r1, l2=r2, l1_key=b"", l2_key=pub, flags=1, kdf_parameters=gen.kdf_params(hn), secret_algorithm=sa,
                                                       secret_parameters=b"", private_key_length=256, public_key_length=512)
                                want, kid = pub_env.new_kek()
                                if want != refimpl.kek_public(hn.lower(), sa, refimpl.group_private_key(hn.lower(), seed, sa, 256), kid.key_info):
                                    continue        # (the sender's side is the other scenarios' concern)
                            got = env.get_kek(kid)
                        except ValueError as e:
                            if mode != "nonce":
                                ctx.count("seed_shapes:ec_scalar_refused")
                                continue
                            got = ("raised ValueError: " + str(e)[:60]).encode()
                        except Exception as e:  # noqa
                            got = ("raised " + canon_exc(e)).encode()
                        ctx.count("seed_shapes:" + mode + (":own_position" if (r1, r2) == (a, b) else ":earlier"))
                        if got != want:
                            ctx.violation("the receiving side's KEK at a seed envelope's own / earlier position is not the construction's", inp,
                                          hx(got)[:64] if not got.startswith(b"raised") else got.decode(), hx(want)[:64])
                            return



def refused_then_again(ctx):
    """the outcome of a KEK derivation depends on its arguments only: a request the seed envelope does not cover is refused EVERY time it is
    made — also immediately after a successful derivation elsewhere and immediately after having been refused once — and covered requests
    made before and after give the same KEK (real crypto, one process)"""
    from props import c02
    rng = ctx.rng
    root, sd = bytes(range(4, 68)), b"\x01\x02\x03\x04"
    hn = "SHA512"
    spec = c02.SpecChain(lambda k, cc: c02.kbkdf_hmac("sha512", k, c02.LABEL, cc, 64), root, sd, 361)
    (k1, k2) = spec.envelopes(9, 12)[0]
    env = gen.make_env(l0=361, l1=9, l2=12, l1_key=k1, l2_key=k2, kdf_parameters=gen.kdf_params(hn))
    ki = gen.rand_bytes(rng, 32)
    def kek(r1, r2):
        try:
            return hx(env.get_kek(gen.make_kid(l0=361, l1=r1, l2=r2, flags=0, key_info=ki)))
        except ValueError:
            return "refused"
        except Exception as e:  # noqa
            return "raised " + canon_exc(e)
    seq = [(9, 12), (9, 13), (9, 13), (5, 5), (10, 0), (10, 0), (9, 12), (5, 5), (9, 13)]
    outs = [kek(*p) for p in seq]
    want = [hx(refimpl.kek_nonce("sha512", spec.K2[p], ki)) if p <= (9, 12) else "refused" for p in seq]
    ctx.count("refused_then_again", len(seq))
    if outs != want:
        i = next(j for j in range(len(seq)) if outs[j] != want[j])
        ctx.violation("a KEK derivation gives a different outcome when repeated (a request the seed does not cover is not refused every time)",
                      {"scenario": "refused_then_again", "envelope": [9, 12], "sequence": [list(p) for p in seq], "step": i}, outs[i][:64], want[i][:64])


def run(ctx):
    import dpapi_ng._gkdi as g
    prelude.validate(ctx)
    rng = ctx.rng
    cases = []
    N = 60 if not ctx.thorough else 600

    # ---- (a) toy crypto: implementation vs model ------------------------------------------------
    cur = [b""]
    with toycrypto.toy(rng_script=lambda n: (cur[0] + bytes(n))[:n]) as log:
        for i in range(N):
            log.reset_budget()          # the KDF budget is per case (it exists to stop a runaway derivation, not to ration the run)
            hn = rng.choice(HASHES)
            mode = rng.choice(["nonce", "DH", "ECDH_P256", "ECDH_P384", "ECDH_P521x", "other"])
            l2 = gen.rand_bytes(rng, rng.choice([64, 64, 64, 0, 1, 63]))
            sa = {"nonce": "DH", "other": rng.choice(["RSA", "", "ECDH", "DH2"])}.get(mode, mode.rstrip("x"))
            plen = rng.choice([512, 256, 384, 13, 8, 0, 9])
            common = dict(kdf_parameters=gen.kdf_params(hn), l1=rng.randrange(32), l2=rng.randrange(31), l1_key=b"", secret_algorithm=sa, private_key_length=plen)
            seed_env = gen.make_env(l2_key=l2, **common)
            priv_len = -(-plen // 8)
            if mode == "nonce":
                env_s = seed_env
            else:
                # the group public key the DC would hand out (toy group for EC, small/real group for DH)
                x = toycrypto.stream(10 + toycrypto.HASH_ID[hn.lower()], [l2, refimpl.LABEL, refimpl.u16z(sa), (priv_len).to_bytes(4, "little")], priv_len)
                xi = int.from_bytes(x, "big")
                if mode == "DH":
                    kl, p, gg = rng.choice(SMALL_GROUPS + [(256, refimpl.RFC5114_P, refimpl.RFC5114_G)])
                    pub = refimpl.ffc_key(kl, p, gg, pow(gg, xi, p))
                elif mode.startswith("ECDH"):
                    cvname = {"ECDH_P256": "secp256r1", "ECDH_P384": "secp384r1", "ECDH_P521x": "secp521r1"}[mode]
                    q = toycrypto.Q[cvname]
                    X = (7 * xi) % q
                    kl = rng.choice([toycrypto.WIDTH[cvname], 2, 3])
                    magic = {"secp256r1": b"ECK1", "secp384r1": b"ECK3", "secp521r1": b"ECK5"}[cvname]
                    pub = magic + kl.to_bytes(4, "little") + X.to_bytes(kl, "big") + ((3 * X + 1) % q).to_bytes(kl, "big")
                else:
                    pub = gen.rand_bytes(rng, 40)
                if rng.random() < 0.1:
                    pub = pub[:rng.randrange(len(pub) + 1)]
                env_s = gen.make_env(l2_key=pub, flags=1, **common)
            draw = gen.rand_bytes(rng, 32 if mode == "nonce" else priv_len)
            cur[0] = draw
            res = []
            def sender():
                t = env_s.new_kek()
                res.append(t)
                return t
            r = call(sender, lambda t: f"{hx(t[0])} {gen.kid_fields(t[1])}")
            cases.append((f"newkek {hx(draw)} {gen.env_fields(env_s)}", r))
            ctx.count("toy:" + mode)
            if res:
                kek_s, kid = res[0]
                # receiver: the seed holder at the same position
                rr = call(lambda: seed_env.get_kek(kid), hx)
                cases.append((f"getkek {gen.env_fields(seed_env)} {gen.kid_fields(kid)}", rr))
                if rr != "ok " + hx(kek_s):
                    ctx.violation("sender and receiver KEK differ (toy crypto)", {"mode": mode, "hash": hn, "envelope": gen.env_fields(env_s)[:200]}, rr[:80], hx(kek_s)[:80])
                if mode != "nonce":
                    lead = kid.key_info[8:9] == b"\x00"
                    ctx.count("toy:leading_zero_public" if lead else "toy:full_width_public")
                # mismatching receiver configurations → deliberate errors on both sides
                if i % 5 == 0:
                    for bad in (gen.make_env(**{**_d(seed_env), "l0": seed_env.l0 + 1}), gen.make_env(**{**_d(seed_env), "flags": 1}),
                                gen.make_env(**{**_d(seed_env), "kdf_algorithm": "OTHER"}), gen.make_env(**{**_d(seed_env), "kdf_parameters": b"\x00" * 20}),
                                gen.make_env(**{**_d(seed_env), "kdf_parameters": gen.kdf_params("MD5")})):
                        cases.append((f"getkek {gen.env_fields(bad)} {gen.kid_fields(kid)}", call(lambda: bad.get_kek(kid), hx)))
        if log.bad:
            ctx.violation("crypto API called with unexpected parameters", {"params": str(log.bad[0])}, "BADPARAM", "fixed parameters")
    ctx.compare_batch(cases, nontrivial=lambda line, impl: impl.startswith("ok"))
    seed_shapes(ctx)
    refused_then_again(ctx)

    # ---- (b) real crypto: both sides and the independent implementation ----------------------------
    n_real = lead_real = 0
    rk = uuid.UUID("d778c271-9025-9a82-f6dc-b8960b8ad8c5")

    def degenerate(blob):
        """an FFC-DH key structure whose public value is outside (1, p − 1): the receiver is right to refuse it (D15)"""
        kl_ = int.from_bytes(blob[4:8], "little")
        p__, y__ = int.from_bytes(blob[8:8 + kl_], "big"), int.from_bytes(blob[8 + 2 * kl_:8 + 3 * kl_], "big")
        return not (1 < y__ < p__ - 1)

    def real_case(hn, mode, l2, plen, small_group, scenario=None, repad=0, first_draw=None):
        nonlocal n_real, lead_real
        sa = "DH" if mode.startswith("DH") or mode == "nonce" else mode
        if mode == "DHsmall":
            kl, p, gg = small_group
            sp = refimpl.ffc_params(kl, p, gg)
        elif sa == "DH":
            sp = refimpl.ffc_params(256, refimpl.RFC5114_P, refimpl.RFC5114_G)
        else:
            sp = b""
        seed_env = gen.make_env(kdf_parameters=gen.kdf_params(hn), l2_key=l2, l1_key=b"", secret_algorithm=sa, secret_parameters=sp, private_key_length=plen)
        if mode == "nonce":
            env_s = seed_env
        else:
            try:
                pub = refimpl.group_public_key(hn.lower(), l2, sa, sp, plen)
            except ValueError:
                ctx.count("real:no_group_public_key_for_this_seed (zero scalar from a tiny private key length)")
                return
            if repad and sa == "DH":
                # the same group public key in a structure padded to a different key_length than the root key's parameter structure
                # (same p, g, y as integers): every fixed-width field follows the key structure's own width
                kl0, p0, g0 = refimpl.parse_ffc_params(sp)
                pub = refimpl.ffc_key(kl0 + repad, p0, g0, int.from_bytes(pub[8 + 2 * kl0:8 + 3 * kl0], "big"))
            env_s = gen.make_env(kdf_parameters=seed_env.kdf_parameters, l2_key=pub, l1_key=b"", flags=1, secret_algorithm=sa, secret_parameters=sp, private_key_length=plen)
        inp0 = {"mode": mode, "hash": hn, "l2": hx(l2), "secret_parameters": (hx(sp) if mode == "DHsmall" else hx(sp)[:80]), "private_key_length": plen, **({"key_length_padding": repad} if repad else {}),
                **({"scenario": scenario} if scenario else {})}
        drawn = []

        def script(n):
            import os as _os
            b = first_draw.to_bytes(n, "big") if (first_draw is not None and not drawn) else _os.urandom(n)
            drawn.append(b)
            return b
        with toycrypto.recording(script) as log:
            try:
                kek, kid = env_s.new_kek()
            except ValueError as e:
                if sa == "DH" and mode != "nonce" and degenerate(env_s.l2_key):
                    ctx.count("real:degenerate_group_public_value_refused")     # (a tiny group can produce one; refusing it is right)
                elif sa == "DH":
                    ctx.violation("KEK derivation fails for a well-formed DH configuration", {**inp0, "side": "sender", "draw": hx(log.urandom[0]) if log.urandom else "00" * 64}, f"ValueError: {e}"[:120], "a KEK")
                else:
                    ctx.notes.append(f"real {mode}/{hn}: {e}")      # (EC scalars out of range can happen)
                return
            try:
                kek_r = seed_env.get_kek(kid)
            except ValueError as e:
                if sa == "DH" and mode != "nonce" and degenerate(kid.key_info):
                    ctx.count("real:degenerate_ephemeral_value_refused_by_receiver")
                    kek_r = kek      # nothing to compare on the receiving side; the sender's KEK is still checked against the construction
                elif sa == "DH":
                    ctx.violation("KEK derivation fails for a well-formed DH configuration", {**inp0, "side": "receiver", "draw": hx(log.urandom[0]) if log.urandom else "00" * 64}, f"ValueError: {e}"[:120], "a KEK")
                    return
                else:
                    ctx.notes.append(f"real {mode}/{hn}: {e}")
                    return
            draw = log.urandom[0]
        n_real += 1
        if mode == "nonce":
            indep = refimpl.kek_nonce(hn.lower(), l2, kid.key_info)
        else:
            indep = refimpl.kek_public(hn.lower(), sa, draw, env_s.l2_key)
            indep_r = refimpl.kek_public(hn.lower(), sa, refimpl.group_private_key(hn.lower(), l2, sa, plen), kid.key_info)
            if indep_r != indep and kek != indep_r:
                # (the receiver's KEK follows from the ephemeral public value STORED in the key identifier; a sender that drew again
                # must return the KEK of the value it finally stored)
                ctx.violation("the sender's KEK does not belong to the ephemeral public value it stored in the key identifier",
                              {**inp0, "draw": hx(draw), **({"first_draw": first_draw} if first_draw is not None else {})}, hx(kek), hx(indep_r))
                return
            if indep_r != indep:
                indep = indep_r       # the sender legitimately drew again: the construction is checked for the value it stored
            z, _ = refimpl.shared_secret(sa, draw, env_s.l2_key)
            if z[0] == 0 or kid.key_info[8:9] == b"\x00" or kid.key_info[8 + (len(kid.key_info) - 8) // 3 * 2: 9 + (len(kid.key_info) - 8) // 3 * 2] == b"\x00":
                lead_real += 1
        if not (kek == kek_r == indep):
            ctx.violation("KEK disagreement with real crypto", {"mode": mode, "hash": hn, "draw": hx(draw), "l2": hx(l2), "secret_parameters": (hx(sp) if mode == "DHsmall" else hx(sp)[:80]), "private_key_length": plen,
                                                                **({"scenario": scenario} if scenario else {}), **({"key_length_padding": repad} if repad else {}),
                                                                **({"first_draw": first_draw} if first_draw is not None else {})},
                          f"sender={hx(kek)} receiver={hx(kek_r)}", f"independent={hx(indep)}")

    for hn in HASHES:
        for mode in ("nonce", "DH", "DHsmall", "ECDH_P256", "ECDH_P384"):
            reps = (3 if mode != "DH" else 1) * (4 if ctx.thorough else 1) * (12 if mode == "DHsmall" else 1)
            for _ in range(reps):
                real_case(hn, mode, gen.rand_bytes(rng, 64), rng.choice([512, 256, 384, 16, 8]), rng.choice(SMALL_GROUPS),
                          repad=rng.choice([0, 0, 1, 4]) if mode == "DHsmall" else (rng.choice([0, 1, 4]) if mode == "DH" else 0))
    # ---- (b2) fixed-width sweep: the same small group published with key_length equal to every digest / curve size and its neighbours
    #      (20, 28, 32, 48, 64, 66 …): the KDF hash and output length must not depend on the width of the serialised secret
    for kl_ in (5, 8, 16, 20, 21, 24, 28, 32, 33, 47, 48, 49, 64, 65, 66, 67, 96, 128, 132):
        for hn in (HASHES if ctx.thorough else [HASHES[kl_ % len(HASHES)], HASHES[(kl_ + 1) % len(HASHES)]]):
            (_, p_, g_) = rng.choice([grp for grp in SMALL_GROUPS if grp[0] <= kl_] or SMALL_GROUPS[:1])
            real_case(hn, "DHsmall", gen.rand_bytes(rng, 64), rng.choice([512, 256, 384]), (kl_, p_, g_), scenario="key_length sweep")
            ctx.count(f"real:key_length_sweep")
    # ---- (b1) ephemeral exponents that give a degenerate public value (g^x = 1 or p − 1) in a small group, scripted as the FIRST draw:
    #      whatever the sender then does (keep it, or draw again), the KEK it returns must belong to the public value it stores
    for (kl_, p_, g_) in [grp for grp in SMALL_GROUPS if grp[1] < 2**17]:
        order = next(k for k in range(1, p_) if pow(g_, k, p_) == 1)
        for x0 in [order, 2 * order] + ([order // 2] if order % 2 == 0 and pow(g_, order // 2, p_) == p_ - 1 else []):
            for hn in HASHES[:2] if not ctx.thorough else HASHES:
                real_case(hn, "DHsmall", gen.rand_bytes(rng, 64), 256, (kl_, p_, g_), scenario="degenerate first ephemeral exponent", first_draw=x0)
                ctx.count("real:scripted_degenerate_exponent")
    # ---- (b0) ONE L2 seed (one group key) used under every KDF hash in turn, in one process: whatever the library keeps between
    #      calls, each (seed, hash) pair must still give the KEK of the independent implementation
    for mode in ("nonce", "DHsmall", "ECDH_P256"):
        l2 = gen.rand_bytes(rng, 64)
        grp = rng.choice(SMALL_GROUPS)
        for hn in HASHES + HASHES[::-1]:
            real_case(hn, mode, l2, 256, grp, scenario="one seed, every hash in turn")
    # ---- (b') ECDH ephemeral keys whose public point has special leading octets (0x00, 0x04 = the X9.62 prefix, 0xFF) in X or Y:
    #      small scalars found once by walking multiples of the generator; the stored point must be exactly (X, Y) at full width
    special = {"ECDH_P256": {"y00": 43, "x04": 106, "xff": 172, "y04": 349, "x00": 379, "x0404": 41132},
               "ECDH_P384": {"y04": 89, "y00": 176, "x00": 197, "x04": 253, "xff": 627, "x0404": 83620}}
    for sa, table in special.items():
        cv, magic, _ = refimpl.CURVES[sa]
        for hn in (HASHES if ctx.thorough else HASHES[:2]):
            for label, e in table.items():
                l2 = gen.rand_bytes(rng, 64)
                plen = 256 if sa == "ECDH_P256" else 384
                seed_env = gen.make_env(kdf_parameters=gen.kdf_params(hn), l2_key=l2, l1_key=b"", secret_algorithm=sa, secret_parameters=b"", private_key_length=plen)
                pub = refimpl.group_public_key(hn.lower(), l2, sa, b"", plen)
                env_s = gen.make_env(kdf_parameters=seed_env.kdf_parameters, l2_key=pub, l1_key=b"", flags=1, secret_algorithm=sa, secret_parameters=b"", private_key_length=plen)
                draw = e.to_bytes(plen // 8, "big")
                with toycrypto.recording(rng_script=lambda n, draw=draw: draw[-n:].rjust(n, b"\x00")):
                    try:
                        kek, kid = env_s.new_kek()
                        kek_r = seed_env.get_kek(kid)
                        out = (hx(kek), hx(kek_r))
                    except Exception as ex:  # noqa
                        kid, out = None, "raised " + canon_exc(ex)
                X, Y = cv.mul(e, cv.g)
                want_info = magic + struct.pack("<I", cv.size) + X.to_bytes(cv.size, "big") + Y.to_bytes(cv.size, "big")
                indep = refimpl.kek_public(hn.lower(), sa, draw, env_s.l2_key)
                ctx.count("real:ec_special_point:" + label)
                if kid is None or kid.key_info != want_info or out != (hx(indep), hx(indep)):
                    ctx.violation("ECDH: the stored ephemeral point / the two KEKs are wrong for a point with special leading octets",
                                  {"mode": sa, "hash": hn, "point": label, "ephemeral_scalar": e}, str(out)[:120] + (" key_info " + hx(kid.key_info)[:40] if kid else ""),
                                  "both = " + hx(indep) + " key_info " + hx(want_info)[:40])
    ctx.count("real:cases", n_real)
    ctx.count("real:leading_zero_cases", lead_real)

    # ---- (c) the 16 Windows vectors: the library's KEK = the independent KEK ---------------------------
    import dpapi_ng
    from dpapi_ng._blob import DPAPINGBlob
    data = "/repo/tests/data"
    for fn in sorted(os.listdir(data)):
        if not fn.startswith("kdf_"):
            continue
        d = json.load(open(os.path.join(data, fn)))
        blob = DPAPINGBlob.unpack(base64.b16decode(d["Data"]))
        hn = g.KDFParameters.unpack(base64.b16decode(d["KdfParameters"])).hash_name
        chain = refimpl.Chain(hn.lower(), base64.b16decode(d["RootKeyData"]), uuid.UUID(d["RootKeyId"]), blob.protection_descriptor.get_target_sd(), blob.key_identifier.l0)
        l2 = chain.K2(blob.key_identifier.l1, blob.key_identifier.l2)
        sa = d["SecretAgreementAlgorithm"]
        if blob.key_identifier.is_public_key:
            indep = refimpl.kek_public(hn.lower(), sa, refimpl.group_private_key(hn.lower(), l2, sa, d["PrivateKeyLength"]), blob.key_identifier.key_info)
        else:
            indep = refimpl.kek_nonce(hn.lower(), l2, blob.key_identifier.key_info)
        cache = dpapi_ng.KeyCache()
        cache.load_key(base64.b16decode(d["RootKeyData"]), uuid.UUID(d["RootKeyId"]), d["Version"], d["KdfAlgorithm"], base64.b16decode(d["KdfParameters"]),
                       sa, base64.b16decode(d["SecretAgreementParameters"]), d["PrivateKeyLength"], d["PublicKeyLength"])
        env = cache._get_key(blob.protection_descriptor.get_target_sd(), uuid.UUID(d["RootKeyId"]), blob.key_identifier.l0, blob.key_identifier.l1, blob.key_identifier.l2)
        lib = env.get_kek(blob.key_identifier)
        ctx.count("windows_vectors")
        if lib != indep:
            ctx.violation("library KEK differs from the independent construction on a Windows vector", {"file": fn}, hx(lib), hx(indep))
        else:
            # and that KEK really opens the Windows blob
            from cryptography.hazmat.primitives import keywrap
            try:
                keywrap.aes_key_unwrap(indep, blob.enc_cek)
            except Exception as e:  # noqa
                ctx.violation("independent KEK does not unwrap the Windows blob's CEK (oracle calibration failed)", {"file": fn}, type(e).__name__, "unwrap")


def _d(e):
    return dict(version=e.version, flags=e.flags, l0=e.l0, l1=e.l1, l2=e.l2, root_key_identifier=e.root_key_identifier, kdf_algorithm=e.kdf_algorithm,
                kdf_parameters=e.kdf_parameters, secret_algorithm=e.secret_algorithm, secret_parameters=e.secret_parameters,
                private_key_length=e.private_key_length, public_key_length=e.public_key_length, domain_name=e.domain_name, forest_name=e.forest_name,
                l1_key=e.l1_key, l2_key=e.l2_key)


def search(ctx, broken, disagreements):
    pass  # the direct oracles (both sides + independent implementation) already ran on all generated cases


def replay(ctx, payload):
    v = payload["violation"]["input"]
    print("recorded input:", v)
    if v.get("scenario") == "refused_then_again":
        c2 = type(ctx)(ctx.prop, "quick", ctx.seed)
        refused_then_again(c2)
        for x in c2.violations:
            print(" ", x["what"], x["input"], x["observed"])
        return not c2.violations
    if v.get("scenario") == "seed_shapes":
        c2 = type(ctx)(ctx.prop, "quick", ctx.seed)
        seed_shapes(c2)
        for x in c2.violations:
            print(" ", x["what"], x["input"], x["observed"])
        return not c2.violations
    if "draw" not in v:
        return False
    mode = v["mode"]
    sa = "DH" if mode.startswith("DH") or mode == "nonce" else mode
    l2, draw, sp, plen = bytes.fromhex(v["l2"]), bytes.fromhex(v["draw"]), bytes.fromhex(v["secret_parameters"].replace("-", "")), v["private_key_length"]
    ok = True
    # a recorded history ("one seed, every hash in turn") is replayed as that history; a single case as itself
    for hn in ((HASHES + HASHES[::-1]) if v.get("scenario") == "one seed, every hash in turn" else [v["hash"]]):
        seed_env = gen.make_env(kdf_parameters=gen.kdf_params(hn), l2_key=l2, l1_key=b"", secret_algorithm=sa, secret_parameters=sp, private_key_length=plen)
        pub = None if mode == "nonce" else refimpl.group_public_key(hn.lower(), l2, sa, sp, plen)
        if pub is not None and v.get("key_length_padding") and sa == "DH":
            kl0, p0, g0 = refimpl.parse_ffc_params(sp)
            pub = refimpl.ffc_key(kl0 + v["key_length_padding"], p0, g0, int.from_bytes(pub[8 + 2 * kl0:8 + 3 * kl0], "big"))
        env_s = seed_env if mode == "nonce" else gen.make_env(kdf_parameters=seed_env.kdf_parameters, l2_key=pub, l1_key=b"",
                                                              flags=1, secret_algorithm=sa, secret_parameters=sp, private_key_length=plen)
        used = []

        def script(n):
            import os as _os
            b = draw[:n] if not used else _os.urandom(n)       # the recorded draw first; a sender that draws again gets fresh bytes
            used.append(b)
            return b
        with toycrypto.recording(script):
            try:
                kek, kid = env_s.new_kek()
            except ValueError as e:
                print(f"{hn}: sender: ValueError: {e}")
                ok = False
                continue
            try:
                kek_r = seed_env.get_kek(kid)
            except ValueError as e:
                ki = kid.key_info
                kl_ = int.from_bytes(ki[4:8], "little")
                if sa == "DH" and mode != "nonce" and not (1 < int.from_bytes(ki[8 + 2 * kl_:8 + 3 * kl_], "big") < int.from_bytes(ki[8:8 + kl_], "big") - 1):
                    print(f"{hn}: the receiver refuses the degenerate ephemeral value (as it should)")
                    kek_r = kek
                else:
                    print(f"{hn}: receiver: ValueError: {e}")
                    ok = False
                    continue
        # the construction, for the ephemeral public value actually stored in the key identifier
        indep = refimpl.kek_nonce(hn.lower(), l2, kid.key_info) if mode == "nonce" else refimpl.kek_public(hn.lower(), sa, refimpl.group_private_key(hn.lower(), l2, sa, plen), kid.key_info)
        print(f"{hn}: sender={hx(kek)} receiver={hx(kek_r)} independent={hx(indep)}")
        ok = ok and kek == kek_r == indep
    return ok
