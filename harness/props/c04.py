"""C04 — a modified blob never decrypts to different plaintext."""
from __future__ import annotations
import der, refimpl, prelude, gen, clientsim, refdc, toycrypto
from check import canon_exc, hx

MANIFEST = {
    "text": "Lean theorems: decrypt_dataflow (whatever _decrypt_blob returns is AES-GCM decryption — nonce from the blob's own parameters — of the whole enc_content under the CEK obtained by unwrapping the whole enc_cek with the KEK bound to the blob's key identifier; nothing else influences the output), tamper_safe / tamper_safe_api (under the stated integrity idealisation of AES-KW and AES-GCM, for EVERY byte string handed to unprotect a returned plaintext is the original); tied to the code by correspondence of ncrypt_unprotect_secret on mutants of valid blobs (every single-bit flip, byte substitution / insertion / deletion / truncation at every offset, multi-site mutations; every configuration, both layouts) comparing the outcome and, through the toy primitives' checks, the exact inputs that reach the primitives; a real-crypto oracle searches for a mutant that returns different bytes, including keyless forgeries through a degenerate / foreign-group DH public value (D15, fixed); degenerate_dh_rejected / foreign_group_rejected state the repaired validation",
    "note": "Trusted: Lean kernel; model (differential tie); the integrity of AES-KW / AES-GCM is a premise (OnlyHonest), never a conclusion — partial in exactly that respect",
    "technique": "Lean 4 proof (dataflow + decision logic under an explicit idealisation) + mutant correspondence",
}
THEOREMS = ["DpapiNg.C04.decrypt_dataflow", "DpapiNg.C04.tamper_safe", "DpapiNg.C04.tamper_safe_api", "DpapiNg.C04.degenerate_dh_rejected", "DpapiNg.C04.foreign_group_rejected"]
RULE = ("valid blobs of each configuration (4 hashes × {nonce, DH, P-256, P-384}) and both layouts; mutants: every single-bit flip (quick: every bit of one blob per mode + a stride on the others), "
        "byte substitution / insertion / deletion / truncation at every offset (stride in quick), multi-site mutations, keyless DH forgeries (y ∈ {0, 1, p−1}, substituted modulus; CEK re-wrapped, content replaced); toy-crypto mutants compared with the model, real-crypto mutants checked by the oracle; "
        "distinct by mutant; non-trivial = mutant differs from the original")
ASSUMPTIONS = ["OnlyHonest: only the honest (key, wrapped key) unwraps and only the honest (key, nonce, ciphertext‖tag) verifies (integrity of AES-KW / AES-GCM)"]


def make(ctx, real, rec, mode, layout):
    kw = {} if real else dict(kdf_factory=clientsim.toy_kdf_factory, public_key_fn=clientsim.toy_public_key)
    dc = refdc.KeyServer(now=(361, 17, 13), public_for=(lambda sd: True) if mode == "public" else (lambda sd: False), **kw)
    dc.add_root(rec)
    s = clientsim.Sim(dc, real_crypto=real)
    data = b"attack at dawn -- " + rec.hash_name.encode()
    with s.world():
        if mode == "cache":
            s.load(rec)
        out = s.protect(data, "S-1-5-21-1-2-3-1103", rk=rec.id if mode == "cache" else None)
    assert out.startswith("done "), out
    blob = bytes.fromhex(out[5:])
    if layout == "trailing":
        blob = der.to_trailing(blob)
    return blob, data


def mutants(ctx, blob, dense):
    rng = ctx.rng
    n = len(blob)
    out = []
    bits = range(n * 8) if dense else sorted(set(rng.randrange(n * 8) for _ in range(160)) | set(range(0, 64)))
    for i in bits:
        out.append(("bitflip", blob[:i // 8] + bytes([blob[i // 8] ^ (1 << (i % 8))]) + blob[i // 8 + 1:]))
    offs = range(n) if dense else sorted(set(rng.randrange(n) for _ in range(40)))
    for i in offs:
        out.append(("subst", blob[:i] + bytes([rng.randrange(256)]) + blob[i + 1:]))
        out.append(("insert", blob[:i] + bytes([rng.randrange(256)]) + blob[i:]))
        out.append(("delete", blob[:i] + blob[i + 1:]))
        out.append(("truncate", blob[:i]))
    for _ in range(200 if dense else 40):
        m = bytearray(blob)
        for _ in range(rng.randrange(2, 5)):
            m[rng.randrange(n)] ^= 1 << rng.randrange(8)
        out.append(("multi", bytes(m)))
    out.append(("append", blob + b"\x00"))
    out.append(("append", blob + blob[-16:]))
    # option fields: every INTEGER / OID of the CMS structure with a neighbouring value (versions, the GCM ICVlen, algorithm arcs) —
    # alone and together with one flipped ciphertext bit (an unauthenticated option must not buy a weaker check)
    try:
        from props import c05
        for (off, hl, cl, cons) in c05.tlv_spans(blob):
            if blob[off] in (0x02, 0x06) and cl >= 1:
                last = off + hl + cl - 1
                for v in list(range(0, 21)) + [0x2D, 0x2E, 0x7F, 0x80, 0xFF]:
                    if v != blob[last]:
                        m = blob[:last] + bytes([v]) + blob[last + 1:]
                        out.append((f"option@{last}={v}", m))
                        if dense or v in (12, 13, 14, 15):
                            out.append((f"option@{last}={v}+ctbit", m[:-20] + bytes([m[-20] ^ 1]) + m[-19:]))
    except Exception:  # noqa
        pass
    return out


def forgeries(blob, rec):
    """multi-site mutations by a party holding NO key material: the sender's DH value in the key identifier is replaced by a
    degenerate one (so that the shared secret is predictable), the CEK is re-wrapped under the KEK that follows from it and the
    content is replaced.  (Unlike ECDH, where `cryptography` validates the point, the FFC value is taken from the blob as is.)"""
    import hashlib, struct
    from cryptography.hazmat.primitives.ciphers.aead import AESGCM
    from cryptography.hazmat.primitives import keywrap
    from dpapi_ng._blob import DPAPINGBlob
    import dataclasses
    b = DPAPINGBlob.unpack(blob)
    ki = b.key_identifier.key_info
    out = []
    def confusion():
        if rec.secret_algorithm == "DH":
            return
        # algorithm confusion: the root key says ECDH, the forged key identifier carries an FFC-DH structure of a tiny group whose
        # shared secret is 0 for every private key (the blob must not get to choose the key agreement)
        for (kl2, p2, g2, y2) in ((1, 4, 2, 2), (2, 9, 2, 3), (32, 8, 2, 4), (1, 135, 2, 15)):
            try:
                shared = (0).to_bytes(kl2, "big")
                secret = refimpl.concat_kdf("sha256", shared, refimpl.SHA512ID + refimpl.PUBLABEL + refimpl.LABEL, 32)
                kek = refimpl.kbkdf_hmac(rec.hash_name.lower(), secret, refimpl.LABEL, refimpl.PUBLABEL, 32)
                cek = hashlib.sha256(b"forger cek (confusion)").digest()
                evil = b"forged by a party without keys"
                kid = dataclasses.replace(b.key_identifier, flags=b.key_identifier.flags | 1, key_info=refimpl.ffc_key(kl2, p2, g2, y2))
                fb = dataclasses.replace(b, key_identifier=kid, enc_cek=keywrap.aes_key_wrap(kek, cek), enc_content=AESGCM(cek).encrypt(b.enc_content_parameters[4:16], evil, None))
                out.append((f"forgery:dh-structure-for-{rec.secret_algorithm}-root:kl={kl2},p={p2},y={y2}:bet=0", fb.pack()))
            except Exception:  # noqa
                pass

    if not b.key_identifier.is_public_key:
        # nonce mode: the forger bets that the receiver derives the KEK from a degenerate L2 key (empty / all zero) at some position
        for (l1, l2) in ((31, 31), (b.key_identifier.l1, b.key_identifier.l2), (0, 0), (31, 0), (0, 31)):
            for l2key in (b"", bytes(64)):
                kek = refimpl.kbkdf_hmac(rec.hash_name.lower(), l2key, refimpl.LABEL, ki, 32)
                cek = hashlib.sha256(b"forger cek").digest()
                evil = b"forged by a party without keys"
                kid = dataclasses.replace(b.key_identifier, l1=l1, l2=l2)
                fb = dataclasses.replace(b, key_identifier=kid, enc_cek=keywrap.aes_key_wrap(kek, cek), enc_content=AESGCM(cek).encrypt(b.enc_content_parameters[4:16], evil, None))
                out.append((f"forgery:position({l1},{l2}):l2key={'empty' if not l2key else 'zeros'}", fb.pack()))
        confusion()
        return out
    if rec.secret_algorithm != "DH":
        confusion()
        return out
    if ki[:4] != b"DHPB":
        return []
    kl = struct.unpack_from("<I", ki, 4)[0]
    p_, g_ = int.from_bytes(ki[8:8 + kl], "big"), int.from_bytes(ki[8 + kl:8 + 2 * kl], "big")
    # (label, field order put in the blob, public value put in the blob, shared secrets the forger bets on)
    plans = [("y=1", p_, 1, [1]), ("y=0", p_, 0, [0]), ("y=p-1", p_, p_ - 1, [1, p_ - 1]), ("p=2,y=1", 2, 1, [1]), ("p=1", 1, 0, [0]),
             ("p=4,y=2", 4, 2, [0]), ("p=9,y=3", 9, 3, [0]), ("p=8,y=4", 8, 4, [0])]       # in-range values of a foreign group with a predictable secret
    plans = [(label, kl, fo, g_ % max(fo, 1), y, bets) for (label, fo, y, bets) in plans]
    # public values OUTSIDE [0, p) that are congruent to a degenerate one (p, p + 1, and — in a structure one octet wider, p and g
    # zero-padded, so the same group as integers — 2p − 1, 2p, 2p + 1): the secret is 0, 1 or ±1 whatever the private key is
    plans += [("y=p", kl, p_, g_, p_, [0]), ("y=p+1", kl, p_, g_, p_ + 1, [1])] if p_ + 1 < 256 ** kl else []
    plans += [("y=2p-1,wider", kl + 1, p_, g_, 2 * p_ - 1, [1, p_ - 1]), ("y=2p,wider", kl + 1, p_, g_, 2 * p_, [0]), ("y=2p+1,wider", kl + 1, p_, g_, 2 * p_ + 1, [1]),
              ("y=p+1,wider", kl + 1, p_, g_, p_ + 1, [1])]
    # a tiny group whose encoding is a byte PREFIX of the real one (key_length 1 or 2, p and g cut from the leading bytes of the
    # real p ‖ g or of the real p alone), with an idempotent or nilpotent public value: the secret does not depend on any private key
    pb, gb = ki[8:8 + kl], ki[8 + kl:8 + 2 * kl]
    for k2 in (1, 2):
        for (how, p2, g2) in (("p,g", int.from_bytes(pb[:k2], "big"), int.from_bytes(gb[:k2], "big")), ("pp", int.from_bytes(pb[:k2], "big"), int.from_bytes(pb[k2:2 * k2], "big"))):
            idem = [y for y in range(2, p2 - 1) if y * y % p2 == y][:2]
            nil = [y for y in range(2, p2 - 1) if pow(y, 16, p2) == 0][:1]
            for y in idem:
                plans.append((f"prefix-group[{how}]:kl={k2},p={p2},y={y}(idempotent)", k2, p2, g2, y, [y]))
            for y in nil:
                plans.append((f"prefix-group[{how}]:kl={k2},p={p2},y={y}(nilpotent)", k2, p2, g2, y, [0]))
    for label, kl, fo, gg, y, bets in plans:
        for z in bets:
            try:
                shared = z.to_bytes(kl, "big")
                secret = refimpl.concat_kdf("sha256", shared, refimpl.SHA512ID + refimpl.PUBLABEL + refimpl.LABEL, 32)
                kek = refimpl.kbkdf_hmac(rec.hash_name.lower(), secret, refimpl.LABEL, refimpl.PUBLABEL, 32)
                cek = hashlib.sha256(b"forger cek " + label.encode()).digest()
                iv = b.enc_content_parameters[4:16]
                evil = b"forged by a party without keys"
                kid = dataclasses.replace(b.key_identifier, key_info=refimpl.ffc_key(kl, fo, gg, y))
                fb = dataclasses.replace(b, key_identifier=kid, enc_cek=keywrap.aes_key_wrap(kek, cek), enc_content=AESGCM(cek).encrypt(iv, evil, None))
                out.append((f"forgery:{label}:bet={'1' if z == 1 else '0' if z == 0 else 'p-1' if z == fo - 1 else 'y'}", fb.pack()))
            except Exception:  # noqa  (a plan the structures cannot express)
                pass
    return out


def history_forgeries(ctx):
    """keyless forgeries that bet on what a SHARED cache holds after a history of calls: a seed key obtained from the DC, then a
    protect answered from the cache; the forger lowers L1 by one and derives the KEK from an EMPTY L1 seed (everything else is in the blob)"""
    import dataclasses, hashlib
    from cryptography.hazmat.primitives.ciphers.aead import AESGCM
    from cryptography.hazmat.primitives import keywrap
    from dpapi_ng._blob import DPAPINGBlob
    for rec in [r for r in clientsim.standard_roots(real=True) if r.secret_algorithm == "ECDH_P256"]:
        for now in ((361, 17, 13), (361, 17, 31), (361, 1, 0)):
            dc = refdc.KeyServer(now=now)
            dc.add_root(rec)
            s = clientsim.Sim(dc, real_crypto=True)
            s.now_ns = clientsim.time_ns_for(*now)
            with s.world():
                b1 = s.protect(b"first", "S-1-5-21-1-2-3-1103", rk=None)            # goes to the DC, seed key stored
                b2 = s.protect(b"second", "S-1-5-21-1-2-3-1103", rk=rec.id)        # answered from the cache
                if not (b1.startswith("done ") and b2.startswith("done ")):
                    ctx.violation("protect on a shared cache fails", {"now": now}, (b1[:30], b2[:30]), "blobs")
                    continue
                blob = DPAPINGBlob.unpack(bytes.fromhex(b2[5:]))
                kid = blob.key_identifier
                hn = rec.hash_name.lower()
                for (n1, n2) in ((kid.l1 - 1, 31), (kid.l1 - 1, 0), (kid.l1, kid.l2), (kid.l1, 31)):
                    if n1 < 0:
                        continue
                    # keys "derivable" from an empty L1 seed
                    k = refimpl.kbkdf_hmac(hn, b"", refimpl.LABEL, refimpl.kctx(kid.root_key_identifier, kid.l0, n1, 31), 64)
                    for j in range(30, n2 - 1, -1):
                        k = refimpl.kbkdf_hmac(hn, k, refimpl.LABEL, refimpl.kctx(kid.root_key_identifier, kid.l0, n1, j), 64)
                    kek = refimpl.kbkdf_hmac(hn, k, refimpl.LABEL, kid.key_info, 32)
                    cek = hashlib.sha256(b"forger").digest()
                    evil = b"forged after a cache history"
                    forged = dataclasses.replace(blob, key_identifier=dataclasses.replace(kid, l1=n1, l2=n2), enc_cek=keywrap.aes_key_wrap(kek, cek),
                                                 enc_content=AESGCM(cek).encrypt(blob.enc_content_parameters[4:16], evil, None)).pack()
                    out = s.unprotect(forged, no_reply=True)
                    ctx.count("real:forgery:after-history")
                    if out is not None and out.startswith("done ") and out != "done " + hx(b"second"):
                        ctx.violation("a blob forged without key material decrypts on a cache with a history", {"now": list(now), "forged_position": [n1, n2], "hash": rec.hash_name,
                                                                                                               "history": "protect via DC; protect from cache; unprotect forged"}, out[:80], "error")



def cross_group_history(ctx):
    """one long-lived cache, two groups: a member of group X (who legitimately holds X's seed keys) first has the cache unprotect a blob
    for X that REUSES the victim blob's key identifier, then submits the victim's blob (group Y) with only enc_cek, nonce and content
    replaced by ones made under X's KEK.  The KEK of a blob is bound to its protection descriptor; whatever the cache remembered from the
    first call, the second must fail — never return the adversary's plaintext (real crypto, both layouts, sync and async)"""
    import asyncio, dataclasses, hashlib, uuid
    import dpapi_ng, dpapi_ng._client as c
    from cryptography.hazmat.primitives.ciphers.aead import AESGCM
    from cryptography.hazmat.primitives import keywrap
    from dpapi_ng._blob import DPAPINGBlob, ProtectionDescriptor, SIDDescriptor
    from dpapi_ng import _gkdi as g
    from props.c06 import template
    rk = uuid.UUID("d778c271-9025-9a82-f6dc-b8960b8ad8c5")
    root = bytes(range(5, 69))
    sid_y, sid_x = "S-1-5-21-1-2-3-1103", "S-1-5-21-9-9-9-500"
    sd_x = ProtectionDescriptor.parse(sid_x).get_target_sd()
    old = c.time
    c.time = type("T", (), {"time_ns": staticmethod(lambda: clientsim.time_ns_for(361, 17, 13))})
    try:
        for hn in ("SHA512", "SHA256"):
            for use_async in (False, True):
                for layout in (True, False):
                    cache = dpapi_ng.KeyCache()
                    cache.load_key(root, root_key_id=rk, kdf_parameters=g.KDFParameters(hn).pack())
                    a = DPAPINGBlob.unpack(dpapi_ng.ncrypt_protect_secret(b"the victim's secret", sid_y, root_key_identifier=rk, cache=dpapi_ng.KeyCache() if False else cache))
                    kid = a.key_identifier
                    # X's KEK for that key identifier, from X's own seed material (independent chain)
                    kek_x = refimpl.kek_nonce(hn.lower(), refimpl.Chain(hn.lower(), root, rk, sd_x, kid.l0).K2(kid.l1, kid.l2), kid.key_info)
                    cek = hashlib.sha256(b"member of X").digest()
                    nonce = a.enc_content_parameters[4:16]
                    evil = b"adversary chosen plaintext!"
                    b_ = dataclasses.replace(a, protection_descriptor=SIDDescriptor(sid_x), enc_cek=keywrap.aes_key_wrap(kek_x, cek),
                                             enc_content=AESGCM(cek).encrypt(nonce, b"a valid blob for group X", None))
                    a2 = dataclasses.replace(a, enc_cek=keywrap.aes_key_wrap(kek_x, cek), enc_content=AESGCM(cek).encrypt(nonce, evil, None))
                    # a fresh cache for the protecting side would do as well; the history below runs on ONE cache
                    long_lived = dpapi_ng.KeyCache()
                    long_lived.load_key(root, root_key_id=rk, kdf_parameters=g.KDFParameters(hn).pack())

                    def un(blob_obj):
                        wire = template(blob_obj, layout)
                        try:
                            r = asyncio.run(dpapi_ng.async_ncrypt_unprotect_secret(wire, cache=long_lived)) if use_async else dpapi_ng.ncrypt_unprotect_secret(wire, cache=long_lived)
                            return "done " + hx(r)
                        except Exception as e:  # noqa
                            return "err " + canon_exc(e)
                    first = un(b_)
                    second = un(a2)
                    third = un(a)
                    ctx.count("real:cross_group_history")
                    inp = {"scenario": "cross_group_history", "hash": hn, "async": use_async, "in_envelope": layout,
                           "history": "unprotect X's blob reusing the victim's key identifier; unprotect the victim's blob re-keyed under X's KEK"}
                    if first != "done " + hx(b"a valid blob for group X"):
                        ctx.notes.append(f"cross_group_history: X's own blob did not decrypt ({first[:40]})")
                    if second.startswith("done "):
                        ctx.violation("a modified blob decrypts to different plaintext", inp, second[:80], "error")
                        return
                    if third != "done " + hx(b"the victim's secret"):
                        ctx.violation("after the history the victim's intact blob no longer decrypts", inp, third[:80], "the plaintext")
                        return
    finally:
        c.time = old



def foreign_root_history(ctx):
    """key material never leaks between cache objects: a blob made under a DIFFERENT root key registered under the same identifier (another
    cache in the same process — a test fixture, another tenant, a rogue DC's reply held by a cache-less call) must not decrypt on a cache
    that holds the real root key, whatever other caches did before (any L0, sync and async, both layouts)"""
    import asyncio, uuid
    import dpapi_ng, dpapi_ng._client as c
    from dpapi_ng import _gkdi as g
    rk = uuid.UUID("d778c271-9025-9a82-f6dc-b8960b8ad8c5")
    real_root, other_root = bytes(range(5, 69)), bytes(range(105, 169))
    sid = "S-1-5-21-1-2-3-1103"
    old = c.time
    try:
        for hn in ("SHA512", "SHA256"):
            for l0 in (360, 361):
                for use_async in (False, True):
                    c.time = type("T", (), {"time_ns": staticmethod(lambda l0=l0: clientsim.time_ns_for(l0, 17, 13))})
                    a = dpapi_ng.KeyCache()
                    a.load_key(other_root, root_key_id=rk, kdf_parameters=g.KDFParameters(hn).pack())
                    forged = dpapi_ng.ncrypt_protect_secret(b"made under another root key", sid, root_key_identifier=rk, cache=a)
                    c.time = type("T", (), {"time_ns": staticmethod(lambda: clientsim.time_ns_for(361, 20, 0))})
                    b = dpapi_ng.KeyCache()
                    b.load_key(real_root, root_key_id=rk, kdf_parameters=g.KDFParameters(hn).pack())
                    mine = dpapi_ng.ncrypt_protect_secret(b"the real secret", sid, root_key_identifier=rk, cache=b)
                    for wire in (forged, der.to_trailing(forged)):
                        try:
                            got = asyncio.run(dpapi_ng.async_ncrypt_unprotect_secret(wire, cache=b)) if use_async else dpapi_ng.ncrypt_unprotect_secret(wire, cache=b)
                            out = "done " + hx(got)
                        except Exception as e:  # noqa
                            out = "err " + canon_exc(e)
                        ctx.count("real:foreign_root_history")
                        if out.startswith("done "):
                            ctx.violation("a blob made under a different root key decrypts on a cache holding the real root key (key material shared between cache objects)",
                                          {"scenario": "foreign_root_history", "hash": hn, "forged_l0": l0, "async": use_async}, out[:80], "error")
                            return
                    back = dpapi_ng.ncrypt_unprotect_secret(mine, cache=b)
                    if back != b"the real secret":
                        ctx.violation("after the history the cache no longer decrypts its own blob", {"scenario": "foreign_root_history", "hash": hn}, hx(back)[:60], "the plaintext")
                        return
    finally:
        c.time = old



def double_protected(ctx):
    """a secret protected twice (the plaintext of the outer blob is itself a DPAPI-NG blob the same key material decrypts): every option-field
    neighbour, every single-bit flip of the outer blob's identifiers and a sample of the rest must yield an error or the ORIGINAL outer
    plaintext (the inner blob) — never anything derived from it, such as the innermost secret (real crypto)"""
    rec = [r for r in clientsim.standard_roots(real=True) if r.secret_algorithm == "ECDH_P256"][0]
    dc = refdc.KeyServer(now=(361, 17, 13))
    dc.add_root(rec)
    s = clientsim.Sim(dc, real_crypto=True)
    with s.world():
        s.load(rec)
        inner = s.protect(b"the innermost secret", "S-1-5-21-1-2-3-1103", rk=rec.id)
        outer = s.protect(bytes.fromhex(inner[5:]), "S-1-5-21-1-2-3-1103", rk=rec.id)
    if not (inner.startswith("done ") and outer.startswith("done ")):
        return
    data, blob = bytes.fromhex(inner[5:]), bytes.fromhex(outer[5:])
    from props import c05
    cands = []
    for (off, hl, cl, cons) in c05.tlv_spans(blob):
        if blob[off] in (0x02, 0x06) and cl >= 1:
            for pos in range(off, off + hl + cl):
                for bit in range(8):
                    cands.append((f"bitflip@{pos}.{bit}", blob[:pos] + bytes([blob[pos] ^ (1 << bit)]) + blob[pos + 1:]))
    cands += [(k, m) for (k, m) in mutants(ctx, blob, False) if k.startswith("option@")][:400]
    for kind, m in cands:
        s2 = clientsim.Sim(dc, real_crypto=True)
        with s2.world():
            s2.load(rec)
            out = s2.unprotect(m, no_reply=True)
        ctx.count("real:double_protected")
        if out is not None and out.startswith("done ") and out != "done " + hx(data):
            ctx.violation("a modified blob decrypts to different plaintext", {"config": [rec.hash_name, rec.secret_algorithm, "cache", "in-envelope"], "mutation": "double-protected:" + kind,
                                                                            "blob": hx(m), "real_crypto": True}, out[:80], "error or the original plaintext (the inner blob)")
            return



def zeroed_seed_history(ctx):
    """a cache that obtained its seed key from the DC at exactly the blob's position: unprotecting the valid blob (twice — the second time must
    still work) and then a copy whose enc_cek / nonce / content were made under the KEK that would follow from an ALL-ZERO (or empty) L2 key
    — key material the adversary can compute without any secret: it must be refused, whatever earlier calls did to the cached material"""
    import dataclasses, hashlib
    from cryptography.hazmat.primitives.ciphers.aead import AESGCM
    from cryptography.hazmat.primitives import keywrap
    from dpapi_ng._blob import DPAPINGBlob
    from props.c06 import template
    for rec in [r for r in clientsim.standard_roots(real=True) if r.secret_algorithm == "ECDH_P256"][:2]:
        now = (361, 17, 13)
        dc = refdc.KeyServer(now=now)
        dc.add_root(rec)
        maker = clientsim.Sim(dc, real_crypto=True)
        maker.now_ns = clientsim.time_ns_for(*now)
        with maker.world():
            maker.load(rec)
            out = maker.protect(b"the valid secret", "S-1-5-21-1-2-3-1103", rk=rec.id)
        if not out.startswith("done "):
            continue
        raw = bytes.fromhex(out[5:])
        blob = DPAPINGBlob.unpack(raw)
        kid = blob.key_identifier
        hn = rec.hash_name.lower()
        for use_async in (False, True):
            s = clientsim.Sim(dc, real_crypto=True)           # no root key: the seed comes from the DC, positioned at the blob
            with s.world():
                first = s.unprotect(raw, use_async=use_async)
                second = s.unprotect(raw, use_async=use_async)
                ctx.count("real:zeroed_seed_history")
                inp = {"scenario": "zeroed_seed_history", "hash": rec.hash_name, "async": use_async}
                if first != "done " + hx(b"the valid secret") or second != first:
                    ctx.violation("the valid blob does not decrypt (again) on a cache keyed by the DC", inp, str((first[:40], second[:40])), "the plaintext twice")
                    return
                for weak, l2 in (("all-zero L2 key", bytes(64)), ("empty L2 key", b"")):
                    kek = refimpl.kbkdf_hmac(hn, l2, refimpl.LABEL, kid.key_info, 32)
                    cek = hashlib.sha256(b"no secret needed").digest()
                    forged = template(dataclasses.replace(blob, enc_cek=keywrap.aes_key_wrap(kek, cek),
                                                          enc_content=AESGCM(cek).encrypt(blob.enc_content_parameters[4:16], b"forged without key material", None)), True)
                    got = s.unprotect(forged, no_reply=True, use_async=use_async)
                    if got is not None and got.startswith("done "):
                        ctx.violation("a modified blob decrypts to different plaintext", {**inp, "forged_under": weak, "blob": hx(forged)[:400]}, got[:80], "error")
                        return


def big_contents(ctx):
    """large plaintexts whose length sits on the chunk sizes a streaming decryptor would use (4 KiB … 128 KiB, ± one AES block), with
    bits of the ciphertext body and of the tag flipped (real crypto, both layouts): a chunked implementation must still verify the tag"""
    recs = [r for r in clientsim.standard_roots(real=True) if r.secret_algorithm == "ECDH_P256"][:1]
    for rec in recs:
        for n in (4096, 16384, 65536 - 16, 65536, 65536 + 1, 131072, 131072 + 5, 196608):
            data = bytes((i * 131 + n) & 0xFF for i in range(min(n, 4096))) * (n // min(n, 4096)) + b"x" * (n % min(n, 4096)) if n >= 4096 else bytes(n)
            data = data[:n]
            dc = refdc.KeyServer(now=(361, 17, 13))
            dc.add_root(rec)
            s = clientsim.Sim(dc, real_crypto=True)
            with s.world():
                s.load(rec)
                out = s.protect(data, "S-1-5-21-1-2-3-1103", rk=rec.id)
            if not out.startswith("done "):
                continue        # (protect of large data is C01's concern)
            blob = bytes.fromhex(out[5:])
            for layout in ("in-envelope", "trailing"):
                b = blob if layout == "in-envelope" else der.to_trailing(blob)
                ct0 = len(b) - n - 16            # the content (ciphertext ‖ tag) is the tail of the blob in both layouts
                for kind, off in (("ct-first", ct0), ("ct-middle", ct0 + n // 2), ("ct-last", ct0 + n - 1), ("tag-first", ct0 + n), ("tag-last", len(b) - 1)):
                    m = b[:off] + bytes([b[off] ^ 0x01]) + b[off + 1:]
                    s2 = clientsim.Sim(dc, real_crypto=True)
                    with s2.world():
                        s2.load(rec)
                        got = s2.unprotect(m, no_reply=True)
                    ctx.count(f"real:big:{kind}")
                    if got is not None and got.startswith("done ") and got != "done " + hx(data):
                        ctx.violation("a modified blob decrypts to different plaintext", {"config": [rec.hash_name, rec.secret_algorithm, "cache", layout], "mutation": f"bitflip:{kind}",
                                                                                        "plaintext_len": n, "scenario": "big_contents", "real_crypto": True},
                                      f"{len(got) // 2} octets, differing from the original", "error or the original plaintext")
                        return



def mode_confusion(ctx):
    """the content-encryption algorithm identifier and its parameters are not authenticated: a blob whose identifier is rewritten to any
    other algorithm the library knows (read from its algorithm table at run time) or to a well-known unauthenticated AES mode, with the
    parameters re-encoded in that mode's form (bare IV octet string …) and the content cut to whole blocks with every value of the octet
    that steers the last block's padding, must still never decrypt to different plaintext (real crypto, both layouts)"""
    import dataclasses
    from dpapi_ng._blob import DPAPINGBlob
    from dpapi_ng import _crypto
    from props.c06 import template
    rec = [r for r in clientsim.standard_roots(real=True) if r.secret_algorithm == "ECDH_P256"][0]
    data = bytes(range(100, 132))                                # 32 octets: ciphertext ‖ tag is whole AES blocks
    dc = refdc.KeyServer(now=(361, 17, 13))
    dc.add_root(rec)
    s = clientsim.Sim(dc, real_crypto=True)
    with s.world():
        s.load(rec)
        out = s.protect(data, "S-1-5-21-1-2-3-1103", rk=rec.id)
    if not out.startswith("done "):
        return
    try:
        b0 = DPAPINGBlob.unpack(bytes.fromhex(out[5:]))
        gcm = b0.enc_content_algorithm
        nonce = b0.enc_content_parameters[4:16]
    except Exception:  # noqa
        return
    known = sorted({str(getattr(m, "value", m)) for m in getattr(_crypto, "AlgorithmOID", [])} - {gcm})
    aes = "2.16.840.1.101.3.4.1."
    wellknown = [aes + str(k) for k in (41, 42, 43, 44, 47, 2, 6, 22, 26)] + ["1.2.840.113549.3.7", "1.2.840.113549.1.9.16.3.18"]
    octs = lambda x: b"\x04" + bytes([len(x)]) + x
    param_forms = [b0.enc_content_parameters, octs(nonce + bytes(4)), octs(bytes(16)), octs(nonce), None, b"\x30" + bytes([18]) + octs(bytes(16)), b"\x05\x00"]
    ct = b0.enc_content
    whole = ct[:len(ct) // 16 * 16]
    for oid in known + [o for o in wellknown if o not in known]:
        sweep = oid in known            # (an identifier the library dispatches on gets the full padding sweep)
        for pi, prm in enumerate(param_forms):
            contents = [ct, whole, whole[:-16]] + ([whole[:-17] + bytes([v]) + whole[-16:] for v in range(256)] if sweep else [])
            for ci, content in enumerate(contents):
                if not content:
                    continue
                for layout in ("in-envelope", "trailing"):
                    m = template(dataclasses.replace(b0, enc_content_algorithm=oid, enc_content_parameters=prm, enc_content=content), layout == "in-envelope")
                    s2 = clientsim.Sim(dc, real_crypto=True)
                    with s2.world():
                        s2.load(rec)
                        got = s2.unprotect(m, no_reply=True)
                    ctx.count("real:mode_confusion:" + ("library_algorithm" if sweep else "foreign_algorithm"))
                    if got is not None and got.startswith("done ") and got != "done " + hx(data):
                        ctx.violation("a modified blob decrypts to different plaintext",
                                      {"config": [rec.hash_name, rec.secret_algorithm, "cache", layout], "mutation": f"mode_confusion:{oid}:params#{pi}:content#{ci}",
                                       "blob": hx(m), "real_crypto": True}, got[:80], "error or the original plaintext")
                        return


def work(job):
    """one (config, layout) in a worker process → (cases, violations, counts)"""
    import random, check
    real, ri, mode, layout, dense, seed = job[:6]
    only_forgeries = len(job) > 6
    ctx = check.Ctx("C04", "quick", seed)
    ctx.rng = random.Random(f"C04:{seed}:{real}:{ri}:{mode}:{layout}")
    rec = clientsim.standard_roots(real=real)[ri]
    blob, data = make(ctx, real, rec, mode, layout)
    kw = {} if real else dict(kdf_factory=clientsim.toy_kdf_factory, public_key_fn=clientsim.toy_public_key)
    cases = []
    for kind, m in ([] if only_forgeries else mutants(ctx, blob, dense)) + (forgeries(blob, rec) if real and layout == "in-envelope" else []):
        dc = refdc.KeyServer(now=(361, 17, 13), **kw)
        dc.add_root(rec)
        s = clientsim.Sim(dc, real_crypto=real)
        with s.world():
            s.load(rec)
            s.log.kdf_budget = 400
            out = s.unprotect(m, no_reply=True)
        ctx.count(f"{'real' if real else 'toy'}:{kind}")
        if out is not None and out.startswith("done ") and out != "done " + hx(data):
            ctx.violation("a modified blob decrypts to different plaintext", {"config": [rec.hash_name, rec.secret_algorithm, mode, layout], "mutation": kind,
                                                                            "blob": hx(m), "real_crypto": real}, out[:80], "error or the original plaintext")
        if kind.startswith("forgery:") and rec.secret_algorithm == "DH" and len(rec.secret_parameters) > 100:
            # the same forgery against a cache whose root key was loaded with the secret parameters left to their default (None / b"")
            for how in ("none", "empty"):
                s2 = clientsim.Sim(dc, real_crypto=real)
                with s2.world():
                    s2.load(rec, explicit_params=(how == "empty"), empty_secret_parameters=(how == "empty"))
                    out2 = s2.unprotect(m, no_reply=True)
                ctx.count(f"real:forgery:root-params-{how}")
                if out2 is not None and out2.startswith("done ") and out2 != "done " + hx(data):
                    ctx.violation("a modified blob decrypts to different plaintext", {"config": [rec.hash_name, rec.secret_algorithm, mode, layout], "mutation": kind,
                                                                                    "blob": hx(m), "real_crypto": real, "root_key_secret_parameters": how}, out2[:80], "error or the original plaintext")
        if out is not None and out.startswith("done ") and m != blob:
            ctx.count("mutant_still_decrypts_to_original")
        if not real:
            cases.append(s.line())
    return cases, ctx.violations, ctx.dist


def run(ctx):
    import multiprocessing as mp
    prelude.validate(ctx)
    rng = ctx.rng
    jobs = []
    dense_done = set()
    for real in (False, True):
        rts = clientsim.standard_roots(real=real)
        for ri, rec in enumerate(rts):
            for mode in ("cache", "public"):
                if real and rec.secret_algorithm == "DH" and len(rec.secret_parameters) > 100 and mode == "public" and not ctx.thorough:
                    jobs.append((real, ri, mode, "in-envelope", False, ctx.seed, "forgeries only"))   # the keyless forgeries, every run
                    continue
                if real and mode == "cache":
                    jobs.append((real, ri, mode, "in-envelope", False, ctx.seed, "forgeries only"))
                for layout in ("in-envelope", "trailing"):
                    if not ctx.thorough and rng.random() < 0.5:
                        continue
                    key = (real, mode, layout)
                    dense = (ctx.thorough and (not real or rng.random() < 0.25)) or (key not in dense_done and not real)
                    dense_done.add(key)
                    jobs.append((real, ri, mode, layout, dense, ctx.seed))
    allcases = []
    with mp.get_context("fork").Pool(min(16, len(jobs))) as pool:
        for cases, viol, dist in pool.imap_unordered(work, jobs):
            ctx.violations.extend(viol)
            for k, v in dist.items():
                ctx.count(k, v)
            allcases.extend(cases)
    ctx.compare_batch(allcases, nontrivial=lambda line, impl: True)
    ctx.count("configurations", len(jobs))
    history_forgeries(ctx)
    big_contents(ctx)
    mode_confusion(ctx)
    cross_group_history(ctx)
    foreign_root_history(ctx)
    double_protected(ctx)
    zeroed_seed_history(ctx)


def search(ctx, broken, disagreements):
    pass  # the real-crypto and toy-crypto oracles ran on every mutant


def replay(ctx, payload):
    v = payload["violation"]["input"]
    if v.get("scenario") == "big_contents":
        c2 = type(ctx)(ctx.prop, "quick", ctx.seed)
        big_contents(c2)
        for x in c2.violations:
            print(" ", x["what"], x["input"], x["observed"])
        return not c2.violations
    if v.get("scenario") == "zeroed_seed_history":
        c2 = type(ctx)(ctx.prop, "quick", ctx.seed)
        zeroed_seed_history(c2)
        for x in c2.violations:
            print(" ", x["what"], x["input"], x["observed"])
        return not c2.violations
    if v.get("scenario") == "foreign_root_history":
        c2 = type(ctx)(ctx.prop, "quick", ctx.seed)
        foreign_root_history(c2)
        for x in c2.violations:
            print(" ", x["what"], x["input"], x["observed"])
        return not c2.violations
    if v.get("scenario") == "cross_group_history":
        c2 = type(ctx)(ctx.prop, "quick", ctx.seed)
        cross_group_history(c2)
        for x in c2.violations:
            print(" ", x["what"], x["input"], x["observed"])
        return not c2.violations
    if "history" in v:
        c2 = type(ctx)(ctx.prop, "quick", ctx.seed)
        history_forgeries(c2)
        for x in c2.violations:
            print(" ", x["what"], x["input"], x["observed"])
        return not c2.violations
    h, sa, mode, layout = v["config"]
    real = v.get("real_crypto", False)
    rec = [r for r in clientsim.standard_roots(real=real) if r.hash_name == h and r.secret_algorithm == sa][0]
    kw = {} if real else dict(kdf_factory=clientsim.toy_kdf_factory, public_key_fn=clientsim.toy_public_key)
    dc = refdc.KeyServer(now=(361, 17, 13), **kw)
    dc.add_root(rec)
    s = clientsim.Sim(dc, real_crypto=real)
    how = v.get("root_key_secret_parameters")
    with s.world():
        s.load(rec, explicit_params=(how != "none"), empty_secret_parameters=(how == "empty"))
        out = s.unprotect(bytes.fromhex(v["blob"]), no_reply=True)
    print("mutant →", out)
    return not (out or "").startswith("done ")
