"""C05 — decrypting untrusted bytes ends promptly with a deliberate error type."""
from __future__ import annotations
import base64, json, os, uuid
import prelude, gen, clientsim, refdc, toycrypto, der
from check import canon_exc, hx, DELIBERATE

MANIFEST = {
    "text": "Lean theorems: blobUnpack_deliberate / readers_deliberate (for EVERY byte string, DPAPINGBlob.unpack and each ASN.1 reader return or raise a deliberate error), getKek_deliberate (any envelope × any key identifier), targetSd_deliberate, unprotect_deliberate / unprotect_finish_deliberate (for EVERY byte string, every cache state and every DC reply, the model of ncrypt_unprotect_secret ends in a plaintext, a DC request, or one of the deliberate error types — proved function by function with the Safe calculus of Proofs/Safe*.lean; each Python site that can raise IndexError / struct.error / OverflowError is an explicit partial operation in the model and the proof shows a guard dominates it, e.g. the D13 length guard makes the DH modulus fit its declared width so to_bytes cannot overflow), kdf_calls_le (≤ 63 KDF steps in the L1/L2 walk whatever indices the blob names), parser_loops_bounded (each data-driven parser loop — base-128 octets, OID arcs, the recipient-info SET — makes at most one iteration per input octet); every model function is total (kernel-checked termination: structural recursion or fuel ≤ input length); range/cover kernels of compute_l2_key regenerated from source; ncrypt_unprotect_secret and DPAPINGBlob.unpack tied to the model by correspondence on all truncations and single-bit flips of the Windows blobs and of fresh blobs, DER-aware mutants, key-identifier boundary values and random bytes, under a KDF-call budget and a sys.monitoring line-event budget (so non-termination is reported, not hung)",
    "note": "Trusted: Lean kernel; model (differential tie); the primitives raise only InvalidTag / InvalidUnwrap / ValueError (a premise about `cryptography`: CryptoSafe); work is counted in loop iterations and primitive calls — the bit-complexity of CPython big-integer arithmetic is not modelled",
    "technique": "Lean 4 proof (error-set typing with a Safe calculus over the Except monad + step bounds) + kernel extraction + malformed-stream correspondence under budgets",
}
THEOREMS = ["DpapiNg.C05.blobUnpack_deliberate", "DpapiNg.C05.readers_deliberate", "DpapiNg.C05.getKek_deliberate", "DpapiNg.C05.targetSd_deliberate",
            "DpapiNg.C05.unprotect_deliberate", "DpapiNg.C05.unprotect_finish_deliberate", "DpapiNg.C05.kdf_calls_le", "DpapiNg.C05.parser_loops_bounded"]
RULE = ("all truncations and all single-bit flips of the 17 Windows blobs (quick: stride) and of fresh blobs of every configuration; DER-aware mutants (zero-length INTEGER / OID, "
        "1..127 length octets, huge lengths, wrong tags, high tag numbers, indefinite length) at every TLV of a blob; key-identifier fields at {0,1,31,32,2^31-1,2^31,2^32-1} and "
        "length fields at {0,1,2,2^32-1}; hostile FFC/ECDH key_info; random bytes; each case: outcome class, KDF calls ≤ 70, dpapi_ng line events ≤ 200·len+20000; distinct by input")
ASSUMPTIONS = ["Crypto.Deliberate: the third-party primitives raise only InvalidTag / InvalidUnwrap / ValueError"]
BOUND = [0, 1, 31, 32, 2**31 - 1, 2**31, 2**32 - 1]


def tlv_spans(raw):
    """(offset, header_len, content_len, constructed) of every TLV in the CMS part"""
    out = []

    def walk(off, end):
        while off < end:
            try:
                cls, cons, num, content, nxt = der.read_tlv(raw[:end], off)
            except der.DerError:
                return
            hl = nxt - off - len(content)
            out.append((off, hl, len(content), cons))
            if cons:
                walk(off + hl, nxt)
            off = nxt
    walk(0, len(raw))
    return out


def consistent_mutants(raw):
    """length-consistent structural mutants: parse the CMS part, change one node, re-encode with
    correct enclosing lengths (so the reader really arrives at the modified value)"""
    try:
        cls, cons, num, content, end = der.read_tlv(raw, 0)
        tree = der.parse(raw[:end])
    except der.DerError:
        return []
    tail = raw[end:]

    def encode(node):
        if node[0] == "raw":                  # an element encoded elsewhere (iteratively: deep nestings)
            return node[1]
        c, k, n, body = node
        inner = b"".join(encode(x) for x in body) if k else body
        return der.enc(c, k, n, inner)

    paths = []

    def walk(node, path):
        paths.append(path)
        if node[1]:
            for i, kid in enumerate(node[3]):
                walk(kid, path + [i])
    walk(tree, [])

    def replace(node, path, f):
        if not path:
            return f(node)
        kids = list(node[3])
        r = replace(kids[path[0]], path[1:], f)
        kids = kids[:path[0]] + (r if isinstance(r, list) else [r]) + kids[path[0] + 1:]
        return (node[0], node[1], node[2], kids)

    out = []
    for pth in paths:
        for f in (lambda n: (n[0], False, n[2], b""),                       # empty content (zero-length INTEGER / OID / string / SEQUENCE)
                  lambda n: (n[0], n[1], n[2], n[3]) if n[1] else (n[0], False, n[2], b"\x80"),
                  lambda n: (0, False, 2, b""), lambda n: (0, False, 6, b""),  # an empty INTEGER / OID in its place
                  lambda n: (0, False, 2, b"\xff\x00\x00"), lambda n: (0, False, 5, b""),
                  lambda n: [],                                               # element removed
                  lambda n: [n, n],                                           # element duplicated
                  lambda n: (n[0] ^ 2, n[1], n[2], n[3]), lambda n: (n[0], n[1], (n[2] + 1) % 31, n[3])):
            try:
                out.append(encode(replace(tree, pth, f)) + tail)
            except Exception:  # noqa
                pass

    # deep nesting: a primitive value re-encoded in its BER constructed form, nested inside itself hundreds / thousands of levels
    # (a reader that follows constructed segments recursively needs an interpreter frame or two per level), and the same depth of
    # plain SEQUENCE wrappers around a value; encoded iteratively, innermost first
    def nest(n, depth, constructed_same_tag):
        enc = der.enc(n[0], False, n[2], n[3])
        for _ in range(depth):
            enc = der.enc(n[0], True, n[2], enc) if constructed_same_tag else der.enc(0, True, 16, enc)
        return ("raw", enc)
    for pth in [q for q in paths if q]:
        for depth in (600, 5000):
            for same in (True, False):
                try:
                    out.append(encode(replace(tree, pth, lambda n, depth=depth, same=same: nest(n, depth, same) if not n[1] else n)) + tail)
                except Exception:  # noqa
                    pass
    return out


def der_mutants(rng, raw, limit):
    spans = tlv_spans(raw)
    out = []
    # every INTEGER / OID / string TLV with its content removed (zero-length INTEGER / OID …)
    for (off, hl, cl, cons) in spans:
        if raw[off] in (0x02, 0x06, 0x0C, 0x04, 0x80):
            out.append(raw[:off] + raw[off:off + 1] + b"\x00" + raw[off + hl + cl:])
            # … also with the enclosing lengths left as they are but the content zero-filled to one octet
            out.append(raw[:off] + raw[off:off + 1] + b"\x01\x80" + raw[off + hl + cl:])
    # every OID / INTEGER with a NEIGHBOURING value (last content octet replaced by 0..9 and a few others): the siblings of the
    # OIDs a blob carries — other protection-descriptor types (…74.1.2 / .5 / .8), other algorithm arcs, other versions —
    # are exactly the values a dispatch table or enum lookup may know and not handle
    for (off, hl, cl, cons) in spans:
        if raw[off] in (0x02, 0x06) and cl >= 1:
            last = off + hl + cl - 1
            for v in list(range(0, 10)) + [0x2D, 0x2E, 0x7F, 0x80, 0xFF]:
                if v != raw[last]:
                    out.append(raw[:last] + bytes([v]) + raw[last + 1:])
    rng.shuffle(spans)
    for (off, hl, cl, cons) in spans[:limit]:
        head, content, tail = raw[off:off + hl], raw[off + hl:off + hl + cl], raw[off + hl + cl:]
        pre = raw[:off]
        tag = head[:1]
        out.append(pre + tag + b"\x00" + tail)                                    # zero-length value
        out.append(pre + tag + b"\x80" + content + tail)                          # indefinite length
        out.append(pre + tag + b"\x81" + bytes([cl & 0xFF]) + content + tail)     # non-minimal / 1 length octet
        out.append(pre + tag + bytes([0x80 | 127]) + b"\xff" * 127 + content + tail)   # 127 length octets (huge)
        out.append(pre + tag + b"\x84\xff\xff\xff\xff" + content + tail)          # huge length
        out.append(pre + tag + b"\x88" + (2**64 - 1).to_bytes(8, "big") + content + tail)
        out.append(pre + bytes([tag[0] ^ 0x01]) + head[1:] + content + tail)      # wrong tag
        out.append(pre + bytes([tag[0] ^ 0x20]) + head[1:] + content + tail)      # constructed bit
        out.append(pre + bytes([tag[0] | 0x1F, 0x85, 0x01]) + head[1:] + content + tail)    # high tag number
        out.append(pre + bytes([tag[0] | 0x1F]) + b"\xff" * 12 + head[1:] + content + tail)
        out.append(pre + b"\x02\x00" + tail)                                      # empty INTEGER in place
        out.append(pre + b"\x06\x00" + tail)                                      # empty OID in place
        out.append(pre + head + content[:cl // 2] + tail)                         # inner truncation, length kept
        out.append(pre + head[:1] + bytes([min(cl + 5, 127)]) + content + tail)   # length beyond content
    return out


def keyid_mutants(rng, blob_obj):
    """re-packed blobs whose key identifier carries boundary values / hostile lengths / hostile key_info"""
    from dpapi_ng._blob import DPAPINGBlob, KeyIdentifier, SIDDescriptor
    import dataclasses, struct
    out = []
    k = blob_obj.key_identifier
    for f in ("l0", "l1", "l2", "flags", "version"):
        for v in BOUND:
            k2 = dataclasses.replace(k, **{f: v})
            out.append(dataclasses.replace(blob_obj, key_identifier=k2).pack())
    for l1 in (30, 31, 32):
        for l2 in (30, 31, 32):
            out.append(dataclasses.replace(blob_obj, key_identifier=dataclasses.replace(k, l1=l1, l2=l2)).pack())
    raw = blob_obj.pack()
    kid = k.pack()
    off = raw.index(kid)
    for field_off in (40, 44, 48):
        for v in (0, 1, 2, 3, 2**32 - 1, 2**31, len(kid)):
            m = bytearray(raw)
            m[off + field_off:off + field_off + 4] = struct.pack("<I", v)
            out.append(bytes(m))
    # public-key mode with hostile key_info
    for ki in [b"", b"DHPB", b"DHPB" + struct.pack("<I", 2**32 - 1), b"DHPB" + struct.pack("<I", 2**28) + b"\x01" * 40,
               b"DHPB" + struct.pack("<I", 1) + b"\x00\x02\x03", b"DHPB" + struct.pack("<I", 2) + b"\x00\x00" + b"\x00\x02" + b"\x00\x05",
               b"DHPB" + struct.pack("<I", 0), b"ECK1" + struct.pack("<I", 2**32 - 1) + b"\x01" * 10, b"ECK1" + struct.pack("<I", 32) + b"\x00" * 64,
               b"ECK3" + struct.pack("<I", 48) + b"\xff" * 96, b"ECK5" + struct.pack("<I", 66) + b"\x01" * 132, b"ECK9" + b"\x00" * 70, gen.rand_bytes(rng, 50)]:
        for flags in (1, 3):
            out.append(dataclasses.replace(blob_obj, key_identifier=dataclasses.replace(k, flags=flags, key_info=ki)).pack())
    # protection descriptor values
    hostile = ["S-1-5" + "-00000000021" * 15 + "!", "S-1-5" + "-0000000000000000000021" * 15 + "x", "S-1-" + "0" * 40 + "5-21!", "S-1-5" + "-1" * 15 + "-",
               "S-1-5-" + "0" * 60 + "!", "S-1-5" + "-0" * 15 + "-", "S-1-5" + "-00000000021" * 14 + "-4294967296", "S-1-5-" + "7" * 4000, "S-1-5" + "-0000000001" * 15 + "-1",
               "S-1-0000000000000005" + "-000000000000021" * 15 + " ", "S-1-5-{}", "S-1-5-21-{1}-{2}", "{sid}", "S-1-5-{0.real}", "S-1-5-%s", "S-1-5-4294967296-{x}"]
    for sid in ["S-1-5-4294967296", "S-1-281474976710656-1", "S-1-5-18\n", "", "S-1-5", "S-1-5-" + "-".join(["1"] * 16), "S-1-5-٣", "x" * 300] + hostile:
        out.append(dataclasses.replace(blob_obj, protection_descriptor=SIDDescriptor(sid)).pack())
    for alg in ("1.2.3", "2.16.840.1.101.3.4.1.46"):
        out.append(dataclasses.replace(blob_obj, enc_cek_algorithm=alg).pack())
    for prm in (None, b"\x30\x00", b"\x30\x03\x04\x01\x00", b"\x04\x0c" + b"\x00" * 12, b"\x30\x0e\x04\x0c" + b"\x00" * 11):
        out.append(dataclasses.replace(blob_obj, enc_content_parameters=prm).pack())
    return out


class WallClockExceeded(BaseException):
    """work done outside the interpreter (a regular-expression engine backtracking, a C loop) shows in no step count, only on the clock"""


def _on_alarm(signum, frame):
    raise WallClockExceeded()


def work(job):
    import random, check, signal
    signal.signal(signal.SIGALRM, _on_alarm)
    real, kind, ri, seed, thorough = job
    ctx = check.Ctx("C05", "thorough" if thorough else "quick", seed)
    ctx.rng = random.Random(f"C05:{seed}:{job}")
    rng = ctx.rng
    kw = {} if real else dict(kdf_factory=clientsim.toy_kdf_factory, public_key_fn=clientsim.toy_public_key)
    inputs = []
    load = None
    if kind == "windows":
        fn = sorted(f for f in os.listdir("/repo/tests/data") if f.startswith("kdf_"))[ri]
        d = json.load(open(os.path.join("/repo/tests/data", fn)))
        raw = base64.b16decode(d["Data"])
        rec = refdc.RootKeyRec(uuid.UUID(d["RootKeyId"]), base64.b16decode(d["RootKeyData"]), None, d["SecretAgreementAlgorithm"],
                               base64.b16decode(d["SecretAgreementParameters"]), d["PrivateKeyLength"], d["PublicKeyLength"], d["Version"])
        import dpapi_ng._gkdi as g
        rec.hash_name = g.KDFParameters.unpack(base64.b16decode(d["KdfParameters"])).hash_name
        cuts = range(len(raw) + 1) if thorough else sorted(set(rng.randrange(len(raw)) for _ in range(60)) | set(range(0, 40)))
        inputs += [raw[:c] for c in cuts]
        bits = range(len(raw) * 8) if thorough else sorted(set(rng.randrange(len(raw) * 8) for _ in range(250)))
        inputs += [raw[:i // 8] + bytes([raw[i // 8] ^ (1 << (i % 8))]) + raw[i // 8 + 1:] for i in bits]
        inputs += der_mutants(rng, raw, 60 if thorough else 10)
        inputs += consistent_mutants(raw)
        inputs.append(raw)
    else:
        rec = clientsim.standard_roots(real=real)[ri]
        from props import c04
        from dpapi_ng._blob import DPAPINGBlob
        mode = "public" if kind == "fresh-public" else "cache"
        raw, _ = c04.make(ctx, real, rec, mode, "in-envelope")
        obj = DPAPINGBlob.unpack(raw)
        inputs += keyid_mutants(rng, obj)
        inputs += der_mutants(rng, raw, 200 if thorough else 25)
        inputs += consistent_mutants(raw)
        cuts = range(len(raw) + 1) if thorough else sorted(set(rng.randrange(len(raw)) for _ in range(40)))
        inputs += [raw[:c] for c in cuts]
        trailing = der.to_trailing(raw)
        inputs += [trailing[:c] for c in (cuts if thorough else list(cuts)[:15])]
        for _ in range(400 if thorough else 60):
            inputs.append(bytes(rng.randrange(256) for _ in range(rng.randrange(0, 80))))
        for _ in range(200 if thorough else 40):
            m = bytearray(raw)
            for _ in range(rng.randrange(1, 4)):
                m[rng.randrange(len(m))] = rng.randrange(256)
            inputs.append(bytes(m))
    cases = []
    for data in inputs:
        for with_root in ((True, False) if rng.random() < 0.3 else (True,)):
            dc = refdc.KeyServer(now=(361, 17, 13), **kw)
            dc.add_root(rec)
            s = clientsim.Sim(dc, real_crypto=real)
            budget = 200 * len(data) + 20000
            with s.world():
                if with_root:
                    s.load(rec)
                s.log.kdf_budget = 200
                s.log.reset_budget()
                wall = 20 + len(data) / 20000          # seconds: three orders of magnitude above what any blob of this size needs
                signal.setitimer(signal.ITIMER_REAL, wall)
                try:
                    with clientsim.StepCounter(budget) as sc:
                        out = s.unprotect(data, no_reply=True)
                except clientsim.StepBudgetExceeded:
                    out = "err Other:StepBudgetExceeded"
                    s.steps.append((f"ubegin {hx(data)}", out))
                except WallClockExceeded:
                    out = f"err Other:WallClockExceeded({wall:.0f}s)"
                    s.steps.append((f"ubegin {hx(data)}", out))
                finally:
                    signal.setitimer(signal.ITIMER_REAL, 0)
                nk = getattr(s.log, "nkdf", 0)
                biggest = max([len(a) for c in s.log.calls for a in c[1:] if isinstance(a, (bytes, bytearray))] + [0])
            ctx.count(f"{'real' if real else 'toy'}:{kind}")
            if biggest > len(data) + 4096:
                ctx.violation("work not proportional to the input: a primitive is handed far more bytes than the blob contains",
                              {"blob": hx(data), "root_key_loaded": with_root, "real_crypto": real, "config": [rec.hash_name, rec.secret_algorithm]},
                              f"{biggest} bytes for a {len(data)}-byte blob", "≤ len(blob) + 4096")
            cls = "net" if out is None or (s.requests and not s.replies) else out.split(" ")[0]
            ctx.count("outcome:" + (cls if cls != "err" else out))
            if out is not None and out.startswith("err ") and out[4:] not in DELIBERATE:
                ctx.violation("unprotect escapes with an internal error type / exceeds its step budget", {"blob": hx(data), "root_key_loaded": with_root, "real_crypto": real,
                                                                                                       "config": [rec.hash_name, rec.secret_algorithm]}, out, "deliberate error, result, or DC request")
            if nk > 70:
                ctx.violation("more than 70 key-derivation steps for one blob", {"blob": hx(data), "real_crypto": real, "config": [rec.hash_name, rec.secret_algorithm]}, nk, "≤ 70")
            if not real:
                cases.append(s.line())
    return cases, ctx.violations, ctx.dist


def run(ctx):
    import multiprocessing as mp
    prelude.validate(ctx)
    rng = ctx.rng
    jobs = []
    nwin = len([f for f in os.listdir("/repo/tests/data") if f.startswith("kdf_")])
    for i in range(nwin):
        if ctx.thorough or i % 2 == ctx.seed % 2 or True:
            jobs.append((False, "windows", i, ctx.seed, ctx.thorough))
            if ctx.thorough or i % 4 == 0:
                jobs.append((True, "windows", i, ctx.seed, ctx.thorough))
    for ri in range(16):
        jobs.append((False, "fresh-cache", ri, ctx.seed, ctx.thorough))
        if ri % 4 != 0 or ctx.thorough:      # public-key mode with the 2048-bit group only in thorough
            jobs.append((False, "fresh-public", ri, ctx.seed, ctx.thorough))
        if ctx.thorough or ri % 5 == 1:
            jobs.append((True, "fresh-cache", ri, ctx.seed, ctx.thorough))
    allcases = []
    with mp.get_context("fork").Pool(min(16, len(jobs))) as pool:
        for cases, viol, dist in pool.imap_unordered(work, jobs):
            ctx.violations.extend(viol)
            for k, v in dist.items():
                ctx.count(k, v)
            allcases.extend(cases)
    ctx.compare_batch(allcases, nontrivial=lambda line, impl: True)


def search(ctx, broken, disagreements):
    pass  # the deliberate-error / budget oracle ran on every generated input


def replay(ctx, payload):
    v = payload["violation"]["input"]
    real = v.get("real_crypto", False)
    h, sa = v["config"]
    recs = [r for r in clientsim.standard_roots(real=real) if r.hash_name == h and r.secret_algorithm == sa]
    rec = recs[0] if recs else clientsim.standard_roots(real=real)[0]
    kw = {} if real else dict(kdf_factory=clientsim.toy_kdf_factory, public_key_fn=clientsim.toy_public_key)
    dc = refdc.KeyServer(now=(361, 17, 13), **kw)
    dc.add_root(rec)
    s = clientsim.Sim(dc, real_crypto=real)
    data = bytes.fromhex(v["blob"].replace("-", ""))
    with s.world():
        if v.get("root_key_loaded", True):
            s.load(rec)
        s.log.kdf_budget = 200
        import signal
        signal.signal(signal.SIGALRM, _on_alarm)
        signal.setitimer(signal.ITIMER_REAL, 20 + len(data) / 20000)
        try:
            with clientsim.StepCounter(200 * len(data) + 20000):
                out = s.unprotect(data, no_reply=True)
        except clientsim.StepBudgetExceeded:
            out = "err Other:StepBudgetExceeded"
        except WallClockExceeded:
            out = "err Other:WallClockExceeded"
        finally:
            signal.setitimer(signal.ITIMER_REAL, 0)
    print("unprotect →", out, "KDF calls:", getattr(s.log, "nkdf", 0))
    return out is None or not out.startswith("err ") or out[4:] in DELIBERATE
