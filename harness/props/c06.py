"""C06 — emitted blobs are canonical CMS in Windows' layout; encode/decode are inverse."""
from __future__ import annotations
import base64, json, os
import prelude, gen, der
from check import canon_exc, hx

MANIFEST = {
    "text": "Lean theorems: blob_layout (the emitted bytes are exactly the minimal-DER encoding of the RFC 5652 ContentInfo/EnvelopedData tree with versions 2 and 4, one KEKRecipientInfo whose KEK identifier carries the protection-descriptor attribute, the given algorithm identifiers — in both layouts), unpack_pack (decode(encode x) = x for every well-formed blob value, both layouts), protDesc_roundtrip, built on the C07 TLV theorems and the C11 key-identifier round trip; DPAPINGBlob.pack/unpack, ProtectionDescriptor and the _pkcs7 classes are tied to the model by correspondence across DER length boundaries, and every emitted blob is re-read by an independent strict DER parser and compared with a template built from the standard; the 17 Windows blobs must re-encode byte-identically; every pack method of _pkcs7.py and ProtectionDescriptor.pack is regenerated from source on every run as an ASN.1 writer program (nested push_sequence / push_set_of blocks, write_* calls with their tags, `if self.f:` guards, sub-object packs, the recipient loop) and every unpack classmethod as a reader program (read_sequence entries, typed reads with tags, peek_header / header tests, `if reader:` guards, get_remaining_data, the SET OF loop, the version test, the RecipientInfo choice dispatch, the protection-descriptor guard, the constructor keyword table); DPAPINGBlob.pack itself is regenerated as a pack plan (constructor trees, literals, class constants, writer rounds, the final join) with the CMS dataclass schema table, and blobPack_eq_plan proves the model of the whole function equal to its interpretation; DPAPINGBlob.unpack likewise as an unpack plan (split at the outer ContentInfo, rejection tests as lists of disjuncts, unpack calls on attribute paths, `or` fallbacks, constructor keywords) with blobUnpack_eq_plan; 19 theorems (…Pack_eq_prog, …Unpack_eq_prog, blobPack_eq_plan, blobUnpack_eq_plan) prove the hand-written Lean models equal to the interpretation of those programs, and the regenerated programs must equal the proved ones (rfl)",
    "note": "Trusted: Lean kernel; hand-written model (differential tie + TLV kernels); text fields enter the model as UTF-8/UTF-16 bytes (codecs are CPython's); strict-DER reading of X.690 in harness/der.py",
    "technique": "Lean 4 proof (composition of TLV round trips; spec-tree equality) + kernel extraction + correspondence + independent strict DER parser",
}
THEOREMS = ["DpapiNg.C06.blob_layout", "DpapiNg.C06.unpack_pack", "DpapiNg.C06.pack_unpack_pack", "DpapiNg.C06.protDesc_roundtrip", "DpapiNg.C06.encode_minimal", "DpapiNg.C06.protect_layout",
            # model = interpretation of the writer programs regenerated from _pkcs7.py / _blob.py (Gen.WProg*_eq)
            "DpapiNg.Blob.algIdPack_eq_prog", "DpapiNg.Blob.otherAttrPack_eq_prog", "DpapiNg.Blob.kekIdPack_eq_prog", "DpapiNg.Blob.kekRiPack_eq_prog",
            "DpapiNg.Blob.encContentInfoPack_eq_prog", "DpapiNg.Blob.envelopedDataPack_eq_prog", "DpapiNg.Blob.contentInfoPack_eq_prog",
            "DpapiNg.Blob.protDescPack_eq_prog",
            # model = interpretation of the reader programs regenerated from the unpack classmethods (Gen.RProg*_eq)
            "DpapiNg.Blob.algIdUnpack_eq_prog", "DpapiNg.Blob.otherAttr_run", "DpapiNg.Blob.kekIdUnpack_eq_prog", "DpapiNg.Blob.kekRi_run",
            "DpapiNg.Blob.recipientInfoUnpack_eq_prog", "DpapiNg.Blob.encContentInfoUnpack_eq_prog", "DpapiNg.Blob.envelopedDataUnpack_eq_prog",
            "DpapiNg.Blob.contentInfoUnpack_eq_prog", "DpapiNg.Blob.protDescUnpack_eq_prog",
            # DPAPINGBlob.pack itself: the model is the interpretation of the regenerated pack plan (Gen.BPlanBlob_eq, Gen.BPlanSchema_eq)
            "DpapiNg.Blob.blobPack_eq_plan",
            # DPAPINGBlob.unpack itself: the model is the interpretation of the regenerated unpack plan (Gen.UPlanBlob_eq)
            "DpapiNg.Blob.blobUnpack_eq_plan", "DpapiNg.Blob.Blob.toVal_injective",
            # the property at the level of the regenerated programs (Properties/C06Plan.lean)
            "DpapiNg.C06.plan_layout", "DpapiNg.C06.plan_roundtrip"]
MODULES = ["DpapiNg.Properties.C06", "DpapiNg.Properties.C06Plan"]
RULE = ("blob values: key identifiers with boundary/random u32 fields and Unicode names, key_info sizes {0,1,32,33,100,524,800}, enc_content lengths "
        "{0,1,2,126,127,128,129,255,256,257,65535,65536,65537 (+2^24 thorough)}, enc_cek 0..72, parameters present/absent, both layouts; malformed: truncations / bit flips of emitted blobs; "
        "distinct by op line; non-trivial = a successful pack or unpack")
ASSUMPTIONS = ["Blob.WF: u32 fields < 2^32, names valid UTF-16, optional parameters absent or non-empty, OIDs with first arc ≤ 2 and second ≤ 39, content lengths < 256^127"]

OID_ENV, OID_DATA, OID_MS, OID_SID = "1.2.840.113549.1.7.3", "1.2.840.113549.1.7.1", "1.3.6.1.4.1.311.74.1", "1.3.6.1.4.1.311.74.1.1"
WRAP, GCM = "2.16.840.1.101.3.4.1.45", "2.16.840.1.101.3.4.1.46"


def opt(b):
    return "none" if b is None else hx(b)


def blob_fields(b):
    return " ".join([gen.kid_fields(b.key_identifier), hx(b.protection_descriptor.value.encode("utf-8")), hx(b.enc_cek), b.enc_cek_algorithm,
                     opt(b.enc_cek_parameters), hx(b.enc_content), b.enc_content_algorithm, opt(b.enc_content_parameters)])


def make_blob(rng, enc_len=None, sid=None):
    from dpapi_ng._blob import DPAPINGBlob, SIDDescriptor
    n = enc_len if enc_len is not None else rng.choice([0, 1, 16, 17, 100])
    return DPAPINGBlob(
        key_identifier=gen.rand_kid(rng),
        protection_descriptor=SIDDescriptor(sid if sid is not None else rng.choice(["S-1-5-18", "S-1-5-21-1-2-3-1103", "S-1-1-0", "", "not a sid", "S-1-5-21-" + "9" * 9 + "-éü😀"])),
        enc_cek=gen.rand_bytes(rng, rng.choice([0, 1, 24, 40, 72])), enc_cek_algorithm=rng.choice([WRAP, WRAP, "1.2.3", "2.5.4.3", "1.3.132.0.34", "0.4.0.127.0.7.1.1.5.1.1.3", "2.5.4.0", "1.0.10118.3.0.55", "2.39.0.0.0"]),
        enc_cek_parameters=rng.choice([None, None, b"\x05\x00", gen.rand_bytes(rng, 5)]),
        enc_content=bytes([n % 251]) * n if n > 300 else gen.rand_bytes(rng, n),
        enc_content_algorithm=rng.choice([GCM, GCM, "1.2.840.113549.1.7.1", "1.3.132.0.35", "1.2.0", "2.16.840.1.101.3.4.1.0.46"]),
        enc_content_parameters=rng.choice([None, bytes.fromhex("3011040c") + gen.rand_bytes(rng, 12) + bytes.fromhex("020110"), gen.rand_bytes(rng, 3)]))


def kid_layout(k):
    """the DPAPI-NG key identifier as Windows lays it out (MS-GKDI-style header, then key info, domain and forest back to back),
    written here with struct — not with the library's packer"""
    import struct
    dn, fn = (k.domain_name + "\0").encode("utf-16-le"), (k.forest_name + "\0").encode("utf-16-le")
    return struct.pack("<I4sIIII16sIII", k.version, b"KDSK", k.flags, k.l0, k.l1, k.l2, k.root_key_identifier.bytes_le,
                       len(k.key_info), len(dn), len(fn)) + k.key_info + dn + fn


def template(b, in_env):
    """the bytes RFC 5652 + the Windows layout prescribe, built with the independent DER encoder"""
    S = lambda *k: der.enc(0, True, 16, b"".join(k))
    utf8 = lambda s: der.enc(0, False, 12, s.encode("utf-8"))
    octs = lambda x: der.enc(0, False, 4, x)
    pd = S(der.enc_oid(OID_SID), S(S(S(utf8("SID"), utf8(b.protection_descriptor.value)))))
    kekid = S(octs(kid_layout(b.key_identifier)), S(der.enc_oid(OID_MS), pd))
    alg = lambda o, p: S(der.enc_oid(o), p or b"")
    ri = der.enc(2, True, 2, der.enc_int(4) + kekid + alg(b.enc_cek_algorithm, b.enc_cek_parameters) + octs(b.enc_cek))
    content = der.enc(2, False, 0, b.enc_content) if (in_env and b.enc_content) else b""
    eci = S(der.enc_oid(OID_DATA), alg(b.enc_content_algorithm, b.enc_content_parameters), content)
    ed = S(der.enc_int(2), der.enc(0, True, 17, ri), eci)
    ci = S(der.enc_oid(OID_ENV), der.enc(2, True, 0, ed))
    return ci + (b"" if in_env else b.enc_content)


def wf(b):
    ok_oid = lambda o: all(p.isdigit() for p in o.split(".")) and int(o.split(".")[0]) <= 2 and int(o.split(".")[1]) <= 39
    return ok_oid(b.enc_cek_algorithm) and ok_oid(b.enc_content_algorithm) and b.enc_cek_parameters != b"" and b.enc_content_parameters != b""


def call(f, fmt):
    try:
        return "ok " + fmt(f())
    except Exception as e:  # noqa
        return "err " + canon_exc(e)


def huge(ctx):
    """content lengths at the 3-octet / 4-octet DER length boundary (16 MiB), oracle only (too large for the line protocol in the
    quick tier): emitted bytes = the canonical template, decode(encode x) = x, re-encoding is the identity — both layouts"""
    import dataclasses
    from dpapi_ng._blob import DPAPINGBlob
    base = make_blob(ctx.rng, enc_len=0, sid="S-1-5-21-1-2-3-1103")
    base = dataclasses.replace(base, enc_cek_parameters=None, enc_content_parameters=bytes.fromhex("3011040c") + bytes(12) + bytes.fromhex("020110"),
                               enc_cek_algorithm=WRAP, enc_content_algorithm=GCM)
    for n in (2**24 - 300, 2**24 - 1, 2**24, 2**24 + 1):
        b = dataclasses.replace(base, enc_content=bytes([n % 251]) * n)
        for in_env in (True, False):
            ctx.count("huge:" + ("in-envelope" if in_env else "trailing"))
            what = {"enc_content_len": n, "in_envelope": in_env, "scenario": "huge"}
            try:
                raw = b.pack(blob_in_envelope=in_env)
            except Exception as e:  # noqa
                ctx.violation("a well-formed blob value fails to encode", what, f"{type(e).__name__}: {e}", "ok")
                continue
            want = template(b, in_env)
            if raw != want:
                d = next(i for i in range(min(len(raw), len(want))) if raw[i] != want[i]) if raw[:len(want)] != want[:len(raw)] else min(len(raw), len(want))
                ctx.violation("emitted blob differs from the canonical RFC 5652 / Windows layout", what, f"first difference at octet {d}: {hx(raw[max(0, d - 8):d + 8])}", hx(want[max(0, d - 8):d + 8]))
                continue
            try:
                back = DPAPINGBlob.unpack(raw)
            except Exception as e:  # noqa
                ctx.violation("decode(encode(x)) != x", what, f"{type(e).__name__}: {e}", "x")
                continue
            if back != b:
                ctx.violation("decode(encode(x)) != x", what, "a different blob value", "x")
            elif back.pack(blob_in_envelope=in_env) != raw:
                ctx.violation("re-encoding a decoded emitted blob changes the bytes", what, "differs", "identical")



def edited(ctx, blobs):
    """blob objects are mutable: a value that came from unpack (or was packed before) and is then edited field by field must encode
    as the value it NOW holds — the canonical bytes of the current fields, in both layouts — and decode back to it"""
    import dataclasses
    from dpapi_ng._blob import DPAPINGBlob
    fields = [f.name for f in dataclasses.fields(DPAPINGBlob) if f.init and not f.name.startswith("_")]
    good = [b for b in blobs if wf(b) and len(b.enc_content) < 70000]
    for i in range(0, len(good) - 1, 2):
        a, b2 = good[i], good[i + 1]
        for in_env in (True, False):
            for origin in ("unpacked", "packed-before"):
                try:
                    x = DPAPINGBlob.unpack(a.pack(blob_in_envelope=in_env)) if origin == "unpacked" else dataclasses.replace(a)
                    x.pack(blob_in_envelope=in_env)
                except Exception:  # noqa
                    continue
                order = fields[:]
                ctx.rng.shuffle(order)
                for name in order:
                    setattr(x, name, getattr(b2, name))
                    ctx.count("edited:" + origin)
                    what = {"scenario": "edited", "origin": origin, "in_envelope": in_env, "edited_field": name, "blob": blob_fields(x)[:300]}
                    for layout in (in_env, not in_env):
                        try:
                            raw = x.pack(blob_in_envelope=layout)
                        except Exception as e:  # noqa
                            ctx.violation("an edited blob value fails to encode", what, f"{type(e).__name__}: {e}", "ok")
                            break
                        want = template(x, layout)
                        if raw != want:
                            ctx.violation("an edited blob does not encode as the value it now holds (emitted bytes differ from the canonical layout of the current fields)",
                                          {**what, "packed_layout_in_envelope": layout}, hx(raw)[:200], hx(want)[:200])
                            return
                        back = DPAPINGBlob.unpack(raw)
                        if blob_fields(back) != blob_fields(x) and (layout or x.enc_content):
                            ctx.violation("decode(encode(x)) != x for an edited blob", {**what, "packed_layout_in_envelope": layout}, blob_fields(back)[:300], blob_fields(x)[:300])
                            return


def run(ctx):
    from dpapi_ng._blob import DPAPINGBlob, ProtectionDescriptor
    prelude.validate(ctx)
    rng = ctx.rng
    cases = []
    lens = [0, 1, 2, 126, 127, 128, 129, 255, 256, 257, 65535, 65536, 65537] + ([2**24 - 1, 2**24] if ctx.thorough else [])
    blobs = [make_blob(rng, n) for n in lens for _ in range(2)] + [make_blob(rng) for _ in range(400 if ctx.thorough else 60)]
    # contents that are THEMSELVES complete DER values (an OCTET STRING, a SEQUENCE, a context-tagged value): carried as opaque octets
    import dataclasses as _dc
    for inner in (b"\x04\x00", b"\x04\x10" + bytes(range(16)), b"\x04\x81\x80" + bytes(128), b"\x04\x82\x01\x00" + bytes(256), b"\x30\x03\x02\x01\x00", b"\xa0\x02\x04\x00",
                  b"\x24\x04\x04\x02ab", b"\x80\x01\x00"):
        blobs.append(_dc.replace(make_blob(rng, 0), enc_content=inner))
    emitted = []
    for b in blobs:
        for in_env in (True, False):
            r = call(lambda: b.pack(blob_in_envelope=in_env), hx)
            cases.append((f"blob_pack {int(in_env)} {blob_fields(b)}", r))
            ctx.count("layout:" + ("in-envelope" if in_env else "trailing"))
            ctx.count("enc_content:" + ("short-form" if len(b.enc_content) < 100 else "long-form"))
            if not r.startswith("ok "):
                ctx.violation("a well-formed blob value fails to encode", {"blob": blob_fields(b)[:300]}, r, "ok")
                continue
            raw = bytes.fromhex(r[3:].replace("-", ""))
            # --- independent strict DER parser + template ---------------------------------------------
            want = template(b, in_env)
            if raw != want:
                ctx.violation("emitted blob differs from the canonical RFC 5652 / Windows layout", {"blob": blob_fields(b)[:300], "in_envelope": in_env}, hx(raw)[:200], hx(want)[:200])
            try:
                for prm in (b.enc_cek_parameters, b.enc_content_parameters):
                    if prm is not None:
                        der.parse(prm)
                params_are_der = True
            except der.DerError:
                params_are_der = False      # raw parameters that are not DER themselves: outside the property's domain
            try:
                if not params_are_der:
                    raise StopIteration
                cls, cons, num, content, end = der.read_tlv(raw, 0)
                tree = der.parse(raw[:end])
                ed = tree[3][1][3][0]
                assert der.oid(tree[3][0][3]) == OID_ENV and der.integer(ed[3][0][3]) == 2
                ris = ed[3][1]
                assert ris[2] == 17 and len(ris[3]) == 1 and ris[3][0][0] == 2 and ris[3][0][2] == 2 and der.integer(ris[3][0][3][0][3]) == 4
            except StopIteration:
                ctx.count("strict_parse:skipped_non_der_parameters")
            except Exception as e:  # noqa
                ctx.violation("emitted blob is not readable by the strict DER parser as ContentInfo/EnvelopedData with one KEKRecipientInfo",
                              {"blob": blob_fields(b)[:300], "in_envelope": in_env}, f"{type(e).__name__}: {e}", "strict DER")
            # --- decode(encode x) = x and re-encode identity -----------------------------------------------
            ru = call(lambda: DPAPINGBlob.unpack(raw), blob_fields)
            cases.append((f"blob_unpack {hx(raw)}", ru))
            if wf(b):
                expect = "ok " + blob_fields(b)
                # a trailing-layout blob with empty content and an in-envelope blob with empty content coincide
                if ru != expect:
                    ctx.violation("decode(encode(x)) != x", {"blob": blob_fields(b)[:300], "in_envelope": in_env}, ru[:300], expect[:300])
                else:
                    again = DPAPINGBlob.unpack(raw).pack(blob_in_envelope=in_env)
                    if again != raw:
                        ctx.violation("re-encoding a decoded emitted blob changes the bytes", {"blob": blob_fields(b)[:200]}, hx(again)[:100], hx(raw)[:100])
            if len(raw) < 2000:
                emitted.append(raw)
        # protection descriptor alone
        pd = b.protection_descriptor
        rp = call(pd.pack, hx)
        cases.append((f"protdesc_pack {hx(pd.value.encode('utf-8'))}", rp))
        cases.append((f"protdesc_unpack {rp[3:]}", call(lambda: ProtectionDescriptor.unpack(bytes.fromhex(rp[3:])), lambda d: hx(d.value.encode("utf-8")))))

    # --- values the encoder cannot represent (an OID arc outside X.690's first-octet rule): nothing may be emitted for them — an error, never
    #     bytes that are not the CMS structure (a fault inside a nested SEQUENCE must not leave a half-written blob behind)
    for bad in ("2.999.3", "1.40.1", "2.40", "0.40.5", "1.255.7.1"):
        for field in ("enc_cek_algorithm", "enc_content_algorithm"):
            b = _dc.replace(make_blob(rng, 16), **{field: bad})
            for in_env in (True, False):
                r = call(lambda: b.pack(blob_in_envelope=in_env), hx)
                cases.append((f"blob_pack {int(in_env)} {blob_fields(b)}", r))
                ctx.count("unencodable_oid")
                if r.startswith("ok "):
                    raw = bytes.fromhex(r[3:].replace("-", ""))
                    ru = call(lambda: DPAPINGBlob.unpack(raw), blob_fields)
                    if ru != "ok " + blob_fields(b):
                        ctx.violation("bytes were emitted for a value the encoder cannot represent, and they are not an encoding of it",
                                      {"blob": blob_fields(b)[:300], "in_envelope": in_env, "field": field, "oid": bad}, (hx(raw)[:120] + " -> " + ru)[:300],
                                      "an error, or bytes that decode back to the value")

    # --- Windows blobs: decode → re-encode identity, and the model decodes them identically ---------------
    data = "/repo/tests/data"
    wins = []
    for fn in sorted(os.listdir(data)):
        if fn.startswith("kdf_"):
            wins.append((fn, base64.b16decode(json.load(open(os.path.join(data, fn)))["Data"]), True))
    p = os.path.join(data, "dpapi_ng_blob")
    if os.path.exists(p):
        raw = open(p, "rb").read()
        try:
            raw = base64.b64decode(raw, validate=True)
        except Exception:  # noqa
            pass
        wins.append(("dpapi_ng_blob", raw, None))
    for fn, raw, _ in wins:
        ru = call(lambda: DPAPINGBlob.unpack(raw), blob_fields)
        cases.append((f"blob_unpack {hx(raw)}", ru))
        ctx.count("windows_blobs")
        if ru.startswith("ok "):
            b = DPAPINGBlob.unpack(raw)
            for in_env in (True, False):
                if b.pack(blob_in_envelope=in_env) == raw:
                    break
            else:
                ctx.violation("a Windows blob does not re-encode byte-identically in either layout", {"file": fn}, "differs", "identical")
            try:
                der.parse(raw[:der.read_tlv(raw, 0)[4]])
            except der.DerError as e:
                ctx.violation("oracle calibration: a Windows blob is not strict DER", {"file": fn}, str(e), "strict DER")
        else:
            ctx.violation("a Windows blob fails to decode", {"file": fn}, ru, "ok")
        emitted.append(raw)

    # --- malformed stream --------------------------------------------------------------------------------
    rng.shuffle(emitted)
    for raw in emitted[: (60 if ctx.thorough else 12)]:
        for c in sorted(set([rng.randrange(len(raw)) for _ in range(40)] + list(range(0, 12)))):
            m = raw[:c]
            cases.append((f"blob_unpack {hx(m)}", call(lambda: DPAPINGBlob.unpack(m), blob_fields)))
            ctx.count("malformed:truncation")
        for _ in range(60):
            i = rng.randrange(len(raw))
            m = raw[:i] + bytes([raw[i] ^ (1 << rng.randrange(8))]) + raw[i + 1:]
            cases.append((f"blob_unpack {hx(m)}", call(lambda: DPAPINGBlob.unpack(m), blob_fields)))
            ctx.count("malformed:bitflip")
    for i in range(0, len(cases), 3000):
        ctx.compare_batch(cases[i:i + 3000], nontrivial=lambda line, impl: impl.startswith("ok"))
    edited(ctx, blobs)
    huge(ctx)


def search(ctx, broken, disagreements):
    pass  # template / strict-parser / round-trip oracles already ran on every generated blob


def replay(ctx, payload):
    print("recorded input:", payload["violation"]["input"])
    c2 = type(ctx)(ctx.prop, "quick", ctx.seed)
    run(c2)
    return not c2.violations
