"""C07 — ASN.1 DER primitives: minimal encoding, exact decoding, exact consumption."""
from __future__ import annotations
import prelude, der
from check import canon_exc, hx

MANIFEST = {
    "text": "Lean theorems: INTEGER writer/reader are inverse for every integer (readLE_packLE), positive encodings are minimal, TLV header round trip for every well-formed tag and every content length (short/long form) with exact consumption, base-128 numbers, OCTET STRING/BOOLEAN round trips; model tied to _asn1.py by the TLV-threshold kernel regenerated from source and by correspondence of every _pack_asn1_*/_read_asn1_* (exhaustive over all ≤2-octet integers quick, all ≤3-octet integers thorough); read_write / readList_write: for ARBITRARILY NESTED trees of integers, octet / UTF-8 strings, OIDs, sequences and sets (mutual structural induction), the typed reader calls that mirror the schema return the tree with exactly the encoded octets consumed, and concatenated values come back in order with nothing left over; write_is_writer ties the tree encoder to the writer functions",
    "note": "Trusted: Lean kernel; hand-written model of _asn1.py (tie is differential outside the extracted kernel); content lengths < 256^127; UTF-8/str/int codecs are CPython's",
    "technique": "Lean 4 proof (induction on digit lists) over a hand-written model + kernel extraction + exhaustive/differential correspondence",
}
MODULES = ["DpapiNg.Properties.C07", "DpapiNg.Properties.C07Tree"]
THEOREMS = ["DpapiNg.C07.readLE_packLE", "DpapiNg.C07.packInteger_content", "DpapiNg.C07.packInteger_minimal_pos",
            "DpapiNg.C07.readHeader_packTLV", "DpapiNg.C07.lengthOctets_minimal", "DpapiNg.C07.readInteger_packInteger",
            "DpapiNg.C07.octetNumber_roundtrip", "DpapiNg.C07.readOctetString_pack", "DpapiNg.C07.readBoolean_pack",
            "DpapiNg.C07.validateTag_any", "DpapiNg.C07.readOid_packOid", "DpapiNg.C07.read_write", "DpapiNg.C07.readList_write", "DpapiNg.C07.write_is_writer"]
RULE = ("integers: exhaustive over all values of ≤2 content octets (quick) / ≤3 (thorough), ±2^k±1 up to k=4096; tags: class × number × constructed; "
        "content lengths around 2^7, 2^8, 2^16 (2^24 thorough); OIDs with small and huge arcs; malformed reader inputs (truncations, bit flips, random). "
        "Each case runs the real _asn1 function and the model driver; distinct by op line")
ASSUMPTIONS = ["content lengths below 256^127 octets", "tag.WF: class 0..3, universal numbers ≤ 36 (the reader maps them through an enum)"]


def call(f, *a, fmt=lambda r: str(r)):
    try:
        return "ok " + fmt(f(*a))
    except Exception as e:  # noqa
        return "err " + canon_exc(e)


def der_int(v: int) -> bytes:
    """independent minimal two's-complement encoder"""
    n = (v + (v < 0)).bit_length() // 8 + 1
    return v.to_bytes(n, "big", signed=True)


def der_len(n: int) -> bytes:
    if n < 128:
        return bytes([n])
    b = n.to_bytes((n.bit_length() + 7) // 8, "big")
    return bytes([0x80 | len(b)]) + b


def int_values(ctx):
    rng = ctx.rng
    if ctx.thorough:
        yield from range(-(1 << 23), 1 << 23)
        ctx.exhaustive = True
        ctx.notes.append("exhaustive over all integers of ≤ 3 content octets")
    else:
        yield from range(-(1 << 15), 1 << 15)
        ctx.notes.append("exhaustive over all integers of ≤ 2 content octets")
        for _ in range(20000):
            yield rng.randrange(-(1 << 23), 1 << 23)
    ks = range(0, 4097) if ctx.thorough else list(range(0, 300)) + list(range(300, 4097, 61)) + [4096]
    for k in ks:
        for s in (1, -1):
            for d in (-1, 0, 1):
                yield s * (1 << k) + d
    for _ in range(2000):
        yield rng.randrange(-(1 << rng.randrange(1, 600)), 1 << rng.randrange(1, 600))


def gen_tree(rng, depth):
    """a random value tree: ('int', v) | ('oct', b) | ('utf8', s) | ('oid', s) | ('bool', b) | ('seq', [kids]) | ('set', [kids]); containers
    may be empty and nest up to `depth`"""
    kinds = ["int", "oct", "utf8", "oid", "bool"] + (["seq", "set"] * 2 if depth > 0 else [])
    k = rng.choice(kinds)
    if k == "int":
        return ("int", rng.choice([0, 1, -1, 127, 128, -128, -129, 255, 256, -65536, 2**31, -2**63, rng.randrange(-2**40, 2**40)]))
    if k == "oct":
        return ("oct", bytes(rng.randrange(256) for _ in range(rng.choice([0, 1, 5, 127, 128, 130]))))
    if k == "utf8":
        return ("utf8", rng.choice(["", "SID", "S-1-5-18", "dömäin", "\U0001F600x", "\ufeffSID", "\ufeff", "S\ufeff", "\ufffeS"]))
    if k == "oid":
        return ("oid", rng.choice(["1.2.840.113549.1.7.3", "2.16.840.1.101.3.4.1.45", "0.0", "1.3.0.0.1", "2.39.4294967296.1", "1.2.0.840"]))
    if k == "bool":
        return ("bool", rng.random() < 0.5)
    return (k, [gen_tree(rng, depth - 1) for _ in range(rng.choice([0, 0, 1, 2, 3]))])


def write_tree(w, t):
    k, v = t
    if k == "int":
        w.write_integer(v)
    elif k == "oct":
        w.write_octet_string(v)
    elif k == "utf8":
        w.write_utf8_string(v)
    elif k == "oid":
        w.write_object_identifier(v)
    elif k == "bool":
        w.write_boolean(v)
    else:
        with (w.push_sequence() if k == "seq" else w.push_set()) as inner:
            for kid in v:
                write_tree(inner, kid)


def read_tree(r, t):
    """the typed reader calls that mirror the schema of `t`"""
    k, v = t
    if k == "int":
        return ("int", r.read_integer())
    if k == "oct":
        return ("oct", r.read_octet_string())
    if k == "utf8":
        return ("utf8", r.read_utf8_string())
    if k == "oid":
        return ("oid", r.read_object_identifier())
    if k == "bool":
        return ("bool", r.read_boolean())
    inner = r.read_sequence() if k == "seq" else r.read_set()
    kids = [read_tree(inner, kid) for kid in v]
    if inner.get_remaining_data():
        raise ValueError("octets left over inside a container")
    return (k, kids)


def ref_tree(t):
    """independent DER encoder (harness/der.py)"""
    import der
    k, v = t
    if k == "int":
        return der.enc_int(v)
    if k == "oct":
        return der.enc(0, False, 4, v)
    if k == "utf8":
        return der.enc(0, False, 12, v.encode("utf-8"))
    if k == "oid":
        return der.enc_oid(v)
    if k == "bool":
        return der.enc(0, False, 1, b"\xff" if v else b"\x00")
    return der.enc(0, True, 16 if k == "seq" else 17, b"".join(ref_tree(x) for x in v))


def trees(ctx, a, cases):
    """nested writers / the reader cursor: ASN1Writer (push_sequence / push_set contexts) and ASN1Reader on random trees and concatenations"""
    rng = ctx.rng
    fixed = [("seq", []), ("set", []), ("seq", [("seq", [])]), ("seq", [("int", 5), ("seq", []), ("oct", b"x")]), ("set", [("set", [("seq", [])])]),
             ("seq", [("seq", [("seq", [("seq", [("int", -65536)])])])])]
    for i in range(400 if ctx.thorough else 120):
        forest = [fixed[i]] if i < len(fixed) else [gen_tree(rng, rng.choice([1, 2, 3, 4])) for _ in range(rng.choice([1, 1, 2, 3]))]
        try:
            w = a.ASN1Writer()
            for t in forest:
                write_tree(w, t)
            enc = bytes(w.get_data())
        except Exception as e:  # noqa
            ctx.violation("ASN1Writer fails on a value tree", {"forest": repr(forest)[:300]}, canon_exc(e), "an encoding")
            continue
        want = b"".join(ref_tree(t) for t in forest)
        ctx.count("value_trees")
        if enc != want:
            ctx.violation("nested writers do not emit the DER encoding of the value tree", {"forest": repr(forest)[:300]}, hx(enc)[:120], hx(want)[:120])
            continue
        try:
            r = a.ASN1Reader(enc + b"\xAA")
            back = [read_tree(r, t) for t in forest]
            left = bytes(r.get_remaining_data())
        except Exception as e:  # noqa
            ctx.violation("ASN1Reader fails on what ASN1Writer wrote", {"forest": repr(forest)[:300], "encoding": hx(enc)}, canon_exc(e), "the tree")
            continue
        if back != forest or left != b"\xAA":
            ctx.violation("reading concatenated / nested values does not return them in order with exactly the encoding consumed",
                          {"forest": repr(forest)[:300], "encoding": hx(enc)}, repr(back)[:200] + " left " + hx(left), "the forest, left aa")
        # per-node model correspondence: every container is packtlv of the concatenation of its children
        def node_lines(t):
            k, v = t
            if k in ("seq", "set"):
                content = b"".join(ref_tree(x) for x in v)
                cases.append((f"packtlv 0 {16 if k == 'seq' else 17} 1 {hx(content)}", "ok " + hx(ref_tree(t))))
                for x in v:
                    node_lines(x)
        for t in forest:
            node_lines(t)



def walk(ctx, a):
    """the reader cursor under every mix of calls: at each value of a concatenation (recursively inside containers) the walk either reads
    it with the typed call, peeks and reads with header=, peeks and skips, or peeks twice first; before and after every step the header the
    reader reports must be the header of the value AT the cursor (computed by the independent DER reader from the known encodings)"""
    import der
    rng = ctx.rng

    def hdr_of(enc):
        cls, cons, num, content, end = der.read_tlv(enc, 0)
        return (cls, cons, num, end - len(content), len(content))

    def seen(h):
        return (int(h.tag.tag_class), bool(h.tag.is_constructed), int(h.tag.tag_number), h.tag_length, h.length)

    class Bad(Exception):
        pass

    def step(r, kids, trail):
        for i, t in enumerate(kids):
            enc = ref_tree(t)
            want = hdr_of(enc)
            act = rng.choice(["read", "peek-read", "peek-skip", "peek-peek-read", "peek-skip"])
            trail.append(f"{act}:{t[0]}")
            ctx.count("cursor_walk:" + act)
            if act != "read":
                for _ in range(2 if act == "peek-peek-read" else 1):
                    h = r.peek_header()
                    if seen(h) != want:
                        raise Bad(f"peek_header reports {seen(h)} at a value whose header is {want}")
            if act == "peek-skip":
                r.skip_value(h)
                continue
            k, v = t
            kw = {} if act == "read" else {"header": h}
            if k in ("seq", "set"):
                inner = (r.read_sequence if k == "seq" else r.read_set)(**kw)
                step(inner, v, trail)
                if inner or inner.get_remaining_data():
                    raise Bad("octets left over inside a container")
            else:
                got = {"int": r.read_integer, "oct": r.read_octet_string, "utf8": r.read_utf8_string, "oid": r.read_object_identifier,
                       "bool": r.read_boolean}[k](**kw)
                if got != v:
                    raise Bad(f"read {got!r} where {v!r} was written")
        if kids and bool(r):
            pass  # (the caller checks what is left)

    for i in range(600 if ctx.thorough else 150):
        forest = [gen_tree(rng, rng.choice([0, 1, 2, 3])) for _ in range(rng.choice([2, 3, 4, 6]))]
        enc = b"".join(ref_tree(t) for t in forest)
        trail = []
        r = a.ASN1Reader(enc + b"\x04\x01\xAA")
        try:
            step(r, forest, trail)
            h = r.peek_header()
            left = bytes(r.get_remaining_data())
            if seen(h) != (0, False, 4, 2, 1) or left != b"\x04\x01\xAA":
                raise Bad(f"after the walk the reader is not at the sentinel: header {seen(h)}, left {hx(left)}")
        except Bad as e:
            ctx.violation("the reader cursor loses its place under a mix of peek / skip / read calls",
                          {"forest": repr(forest)[:400], "encoding": hx(enc)[:400], "calls": " ".join(trail), "scenario": "cursor_walk"}, str(e)[:200], "the value at the cursor")
            return
        except Exception as e:  # noqa
            ctx.violation("the reader fails on a well-formed concatenation under a mix of peek / skip / read calls",
                          {"forest": repr(forest)[:400], "encoding": hx(enc)[:400], "calls": " ".join(trail), "scenario": "cursor_walk"}, canon_exc(e), "the values")
            return



def aliasing(ctx, a):
    """values handed to the writer as mutable buffers (bytearray) or views (memoryview): writing a value must neither change the caller's
    object nor depend on it having been written before — the same object written twice encodes twice the same, and reads back"""
    import der
    rng = ctx.rng
    for n in (0, 1, 5, 127, 128, 300):
        raw = bytes(rng.randrange(256) for _ in range(n))
        for kind in ("bytearray", "memoryview", "bytes"):
            for tag in (None, a.ASN1Tag(a.TagClass.CONTEXT_SPECIFIC, 0, False)):
                val = bytearray(raw) if kind == "bytearray" else (memoryview(raw) if kind == "memoryview" else raw)
                want1 = der.enc(0, False, 4, raw) if tag is None else der.enc(2, False, 0, raw)
                inp = {"scenario": "aliasing", "value_type": kind, "length": n, "custom_tag": tag is not None}
                ctx.count("aliasing:" + kind)
                try:
                    w = a.ASN1Writer()
                    with w.push_sequence() as seq:
                        seq.write_octet_string(val, tag) if tag is not None else seq.write_octet_string(val)
                        seq.write_octet_string(val, tag) if tag is not None else seq.write_octet_string(val)
                    w.write_octet_string(val)
                    enc = bytes(w.get_data())
                    direct = [bytes(a._pack_asn1_octet_string(val)) for _ in range(2)]
                except Exception as e:  # noqa
                    ctx.violation("the writer fails on a value handed over as a buffer object", inp, canon_exc(e), "an encoding")
                    return
                want = der.enc(0, True, 16, want1 + want1) + der.enc(0, False, 4, raw)
                if bytes(val) != raw:
                    ctx.violation("writing a value changed the caller's buffer", inp, hx(bytes(val))[:80], hx(raw)[:80])
                    return
                if enc != want or direct != [der.enc(0, False, 4, raw)] * 2:
                    ctx.violation("the same value object written twice does not encode twice the same (minimal DER)", inp, hx(enc)[:120], hx(want)[:120])
                    return


def _run(ctx):
    import dpapi_ng._asn1 as a
    prelude.validate(ctx)
    rng = ctx.rng
    cases = []

    def flush():
        nonlocal cases
        if cases:
            ctx.compare_batch(cases)
            cases = []

    # --- integers ---------------------------------------------------------------------------
    n = 0
    for v in int_values(ctx):
        try:
            enc = a._pack_asn1_integer(v)
        except Exception as e:  # noqa
            enc = None
            cases.append((f"packint {v}", "err " + canon_exc(e)))
        if enc is not None:
            cases.append((f"packint {v}", "ok " + hx(enc)))
            exp = b"\x02" + der_len(len(der_int(v))) + der_int(v)
            if enc != exp:
                ctx.violation("INTEGER encoding is not the minimal DER encoding", {"value": v}, hx(enc), hx(exp))
            r = call(a._read_asn1_integer, enc + b"\xAA", fmt=lambda r: f"{r[0]} {r[1]}")
            cases.append((f"readint {hx(enc + bytes([0xAA]))}", r))
            if r != f"ok {v} {len(enc)}":
                ctx.violation("INTEGER reader does not return the written value / consume exactly the encoding",
                              {"value": v, "encoding": hx(enc)}, r, f"ok {v} {len(enc)}")
        n += 1
        if len(cases) >= 400000:
            flush()
    flush()
    ctx.count("integers", n)

    # independent-encoder direction: the reader on the canonical encoding of v
    for _ in range(3000):
        v = rng.randrange(-(1 << rng.randrange(1, 200)), 1 << rng.randrange(1, 200))
        enc = b"\x02" + der_len(len(der_int(v))) + der_int(v)
        r = call(a._read_asn1_integer, enc, fmt=lambda r: f"{r[0]} {r[1]}")
        cases.append((f"readint {hx(enc)}", r))
        if r != f"ok {v} {len(enc)}":
            ctx.violation("INTEGER reader wrong on a canonical encoding", {"value": v, "encoding": hx(enc)}, r, f"ok {v} {len(enc)}")

    # --- tags × lengths ---------------------------------------------------------------------
    nums = list(range(0, 37)) + [37, 100, 127, 128, 16383, 16384, 1 << 32, (1 << 64) + 5]
    lens = [0, 1, 2, 126, 127, 128, 129, 254, 255, 256, 257, 65535, 65536, 65537]
    if ctx.thorough:
        lens += [(1 << 24) - 1, 1 << 24]
    for cls in (0, 1, 2, 3, 4):
        for num in nums:
            for cons in (False, True):
                ln = rng.choice(lens[:11])
                content = bytes(rng.randrange(256) for _ in range(ln))
                r = call(a._pack_asn1, cls, cons, num, content, fmt=hx)
                cases.append((f"packtlv {cls} {num} {int(cons)} {hx(content)}", r))
                ctx.count(f"tag:cls{cls}")
                if r.startswith("ok ") and not (cls == 0 and num > 36):
                    enc = bytes.fromhex(r[3:])
                    rh = call(a._read_asn1_header, enc + b"\x01\x02",
                              fmt=lambda h: f"{int(h.tag.tag_class)} {int(h.tag.tag_number)} {int(h.tag.is_constructed)} {h.tag_length} {h.length}")
                    cases.append((f"readhdr {hx(enc + bytes([1, 2]))}", rh))
                    exp = f"ok {cls} {num} {int(cons)} {len(enc) - ln} {ln}"
                    if rh != exp:
                        ctx.violation("header reader does not recover tag/lengths", {"cls": cls, "num": num, "cons": cons, "len": ln}, rh, exp)
    for ln in lens:
        content = bytes([ln % 251]) * ln
        r = call(a._pack_asn1, 0, False, 4, content, fmt=hx)
        cases.append((f"packtlv 0 4 0 {hx(content)}", r))
        ctx.count("length:%s" % ("short" if ln < 128 else "long"))
        enc = bytes.fromhex(r[3:])
        exp = b"\x04" + der_len(ln) + content
        if enc != exp:
            ctx.violation("length octets are not minimal DER", {"len": ln}, hx(enc[:8]), hx(exp[:8]))
        ro = call(a._read_asn1_octet_string, enc + b"\x07", fmt=lambda r: f"{hx(r[0])} {r[1]}")
        cases.append((f"readoctet {hx(enc + bytes([7]))}", ro))
        if ro != f"ok {hx(content)} {len(enc)}":
            ctx.violation("OCTET STRING reader wrong", {"len": ln}, ro[:60], f"ok … {len(enc)}")
        flush()

    # content lengths around 2^24 (3-octet / 4-octet length form): oracle only in the quick tier (the thorough tier sends them through the model too)
    for ln in ((1 << 24) - 1, 1 << 24, (1 << 24) + 1):
        content = bytes([ln % 251]) * ln
        ctx.count("length:2^24")
        try:
            enc = bytes(a._pack_asn1(0, False, 4, content))
        except Exception as e:  # noqa
            ctx.violation("TLV writer raises", {"len": ln}, canon_exc(e), "an encoding")
            continue
        exp = b"\x04" + der_len(ln) + content
        if enc != exp:
            ctx.violation("length octets are not minimal DER", {"len": ln}, hx(enc[:8]), hx(exp[:8]))
            continue
        try:
            got, used = a._read_asn1_octet_string(enc + b"\x07")
            ro = "ok" if (bytes(got) == content and used == len(enc)) else f"wrong value or {used} octets consumed"
        except Exception as e:  # noqa
            ro = "err " + canon_exc(e)
        if ro != "ok":
            ctx.violation("OCTET STRING reader wrong", {"len": ln}, ro[:60], f"ok … {len(enc)}")

    # --- OIDs -------------------------------------------------------------------------------
    oids = ["1.2.840.113549.1.7.3", "1.3.6.1.4.1.311.74.1", "2.16.840.1.101.3.4.1.45", "0.0", "0.39", "1.0", "2.39", "2.5.4.3",
            "1.2.0.127.128.16383.16384", "2.40", "3.1", "1.40", "1.2." + str(1 << 70)]
    for _ in range(600 if not ctx.thorough else 6000):
        arcs = [rng.randrange(0, 3), rng.randrange(0, 40)] + [rng.choice([0, 1, 127, 128, 16383, 16384, (1 << 21) - 1, 1 << 21, (1 << (7 * rng.randrange(1, 12))) - rng.randrange(0, 2), rng.randrange(1 << rng.randrange(1, 80))]) for _ in range(rng.randrange(0, 8))]
        oids.append(".".join(map(str, arcs)))
    for o in oids:
        r = call(a._pack_asn1_object_identifier, o, fmt=hx)
        cases.append((f"packoid {o}", r))
        ctx.count("oid")
        if r.startswith("ok "):
            enc = bytes.fromhex(r[3:])
            rr = call(a._read_asn1_object_identifier, enc + b"\x00", fmt=lambda r: f"{r[0]} {r[1]}")
            cases.append((f"readoid {hx(enc + bytes([0]))}", rr))
            first = int(o.split(".")[0])
            if first <= 2 and rr != f"ok {o} {len(enc)}":
                ctx.violation("OID does not round-trip", {"oid": o}, rr, f"ok {o} {len(enc)}")
            # the unique minimal DER encoding (X.690 8.19: each arc in the fewest base-128 octets), from the independent encoder
            if first <= 2 and (first == 2 or int(o.split(".")[1]) < 40) and enc != der.enc_oid(o):
                ctx.violation("OBJECT IDENTIFIER encoding is not the minimal DER encoding", {"oid": o}, hx(enc), hx(der.enc_oid(o)))

    # --- booleans, utf8 -----------------------------------------------------------------------
    for v in (False, True):
        r = call(a._pack_asn1_boolean, v, fmt=hx)
        cases.append((f"packbool {int(v)}", r))
        enc = bytes.fromhex(r[3:])
        cases.append((f"readbool {hx(enc)}", call(a._read_asn1_boolean, enc, fmt=lambda r: f"{int(r[0])} {r[1]}")))
    for s in ("", "SID", "S-1-5-21-1-2-3-1103", "héllo", "日本語", "😀", "a\x00b", "\ufeffSID", "\ufeff", "\ufeff\ufeffx", "x\ufeff", "\ufffe"):
        enc = a._pack_asn1_utf8_string(s)
        ru = call(a._read_asn1_utf8_string, enc, fmt=lambda r: f"{hx(r[0].encode('utf-8'))} {r[1]}")
        cases.append((f"readutf8 {hx(enc)}", ru))
        # (U+FEFF is an ordinary character of a UTF8String: no signature sniffing)
        if enc != b"\x0c" + der_len(len(s.encode("utf-8"))) + s.encode("utf-8") or ru != f"ok {hx(s.encode('utf-8'))} {len(enc)}":
            ctx.violation("UTF8String does not round-trip", {"string": s.encode("unicode_escape").decode()}, ru[:80], f"ok {hx(s.encode('utf-8'))} {len(enc)}")

    # --- malformed reader inputs ---------------------------------------------------------------
    readers = [("readint", a._read_asn1_integer, lambda r: f"{r[0]} {r[1]}"),
               ("readoid", a._read_asn1_object_identifier, lambda r: f"{r[0]} {r[1]}"),
               ("readoctet", a._read_asn1_octet_string, lambda r: f"{hx(r[0])} {r[1]}"),
               ("readbool", a._read_asn1_boolean, lambda r: f"{int(r[0])} {r[1]}"),
               ("readutf8", a._read_asn1_utf8_string, lambda r: f"{hx(r[0].encode('utf-8'))} {r[1]}"),
               ("readhdr", a._read_asn1_header, lambda h: f"{int(h.tag.tag_class)} {int(h.tag.tag_number)} {int(h.tag.is_constructed)} {h.tag_length} {h.length}")]
    seeds = [bytes.fromhex(x) for x in ("0200", "0600", "0203ff0000", "02810100", "0280", "1f8001", "3f", "02", "", "0282000101", "06032a8648",
                                        "0603ffffff", "0c02c328", "0101ff", "010100", "0101", "04830000020102", "bf876802aabb", "1f25", "1f2400", "7f", "ff7f00")]
    for _ in range(1500 if not ctx.thorough else 20000):
        seeds.append(bytes(rng.randrange(256) for _ in range(rng.randrange(0, 12))))
    for s in list(seeds[:40]):
        for i in range(len(s)):
            seeds.append(s[:i])
            seeds.append(s[:i] + bytes([s[i] ^ (1 << rng.randrange(8))]) + s[i + 1:])
    for s in seeds:
        for name, f, fmt in readers:
            r = call(f, s, fmt=fmt)
            cases.append((f"{name} {hx(s)}", r))
            ctx.count("malformed")
            if r.startswith("err ") and r[4:] not in ("ValueError", "NotEnougData"):
                ctx.violation("reader escapes with an internal error type", {"reader": name, "data": hx(s)}, r, "ValueError or NotEnougData")
    trees(ctx, a, cases)
    walk(ctx, a)
    aliasing(ctx, a)
    flush()


def run(ctx):
    import dpapi_ng._asn1 as am
    import gen
    names = ["_pack_asn1", "_pack_asn1_integer", "_pack_asn1_octet_string", "_pack_asn1_object_identifier", "_encode_object_identifier", "_read_asn1_header",
             "_read_asn1_integer", "_read_asn1_object_identifier", "_read_asn1_octet_string", "_pack_asn1_octet_number", "_unpack_asn1_octet_number",
             "_pack_asn1_utf8_string", "_read_asn1_utf8_string", "_read_asn1_boolean", "_pack_asn1_boolean"]
    with gen.PurityRecorder(am, [n for n in names if hasattr(am, n)], limit=300) as rec:
        _run(ctx)
    rec.verify(ctx, "ASN.1 primitive codec")


def search(ctx, broken, disagreements):
    """Direct oracle on the witnesses of a disagreement (the generators already ran it on everything)."""
    import dpapi_ng._asn1 as a
    for d in disagreements:
        toks = d["op"].split(" ")
        if toks[0] == "packint":
            v = int(toks[1])
            try:
                enc = a._pack_asn1_integer(v)
                exp = b"\x02" + der_len(len(der_int(v))) + der_int(v)
                if enc != exp:
                    ctx.violation("INTEGER encoding is not the minimal DER encoding", {"value": v}, hx(enc), hx(exp))
            except Exception as e:  # noqa
                ctx.violation("INTEGER writer raises", {"value": v}, canon_exc(e), "an encoding")
        elif toks[0] == "packtlv":
            cls, num, cons, content = int(toks[1]), int(toks[2]), toks[3] == "1", bytes.fromhex(toks[4].replace("-", ""))
            if cls <= 3:
                try:
                    enc = a._pack_asn1(cls, cons, num, content)
                    if not enc.endswith(der_len(len(content)) + content):
                        ctx.violation("length octets are not minimal DER", {"len": len(content)}, hx(enc[:10]), hx(der_len(len(content))))
                except Exception as e:  # noqa
                    ctx.violation("TLV writer raises", {"op": d["op"][:80]}, canon_exc(e), "an encoding")


def replay(ctx, payload):
    import dpapi_ng._asn1 as a
    v = payload["violation"]["input"]
    if "value" in v:
        val = int(v["value"])
        enc = a._pack_asn1_integer(val)
        exp = b"\x02" + der_len(len(der_int(val))) + der_int(val)
        try:
            r = a._read_asn1_integer(enc)
        except Exception as e:  # noqa
            r = canon_exc(e)
        print(f"value={val} encoded={hx(enc)} expected={hx(exp)} read-back={r}")
        return enc == exp and r == (val, len(enc))
    if "forest" in v:
        import ast as _ast
        forest = _ast.literal_eval(v["forest"])
        w = a.ASN1Writer()
        for t in forest:
            write_tree(w, t)
        enc = bytes(w.get_data())
        want = b"".join(ref_tree(t) for t in forest)
        print(f"forest={forest!r}\n  written  {hx(enc)}\n  expected {hx(want)}")
        if enc != want:
            return False
        r = a.ASN1Reader(enc)
        back = [read_tree(r, t) for t in forest]
        print("  read back", back, "left", hx(bytes(r.get_remaining_data())))
        return back == forest and not r.get_remaining_data()
    print("replay input:", v, "(re-running the oracle sweep that found it)")
    c2 = type(ctx)(ctx.prop, "quick", ctx.seed)
    run(c2)
    for x in c2.violations[:5]:
        print(" ", x["what"], x["input"], str(x["observed"])[:80])
    return not c2.violations
