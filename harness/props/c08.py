"""C08 — SID and target security descriptor bytes follow MS-DTYP for every SID."""
from __future__ import annotations
import struct
import prelude
from check import canon_exc, hx

MANIFEST = {
    "text": "Lean theorems: targetSd_layout (an independent MS-DTYP parser written from the spec decodes the target SD of every well-formed SID to SYSTEM owner/group, no SACL, DACL [allow 3 SID, allow 2 Everyone], control 0x8004 — sizes/counts/offsets checked by that parser), sid_bytes_injective / targetSd_injective, parseSidStr_wf (accepted ⇒ in range), parseSidStr_rejects (every rejection is ValueError); model tied to _security_descriptor.py by correspondence on all n ∈ 1..15 × boundary values, random SIDs and the near-miss stream, and the implementation's bytes are re-parsed by both the Lean spec parser and an independent Python parser",
    "note": "Trusted: Lean kernel; hand-written model of the regex + int() + to_bytes (tie is differential); reading of MS-DTYP 2.4.2.2/2.4.4.2/2.4.5/2.4.6 in Spec/Dtyp.lean, calibrated on the captured SD in tests/data/seed_key.json",
    "technique": "Lean 4 proof (spec parser ∘ encoder = id, by induction on sub-authorities) + correspondence",
}
THEOREMS = ["DpapiNg.C08.targetSd_layout", "DpapiNg.C08.parseAcl_target", "DpapiNg.C08.sid_bytes_injective", "DpapiNg.C08.targetSd_injective",
            "DpapiNg.C08.parseSidStr_wf", "DpapiNg.C08.parseSidStr_rejects",
            # model = interpretation of the byte layouts regenerated from ace_to_bytes / acl_to_bytes (Gen.LayoutAce_eq, Gen.LayoutAcl_eq)
            "DpapiNg.SecDesc.aceBytes_eq_layout", "DpapiNg.SecDesc.aclBytes_eq_layout"]
RULE = ("SIDs S-R-A-s1..sn for all n in 0..17 × boundary values {0,1,2^31,2^32-1,2^32,2^48-1,2^48,2^64}, random SIDs, near-miss strings "
        "(trailing newline, non-ASCII digits, signs, whitespace, empty parts, lower-case s, leading zeros); ops sid / ace / targetsd on the real "
        "functions vs the model, plus the independent parsers on the real bytes; distinct by op line; non-trivial = accepted SID with n ≥ 1")
ASSUMPTIONS = ["Sid.WF: revision 0..9, authority < 2^48, 1..15 sub-authorities < 2^32"]


def sid_strings(ctx):
    rng = ctx.rng
    out = []
    B = [0, 1, 2**31, 2**32 - 1]
    for n in range(0, 18):
        for v in B + [2**32, 2**64]:
            for a in (0, 5, 2**48 - 1, 2**48, 2**64 - 1, 2**64):
                if rng.random() < (1.0 if ctx.thorough else 0.35) or n in (1, 15, 16) :
                    out.append("S-1-%d%s" % (a, "".join("-%d" % (v if i % 2 == 0 else B[(i + n) % 4]) for i in range(n))))
    for r in range(0, 12):
        out.append(f"S-{r}-5-18")
    for _ in range(3000 if ctx.thorough else 400):
        n = rng.randrange(1, 16)
        out.append("S-%d-%d%s" % (rng.randrange(10), rng.choice([rng.randrange(10), rng.randrange(2**48)]),
                                  "".join("-%d" % rng.choice([rng.randrange(2**32), rng.randrange(100)]) for _ in range(n))))
    out += ["S-1-5-18", "S-1-1-0", "S-1-5-21-3623811015-3361044348-30300820-1013", "S-1-5-18\n", "S-1-5-18\r\n", " S-1-5-18", "S-1-5-18 ",
            "S-1-5-١٨", "S-1-5-１８", "S-1-٥-18", "S-١-5-18", "S-1-5-+18", "S-1-5--18", "S-1-5-18-", "-S-1-5-18", "S--1-5-18", "s-1-5-18",
            "S-1-5", "S-1", "S", "", "S-1-5-", "S-1-5-0x12", "S-1-5-1_0", "S-1-5-1 0", "S-1-5-00000000000018", "S-1-0005-18", "S-01-5-18",
            "S-1-5-18\x00", "S-1-5-18\n\n", "X-1-5-18", "SS-1-5-18", "S-1-5-18-S", "S-1-5-²", "S-1-5-৩", "S-1-5-18 ", "S-1-5-1.0", "S-1-5-1e3",
            "S-1-5-" + "9" * 40, "S-1-" + "9" * 30 + "-1", "S-1-5-4294967296", "S-1-281474976710656-1", "S-1-281474976710655-4294967295",
            # the longest well-formed SID strings: 15 ten-digit sub-authorities, maximal authority, leading zeros
            "S-1-5" + "-4294967295" * 15, "S-9-281474976710655" + "-4294967295" * 15, "S-1-281474976710655" + "-4294967294" * 14 + "-1",
            "S-1-5" + "-0000000000000000000000001" * 15, "S-1-000000000000000000005-18"]
    # near-misses whose longest-possible well-formed PREFIX (184 characters) is followed by more: trailing white space, a 16th
    # sub-authority, a sign — a grammar check that stops at the maximum length would let the rest through to int()
    longest = "S-1-281474976710655" + "-4294967295" * 15
    out += [longest + x for x in ("\n", " ", "\t", "\r\n", "-7", "-0", "0", "-", "x", "\x00", " 1", "\u00a0")]
    # strings that are templates for one text-formatting mechanism or another (the rejected string usually ends up in the error message)
    out += ["{S-1-5-18}", "{sid}", "S-1-5-21-{domain}-500", "S-1-5-{}", "S-1-5-21-{1}-{2}-{3}-1104", "S-1-5-{!r}", "S-1-5-{0.real}", "S-1-5-{0}", "S-1-5-%s", "S-1-5-%(sid)s",
            "S-1-5-%d", "S-1-5-${sid}", "S-1-5-\\1", "S-1-5-{0:>9999999999}", "S-1-5-{", "S-1-5-}", "S-1-5-%", "S-1-5-4294967296-{}", "S-1-281474976710656-{x}"]
    out += ["S-1-5" + "-00000000001" * 15 + x for x in ("-7", "\n", "")] + ["S-1-5" + "-0000000001" * 15 + x for x in ("-7", "\n", " ")]
    return out


# independent MS-DTYP parser (direct oracle), written from the spec
def p_sid(b, off):
    rev, n = b[off], b[off + 1]
    auth = int.from_bytes(b[off + 2:off + 8], "big")
    subs = [int.from_bytes(b[off + 8 + 4 * i:off + 12 + 4 * i], "little") for i in range(n)]
    if len(b) < off + 8 + 4 * n:
        raise ValueError("short sid")
    return "S-%d-%d%s" % (rev, auth, "".join("-%d" % s for s in subs)), 8 + 4 * n


def p_acl(b, off):
    rev, sbz1, size, count, sbz2 = struct.unpack_from("<BBHHH", b, off)
    assert rev == 2 and sbz1 == 0 and sbz2 == 0
    aces, p = [], off + 8
    for _ in range(count):
        t, f, sz, mask = struct.unpack_from("<BBHI", b, p)
        sid, sl = p_sid(b, p + 8)
        assert sz == 8 + sl
        aces.append((t, f, mask, sid))
        p += sz
    assert size == p - off
    return aces


def p_sd(b):
    rev, sbz1, control, o, g, s, d = struct.unpack_from("<BBHIIII", b, 0)
    assert rev == 1 and sbz1 == 0 and control & 0x8000
    assert bool(control & 4) == (d != 0) and bool(control & 16) == (s != 0)
    owner, ol = p_sid(b, o)
    group, gl = p_sid(b, g)
    dacl = p_acl(b, d) if d else None
    sacl = p_acl(b, s) if s else None
    # regions: header, dacl, owner, group tile the buffer exactly
    assert o + ol <= len(b) and g + gl == len(b)
    return control, owner, group, sacl, dacl


def canonical(sid_str):
    """the in-range canonical SID a string denotes, or None (property's definition)"""
    import re
    if not re.fullmatch(r"S-[0-9]-[0-9]+(-[0-9]+){1,15}", sid_str, flags=re.ASCII):
        return None
    parts = [int(p) for p in sid_str.split("-")[1:]]
    if parts[1] >= 2**48 or any(p >= 2**32 for p in parts[2:]):
        return None
    return "S-" + "-".join(str(p) for p in parts)


def _run(ctx):
    import dpapi_ng._security_descriptor as sd
    from dpapi_ng._blob import ProtectionDescriptor
    prelude.validate(ctx)
    cases, dtyp_cases = [], []
    seen_bytes = {}
    for s in sid_strings(ctx):
        h = hx(s.encode("utf-8", "surrogatepass"))
        def call(f, *a):
            try:
                return "ok " + hx(f(*a))
            except Exception as e:  # noqa
                return "err " + canon_exc(e)
        r_sid = call(sd.sid_to_bytes, s)
        r_ace = call(sd.ace_to_bytes, s, 3)
        r_tsd = call(lambda: ProtectionDescriptor.parse(s).get_target_sd())
        cases += [(f"sid {h}", r_sid), (f"ace {h} 3", r_ace), (f"targetsd {h}", r_tsd)]
        canon = canonical(s)
        ctx.count("sid:accepted" if canon else "sid:near-miss")
        # --- direct oracle --------------------------------------------------------------------
        if canon is None:
            for r in (r_sid, r_tsd):
                if r != "err ValueError":
                    ctx.violation("a string that is not a canonical in-range SID is not rejected with ValueError", {"sid": s}, r, "err ValueError")
        else:
            if not r_tsd.startswith("ok "):
                ctx.violation("a well-formed SID is rejected", {"sid": s}, r_tsd, "ok")
                continue
            b = bytes.fromhex(r_tsd[3:])
            try:
                got = p_sd(b)
            except Exception as e:  # noqa
                got = f"parse failure {type(e).__name__}"
            want = (0x8004, "S-1-5-18", "S-1-5-18", None, [(0, 0, 3, canon), (0, 0, 2, "S-1-1-0")])
            if got != want:
                ctx.violation("target security descriptor is not the MS-DTYP layout", {"sid": s}, got, want)
            sb = bytes.fromhex(r_sid[3:])
            if p_sid(sb, 0) != (canon, len(sb)):
                ctx.violation("binary SID is not the MS-DTYP layout", {"sid": s}, hx(sb), canon)
            if sb in seen_bytes and seen_bytes[sb] != canon:
                ctx.violation("distinct SIDs give equal bytes", {"sid": s, "other": seen_bytes[sb]}, hx(sb), "distinct bytes")
            seen_bytes[sb] = canon
            # the Lean spec parser on the implementation's bytes
            dtyp_cases.append((f"dtyp {hx(b)}", f"ok 32772 S-1-5-18 S-1-5-18 none [0/0/3/{canon},0/0/2/S-1-1-0]"))
    # calibration of the spec parser on the captured Windows SD
    import json, base64, os
    p = "/repo/tests/data/seed_key.json"
    if os.path.exists(p):
        d = json.load(open(p))
        raw = None
        for k, v in d.items():
            if "sd" in k.lower() or "security" in k.lower():
                try:
                    raw = base64.b16decode(v.upper()) if all(c in "0123456789abcdefABCDEF" for c in v) else base64.b64decode(v)
                except Exception:  # noqa
                    raw = None
        if raw:
            c, o, g, s_, da = p_sd(raw)
            fmt = lambda acl: "none" if acl is None else "[" + ",".join("%d/%d/%d/%s" % a for a in acl) + "]"
            dtyp_cases.append((f"dtyp {hx(raw)}", f"ok {c} {o} {g} {fmt(s_)} {fmt(da)}"))
            ctx.count("calibration:seed_key.json")
    ctx.compare_batch(cases, nontrivial=lambda line, impl: impl.startswith("ok"))
    ctx.compare_batch(dtyp_cases, nontrivial=lambda line, impl: True)


def run(ctx):
    import dpapi_ng._security_descriptor as sdm, dpapi_ng._blob as bm
    import gen
    with gen.PurityRecorder(sdm, ["sid_to_bytes", "ace_to_bytes", "acl_to_bytes", "sd_to_bytes"]) as rec:
        old = (bm.sd_to_bytes, bm.ace_to_bytes)
        bm.sd_to_bytes, bm.ace_to_bytes = sdm.sd_to_bytes, sdm.ace_to_bytes        # (_blob imported the names)
        try:
            _run(ctx)
        finally:
            bm.sd_to_bytes, bm.ace_to_bytes = old
    rec.verify(ctx, "SID / security-descriptor encoding")


def search(ctx, broken, disagreements):
    pass  # the direct oracle already ran on every generated string, including the witnesses


def replay(ctx, payload):
    import dpapi_ng._security_descriptor as sd
    s = payload["violation"]["input"]["sid"]
    canon = canonical(s)
    try:
        r = hx(sd.sid_to_bytes(s))
    except Exception as e:  # noqa
        r = "err " + canon_exc(e)
    print(f"sid={s!r} canonical={canon} sid_to_bytes={r}")
    if canon is None:
        return r == "err ValueError"
    return not r.startswith("err") and p_sid(bytes.fromhex(r), 0)[0] == canon
