"""C09 — encryption names the group key of the interval containing the current time."""
from __future__ import annotations
import uuid
import prelude, toycrypto

MANIFEST = {
    "text": "Lean theorems keyId_of_time / keyId_interval / keyId_unique hold for every clock value; the four index expressions are regenerated from _client.py on every run and re-proved equal to the model (omega; float quotients via trueDivTrunc_small); the real function is swept under a scripted clock at every offset within ±64 ticks of L0/L1/L2 boundaries, with cached seed keys at several positions, with an advancing clock, and over histories of calls on one cache that cross a boundary; protectionGke_names_now / protect_blob_names_now lift the index theorems to the public function's model: for EVERY cache state (so after any history) and every plaintext, SID, draws and clock value, a protect answered from the cache emits the encoding of a blob whose key identifier is exactly indices(now) and names the requested root key",
    "note": "Trusted: Lean kernel, extractor's reading of Python integer/float-division semantics (Py.trueDivTrunc validated against CPython every run), that time.time_ns is the only clock source read",
    "technique": "Lean 4 proof over a model regenerated from source (kernel extraction + omega) + correspondence",
}
THEOREMS = ["DpapiNg.C09.keyId_of_time", "DpapiNg.C09.keyId_interval", "DpapiNg.C09.indices_in_range",
            "DpapiNg.C09.keyId_unique", "DpapiNg.C09.keyId_monotone", "DpapiNg.C09.float_l0_wrong",
            "DpapiNg.C09.float_l1_exact", "DpapiNg.C09.float_l2_exact", "DpapiNg.C09.protectionGke_names_now", "DpapiNg.C09.protect_blob_names_now"]
MODULES = ["DpapiNg.Properties.C09", "DpapiNg.Properties.C09Cache"]
RULE = ("clock values: every offset within ±64 ticks of L2/L1/L0 boundaries of sampled epochs plus random t in 1970..2200; "
        "each case scripts time.time_ns, calls _get_protection_gke_from_cache on a cache holding a root key and compares "
        "(l0,l1,l2) of the returned envelope with the model; distinct by clock value; non-trivial = within 64 ticks of a boundary")
ASSUMPTIONS = ["time.time_ns() returns a non-negative integer", "CPython float division is IEEE-754 binary64 round-half-even (modelled by Py.trueDivTrunc, validated each run)"]
TRUSTED = ["KDF scripted as a constant during the clock sweep (key bytes are irrelevant to the indices)"]

B = 360000000000
EPOCH = 116444736000000000
RK = uuid.UUID("d778c271-9025-9a82-f6dc-b8960b8ad8c5")


def budget_kdf(limit=400):
    """scripted KDF (zeros) that refuses to be called more often than any derivation needs: a runaway key walk becomes an error"""
    n = [0]

    def kdf(algorithm, secret, label, context, length):
        n[0] += 1
        if n[0] > limit:
            raise toycrypto.KdfBudgetExceeded(f"more than {limit} KDF calls in one call")
        return b"\x00" * length
    return kdf


def impl_indices(ns):
    """Run the real _get_protection_gke_from_cache under a scripted clock and KDF."""
    import dpapi_ng._client as c
    import dpapi_ng._gkdi as g

    class T:
        @staticmethod
        def time_ns():
            return ns
    old_time, old_kdf = c.time, g.kdf
    c.time = T
    g.kdf = budget_kdf()
    try:
        cache = c.KeyCache()
        cache.load_key(b"\x01" * 64, RK)
        env = c._get_protection_gke_from_cache(RK, b"sd", cache)
        return f"ok {env.l0} {env.l1} {env.l2}"
    except Exception as e:  # noqa
        from check import canon_exc
        return "err " + canon_exc(e)
    finally:
        c.time, g.kdf = old_time, old_kdf


def impl_indices_advancing(ns0):
    """the same with a clock that advances one 100 ns tick on every read: (outcome, instants the clock showed)"""
    import dpapi_ng._client as c
    import dpapi_ng._gkdi as g
    shown = []

    class T:
        @staticmethod
        def time_ns():
            shown.append(ns0 + 100 * len(shown))
            return shown[-1]
    old_time, old_kdf = c.time, g.kdf
    c.time = T
    g.kdf = budget_kdf()
    try:
        cache = c.KeyCache()
        cache.load_key(b"\x01" * 64, RK)
        env = c._get_protection_gke_from_cache(RK, b"sd", cache)
        return (env.l0, env.l1, env.l2), shown
    except Exception as e:  # noqa
        from check import canon_exc
        return "err " + canon_exc(e), shown
    finally:
        c.time, g.kdf = old_time, old_kdf


def seeded_case(ns, seedpos, empty_l2):
    import dpapi_ng._client as c
    import dpapi_ng._gkdi as g
    import gen

    class T:
        @staticmethod
        def time_ns():
            return ns
    old_time, old_kdf = c.time, g.kdf
    c.time = T
    g.kdf = budget_kdf()
    try:
        cache = c.KeyCache()
        seed = gen.make_env(l0=seedpos[0], l1=seedpos[1], l2=seedpos[2], l1_key=b"\x11" * 64, l2_key=b"" if empty_l2 else b"\x22" * 64, root_key_identifier=RK)
        cache._store_key(b"sd", seed)
        env = c._get_protection_gke_from_cache(RK, b"sd", cache)
        return None if env is None else (env.l0, env.l1, env.l2)
    except Exception as e:  # noqa
        from check import canon_exc
        return "err " + canon_exc(e)
    finally:
        c.time, g.kdf = old_time, old_kdf


def seeded_cache(ctx):
    """a cache that holds a previously retrieved seed key (no root key) positioned at or after 'now' in the same L0: the
    key identifier of a new blob must still name the interval of the clock, not the position of the cached seed"""
    import dpapi_ng._client as c
    import dpapi_ng._gkdi as g
    import gen
    rng = ctx.rng
    for _ in range(400 if ctx.thorough else 80):
        l0 = 361 + rng.randrange(3)
        l1, l2 = rng.randrange(32), rng.randrange(32)
        # seed position: same interval, later L2 in the same L1, L2 = 31, or a later L1
        kind = rng.choice(["same", "later_l2", "l2_31", "later_l1"])
        if kind == "same":
            s1, s2 = l1, l2
        elif kind == "later_l2":
            s1, s2 = l1, min(31, l2 + rng.randrange(1, 32))
        elif kind == "l2_31":
            s1, s2 = l1, 31
        else:
            s1, s2 = min(31, l1 + rng.randrange(1, 32)), rng.randrange(32)
        if (s1, s2) < (l1, l2):
            continue                 # (L1 = 31 has no later L1) the cached seed must cover the clock position, else the DC is asked
        ns = ticks_to_ns(((l0 * 32 + l1) * 32 + l2) * B + rng.randrange(B))
        if ns < 0:
            continue

        out = seeded_case(ns, (l0, s1, s2), s2 == 31 and rng.random() < 0.5)
        ctx.count("cached_seed:" + kind)
        if out != (l0, l1, l2):
            ctx.violation("with a previously retrieved seed key in the cache the key identifier does not name the interval of the clock",
                          {"time_ns": ns, "clock_interval": [l0, l1, l2], "cached_seed_position": [l0, s1, s2]}, str(out), str((l0, l1, l2)))
            return



def unreachable_dc(ctx):
    """a previously retrieved seed key in the cache, the clock past the interval it covers, and a domain controller that cannot be reached
    (connection refused, timeout, name resolution failure — any OSError) or answers with an error: the public protect functions either
    fail or emit a blob naming the interval of the clock — never a blob naming the (past) interval of the seed at hand"""
    import asyncio, socket
    import dpapi_ng, dpapi_ng._client as c
    import gen
    from dpapi_ng._blob import DPAPINGBlob, ProtectionDescriptor
    sid = "S-1-5-21-1-2-3-1103"
    sd = ProtectionDescriptor.parse(sid).get_target_sd()
    old = (c.time, c._sync_get_key, c._async_get_key)
    try:
        for fault in (ConnectionRefusedError, socket.timeout, socket.gaierror, OSError, ConnectionResetError, ValueError):
            for (seedpos, nowpos) in (((361, 5, 5), (361, 5, 6)), ((361, 5, 31), (361, 6, 0)), ((361, 31, 31), (362, 0, 0)), ((361, 5, 5), (361, 9, 9))):
                for use_async in (False, True):
                    ns = ticks_to_ns(((nowpos[0] * 32 + nowpos[1]) * 32 + nowpos[2]) * B + 17)
                    c.time = type("T", (), {"time_ns": staticmethod(lambda ns=ns: ns)})

                    def sgk(*a, **kw):
                        raise fault("scripted fault")

                    async def agk(*a, **kw):
                        raise fault("scripted fault")
                    c._sync_get_key, c._async_get_key = sgk, agk
                    cache = c.KeyCache()
                    cache._store_key(sd, gen.make_env(l0=seedpos[0], l1=seedpos[1], l2=seedpos[2], l1_key=b"\x11" * 64, l2_key=b"\x22" * 64, root_key_identifier=RK))
                    inp = {"scenario": "unreachable_dc", "fault": fault.__name__, "cached_seed_position": list(seedpos), "clock_interval": list(nowpos), "async": use_async, "time_ns": ns}
                    try:
                        blob = asyncio.run(dpapi_ng.async_ncrypt_protect_secret(b"x", sid, server="dc01.domain.test", root_key_identifier=RK, cache=cache)) if use_async else \
                            dpapi_ng.ncrypt_protect_secret(b"x", sid, server="dc01.domain.test", root_key_identifier=RK, cache=cache)
                    except Exception:  # noqa  (failing is the right outcome)
                        ctx.count("unreachable_dc:error")
                        continue
                    ctx.count("unreachable_dc:blob")
                    k = DPAPINGBlob.unpack(blob).key_identifier
                    if (k.l0, k.l1, k.l2) != nowpos:
                        ctx.violation("with the domain controller unreachable a new blob names the interval of a cached seed key, not the interval of the clock",
                                      inp, str((k.l0, k.l1, k.l2)), "an error, or " + str(nowpos))
                        return
    finally:
        c.time, c._sync_get_key, c._async_get_key = old



def timezones(ctx):
    """the interval named is a function of the clock reading alone — not of the process's local time zone: the same sweep in fresh
    interpreters started under non-UTC zones (anything the library evaluates at import time is evaluated there)"""
    import subprocess, sys, os, json
    rng = ctx.rng
    Y = 1024 * B
    samples = [ticks_to_ns(k * Y + d) for k in (EPOCH // Y + 1, 361, 400) for d in (-1, 0, 1)] + [ticks_to_ns(rng.randrange(EPOCH + 1, 400 * Y)) for _ in range(6)]
    samples = [x for x in samples if x >= 0]
    here = os.path.dirname(os.path.dirname(os.path.abspath(__file__)))
    code = ("import sys, json; sys.path.insert(0, %r); from props import c09; print(json.dumps([c09.impl_indices(ns) for ns in %r]))" % (here, samples))
    for tz in ("AEST-10", "PST8PDT", "IST-5:30", "UTC0"):
        env = dict(os.environ, TZ=tz)
        try:
            out = subprocess.run([sys.executable, "-c", code], env=env, capture_output=True, text=True, timeout=120)
            got = json.loads(out.stdout.strip().splitlines()[-1])
        except Exception as e:  # noqa
            ctx.notes.append(f"time zone sweep under TZ={tz} could not run: {type(e).__name__}")
            continue
        for ns, g in zip(samples, got):
            want = "ok %d %d %d" % oracle(ns // 100 + EPOCH)
            ctx.count("timezone:" + tz)
            if g != want:
                ctx.violation("the interval named depends on the process's local time zone", {"scenario": "timezone", "TZ": tz, "time_ns": ns}, g, want)
                return



def dc_clock_skew(ctx):
    """the DC's clock and the local clock on opposite sides of an interval boundary: a protect call that goes to the DC gets a seed key for
    the DC's interval; a LATER protect call on the same cache, answered from the cache, still names the interval of the LOCAL clock — nothing
    learned from the DC's reply may shift it (DC ahead / behind, L2 / L1 / L0 boundaries, sync and async)"""
    import asyncio
    import dpapi_ng, dpapi_ng._client as c
    import gen
    from dpapi_ng._blob import DPAPINGBlob
    sid = "S-1-5-21-1-2-3-1103"
    old = (c.time, c._sync_get_key, c._async_get_key)
    try:
        for (local, dcpos) in (((361, 4, 6), (361, 4, 7)), ((361, 4, 31), (361, 5, 0)), ((361, 31, 31), (362, 0, 0)), ((361, 4, 7), (361, 4, 7)), ((361, 5, 0), (361, 4, 31))):
            for use_async in (False, True):
                env = gen.make_env(l0=dcpos[0], l1=dcpos[1], l2=dcpos[2], l1_key=b"\x11" * 64, l2_key=b"\x22" * 64, root_key_identifier=RK)

                rpc = [0]

                def sgk(*a, **kw):
                    rpc[0] += 1
                    return env

                async def agk(*a, **kw):
                    rpc[0] += 1
                    return env
                c._sync_get_key, c._async_get_key = sgk, agk
                cache = c.KeyCache()
                # first call: one second before / after the boundary by the local clock, answered by the DC
                t1 = ticks_to_ns(((local[0] * 32 + local[1]) * 32 + local[2]) * B + B - 10_000_000)
                c.time = type("T", (), {"time_ns": staticmethod(lambda t1=t1: t1)})
                try:
                    asyncio.run(dpapi_ng.async_ncrypt_protect_secret(b"x", sid, server="dc01", cache=cache)) if use_async else dpapi_ng.ncrypt_protect_secret(b"x", sid, server="dc01", cache=cache)
                except Exception:  # noqa
                    continue
                # later calls by the local clock, same interval (half a second before its end) and early in it
                for t2 in (t1 + 500_000_000, t1 - (B - 20_000_000) * 100 + 0):
                    want = oracle(t2 // 100 + EPOCH)
                    c.time = type("T", (), {"time_ns": staticmethod(lambda t2=t2: t2)})
                    n_rpc = rpc[0]
                    try:
                        blob = asyncio.run(dpapi_ng.async_ncrypt_protect_secret(b"y", sid, server="dc01", root_key_identifier=RK, cache=cache)) if use_async else \
                            dpapi_ng.ncrypt_protect_secret(b"y", sid, server="dc01", root_key_identifier=RK, cache=cache)
                    except Exception:  # noqa
                        ctx.count("dc_clock_skew:error")
                        continue
                    k = DPAPINGBlob.unpack(blob).key_identifier
                    ctx.count("dc_clock_skew:blob")
                    # (a call that went to the DC again names the DC's interval by construction; one answered from the cache names the local one)
                    if (k.l0, k.l1, k.l2) not in (want, dcpos):
                        ctx.violation("after a call answered by a DC whose clock differs, a later blob names neither the local clock's interval nor the DC's",
                                      {"scenario": "dc_clock_skew", "local_interval": list(want), "dc_interval": list(dcpos), "async": use_async, "time_ns": t2}, str((k.l0, k.l1, k.l2)), str(want))
                        return
                    if (k.l0, k.l1, k.l2) != want and rpc[0] == n_rpc:
                        ctx.violation("a blob keyed from the cache (no GetKey call was made) does not name the interval of the local clock",
                                      {"scenario": "dc_clock_skew", "local_interval": list(want), "dc_interval": list(dcpos), "async": use_async, "time_ns": t2}, str((k.l0, k.l1, k.l2)), str(want))
                        return
    finally:
        c.time, c._sync_get_key, c._async_get_key = old



def overlapping_calls(ctx):
    """two protect calls on ONE cache that overlap in time (two threads): the outer call has read its clock and is inside the key derivation
    when a complete inner call runs under a clock in the NEXT interval; each blob names the interval of the clock ITS call read — nothing
    kept on the shared cache between the clock read and the use of the indices may leak from one call into the other"""
    import dpapi_ng._client as c
    import dpapi_ng._gkdi as g
    if not hasattr(c, "compute_l1_key"):
        return
    for (a_pos, b_pos) in (((361, 5, 6), (361, 5, 7)), ((361, 5, 31), (361, 6, 0)), ((361, 31, 31), (362, 0, 0)), ((361, 5, 7), (361, 5, 6))):
        ta = ticks_to_ns(((a_pos[0] * 32 + a_pos[1]) * 32 + a_pos[2]) * B + 5)
        tb = ticks_to_ns(((b_pos[0] * 32 + b_pos[1]) * 32 + b_pos[2]) * B + 5)
        now = [ta]
        old = (c.time, g.kdf, c.compute_l1_key)
        c.time = type("T", (), {"time_ns": staticmethod(lambda: now[0])})
        g.kdf = budget_kdf(2000)
        state = {"inner": None, "busy": False}
        real_l1 = c.compute_l1_key
        cache = c.KeyCache()
        cache.load_key(b"\x01" * 64, RK)

        def hooked(*a, **kw):
            if not state["busy"] and state["inner"] is None:
                state["busy"] = True
                now[0] = tb
                try:
                    e2 = c._get_protection_gke_from_cache(RK, b"sd", cache)
                    state["inner"] = (e2.l0, e2.l1, e2.l2)
                except Exception as e:  # noqa
                    state["inner"] = "err " + type(e).__name__
                finally:
                    now[0] = ta
                    state["busy"] = False
            return real_l1(*a, **kw)
        c.compute_l1_key = hooked
        try:
            e1 = c._get_protection_gke_from_cache(RK, b"sd", cache)
            outer = (e1.l0, e1.l1, e1.l2)
        except Exception as e:  # noqa
            outer = "err " + type(e).__name__
        finally:
            c.time, g.kdf, c.compute_l1_key = old
        ctx.count("overlapping_calls")
        if outer != a_pos or state["inner"] not in (b_pos, None):
            ctx.violation("of two overlapping protect calls on one cache, a blob names the interval of the OTHER call's clock reading",
                          {"scenario": "overlapping_calls", "outer_clock_interval": list(a_pos), "inner_clock_interval": list(b_pos)},
                          f"outer names {outer}, inner names {state['inner']}", f"outer {a_pos}, inner {b_pos}")
            return


def advancing_clock(ctx):
    """a clock that moves during the call: the key identifier must name the interval of ONE instant the clock showed
    (L0, L1 and L2 taken from different readings can name a key hours or a year in the past)"""
    Y = 1024 * B
    k0 = EPOCH // Y + 1
    for k in range(k0, k0 + (40 if ctx.thorough else 6)):
        for unit in (Y, 32 * B, B):
            kk = k * (Y // unit) + (0 if unit == Y else ctx.rng.randrange(1, Y // unit))
            for d in range(0, 6):
                ns0 = ticks_to_ns(kk * unit - d)
                out, shown = impl_indices_advancing(ns0)
                ctx.count("advancing_clock:reads=%d" % len(shown))
                ok = any(out == oracle(x // 100 + EPOCH) for x in shown)
                if not ok:
                    ctx.violation("key identifier names no interval the (advancing) clock showed during the call",
                                  {"start_time_ns": ns0, "advance_per_read_ns": 100, "reads": len(shown)}, str(out),
                                  "one of " + str(sorted(set(oracle(x // 100 + EPOCH) for x in shown))))
                    return


def history_indices(times_ns, sds):
    """a HISTORY of _get_protection_gke_from_cache calls on ONE cache (scripted clock and KDF): the interval each call names"""
    import dpapi_ng._client as c
    import dpapi_ng._gkdi as g
    now = [0]

    class T:
        @staticmethod
        def time_ns():
            return now[0]
    old_time, old_kdf = c.time, g.kdf
    c.time = T
    g.kdf = budget_kdf(4000)
    outs = []
    try:
        cache = c.KeyCache()
        cache.load_key(b"\x01" * 64, RK)
        for ns, sd in zip(times_ns, sds):
            now[0] = ns
            try:
                env = c._get_protection_gke_from_cache(RK, sd, cache)
                outs.append((env.l0, env.l1, env.l2))
            except Exception as e:  # noqa
                from check import canon_exc
                outs.append("err " + canon_exc(e))
        return outs
    finally:
        c.time, g.kdf = old_time, old_kdf


def cache_histories(ctx):
    """several protects answered by one cache while the clock crosses an interval boundary: every call must name the interval of
    ITS OWN instant, whatever the cache answered before (the first tick of the next interval is the sharpest case)"""
    Y = 1024 * B
    k0 = EPOCH // Y + 1
    for k in range(k0, k0 + (40 if ctx.thorough else 6)):
        for unit in (Y, 32 * B, B):
            kk = k * (Y // unit) + (0 if unit == Y else ctx.rng.randrange(1, Y // unit))
            bound = kk * unit
            for steps in ([-5, 0], [-1, 0, 1], [-unit + 1, -1, 0, unit - 1, unit], [-3, 0, -3, 0], [0, B, 2 * B, 32 * B, 33 * B], [-1, -1, 0, 0]):
                for sds in ([b"sd"] * len(steps), [b"sd", b"other"] * len(steps)):
                    times = [ticks_to_ns(bound + d) for d in steps]
                    outs = history_indices(times, sds)
                    ctx.count("cache_history:calls=%d" % len(steps))
                    want = [oracle(bound + d) for d in steps]
                    if outs != want:
                        i = next(i for i in range(len(steps)) if outs[i] != want[i])
                        ctx.violation("after earlier protects on the same cache the key identifier names another interval than the one containing the clock value",
                                      {"history_times_ns": times, "sds": [x.decode() for x in sds[:len(steps)]], "call": i}, str(outs[i]), str(want[i]))
                        return


def ticks_to_ns(t):
    # smallest ns value whose FILETIME conversion is t
    return (t - EPOCH) * 100


def clock_values(ctx):
    rng = ctx.rng
    vals = []
    epochs = 200 if ctx.thorough else 24
    width = 64
    first_l0 = (EPOCH // (1024 * B)) + 1
    for unit, name in ((1024 * B, "L0"), (32 * B, "L1"), (B, "L2")):
        ks = set()
        lo = EPOCH // unit + 1
        hi = (EPOCH + 230 * 365 * 86400 * 10**7) // unit
        if name == "L0":
            ks.update(range(lo, min(hi, lo + epochs)))
        while len(ks) < min(epochs, hi - lo):       # (there are fewer than 200 L0 intervals in the 230 years swept)
            ks.add(rng.randrange(lo, hi))
        for k in sorted(ks):
            offs = range(-width, width + 1) if (ctx.thorough or name == "L0") else list(range(-20, 21)) + [-64, 64]
            for d in offs:
                vals.append((k * unit + d, name))
    for _ in range(3000 if ctx.thorough else 400):
        vals.append((rng.randrange(EPOCH, EPOCH + 230 * 365 * 86400 * 10**7), "random"))
    return vals


def oracle(t):
    return (t // (1024 * B), (t // (32 * B)) % 32, (t // B) % 32)


def run(ctx):
    prelude.validate(ctx)
    cases = []
    for t, kind in clock_values(ctx):
        ns = ticks_to_ns(t) + ctx.rng.randrange(0, 100)
        out = impl_indices(ns)
        cases.append((f"timeidx {ns}", out))
        ctx.count("clock:" + kind)
        # direct oracle on the implementation (independent of Lean)
        exp = "ok %d %d %d" % oracle(ns // 100 + EPOCH)
        if out != exp:
            ctx.violation("key identifier does not name the interval containing the clock value",
                          {"time_ns": ns, "filetime": ns // 100 + EPOCH}, out, exp)
    ctx.compare_batch(cases, nontrivial=lambda line, impl: True)
    advancing_clock(ctx)
    unreachable_dc(ctx)
    timezones(ctx)
    dc_clock_skew(ctx)
    overlapping_calls(ctx)
    seeded_cache(ctx)
    cache_histories(ctx)


def search(ctx, broken, disagreements):
    """A kernel obligation or the correspondence broke: sweep k·Y − d and every boundary densely."""
    Y = 1024 * B
    for k in range(EPOCH // Y + 1, EPOCH // Y + 400):
        for unit in (Y, 32 * B, B):
            for d in list(range(1, 65)) + [0, -1]:
                t = k * unit - d
                ns = ticks_to_ns(t)
                out = impl_indices(ns)
                exp = "ok %d %d %d" % oracle(t)
                if out != exp:
                    ctx.violation("key identifier does not name the interval containing the clock value",
                                  {"time_ns": ns, "filetime": t}, out, exp)
                    return


def replay(ctx, payload):
    v = payload["violation"]
    if v["input"].get("scenario") == "overlapping_calls":
        c2 = type(ctx)(ctx.prop, "quick", ctx.seed)
        overlapping_calls(c2)
        for x in c2.violations:
            print(" ", x["what"], x["input"], x["observed"])
        return not c2.violations
    if v["input"].get("scenario") == "dc_clock_skew":
        c2 = type(ctx)(ctx.prop, "quick", ctx.seed)
        dc_clock_skew(c2)
        for x in c2.violations:
            print(" ", x["what"], x["input"], x["observed"])
        return not c2.violations
    if v["input"].get("scenario") == "timezone":
        c2 = type(ctx)(ctx.prop, "quick", ctx.seed)
        timezones(c2)
        for x in c2.violations:
            print(" ", x["what"], x["input"], x["observed"])
        return not c2.violations
    if v["input"].get("scenario") == "unreachable_dc":
        c2 = type(ctx)(ctx.prop, "quick", ctx.seed)
        unreachable_dc(c2)
        for x in c2.violations:
            print(" ", x["what"], x["input"], x["observed"])
        return not c2.violations
    if "cached_seed_position" in v["input"]:
        i = v["input"]
        outs = [seeded_case(i["time_ns"], tuple(i["cached_seed_position"]), e) for e in (False, True)]
        print(f"clock interval {i['clock_interval']}, cached seed at {i['cached_seed_position']}: implementation names {outs}")
        return all(o == tuple(i["clock_interval"]) for o in outs[:1])
    if "history_times_ns" in v["input"]:
        i = v["input"]
        outs = history_indices(i["history_times_ns"], [x.encode() for x in i["sds"]])
        want = [oracle(x // 100 + EPOCH) for x in i["history_times_ns"]]
        print(f"calls on one cache at {i['history_times_ns']}: implementation {outs}, required {want}")
        return outs == want
    if "start_time_ns" in v["input"]:
        out, shown = impl_indices_advancing(v["input"]["start_time_ns"])
        want = sorted(set(oracle(x // 100 + EPOCH) for x in shown))
        print(f"clock starting at {v['input']['start_time_ns']} advancing 100 ns per read ({len(shown)} reads): implementation {out}, required one of {want}")
        return out in want
    ns = v["input"]["time_ns"]
    out = impl_indices(ns)
    exp = "ok %d %d %d" % oracle(ns // 100 + EPOCH)
    print(f"time_ns={ns}: implementation {out}, required {exp}")
    return out == exp
