"""C10 — KeyCache is transparent under any history/interleaving and avoids repeat RPCs."""
from __future__ import annotations
import asyncio, itertools, uuid
import prelude, gen, clientsim, refdc, toycrypto
from check import canon_exc, hx

MANIFEST = {
    "text": "Lean theorems over arbitrary lists of atomic cache steps (load / get / store / storeBack — every history and every interleaving of concurrently running calls, no depth bound): inv_run (every cached envelope stays genuine), get_covers (what _get_key returns covers the request), covers_run + no_repeat_rpc + store_covers (once covered, never back to the DC), pos_monotone_run + storeBack_admissible (a late _store_key of a concurrent call is a no-op), transparent (after any admissible history the L2 key derived from whatever the cache returns is the chain key, in ≤ 63 KDF calls — composition with C02); the cover / later tests of _get_key and _store_key are regenerated from source each run; the real KeyCache + ncrypt_(un)protect_secret (sync and async, gather with every completion order) are tied to the model — the driver executes the very definitions the theorems are about — by correspondence over all op sequences to depth 4 (quick) / 5 (thorough) and random deeper ones, comparing results, DC requests and cache contents after every step",
    "note": "Trusted: Lean kernel; hand-written model of the cache and client glue (differential tie + extracted cover/later kernels); thread-level (as opposed to await-level) interleaving of the sync API is not modelled; DC replies are assumed conforming (reference DC)",
    "technique": "Lean 4 proof (invariants by induction over step lists; refinement composed with the C02 chain theorem) + kernel extraction + exhaustive small-scope history correspondence",
}
THEOREMS = ["DpapiNg.C10.inv_empty", "DpapiNg.C10.inv_step", "DpapiNg.C10.inv_run", "DpapiNg.C10.get_covers", "DpapiNg.C10.get_stores",
            "DpapiNg.C10.covers_step", "DpapiNg.C10.covers_run", "DpapiNg.C10.no_repeat_rpc", "DpapiNg.C10.store_covers",
            "DpapiNg.C10.pos_monotone", "DpapiNg.C10.pos_monotone_run", "DpapiNg.C10.storeBack_admissible", "DpapiNg.C10.transparent"]
RULE = ("histories over {load root key, unprotect blob at (5,5)/(6,0)/(31,31) on L0 361, at (5,5) on L0 362, at (5,5) for a second SID, protect now naming the root key, "
        "protect now without root key id}: all sequences to depth 4 (quick) / 5 (thorough) + random to depth 12; async: gather of 2–4 calls with the fake RPC completing in every order; "
        "after every step results, DC requests and cache contents are compared with the model; distinct by history; non-trivial = history with ≥ 2 steps")
ASSUMPTIONS = ["DC replies are conforming envelopes for the position asked (reference DC)", "await-level interleaving only (single event loop)"]
RK = uuid.UUID("d778c271-9025-9a82-f6dc-b8960b8ad8c5")
SID_A, SID_B = "S-1-5-21-1-2-3-1103", "S-1-5-21-1-2-3-500"


def fresh_dc(now=(361, 7, 7)):
    dc = refdc.KeyServer(kdf_factory=clientsim.toy_kdf_factory, public_key_fn=clientsim.toy_public_key, now=now)
    dc.add_root(refdc.RootKeyRec(RK, bytes(range(64))))
    return dc


def make_blobs():
    """blobs at fixed positions, produced by the implementation itself with a fresh cache holding the root key"""
    out = {}
    for name, (l0, l1, l2), sid in (("a55", (361, 5, 5), SID_A), ("a60", (361, 6, 0), SID_A), ("a31", (361, 31, 31), SID_A),
                                    ("n55", (362, 5, 5), SID_A), ("b55", (361, 5, 5), SID_B), ("a77", (361, 7, 7), SID_A), ("a78", (361, 7, 8), SID_A),
                                    ("a5v", (361, 5, 31), SID_A),
                                    ("a05", (361, 0, 5), SID_A), ("a03", (361, 0, 3), SID_A)):     # the first L1 interval of an L0: a DC envelope there has NO L1 key     # (5, 31) and (6, 0) are neighbours in the position order
        dc = fresh_dc()
        sim = clientsim.Sim(dc)
        with sim.world():
            sim.load(dc.roots[RK])
            sim.now_ns = clientsim.time_ns_for(l0, l1, l2)
            r = sim.protect(b"secret-" + name.encode(), sid, rk=RK)
            assert r.startswith("done "), r
            out[name] = (bytes.fromhex(r[5:]), b"secret-" + name.encode(), (l0, l1, l2), sid)
    return out


ALPHABET = ["L", "Ua05", "Ua03", "Ua55", "Ua60", "Ua31", "Un55", "Ub55", "Ua77", "Ua5v", "P", "Pn", "Pq", "Xa60", "Xa77", "M"]
# "M": load a DIFFERENT root key (another id): what the cache holds for the first root key is none of its business
OTHER_ROOT = refdc.RootKeyRec(uuid.UUID("11111111-2222-3333-4444-555555555555"), bytes(range(100, 164)))
# "X…": unprotect of a DAMAGED copy of that blob (last content octet flipped): the key is obtained as for the intact blob, then decryption
# fails — what was obtained on the way still covers its position for later calls


def damaged(blob):
    return blob[:-1] + bytes([blob[-1] ^ 0x01])


def covered_by_history(done_ops, op, blobs, dc_now):
    """direct oracle for the second sentence of C10: must this op avoid the DC?"""
    if op in ("L", "Pn", "Pq", "M"):
        return None
    if "L" in done_ops:
        return True                      # root key loaded: everything of that root key is covered
    if op == "P":
        return None                      # protect naming the root key goes to the cache for `now`; covered only by position (handled below)
    _, _, (l0, l1, l2), sid = blobs[op[1:]]
    for prev in done_ops:
        if prev[0] in "UX":
            _, _, (p0, p1, p2), psid = blobs[prev[1:]]
            if (p0, psid) == (l0, sid) and (l1, l2) <= (p1, p2):
                return True
        if prev in ("P", "Pn") and sid == SID_A and l0 == dc_now[0] and (l1, l2) <= dc_now[1:]:
            return True
    return None


def run_history(ctx, ops, blobs, use_async=False):
    dc = fresh_dc()
    sim = clientsim.Sim(dc)
    done = []
    with sim.world():
        for op in ops:
            n0 = sim.dc_calls
            if op == "L":
                sim.load(dc.roots[RK])
            elif op == "M":
                sim.load(OTHER_ROOT)
            elif op[0] == "U":
                blob, pt, pos, sid = blobs[op[1:]]
                must_not_call = covered_by_history(done, op, blobs, dc.now)
                out = sim.unprotect(blob, use_async=use_async)
                if out != "done " + hx(pt):
                    ctx.violation("unprotect on a shared cache does not return the plaintext a fresh cache returns", {"history": ops, "op": op, "async": use_async}, out, "done " + hx(pt))
                if must_not_call and sim.dc_calls != n0:
                    ctx.violation("DC contacted again for a position already covered", {"history": ops, "op": op, "async": use_async}, f"{sim.dc_calls - n0} GetKey call(s)", "0")
            elif op[0] == "X":
                blob, pt, pos, sid = blobs[op[1:]]
                must_not_call = covered_by_history(done, "U" + op[1:], blobs, dc.now)
                out = sim.unprotect(damaged(blob), use_async=use_async)
                if not out.startswith("err "):
                    ctx.violation("a damaged blob does not fail to decrypt", {"history": ops, "op": op, "async": use_async}, out, "error")
                if must_not_call and sim.dc_calls != n0:
                    ctx.violation("DC contacted again for a position already covered", {"history": ops, "op": op, "async": use_async}, f"{sim.dc_calls - n0} GetKey call(s)", "0")
            elif op in ("P", "Pn", "Pq"):
                # "Pq": the caller is not a member of the target SID, so the DC hands out the group PUBLIC key only (nothing of it
                # may serve later calls as seed material)
                if op == "Pq":
                    dc.public_for = lambda sd: True
                try:
                    out = sim.protect(b"data", SID_A, rk=RK if op != "Pn" else None, use_async=use_async)
                finally:
                    dc.public_for = lambda sd: False
                if not out.startswith("done "):
                    ctx.violation("protect on a shared cache fails", {"history": ops, "op": op, "async": use_async}, out, "done")
                else:
                    # the blob must decrypt (with a fresh cache + DC) to the same plaintext
                    s2 = clientsim.Sim(fresh_dc())
                    with s2.world():
                        back = s2.unprotect(bytes.fromhex(out[5:]))
                    if back != "done " + hx(b"data"):
                        ctx.violation("blob produced on a shared cache does not decrypt to the plaintext", {"history": ops, "op": op, "async": use_async}, back, "done " + hx(b"data"))
                if op in ("P", "Pq") and "L" in done and sim.dc_calls != n0:
                    ctx.violation("protect naming a loaded root key contacted the DC", {"history": ops, "async": use_async}, "GetKey call", "0")
            nk = getattr(sim.log, "nkdf", 0)
            if nk > 70:
                ctx.violation("more than 70 KDF calls in one step", {"history": ops, "op": op, "async": use_async}, nk, "≤ 70")
            sim.dump()
            done.append(op)
    return sim.line()


def run_async_gather(ctx, ops, order, blobs, preload):
    """2–4 concurrent calls on one cache; the fake RPC completes in `order`."""
    import dpapi_ng
    dc = fresh_dc()
    sim = clientsim.Sim(dc)
    with sim.world():
        if preload:
            sim.load(dc.roots[RK])
        sim._reset(gate=[])
        results = {}

        async def one(i, op):
            try:
                if op[0] == "U":
                    results[i] = "done " + hx(await dpapi_ng.async_ncrypt_unprotect_secret(blobs[op[1:]][0], cache=sim.cache))
                else:
                    results[i] = "done " + hx(await dpapi_ng.async_ncrypt_protect_secret(b"data", SID_A, root_key_identifier=RK if op == "P" else None, cache=sim.cache))
            except Exception as e:  # noqa
                results[i] = "err " + canon_exc(e)

        begun = []   # per call: (request index or None)

        async def main():
            tasks = []
            for i, op in enumerate(ops):
                nreq = len(sim.requests)
                d0 = list(sim.log.urandom)
                t = asyncio.ensure_future(one(i, op))
                await asyncio.sleep(0)
                await asyncio.sleep(0)
                begun.append((nreq if len(sim.requests) > nreq else None))
                tasks.append(t)
            # release the gated RPCs in the chosen order
            waiting = [i for i, b in enumerate(begun) if b is not None]
            rel = [waiting[j] for j in order if j < len(waiting)]
            fin_order = []
            for i in rel:
                gi = [k for k in waiting].index(i)
                sim.gate[gi].set_result(None)
                for _ in range(6):
                    await asyncio.sleep(0)
                fin_order.append(i)
            await asyncio.gather(*tasks)
            return fin_order
        fin_order = asyncio.run(main())
    return sim, results, begun, fin_order


def run(ctx):
    prelude.validate(ctx)
    rng = ctx.rng
    blobs = make_blobs()
    cases = []
    depth = 5 if ctx.thorough else 4
    small = ["L", "Ua55", "Ua60", "Un55", "Ub55", "Ua77", "Ua5v", "P", "Pn", "Pq", "Xa60", "M"]
    # histories inside the first L1 interval of an L0 period
    for ops in itertools.product(["Ua05", "Ua03", "L", "Pn"], repeat=3):
        cases_early = run_history(ctx, list(ops), blobs)
        ctx.count("history_depth:first_l1_interval")
    n = 0
    for d in range(1, depth + 1):
        if d <= 3:
            alphabet = small
        elif d == 4:
            alphabet = ["L", "Ua55", "Ua60", "Ua77", "P", "Pn"] + (["Ub55"] if ctx.thorough else [])
        else:
            alphabet = ["L", "Ua55", "Ua60", "Ua77", "P", "Pn"]
        for ops in itertools.product(alphabet, repeat=d):
            cases.append(run_history(ctx, list(ops), blobs))
            n += 1
            ctx.count(f"history_depth:{d}")
    # the same through the async API (its glue is written out separately in the library): every history to depth 2 (3 in thorough)
    for d in range(1, 4 if ctx.thorough else 3):
        for ops in itertools.product(small, repeat=d):
            cases.append(run_history(ctx, list(ops), blobs, use_async=True))
            ctx.count(f"history_depth_async:{d}")
    for _ in range(400 if ctx.thorough else 60):
        ops = [rng.choice(ALPHABET) for _ in range(rng.randrange(5, 13))]
        cases.append(run_history(ctx, ops, blobs, use_async=rng.random() < 0.3))
        ctx.count("history_depth:random")
    # D6 regression history (store RPC envelope (5,5); load; ask (6,0)) is in the depth-3 enumeration: Ua55, L, Ua60
    ctx.exhaustive = True
    for i in range(0, len(cases), 500):
        ctx.compare_batch(cases[i:i + 500], nontrivial=lambda line, impl: line.count(";") >= 3)

    # ---- async interleavings: begin steps in call order, finishes in every completion order ----------------
    acases = []
    for k in (2, 3) if not ctx.thorough else (2, 3, 4):
        for ops in itertools.product(["Ua55", "Ua60", "Ua77", "Pn", "P"], repeat=k):
            if k == 4 and rng.random() > 0.15:
                continue
            for order in itertools.permutations(range(k)):
                for preload in (False,):
                    sim, results, begun, fin_order = run_async_gather(ctx, list(ops), order, blobs, preload)
                    ctx.count(f"async_gather:{k}")
                    for i, op in enumerate(ops):
                        want = "done " + hx(blobs[op[1:]][1]) if op[0] == "U" else None
                        if want and results.get(i) != want:
                            ctx.violation("concurrent unprotect on a shared cache returns something else than a fresh cache", {"calls": ops, "completion_order": order}, results.get(i), want)
                        if not want and not str(results.get(i)).startswith("done "):
                            ctx.violation("concurrent protect on a shared cache fails", {"calls": ops, "completion_order": order}, results.get(i), "done")
                    # model: the same begin/finish schedule as atomic steps
                    acases.append(async_model_line(sim, ops, begun, fin_order, blobs, results))
                    # direct oracle (second sentence of C10): every position asked for above has now been obtained, so
                    # asking for any of them again on the same cache must be answered without the DC
                    if all(str(results.get(i)).startswith("done ") for i in range(k)):
                        with sim.world():
                            for op in ops:
                                if op[0] != "U":
                                    continue
                                n0 = sim.dc_calls
                                out = sim.unprotect(blobs[op[1:]][0])
                                if sim.dc_calls != n0 or out != "done " + hx(blobs[op[1:]][1]):
                                    ctx.violation("DC contacted again for a position already covered (after concurrent calls completed)",
                                                  {"calls": ops, "completion_order": order, "then": op}, f"{sim.dc_calls - n0} GetKey call(s), {out[:40]}", "0 calls, the plaintext")
                                    break
    for i in range(0, len(acases), 500):
        ctx.compare_batch(acases[i:i + 500], nontrivial=lambda line, impl: True)


def async_model_line(sim, ops, begun, fin_order, blobs, results):
    """translate the observed schedule into model steps: begins in call order, finishes in completion order"""
    steps = []
    draws = list(sim.log.urandom)
    di = 0
    req = {i: sim.requests[b] for i, b in enumerate(begun) if b is not None}
    # replies in completion order
    rep = {i: sim.replies[j] for j, i in enumerate(fin_order)}
    pdraws = {}
    # draws: a protect that hits the cache draws during its begin; one that goes to the DC draws during its finish
    order_of_draws = [i for i, op in enumerate(ops) if op[0] == "P" and begun[i] is None] + [i for i in fin_order if ops[i][0] == "P"]
    for i in order_of_draws:
        pdraws[i] = draws[di:di + 3]
        di += 3
    sidh = hx(SID_A.encode())
    look = {}
    for n_, i in enumerate([i for i, b in enumerate(begun) if b is not None]):
        d_ = sim.lookups[n_] if n_ < len(sim.lookups) else None
        look[i] = hx(clientsim.u16(d_)) if d_ is not None else "none"
    for i, op in enumerate(ops):
        if op[0] == "U":
            blob = blobs[op[1:]][0]
            if begun[i] is None:
                steps.append((f"ubegin {hx(blob)}", results[i]))
            else:
                sd, rk, l0, l1, l2 = req[i]
                steps.append((f"ubegin {hx(blob)}", f"net {hx(sd)} {clientsim.opt(rk.bytes_le if rk else None)} {l0} {l1} {l2} {look[i]}"))
        else:
            rk = RK if op == "P" else None
            d = pdraws.get(i, [b"", b"", b""]) if begun[i] is None else [b"", b"", b""]
            line = f"pbegin {hx(b'data')} {sidh} {clientsim.opt(rk.bytes_le if rk else None)} none {sim.now_ns} {hx(d[0])} {hx(d[1])} {hx(d[2])}"
            if begun[i] is None:
                steps.append((line, results[i]))
            else:
                sd, rk2, l0, l1, l2 = req[i]
                steps.append((line, f"net {hx(sd)} {clientsim.opt(rk2.bytes_le if rk2 else None)} {l0} {l1} {l2} {look[i]}"))
    for i in fin_order:
        op = ops[i]
        if op[0] == "U":
            steps.append((f"ufin {hx(blobs[op[1:]][0])} {gen.env_fields(rep[i])}", results[i]))
        else:
            d = pdraws[i]
            steps.append((f"pfin {hx(b'data')} {sidh} {hx(d[0])} {hx(d[1])} {hx(d[2])} {gen.env_fields(rep[i])}", results[i]))
    # final cache contents
    sim.steps = []
    sim.dump()
    steps.append(sim.steps[0])
    return "client " + " ; ".join(s for s, _ in steps), " ; ".join(e for _, e in steps)


def search(ctx, broken, disagreements):
    pass  # the fresh-cache and no-repeat-RPC oracles ran on every history


def replay(ctx, payload):
    v = payload["violation"]["input"]
    print("recorded history:", v)
    blobs = make_blobs()
    c2 = type(ctx)(ctx.prop, "quick", ctx.seed)
    if "history" in v:
        run_history(c2, v["history"], blobs, use_async=v.get("async", False))
    else:
        sim, results, begun, fin_order = run_async_gather(c2, v["calls"], tuple(v["completion_order"]), blobs, False)
        for i, op in enumerate(v["calls"]):
            print("  call", i, op, "->", str(results.get(i))[:60])
        if "then" in v:
            with sim.world():
                n0 = sim.dc_calls
                out = sim.unprotect(blobs[v["then"][1:]][0])
                print("  then", v["then"], "->", out[:60], "GetKey calls:", sim.dc_calls - n0)
                if sim.dc_calls != n0:
                    return False
    for x in c2.violations:
        print(" ", x["what"], x["observed"])
    return not c2.violations
