"""C11 — MS-GKDI structures and GetKey stubs have exactly the specified byte layout."""
from __future__ import annotations
import dataclasses
import struct, uuid, os, json
import rpcfmt, prelude, gen
from check import canon_exc, hx
from gen import u16

MANIFEST = {
    "text": "Lean theorems: round trips unpack∘pack = id for KDF parameters, FFC-DH parameters/key, ECDH key (fixed-width big-endian integers with leading zeros kept: fromBE_toBE), the GetKey request stub (every SD length, null / non-null root key id, signed indices) and its NDR64 alignment (getKey_layout), and response decoding from the NDR64 reply for every envelope length; the -len % 8 padding kernels are regenerated from source; every pack/unpack/unpack_response is tied to _gkdi.py / _blob.py by correspondence and checked against independent struct-based encoders written from MS-GKDI and the captured Windows structures in tests/data",
    "note": "Trusted: Lean kernel; hand-written model (differential tie outside the kernels); text fields enter the model as UTF-16-LE bytes (codec is CPython's); the reading of MS-GKDI 2.2.1–2.2.4 / 3.1.4.1 and NDR64 in the harness's independent encoders",
    "technique": "Lean 4 proof (slice/fixed-width lemmas) over a hand-written model + kernel extraction + correspondence against independent encoders",
}
THEOREMS = ["DpapiNg.C11.fixedWidth_roundtrip", "DpapiNg.C11.kdfParams_roundtrip", "DpapiNg.C11.ffcParams_roundtrip",
            "DpapiNg.C11.ffcKey_roundtrip", "DpapiNg.C11.ecdhKey_roundtrip", "DpapiNg.C11.getKey_roundtrip",
            "DpapiNg.C11.getKey_layout", "DpapiNg.C11.unpackResponse_ndr64", "DpapiNg.C11.unpackResponse_hresult",
            "DpapiNg.C11.keyId_roundtrip", "DpapiNg.C11.envelope_roundtrip"]
RULE = ("field values {0,1,2,31,32,255,256,2^31-1,2^31,2^32-1,random}, names empty/ASCII/non-BMP/with NULs, byte fields of lengths 0..65 and 524/800, "
        "SD lengths 0..40 (every residue mod 8 five times), envelope lengths across residues mod 8, integers with leading zero bytes; "
        "malformed: every truncation of valid encodings and bit flips; distinct by op line")
ASSUMPTIONS = ["u32 fields < 2^32, integers < 256^key_length, names valid UTF-16"]


def call(f, *a, fmt=hx):
    try:
        return "ok " + fmt(f(*a))
    except Exception as e:  # noqa
        return "err " + canon_exc(e)


# --- independent encoders, written from MS-GKDI ----------------------------------------------
def z(s):
    return (s + "\0").encode("utf-16-le")


def spec_envelope(e):
    ka, sa, dn, fn = z(e.kdf_algorithm), z(e.secret_algorithm), z(e.domain_name), z(e.forest_name)
    return struct.pack("<I4sIIII16sIIIIIIIIII", e.version, b"KDSK", e.flags, e.l0, e.l1, e.l2, e.root_key_identifier.bytes_le,
                       len(ka), len(e.kdf_parameters), len(sa), len(e.secret_parameters), e.private_key_length, e.public_key_length,
                       len(e.l1_key), len(e.l2_key), len(dn), len(fn)) + ka + e.kdf_parameters + sa + e.secret_parameters + dn + fn + e.l1_key + e.l2_key


def spec_kid(k):
    dn, fn = z(k.domain_name), z(k.forest_name)
    return struct.pack("<I4sIIII16sIII", k.version, b"KDSK", k.flags, k.l0, k.l1, k.l2, k.root_key_identifier.bytes_le,
                       len(k.key_info), len(dn), len(fn)) + k.key_info + dn + fn


def spec_kdfp(name):
    n = z(name)
    return struct.pack("<IIII", 0, 1, len(n), 0) + n


def be(n, k):
    return n.to_bytes(k, "big")


def spec_ffcp(kl, p, g):
    return struct.pack("<I4sI", 12 + 2 * kl, b"DHPM", kl) + be(p, kl) + be(g, kl)


def spec_ffck(kl, p, g, y):
    return b"DHPB" + struct.pack("<I", kl) + be(p, kl) + be(g, kl) + be(y, kl)


def spec_ecdh(curve, kl, x, y):
    return {"P256": b"ECK1", "P384": b"ECK3", "P521": b"ECK5"}[curve] + struct.pack("<I", kl) + be(x, kl) + be(y, kl)


def ndr64_getkey_request(sd, rk, l0, l1, l2):
    out = struct.pack("<I", len(sd)) + b"\0" * 4          # cbTargetSD, then align 8 for the conformance
    out += struct.pack("<Q", len(sd)) + sd                 # max count (64-bit in NDR64) + elements
    out += b"\0" * (-len(out) % 8)                         # align 8 for the [unique] pointer
    out += (struct.pack("<Q", 0x20000) + rk.bytes_le) if rk else struct.pack("<Q", 0)
    return out + struct.pack("<iii", l0, l1, l2)


def ndr64_getkey_reply(env, hresult):
    out = struct.pack("<I", len(env)) + b"\0" * 4 + struct.pack("<Q", 0x20000) + struct.pack("<Q", len(env)) + env
    out += b"\0" * (-len(out) % 4)
    return out + struct.pack("<I", hresult)


def show_env(e):
    return gen.env_fields(e)


def run(ctx):
    from dpapi_ng import _gkdi as g
    from dpapi_ng._blob import KeyIdentifier
    prelude.validate(ctx)
    rng = ctx.rng
    N = 400 if ctx.thorough else 80
    cases = []

    def both(opname, fields_line, obj, spec_bytes, unpack, show):
        """pack vs model, pack vs independent encoder, unpack(pack) vs model and vs value."""
        r = call(obj.pack)
        cases.append((f"{opname}_pack {fields_line}", r))
        if r.startswith("ok "):
            b = bytes.fromhex(r[3:].replace("-", ""))
            if spec_bytes is not None and b != spec_bytes:
                ctx.violation(f"{opname}: encoding differs from the independent MS-GKDI encoder", {"fields": fields_line}, hx(b)[:120], hx(spec_bytes)[:120])
            ru = call(unpack, b, fmt=show)
            cases.append((f"{opname}_unpack {hx(b)}", ru))
            if ru != "ok " + show(obj):
                ctx.violation(f"{opname}: decode(encode(x)) != x", {"fields": fields_line}, ru[:200], ("ok " + show(obj))[:200])
            return b
        elif spec_bytes is not None:
            ctx.violation(f"{opname}: a well-formed value fails to encode", {"fields": fields_line}, r, "ok")
        return None

    # --- envelopes and key identifiers ---------------------------------------------------------
    valid_blobs = []
    for i in range(N * 3):
        e = gen.rand_env(rng) if i else gen.make_env()
        b = both("env", gen.env_fields(e), e, spec_envelope(e), g.GroupKeyEnvelope.unpack, gen.env_fields)
        ctx.count("envelope")
        if b:
            valid_blobs.append(("env_unpack", g.GroupKeyEnvelope.unpack, gen.env_fields, b))
            # reply decoding for this envelope (every length residue mod 8 arises from the random field lengths)
            reply = ndr64_getkey_reply(b, 0)
            ctx.count(f"reply_len_mod8:{len(b) % 8}")
            rr = call(g.GetKey.unpack_response, reply, fmt=gen.env_fields)
            cases.append((f"getkey_resp {hx(reply)}", rr))
            if rr != "ok " + gen.env_fields(e):
                ctx.violation("GetKey response decoder does not extract the envelope from the NDR64 reply", {"envelope": gen.env_fields(e)}, rr[:200], "the envelope")
            bad = ndr64_getkey_reply(b, rng.choice([1, 0x80070005, 0xFFFFFFFF]))
            rb = call(g.GetKey.unpack_response, bad, fmt=gen.env_fields)
            cases.append((f"getkey_resp {hx(bad)}", rb))
            if rb != "err ValueError":
                ctx.violation("non-zero HRESULT not surfaced as ValueError", {"reply": hx(bad)[:80]}, rb[:80], "err ValueError")
        k = gen.rand_kid(rng)
        b = both("kid", gen.kid_fields(k), k, spec_kid(k), KeyIdentifier.unpack, gen.kid_fields)
        ctx.count("key_identifier")
        if b:
            valid_blobs.append(("kid_unpack", KeyIdentifier.unpack, gen.kid_fields, b))
    # out-of-range field → OverflowError on both sides (outside WF; compared, not required)
    e = gen.make_env(l0=2**32)
    cases.append((f"env_pack {gen.env_fields(e)}", call(e.pack)))

    # --- KDF parameters -----------------------------------------------------------------------
    for name in gen.HASHES + gen.NAMES:
        p = g.KDFParameters(name)
        b = both("kdfp", hx(u16(name)), p, spec_kdfp(name), g.KDFParameters.unpack, lambda q: hx(u16(q.hash_name)))
        if b:
            valid_blobs.append(("kdfp_unpack", g.KDFParameters.unpack, lambda q: hx(u16(q.hash_name)), b))
        ctx.count("kdf_parameters")

    # --- FFC DH parameters / key, ECDH key: integers with leading zero bytes --------------------
    for _ in range(N):
        kl = rng.choice([1, 2, 3, 4, 8, 32, 256])
        def val():
            top = rng.choice([kl, kl, max(1, kl - 1), max(1, kl - 2), 1])   # leading zero bytes in > 40 % of cases
            return rng.randrange(256 ** top) if rng.random() < 0.9 else 0
        p_, g_, y_ = val(), val(), val()
        ctx.count("ffc:leading_zero" if min(p_, g_, y_) < 256 ** (kl - 1) else "ffc:full_width")
        o = g.FFCDHParameters(kl, p_, g_)
        both("ffcp", f"{kl} {p_} {g_}", o, spec_ffcp(kl, p_, g_), g.FFCDHParameters.unpack, lambda q: f"{q.key_length} {q.field_order} {q.generator}")
        o = g.FFCDHKey(kl, p_, g_, y_)
        b = both("ffck", f"{kl} {p_} {g_} {y_}", o, spec_ffck(kl, p_, g_, y_), g.FFCDHKey.unpack, lambda q: f"{q.key_length} {q.field_order} {q.generator} {q.public_key}")
        if b and rng.random() < 0.2:
            valid_blobs.append(("ffck_unpack", g.FFCDHKey.unpack, lambda q: f"{q.key_length} {q.field_order} {q.generator} {q.public_key}", b))
        cv = rng.choice(["P256", "P384", "P521"])
        kl2 = rng.choice([32, 48, 66, 2, 1])
        x_, y2 = rng.randrange(256 ** rng.choice([kl2, max(1, kl2 - 1)])), rng.randrange(256 ** rng.choice([kl2, max(1, kl2 - 2)]))
        o = g.ECDHKey(cv, kl2, x_, y2)
        b = both("ecdh", f"{cv} {kl2} {x_} {y2}", o, spec_ecdh(cv, kl2, x_, y2), g.ECDHKey.unpack, lambda q: f"{q.curve_name} {q.key_length} {q.x} {q.y}")
        if b and rng.random() < 0.2:
            valid_blobs.append(("ecdh_unpack", g.ECDHKey.unpack, lambda q: f"{q.curve_name} {q.key_length} {q.x} {q.y}", b))
    # too-wide integer: OverflowError (outside WF)
    cases.append(("ffck_pack 2 65536 1 1", call(g.FFCDHKey(2, 65536, 1, 1).pack)))

    # --- GetKey request stub: every SD length residue, null / non-null root key ------------------
    for n in list(range(0, 41)) + [100, 255, 256, 1000]:
        for rk in (None, uuid.UUID(bytes=gen.rand_bytes(rng, 16)), uuid.UUID(int=0)):
            for (l0, l1, l2) in ((-1, -1, -1), (361, 17, 13), (2**31 - 1, 31, 0), (-2**31, 0, 31)):
                if rng.random() > (1.0 if ctx.thorough else 0.34) and n > 8:
                    continue
                sd = gen.rand_bytes(rng, n)
                gk = g.GetKey(sd, rk, l0, l1, l2)
                r = call(gk.pack)
                rkf = "none" if not rk else hx(rk.bytes_le)
                cases.append((f"getkey_pack {hx(sd)} {rkf} {l0} {l1} {l2}", r))
                ctx.count(f"sd_len_mod8:{n % 8}")
                b = bytes.fromhex(r[3:])
                spec = ndr64_getkey_request(sd, rk, l0, l1, l2)
                if b != spec:
                    ctx.violation("GetKey request stub is not the NDR64 encoding of its arguments", {"sd_len": n, "rk": str(rk), "ids": [l0, l1, l2]}, hx(b)[:160], hx(spec)[:160])
                fmt = lambda q: f"{hx(q.target_sd)} {'none' if q.root_key_id is None else hx(q.root_key_id.bytes_le)} {q.l0_key_id} {q.l1_key_id} {q.l2_key_id}"
                ru = call(g.GetKey.unpack, b, fmt=fmt)
                cases.append((f"getkey_unpack {hx(b)}", ru))
                # UUID(int=0) is falsy?  uuid.UUID has no __bool__, so it is truthy; the all-zero referent check is on the pointer, not the GUID
                want = f"ok {hx(sd)} {rkf} {l0} {l1} {l2}"
                if ru != want:
                    ctx.violation("GetKey.unpack(pack(x)) != x", {"sd_len": n, "rk": str(rk)}, ru[:160], want[:160])
                # a request object is a plain mutable record: edited after construction (a loop walking key ids, another SD, another
                # root key) and after decoding, it encodes the arguments it NOW holds
                if n % 3 == 0:
                    for origin in ("constructed", "decoded"):
                        try:
                            q = g.GetKey(sd, rk, l0, l1, l2) if origin == "constructed" else g.GetKey.unpack(spec)
                            q.pack()
                            sd2, rk2 = sd + b"\x07", (None if rk else uuid.UUID(int=7))
                            q.target_sd, q.root_key_id, q.l0_key_id, q.l1_key_id, q.l2_key_id = sd2, rk2, 5, 6, 7
                            got2 = bytes(q.pack())
                        except Exception as exc:  # noqa
                            got2 = ("raised " + canon_exc(exc)).encode()
                        ctx.count("getkey_edited:" + origin)
                        if got2 != ndr64_getkey_request(sd2, rk2, 5, 6, 7):
                            ctx.violation("an edited GetKey request does not encode the arguments it now holds", {"sd_len": n, "origin": origin, "scenario": "edited_request"},
                                          hx(got2)[:160], hx(ndr64_getkey_request(sd2, rk2, 5, 6, 7))[:160])

    # --- captured Windows structures -----------------------------------------------------------
    data = "/repo/tests/data"
    for fn, opn, unp, show in (("group_key_envelope", "env_unpack", g.GroupKeyEnvelope.unpack, gen.env_fields),
                               ("ffc_dh_key", "ffck_unpack", g.FFCDHKey.unpack, lambda q: f"{q.key_length} {q.field_order} {q.generator} {q.public_key}"),
                               ("ffc_dh_parameters", "ffcp_unpack", g.FFCDHParameters.unpack, lambda q: f"{q.key_length} {q.field_order} {q.generator}"),
                               ("ecdh_key", "ecdh_unpack", g.ECDHKey.unpack, lambda q: f"{q.curve_name} {q.key_length} {q.x} {q.y}")):
        p = os.path.join(data, fn)
        if os.path.exists(p):
            raw = open(p, "rb").read()
            try:
                import base64
                raw2 = base64.b64decode(raw, validate=True)
                raw = raw2
            except Exception:  # noqa
                pass
            cases.append((f"{opn} {hx(raw)}", call(unp, raw, fmt=show)))
            ctx.count("captured:" + fn)
            try:
                if unp(raw).pack() != raw[:len(unp(raw).pack())]:
                    ctx.violation("captured Windows structure does not re-encode identically", {"file": fn}, "differs", "identical")
            except Exception as ex:  # noqa
                ctx.notes.append(f"captured {fn}: {type(ex).__name__}")

    # --- malformed: truncations and bit flips of valid encodings ---------------------------------
    rng.shuffle(valid_blobs)
    for opn, unp, show, b in valid_blobs[: (200 if ctx.thorough else 40)]:
        cuts = range(len(b)) if len(b) < 200 else sorted(set(rng.randrange(len(b)) for _ in range(60)) | set(range(0, 90)))
        for c in cuts:
            cases.append((f"{opn} {hx(b[:c])}", call(unp, b[:c], fmt=show)))
            ctx.count("malformed:truncation")
        for _ in range(30):
            i = rng.randrange(len(b))
            m = b[:i] + bytes([b[i] ^ (1 << rng.randrange(8))]) + b[i + 1:]
            cases.append((f"{opn} {hx(m)}", call(unp, m, fmt=show)))
            ctx.count("malformed:bitflip")
    # ---- the reply as the client receives it: auth padding (0..15 octets, or no trailer at all) stripped, then the NDR64 reply decoded,
    #      for every envelope length residue
    import dpapi_ng._client as cl
    from dpapi_ng import _rpc as r
    from dpapi_ng._rpc import _request
    for k in range(48 if ctx.thorough else 16):
        env = gen.rand_env(rng)
        env = dataclasses.replace(env, l2_key=bytes(rng.randrange(256) for _ in range(k)))      # every length residue
        eb = env.pack()
        reply = len(eb).to_bytes(4, "little") + b"\x00" * 4 + (0x20000).to_bytes(8, "little") + len(eb).to_bytes(8, "little") + eb + b"\x00" * (-len(eb) % 4) + b"\x00" * 4
        for pad in [None, 0, 15, rng.randrange(1, 15)] + (list(range(1, 15)) if ctx.thorough else []):
            tr = None if pad is None else r.SecTrailer(r.SecurityProvider(10), r.AuthenticationLevel(6), pad, 0, b"\x00" * 16)
            resp = _request.Response(header=r.PDUHeader(5, 0, r.PacketType.RESPONSE, r.PacketFlags(3), r.DataRep(), 0, 16 if tr else 0, 1), sec_trailer=tr, alloc_hint=0,
                                     context_id=0, cancel_count=0, stub_data=reply + bytes(rng.randrange(256) for _ in range(pad or 0)))
            got = call(lambda: gen.env_fields(cl._process_get_key_result(resp)), fmt=str)
            cases.append((f"getkey_result {hx(resp.stub_data)} {'none' if pad is None else pad}", got))
            ctx.count(f"reply_auth_pad:{'none' if pad is None else 'zero' if pad == 0 else 'nonzero'}")
            if got != "ok " + gen.env_fields(env):
                ctx.violation("the GetKey reply is not decoded to the envelope it carries", {"envelope_len": len(eb), "auth_pad_length": pad}, got[:100], "the envelope")
            # … and the same reply as OCTETS OFF THE WIRE (the response PDU decoded by the library first), under every convention a server
            # may follow for the allocation hint: absent, the marshalled length, the length including the auth padding, larger
            from dpapi_ng._rpc import _pdu
            for hint in (0, len(reply), len(reply) + (pad or 0), len(reply) + 64):
                wire = rpcfmt.finalize(dataclasses.replace(resp, alloc_hint=hint))
                got_w = call(lambda: gen.env_fields(cl._process_get_key_result(_pdu.PDU.unpack(wire))), fmt=str)
                ctx.count("reply_from_wire")
                if got_w != "ok " + gen.env_fields(env):
                    ctx.violation("the GetKey reply, decoded from the response PDU's octets, is not the envelope it carries",
                                  {"envelope_len": len(eb), "auth_pad_length": pad, "alloc_hint": hint, "reply_len": len(reply), "wire": hx(wire)[:200]}, got_w[:100], "the envelope")
                    break
    ctx.compare_batch(cases, nontrivial=lambda line, impl: impl.startswith("ok"))
    # edited structures: envelopes, key identifiers and requests packed, then taking over another value's fields one at a time
    gen.edit_consistency(ctx, [(gen.rand_env(rng), gen.rand_env(rng)) for _ in range(6)], label="structure")
    gen.edit_consistency(ctx, [(gen.rand_kid(rng), gen.rand_kid(rng)) for _ in range(6)], label="structure")
    gen.edit_consistency(ctx, [(g.GetKey(gen.rand_bytes(rng, 9), None, 1, 2, 3), g.GetKey(gen.rand_bytes(rng, 20), uuid.UUID(int=5), -1, -1, -1)),
                               (g.GetKey(b"", uuid.UUID(int=9), 7, 8, 9), g.GetKey(gen.rand_bytes(rng, 3), None, 0, 0, 0))], label="structure")


def search(ctx, broken, disagreements):
    pass  # direct oracles (independent encoders, round trips) already ran on every generated value


def replay(ctx, payload):
    print("replay: re-run ./check C11 (inputs are regenerated deterministically from VERIF_SEED); recorded input:", payload["violation"]["input"])
    c2 = type(ctx)(ctx.prop, "quick", ctx.seed)
    run(c2)
    return not c2.violations
