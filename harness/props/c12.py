"""C12 — DCE/RPC and endpoint-mapper wire codecs are inverse; decoders terminate."""
from __future__ import annotations
import uuid
import prelude, rpcfmt, clientsim
from check import canon_exc, hx
from rpcfmt import jo

MANIFEST = {
    "text": "Lean theorems: round trips header_roundtrip / secTrailer_roundtrip / syntax_roundtrip / command_roundtrip / floor_roundtrip (decode(encode m) = m for well-formed values), termination measures vtCommands_steps / towers_steps (the repaired decoder loops consume input on every iteration, so work is bounded by the length); the BindAck / BindNak padding and both tower paddings are regenerated from source and re-proved; every pack/unpack of the eight PDU types, security trailers, verification-trailer commands, floors, ept_map and its reply is tied to the model by correspondence on generated messages (0..8 contexts × 0..4 transfer syntaxes, secondary addresses of every length mod 4, 0..6 results, auth values, command lists, towers covering every residue mod 8) and, for termination, on every truncation of every valid message plus random strings under a line-event budget; whole-PDU round trips proved for every PDU type the client sends or accepts — bind / alter_context, bind_ack / alter_context_resp (every secondary-address length), request (with and without object UUID), response, fault, bind_nak — with and without a security trailer (response_roundtrip, request_roundtrip, fault_roundtrip, bindAck_roundtrip, bind_roundtrip over context_rt / result_rt), and verification trailers (command_rt, vt_roundtrip: every command type, exactly the last carrying END)",
    "note": "Trusted: Lean kernel; hand-written model (differential tie + padding kernels); Python enum membership tests modelled as range predicates",
    "technique": "Lean 4 proof (round trips, decreasing-measure termination) + kernel extraction + codec/truncation correspondence under a step budget",
}
THEOREMS = ["DpapiNg.C12.header_roundtrip", "DpapiNg.C12.secTrailer_roundtrip", "DpapiNg.C12.syntax_roundtrip", "DpapiNg.C12.vtCommands_bounded", "DpapiNg.C12.towersUnpack_bounded", "DpapiNg.C12.tower_padding_aligned", "DpapiNg.C12.bindAck_padding_aligned",
            "DpapiNg.C12.response_roundtrip", "DpapiNg.C12.request_roundtrip", "DpapiNg.C12.fault_roundtrip", "DpapiNg.C12.bindAck_roundtrip",
            "DpapiNg.C12.bind_roundtrip", "DpapiNg.C12.context_rt", "DpapiNg.C12.result_rt", "DpapiNg.C12.command_rt", "DpapiNg.C12.vt_roundtrip", "DpapiNg.C12.bindNak_roundtrip",
            # model = interpretation of the layouts / field table regenerated from _bind.py, _verification.py, _epm.py (Gen.Layout*_eq, Gen.FieldsHeader2_eq)
            "DpapiNg.Rpc.contextPack_eq_layout", "DpapiNg.Rpc.bindPack_eq_layout", "DpapiNg.Rpc.bindAckPack_eq_layout", "DpapiNg.Rpc.dataRepPack_eq_layout", "DpapiNg.Rpc.commandPack_eq_layout", "DpapiNg.Rpc.vtPack_eq_layout",
            "DpapiNg.Rpc.bitmaskValue_eq_layout", "DpapiNg.Rpc.pcontextValue_eq_layout", "DpapiNg.Rpc.header2Value_eq_layout",
            "DpapiNg.Rpc.header2Unpack_eq_fields", "DpapiNg.Epm.rawPack_eq_layout",
            # what the models do in terms of the regenerated protocol / command numbers (Gen.ConstFloor*_eq, Gen.ConstCmd*_eq)
            "DpapiNg.Epm.floorPack_tcp", "DpapiNg.Epm.floorPack_ip", "DpapiNg.Epm.floorPack_rpcCo", "DpapiNg.Epm.floorPack_uuid",
            "DpapiNg.Rpc.cmdValueUnpack_bitmask", "DpapiNg.Rpc.cmdValueUnpack_pcontext", "DpapiNg.Rpc.cmdValueUnpack_other", "DpapiNg.Rpc.vtCommands_end"]
RULE = ("well-formed messages of all 8 PDU types (context lists 0..8, transfer syntaxes 0..4, sec_addr of every length mod 4, 0..6 results, object UUID on/off, auth values 0..64), "
        "security trailers, verification trailers (command lists), floors, ept_map requests and replies (0..6 towers, floor payloads covering every tower-length residue mod 8); "
        "termination: every truncation of every generated message + random byte strings ≤ 64 KiB under a dpapi_ng line-event budget of 40·len+4000; distinct by op line")
ASSUMPTIONS = ["m.WF: frag_len = packed size, auth_len = |auth_value| > 0 iff a trailer is present, PFC_OBJECT_UUID iff an object UUID is present, enum fields valid, integer fields in their widths"]


def call(f, fmt):
    try:
        return "ok " + fmt(f())
    except Exception as e:  # noqa
        return "err " + canon_exc(e)


def budgeted(f, fmt, n):
    try:
        with clientsim.StepCounter(40 * n + 4000):
            return call(f, fmt)
    except clientsim.StepBudgetExceeded:
        return "err Other:StepBudgetExceeded"


def rand_floor(rng):
    from dpapi_ng import _epm as e
    k = rng.randrange(6)
    if k == 0:
        return e.TCPFloor(rng.choice([135, 0, 65535, 49664]))
    if k == 1:
        return e.IPFloor(rng.choice([0, 2**32 - 1, 0x7F000001]))
    if k == 2:
        return e.RPCConnectionOrientedFloor(rng.choice([0, 1, 65535]))
    if k == 3:
        return e.UUIDFloor(rpcfmt.rand_uuid(rng), rng.choice([0, 1, 3, 65535]), rng.choice([0, 2]))
    proto = rng.choice([0, 2, 8, 10, 12, 15, 16, 31, 33, 34, 255])
    return e.Floor(e.FloorProtocol(proto), bytes(rng.randrange(256) for _ in range(rng.randrange(0, 9))), bytes(rng.randrange(256) for _ in range(rng.randrange(0, 9))))


def rand_tower(rng):
    return [rand_floor(rng) for _ in range(rng.randrange(0, 7))]


def _run(ctx):
    from dpapi_ng import _rpc as r, _epm as e
    from dpapi_ng._rpc import _verification as v, _pdu
    prelude.validate(ctx)
    rng = ctx.rng
    cases, valid = [], []
    N = 600 if ctx.thorough else 120

    # ---- PDUs ---------------------------------------------------------------------------------------------
    for i in range(N):
        p = rpcfmt.rand_pdu(rng, [0, 2, 3, 11, 12, 13, 14, 15][i % 8])
        rp = call(p.pack, hx)
        cases.append((f"pdu_pack {rpcfmt.pdu(p)}", rp))
        ctx.count(f"pdu:{int(p.header.packet_type)}")
        if not rp.startswith("ok "):
            ctx.violation("a well-formed PDU fails to encode", {"pdu": rpcfmt.pdu(p)[:200]}, rp, "ok")
            continue
        raw = rpcfmt.finalize(p)
        ru = call(lambda: _pdu.PDU.unpack(raw), rpcfmt.pdu)
        cases.append((f"pdu_unpack {hx(raw)}", ru))
        valid.append(("pdu_unpack", lambda b: _pdu.PDU.unpack(b), rpcfmt.pdu, raw))
        if ru.startswith("ok "):
            q = _pdu.PDU.unpack(raw)
            try:
                again = rpcfmt.finalize(q)
            except Exception as exc:  # noqa
                ctx.violation("a decoded PDU cannot be re-encoded", {"pdu": rpcfmt.pdu(p)[:300], "wire": hx(raw)[:200]}, canon_exc(exc), "the same bytes")
                continue
            if again != raw:
                ctx.violation("decode → re-encode changes the bytes", {"pdu": rpcfmt.pdu(p)[:300]}, hx(again)[:160], hx(raw)[:160])
            if rpcfmt.body(q) != rpcfmt.body(p) or rpcfmt.trailer(q.sec_trailer) != rpcfmt.trailer(p.sec_trailer):
                ctx.violation("decode(encode(m)) has different field values", {"pdu": rpcfmt.pdu(p)[:300]}, rpcfmt.pdu(q)[:300], rpcfmt.pdu(p)[:300])
        else:
            ctx.violation("a well-formed PDU fails to decode", {"pdu": rpcfmt.pdu(p)[:200]}, ru, "ok")
        if p.sec_trailer:
            tb = p.sec_trailer.pack()
            cases.append((f"sectrailer_unpack {hx(tb)}", call(lambda: _pdu.SecTrailer.unpack(tb), rpcfmt.trailer)))

    # ---- edited PDUs: pairs of the same PDU type, the first packed and then taking over the second's fields ------------
    import gen
    for pt in [0, 2, 3, 11, 12, 13, 14, 15]:
        gen.edit_consistency(ctx, [(rpcfmt.rand_pdu(rng, pt), rpcfmt.rand_pdu(rng, pt)) for _ in range(3)], pack=lambda o: o.pack(), label="pdu")
    # ---- verification trailers -------------------------------------------------------------------------------
    for _ in range(N):
        cmds = []
        for j in range(rng.randrange(1, 5)):
            k = rng.randrange(4)
            fl = v.CommandFlags(rng.choice([0, 0x8000]))
            if k == 0:
                c = v.CommandBitmask(flags=fl, bits=rng.choice([0, 1, 2**32 - 1]))
            elif k == 1:
                c = v.CommandPContext(flags=fl, interface_id=rpcfmt.rand_syntax(rng), transfer_syntax=rpcfmt.rand_syntax(rng))
            elif k == 2:
                c = v.CommandHeader2(flags=fl, packet_type=r.PacketType.REQUEST, data_rep=r.DataRep(), call_id=rng.randrange(2**32), context_id=rng.randrange(3), opnum=rng.randrange(4))
            else:
                c = v.Command(v.CommandType(rng.choice([4, 5, 100, 0x3FFF])), fl, bytes(rng.randrange(256) for _ in range(rng.randrange(0, 10))))
            cmds.append(c)
        import dataclasses
        last = cmds[-1]
        cmds[-1] = dataclasses.replace(last, flags=v.CommandFlags(int(last.flags) | 0x4000)) if not isinstance(last, v.Command) or type(last) is not v.Command else v.Command(last.command, v.CommandFlags(int(last.flags) | 0x4000), last.value)
        vt = v.VerificationTrailer(cmds)
        rp = call(vt.pack, hx)
        cases.append((f"vt_pack {jo((rpcfmt.cmd(c) for c in cmds), '|')}", rp))
        ctx.count("verification_trailer")
        raw = bytes.fromhex(rp[3:])
        ru = call(lambda: v.VerificationTrailer.unpack(raw), lambda t: jo((rpcfmt.cmd(c) for c in t.commands), "|"))
        cases.append((f"vt_unpack {hx(raw)}", ru))
        valid.append(("vt_unpack", v.VerificationTrailer.unpack, lambda t: jo((rpcfmt.cmd(c) for c in t.commands), "|"), raw))
        want = "ok " + jo((rpcfmt.cmd(c) for c in cmds), "|")
        if ru != want:
            ctx.violation("verification trailer does not round-trip", {"commands": want[:300]}, ru[:300], want[:300])
        elif v.VerificationTrailer.unpack(raw).pack() != raw:
            ctx.violation("verification trailer decode → re-encode changes the bytes", {"commands": want[:300]}, "differs", "identical")

    # ---- floors, ept_map, ept_map result ------------------------------------------------------------------------
    for _ in range(N):
        f = rand_floor(rng)
        rp = call(f.pack, hx)
        cases.append((f"floor_pack {rpcfmt.floor(f)}", rp))
        raw = bytes.fromhex(rp[3:])
        cases.append((f"floor_unpack {hx(raw)}", call(lambda: e.Floor.unpack(raw), lambda g: f"{rpcfmt.floor(g)} {len(g.lhs)} {len(g.rhs)}")))
        g = e.Floor.unpack(raw)
        if rpcfmt.floor(g) != rpcfmt.floor(f) or g.pack() != raw:
            ctx.violation("floor does not round-trip", {"floor": rpcfmt.floor(f)}, rpcfmt.floor(g), rpcfmt.floor(f))
        ctx.count("floor")
    for _ in range(N):
        m = e.EptMap(obj=rng.choice([None, rpcfmt.rand_uuid(rng)]), tower=rand_tower(rng), entry_handle=rng.choice([None, (rng.randrange(2**32), rpcfmt.rand_uuid(rng))]), max_towers=rng.choice([0, 1, 4, 2**32 - 1]))
        rp = call(m.pack, hx)
        line = f"eptmap_pack {'none' if m.obj is None else hx(m.obj.bytes_le)} {rpcfmt.tower(m.tower)} {rpcfmt.eh(m.entry_handle)} {m.max_towers}"
        cases.append((line, rp))
        raw = bytes.fromhex(rp[3:])
        fmt = lambda q: f"{'none' if q.obj is None else hx(q.obj.bytes_le)} {rpcfmt.tower(q.tower)} {rpcfmt.eh(q.entry_handle)} {q.max_towers}"
        ru = call(lambda: e.EptMap.unpack(raw), fmt)
        cases.append((f"eptmap_unpack {hx(raw)}", ru))
        valid.append(("eptmap_unpack", e.EptMap.unpack, fmt, raw))
        ctx.count(f"eptmap_tower_len_mod8:{(len(raw)) % 8}")
        if ru != "ok " + fmt(m) or e.EptMap.unpack(raw).pack() != raw:
            ctx.violation("ept_map request does not round-trip", {"msg": fmt(m)[:300]}, ru[:300], fmt(m)[:300])
    seen_res = set()
    for _ in range(N * 2):
        ts = [rand_tower(rng) for _ in range(rng.randrange(0, 7))]
        m = e.EptMapResult(entry_handle=rng.choice([None, (rng.randrange(2**32), rpcfmt.rand_uuid(rng))]), towers=ts, status=rng.choice([0, 0, 0x16C9A0D6, 2**32 - 1]))
        rp = call(m.pack, hx)
        cases.append((f"eptres_pack {rpcfmt.eh(m.entry_handle)} {rpcfmt.towers(ts)} {m.status}", rp))
        raw = bytes.fromhex(rp[3:])
        fmt = lambda q: f"{rpcfmt.eh(q.entry_handle)} {rpcfmt.towers(q.towers)} {q.status}"
        ru = call(lambda: e.EptMapResult.unpack(raw), fmt)
        cases.append((f"eptres_unpack {hx(raw)}", ru))
        valid.append(("eptres_unpack", e.EptMapResult.unpack, fmt, raw))
        for t in ts:
            seen_res.add(len(b"".join(f.pack() for f in t)) % 8)
        if ru != "ok " + fmt(m) or e.EptMapResult.unpack(raw).pack() != raw:
            ctx.violation("ept_map reply does not round-trip", {"msg": fmt(m)[:400]}, ru[:400], fmt(m)[:400])
    ctx.count("tower_length_residues_mod8_seen", len(seen_res))

    # ---- termination: truncations and random strings under a line-event budget -------------------------------------
    rng.shuffle(valid)
    mal = []
    for opn, unp, fmt, raw in valid[: (400 if ctx.thorough else 80)]:
        cuts = range(len(raw)) if len(raw) < 120 or ctx.thorough else sorted(set(rng.randrange(len(raw)) for _ in range(50)) | set(range(0, 30)))
        for c in cuts:
            mal.append((opn, unp, fmt, raw[:c]))
        for _ in range(10):
            i = rng.randrange(len(raw))
            mal.append((opn, unp, fmt, raw[:i] + bytes([raw[i] ^ (1 << rng.randrange(8))]) + raw[i + 1:]))
    ops = {o: (u, f) for o, u, f, _ in valid}
    for _ in range(300 if ctx.thorough else 60):
        n = rng.choice([0, 1, 8, 16, 24, 52, 100, 1000, 65535])
        b = bytes(rng.randrange(256) for _ in range(n)) if n < 2000 else bytes(rng.randrange(256) for _ in range(64)) * (n // 64)
        for o, (u, f) in ops.items():
            mal.append((o, u, f, b))
    # the signature-only verification trailer (D8) and the absurd tower count (D12)
    mal.append(("vt_unpack", v.VerificationTrailer.unpack, lambda t: "", bytes.fromhex("8ae3137102f43671")))
    mal.append(("eptres_unpack", e.EptMapResult.unpack, lambda t: "", b"\x00" * 20 + (4).to_bytes(4, "little") + (2**40).to_bytes(8, "little") + b"\x00" * 8 + (2**40).to_bytes(8, "little") + b"\x00" * 4))
    for opn, unp, fmt, b in mal:
        out = budgeted(lambda: unp(b), fmt, len(b))
        cases.append((f"{opn} {hx(b)}", out))
        ctx.count("termination_cases")
        if "StepBudgetExceeded" in out:
            ctx.violation("decoder does not terminate within work proportional to the input length", {"decoder": opn, "data": hx(b)[:400], "len": len(b)}, out, "terminates")
    for i in range(0, len(cases), 4000):
        ctx.compare_batch(cases[i:i + 4000], nontrivial=lambda line, impl: impl.startswith("ok"))


def run(ctx):
    import contextlib, gen
    from dpapi_ng._rpc import _bind, _pdu
    with contextlib.ExitStack() as st:
        recs = [st.enter_context(gen.PurityRecorder(cls, ["unpack"], limit=250)) for cls in (_bind.SyntaxId, _bind.ContextElement, _bind.ContextResult, _pdu.SecTrailer,
                                                                                         _pdu.PDUHeader, _pdu.DataRep)]
        _run(ctx)
    for rec in recs:
        rec.verify(ctx, "RPC structure decoder " + rec.module.__name__)


def search(ctx, broken, disagreements):
    pass


def replay(ctx, payload):
    from dpapi_ng import _epm as e
    from dpapi_ng._rpc import _verification as v, _pdu
    vi = payload["violation"]["input"]
    print("recorded input:", str(vi)[:300])
    if "decoder" in vi:
        unp = {"vt_unpack": v.VerificationTrailer.unpack, "eptres_unpack": e.EptMapResult.unpack, "eptmap_unpack": e.EptMap.unpack, "pdu_unpack": _pdu.PDU.unpack}[vi["decoder"]]
        b = bytes.fromhex(vi["data"].replace("-", ""))
        out = budgeted(lambda: unp(b), lambda x: "", len(b))
        print(out)
        return "StepBudgetExceeded" not in out
    c2 = type(ctx)(ctx.prop, "quick", ctx.seed)
    run(c2)
    return not c2.violations
