"""C13 — request framing: lengths, alignment, and exactly the stub region is sealed."""
from __future__ import annotations
import asyncio
import prelude, gen, rpcfmt, rpcsim
from check import canon_exc, hx

MANIFEST = {
    "text": "Lean theorems: request_layout (for every stub length, verification trailer on/off, every signature size and header signing on/off: frag_len = wire size, auth_len = signature size, the verification trailer starts at the next 4-byte boundary after the stub, the security trailer is 16-byte aligned from the stub start with pad_length = the padding added (< 16), exactly stub‖pad4‖vt‖pad16 is handed to the security context, PDU header and trailer header go out in clear), getKeyResult_strips_exactly; the four padding / offset expressions of _create_request and _process_response are regenerated from source and re-proved; SyncRpcClient.request and AsyncRpcClient.request are tied to the model by correspondence of the wire bytes over a scripted transport and provider, whose recorded wrap arguments are checked by an independent receiver",
    "note": "Trusted: Lean kernel; model (differential tie + kernels); the security context's length law (signature length = header size) is a premise about pyspnego; single-fragment requests only (> 65535 bytes raises OverflowError, outside the property's range)",
    "technique": "Lean 4 proof (layout identity by arithmetic on lengths) + kernel extraction + wire correspondence with an independent receiver",
}
THEOREMS = ["DpapiNg.C13.request_layout", "DpapiNg.C13.request_alignment", "DpapiNg.C13.prepare_layout", "DpapiNg.C13.setFragLen_spec", "DpapiNg.C13.getKeyResult_strips_exactly"]
RULE = ("stub lengths 0..300 (every residue mod 16 ≥ 18 times) × verification trailer on/off × signature sizes {16,28,60,76} × header signing on/off × {sync, async}; "
        "reply path: reply stub lengths × pad_length 0..15; distinct by op line")
ASSUMPTIONS = ["A.LengthLaws: the signature the security context returns has length header_len", "wire size < 65536"]


def make_request(stub, vt, header_len, sign, use_async, prior=()):
    """runs the real client.request over a scripted transport; returns (wire bytes, provider, offsets).
    `prior`: stub lengths of requests made on the SAME connection first (framing must not depend on the connection's history)"""
    from dpapi_ng._rpc import _client as rc
    auth = rpcfmt.ScriptedProvider(header_len=header_len) if header_len else None
    reply, _ = rpcsim.sealed_response(b"\x01\x02\x03\x04", header_len, sign) if auth else (None, None)
    if not auth:
        from dpapi_ng import _rpc as r
        from dpapi_ng._rpc import _request
        p = _request.Response(header=r.PDUHeader(5, 0, r.PacketType.RESPONSE, r.PacketFlags(3), r.DataRep(), 0, 0, 1), sec_trailer=None, alloc_hint=4, context_id=0, cancel_count=0, stub_data=b"\x01\x02\x03\x04")
        reply = rpcfmt.finalize(p)
    if use_async:
        async def go():
            reader = asyncio.StreamReader()
            reader.feed_data(reply)
            w = rpcsim.FakeWriter()
            for _ in prior:
                reader.feed_data(reply)
            c = rpcsim.async_client(reader, w, auth)
            c._sign_header = sign
            for k in prior:
                await c.request(0, 0, bytes(k), verification_trailer=vt)
            resp = await c.request(0, 0, stub, verification_trailer=vt)
            return w.sent[-1], resp
        wire, resp = asyncio.run(go())
    else:
        sock = rpcsim.FakeSocket(replies=[reply] * (len(prior) + 1))
        c = rpcsim.sync_client(sock, auth)
        c._sign_header = sign
        for k in prior:
            c.request(0, 0, bytes(k), verification_trailer=vt)
        resp = c.request(0, 0, stub, verification_trailer=vt)
        wire = sock.sent[-1]
    return wire, auth, resp


def after_bind(ctx):
    """the framing of a request on a connection whose header-signing state came out of a REAL bind handshake: 1..3 legs whose acks
    advertise PFC_SUPPORT_HEADER_SIGN in every combination; the PDU header and the security-trailer header are handed to the security
    context as sign-only buffers exactly when every ack advertised it, and as unprotected (clear) buffers otherwise"""
    import itertools
    from props import c15
    alpha = c15.server_alphabet(ctx.rng)
    for k in (1, 2, 3):
        for flags in itertools.product((0, 1), repeat=k):
            script = [(b"tok%d" % i, i == k - 1) for i in range(k)]
            c, prov, sent, out, ack, replies = c15.run_bind(script, [alpha[f"ackAA{f}t"] for f in flags], True, False)
            inp = {"ack_header_sign_flags": list(flags), "scenario": "after_bind"}
            ctx.count("after_bind")
            if not out.startswith("ok"):
                ctx.violation("bind fails against an accepting server", inp, out[:80], "ok")
                continue
            want = all(flags)
            reply, _ = rpcsim.sealed_response(b"\x01\x02\x03\x04", prov.header_len, want)
            c._sock.replies.append(reply)
            err = None
            try:
                c.request(0, 0, b"stub after bind")
            except Exception as e:  # noqa
                err = canon_exc(e)
            if prov.wrap_calls and bool(prov.wrap_calls[-1][3]) == want and err is not None:
                ctx.violation("request() fails after a successful bind", inp, err, "ok")
                continue
            if not prov.wrap_calls:
                ctx.violation("request framing: the request went out without being sealed", inp, "no wrap call", "one")
                continue
            (h_, b_, t_, s_) = prov.wrap_calls[-1]
            if bool(s_) != want:
                ctx.violation("request framing: header / trailer header signed although an ack declined header signing (or not signed although all advertised it)",
                              inp, f"sign_header={bool(s_)}", f"sign_header={want}")



def reply_sizes(ctx):
    """the reply's own lengths decide how it is taken apart: a sealed response whose signature size (auth_len) differs from the size the
    client's context reports for requests (another mechanism's token size, a different checksum) must still be split at the offsets its
    header declares — exactly stub ‖ declared padding goes to the security context, and the caller gets exactly that region back"""
    from dpapi_ng import _client as cl
    rng = ctx.rng
    for hl_c in (16, 28):
        for hl_r in (16, 28, 60, 76):
            for n in (4, 33, 296):
                for sign in (False, True):
                    for use_async in (False, True):
                        stub = bytes(rng.randrange(256) for _ in range(n))
                        auth = rpcfmt.ScriptedProvider(header_len=hl_c)
                        reply, plain = rpcsim.sealed_response(stub, hl_r, sign)
                        inp = {"scenario": "reply_sizes", "client_signature_size": hl_c, "reply_auth_len": hl_r, "reply_stub_len": n, "sign_header": sign, "async": use_async}
                        ctx.count(f"reply_sizes:{'same' if hl_c == hl_r else 'different'}")
                        try:
                            if use_async:
                                async def go():
                                    reader = asyncio.StreamReader()
                                    reader.feed_data(reply)
                                    c = rpcsim.async_client(reader, rpcsim.FakeWriter(), auth)
                                    c._sign_header = sign
                                    return await c.request(0, 0, b"\x00" * 8)
                                resp = asyncio.run(go())
                            else:
                                c = rpcsim.sync_client(rpcsim.FakeSocket(replies=[reply]), auth)
                                c._sign_header = sign
                                resp = c.request(0, 0, b"\x00" * 8)
                        except Exception as e:  # noqa
                            ctx.violation("an authentic sealed reply is not accepted when its signature size differs from the request's", inp, canon_exc(e), "the stub")
                            return
                        if not auth.unwrap_calls:
                            ctx.violation("reply path: a sealed reply is returned without the security context having been asked to unwrap it", inp, "unwrap not called", "unwrap of stub ‖ padding")
                            return
                        (h_, b_, t_, sig_, s_) = auth.unwrap_calls[-1]
                        problems = []
                        if len(b_) != len(plain):
                            problems.append(f"security context was handed {len(b_)} octets, the sealed region (stub + declared padding) has {len(plain)}")
                        if len(sig_) != hl_r:
                            problems.append(f"signature handed to the context has {len(sig_)} octets, the reply declares auth_len {hl_r}")
                        pad = resp.sec_trailer.pad_length if resp.sec_trailer else None
                        if bytes(resp.stub_data) != plain or pad != (-n) % 16:
                            problems.append("the response's stub / pad_length differ from what the server sealed")
                        if problems:
                            ctx.violation("reply path: " + problems[0], inp, "; ".join(problems)[:300], "split at the reply's own auth_len")
                            return


def run(ctx):
    from dpapi_ng import _client as cl
    from dpapi_ng._gkdi import GetKey
    prelude.validate(ctx)
    rng = ctx.rng
    cases = []
    vt = cl._VERIFICATION_TRAILER
    vtb = vt.pack()
    lens = range(0, 301) if ctx.thorough else sorted(set(list(range(0, 40)) + [rng.randrange(40, 301) for _ in range(40)] + [255, 256, 257, 300]))
    for n in lens:
        for use_vt in (False, True):
            for hl in ((0, 16, 28, 60, 76) if ctx.thorough or n < 20 else (rng.choice([16, 28, 60, 76]),)):
                for sign in ((False, True) if hl else (False,)):
                    use_async = rng.random() < 0.25
                    stub = bytes((i * 7 + n) & 0xFF for i in range(n))
                    prior = () if rng.random() < 0.5 else tuple(rng.randrange(0, 48) for _ in range(rng.randrange(1, 3)))
                    ctx.count(f"requests_before_on_same_connection:{len(prior)}")
                    try:
                        wire, auth, resp = make_request(stub, vt if use_vt else None, hl, sign, use_async, prior)
                        out = "ok " + hx(wire)
                    except Exception as e:  # noqa
                        wire, auth = None, None
                        out = "err " + canon_exc(e)
                    a = "none" if not hl else f"10.{hl}"
                    offs = "none"
                    ctx.count(f"stub_len_mod16:{n % 16}")
                    ctx.count("vt:on" if use_vt else "vt:off")
                    if wire is None:
                        ctx.violation("request() fails", {"stub_len": n, "vt": use_vt, "header_len": hl, "prior_stub_lens": list(prior)}, out, "ok")
                        continue
                    # ---- independent receiver ------------------------------------------------------------
                    frag_len = int.from_bytes(wire[8:10], "little")
                    auth_len = int.from_bytes(wire[10:12], "little")
                    problems = []
                    if frag_len != len(wire):
                        problems.append(f"frag_len {frag_len} != wire size {len(wire)}")
                    if auth_len != hl:
                        problems.append(f"auth_len {auth_len} != signature size {hl}")
                    unpadded = stub + ((b"\x00" * (-n % 4) + vtb) if use_vt else b"")
                    if hl and (auth_len != hl or len(wire) < 24 + hl + 8):
                        # (no room for / no declaration of the security trailer: reported above; nothing further to take apart)
                        ctx.violation("request framing: " + (problems[0] if problems else "PDU too short for its security trailer"),
                                      {"stub_len": n, "vt": use_vt, "header_len": hl, "sign": sign, "async": use_async, "prior_stub_lens": list(prior)}, hx(wire)[:120], "see DESIGN C13")
                        continue
                    if hl:
                        tr = len(wire) - hl - 8
                        pad = wire[tr + 2]
                        offs = f"24.{tr}"
                        if (tr - 24) % 16 != 0:
                            problems.append("security trailer not 16-byte aligned from the stub start")
                        if pad != tr - 24 - len(unpadded) or pad >= 16:
                            problems.append(f"pad_length {pad} is not the padding added ({tr - 24 - len(unpadded)})")
                        want_body = unpadded + b"\x00" * ((-len(unpadded)) % 16)
                        if len(auth.wrap_calls) != 1 + len(prior):
                            problems.append(f"the security context sealed {len(auth.wrap_calls)} of {1 + len(prior)} authenticated requests")
                        (h_, b_, t_, s_) = auth.wrap_calls[-1] if auth.wrap_calls else (b"", None, b"", None)
                        if len(auth.wrap_calls) != 1 + len(prior) or b_ != want_body or s_ != sign:
                            problems.append("the region handed to the security context is not exactly stub + padding (+ verification trailer)")
                        if h_ != wire[:24] or t_ != wire[tr:tr + 8]:
                            problems.append("PDU header / security-trailer header are not sent in clear as handed to the context")
                        if wire[24:tr] == want_body and len(want_body) > 0:
                            problems.append("the stub region went out unencrypted")
                        body_plain = want_body
                    else:
                        body_plain = wire[24:]
                        if body_plain != unpadded:
                            problems.append("unauthenticated request body is not stub (+ verification trailer)")
                    if use_vt and body_plain[(n + 3) // 4 * 4:(n + 3) // 4 * 4 + 8] != vtb[:8]:
                        problems.append("verification trailer is not at the next 4-byte boundary after the stub")
                    for pr in problems:
                        ctx.violation("request framing: " + pr, {"stub_len": n, "vt": use_vt, "header_len": hl, "sign": sign, "async": use_async, "prior_stub_lens": list(prior)}, hx(wire)[:120], "see DESIGN C13")
                    cases.append((f"mkrequest {a} 0 0 {hx(stub)} {hx(vtb) if use_vt else 'none'} {int(sign)}", f"ok {hx(wire)} {offs}"))
    # ---- reply path: exactly the declared auth padding is stripped ------------------------------------------------
    from dpapi_ng import _rpc as r
    from dpapi_ng._rpc import _request
    for _ in range(200 if ctx.thorough else 40):
        env = gen.rand_env(rng)
        eb = env.pack()
        reply = len(eb).to_bytes(4, "little") + b"\x00" * 4 + (0x20000).to_bytes(8, "little") + len(eb).to_bytes(8, "little") + eb + b"\x00" * (-len(eb) % 4) + b"\x00" * 4
        for pad in (range(16) if ctx.thorough else [0, rng.randrange(1, 16), 15]):
            tr = r.SecTrailer(r.SecurityProvider(10), r.AuthenticationLevel(6), pad, 0, b"\x00" * 16)
            padding = bytes(rng.randrange(1, 256) for _ in range(pad))
            # the allocation hint is a hint: whatever convention the server follows for it (absent, the marshalled length, the length with
            # the auth padding, anything else), the region decoded is the stub minus exactly the declared pad_length
            for hint in (0, len(reply), len(reply) + pad, 4, max(len(reply) - 4, 0), 2**32 - 1):
                resp = _request.Response(header=r.PDUHeader(5, 0, r.PacketType.RESPONSE, r.PacketFlags(3), r.DataRep(), 0, 16, 1), sec_trailer=tr, alloc_hint=hint, context_id=0, cancel_count=0,
                                         stub_data=reply + padding)
                try:
                    got = "ok " + gen.env_fields(cl._process_get_key_result(resp))
                except Exception as e:  # noqa
                    got = "err " + canon_exc(e)
                if hint == 0:
                    cases.append((f"getkey_result {hx(resp.stub_data)} {pad}", got))
                ctx.count(f"reply_pad:{pad}")
                if got != "ok " + gen.env_fields(env):
                    ctx.violation("reply path does not strip exactly the declared auth padding", {"pad_length": pad, "reply_len": len(reply), "alloc_hint": hint}, got[:100], "the envelope")
            # a failed GetKey (non-zero HRESULT) stays a failure whatever the padding octets and the hint say
            bad = reply[:-4] + (0x80070005).to_bytes(4, "little")
            for hint in (0, len(bad) + pad):
                resp = _request.Response(header=r.PDUHeader(5, 0, r.PacketType.RESPONSE, r.PacketFlags(3), r.DataRep(), 0, 16, 1), sec_trailer=tr, alloc_hint=hint, context_id=0, cancel_count=0,
                                         stub_data=bad + b"\x00" * pad)
                try:
                    cl._process_get_key_result(resp)
                    got = "ok"
                except Exception as e:  # noqa
                    got = "err " + canon_exc(e)
                ctx.count("reply_failed_hresult")
                if got == "ok":
                    ctx.violation("reply path: a failed GetKey (HRESULT 0x80070005) is reported as success", {"pad_length": pad, "reply_len": len(bad), "alloc_hint": hint}, got, "error")
        resp = _request.Response(header=r.PDUHeader(5, 0, r.PacketType.RESPONSE, r.PacketFlags(3), r.DataRep(), 0, 0, 1), sec_trailer=None, alloc_hint=0, context_id=0, cancel_count=0, stub_data=reply)
        cases.append((f"getkey_result {hx(reply)} none", "ok " + gen.env_fields(cl._process_get_key_result(resp))))
    for i in range(0, len(cases), 2000):
        ctx.compare_batch(cases[i:i + 2000], nontrivial=lambda line, impl: True)
    after_bind(ctx)
    reply_sizes(ctx)


def search(ctx, broken, disagreements):
    pass


def replay(ctx, payload):
    v = payload["violation"]["input"]
    print("recorded input:", v)
    c2 = type(ctx)(ctx.prop, "quick", ctx.seed)
    run(c2)
    return not c2.violations
