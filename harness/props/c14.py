"""C14 — replies reassemble identically under any TCP segmentation; EOF is an error."""
from __future__ import annotations
import asyncio, itertools
import prelude, rpcfmt, rpcsim
from check import canon_exc, hx

MANIFEST = {
    "text": "Lean theorems: readN_ok (the repaired read loop returns exactly the requested bytes for every chunking of the stream — induction on the chunk list, any number of chunks, splits inside the 16-byte header included — leaves the rest of the stream intact and issues at most one recv per chunk), reassembly (sync = async = the framed PDU for every partition), eof_is_error (a stream that ends early is an error after at most #chunks + 1 reads: never a spin); tied to SyncRpcClient._send_pdu (scripted socket) and AsyncRpcClient._send_pdu (a real asyncio.StreamReader fed chunk by chunk) by correspondence over every 2-chunk split and every EOF offset (quick) / every ≤ 3-chunk partition at every offset plus random finer ones (thorough), counting reads",
    "note": "Trusted: Lean kernel; model (differential tie); socket semantics (a recv returns 1..n bytes or 0 at EOF) and asyncio's readexactly contract are assumptions; a silent peer on a socket without timeout (blocking forever) cannot be exhibited by the model — partial in that respect",
    "technique": "Lean 4 proof (induction over chunk lists = schedules) + scripted-transport correspondence",
}
THEOREMS = ["DpapiNg.C14.readN_ok", "DpapiNg.C14.readN_eof", "DpapiNg.C14.readNCalls_le", "DpapiNg.C14.readN_calls_rest", "DpapiNg.C14.reassembly", "DpapiNg.C14.eof_is_error"]
RULE = ("replies: bind_ack, alter_context_resp, response, fault of several sizes; partitions into 1..3 chunks at every byte offset (quick: all 2-chunk splits + a stride of 3-chunk ones), "
        "random finer partitions, EOF at every byte offset including 0; sync over a scripted socket, async over a real StreamReader; distinct by op line")
ASSUMPTIONS = ["recv returns 1..n bytes, or 0 bytes at EOF", "readexactly raises IncompleteReadError at EOF"]


def replies(rng):
    out = []
    for pt in (12, 15, 2, 3, 2, 12):
        p = rpcfmt.rand_pdu(rng, pt)
        out.append(rpcfmt.finalize(p))
    # replies whose length needs both octets of frag_len (a GetKey-sized response, a large fault): 300 … 1300 octets, incl. k·256 and k·256 ± 1
    import dataclasses
    for n in (256 - 24, 257 - 24, 300, 512 - 24, 767 - 24, 1300, 2600, 5800):
        p = rpcfmt.rand_pdu(rng, 2)
        try:
            p = dataclasses.replace(p, stub_data=bytes(rng.randrange(256) for _ in range(n)), sec_trailer=None)
            out.append(rpcfmt.finalize(p))
        except Exception:  # noqa
            pass
    return out


def run_sync(chunks, expect):
    """returns (reassembled bytes or error kind, recv calls, leftover)"""
    import dpapi_ng._rpc._client as rc
    sock = rpcsim.FakeSocket(chunks=chunks)
    c = rpcsim.sync_client(sock)
    got = {}
    orig = c._process_response

    def capture(resp, hdr, resp_type, encrypt_offsets=None):
        got["raw"] = bytes(resp)
        return orig(resp, hdr, resp_type, encrypt_offsets)
    c._process_response = capture
    dummy = rpcfmt.rand_pdu(__import__("random").Random(1), 11)
    try:
        pdu = c._send_pdu(dummy, expect)
        out = "ok " + hx(got["raw"])
        dec = rpcfmt.pdu(pdu)
    except Exception as e:  # noqa
        out, dec = "err " + canon_exc(e), None
        if "raw" in got:       # reassembly succeeded, the decoded PDU was rejected afterwards (not a transport matter)
            out = "ok " + hx(got["raw"])
    return out, sock.recv_calls, b"".join(sock.chunks), dec


class SpinGuardReader(asyncio.StreamReader):
    """a real StreamReader that notices a caller which keeps reading after EOF (every such read returns b"" at once, without
    yielding to the event loop, so an unguarded loop would hang the process rather than the task)"""
    SPIN = 64

    def __init__(self):
        super().__init__()
        self.empty_reads = 0

    async def read(self, n=-1):
        data = await super().read(n)
        if not data and n != 0:
            self.empty_reads += 1
            if self.empty_reads >= self.SPIN:
                raise SpinDetected(f"{self.empty_reads} reads after EOF")
        return data


class SpinDetected(BaseException):
    pass


def run_async(chunks, eof, expect):
    async def go():
        reader = SpinGuardReader()
        c = rpcsim.async_client(reader, rpcsim.FakeWriter())
        got = {}
        orig = c._process_response

        def capture(resp, hdr, resp_type, encrypt_offsets=None):
            got["raw"] = bytes(resp)
            return orig(resp, hdr, resp_type, encrypt_offsets)
        c._process_response = capture
        dummy = rpcfmt.rand_pdu(__import__("random").Random(1), 11)
        task = asyncio.ensure_future(c._send_pdu(dummy, expect))
        for ch in chunks:
            await asyncio.sleep(0)
            reader.feed_data(ch)
        await asyncio.sleep(0)
        if eof:
            reader.feed_eof()
        try:
            pdu = await asyncio.wait_for(task, 2)
            return "ok " + hx(got["raw"]), rpcfmt.pdu(pdu)
        except asyncio.TimeoutError:
            return "err Other:Timeout", None
        except SpinDetected as e:
            return f"spin {e}", None
        except Exception as e:  # noqa
            if "raw" in got:
                return "ok " + hx(got["raw"]), None
            return "err " + canon_exc(e), None
    return asyncio.run(go())


def expect_of(raw):
    from dpapi_ng._rpc import _bind, _request, _pdu
    return {12: _bind.BindAck, 15: _bind.AlterContextResponse, 2: _request.Response, 3: _pdu.Fault}[raw[2]]



def two_connections(ctx):
    """two connections in one process receiving replies of the SAME length whose segments interleave in time (a thread pool, or
    asyncio.gather over several unprotect calls): each connection must reassemble its own octets — nothing received on one connection
    may show up in the PDU returned on the other (sync: B's whole exchange happens between two reads of A; async: same on one loop)"""
    import dataclasses
    from dpapi_ng._rpc import _pdu
    rng = ctx.rng
    for n in (40, 300, 300, 1000):
        from dpapi_ng import _rpc as r
        from dpapi_ng._rpc import _request
        pa, pb = (_request.Response(header=r.PDUHeader(5, 0, r.PacketType.RESPONSE, r.PacketFlags(3), r.DataRep(), 0, 0, 1), sec_trailer=None, alloc_hint=n, context_id=0,
                                    cancel_count=0, stub_data=bytes([fill]) * n) for fill in (0x61, 0x62))
        ra, rb = rpcfmt.finalize(pa), rpcfmt.finalize(pb)
        if len(ra) != len(rb):
            continue
        wantA, wantB = rpcfmt.pdu(_pdu.PDU.unpack(ra)), rpcfmt.pdu(_pdu.PDU.unpack(rb))
        for cut in (16, 16 + n // 2, 5, len(ra) - 1):
            inp = {"scenario": "two_connections", "reply_len": len(ra), "first_connection_interrupted_after": cut}
            # ---- sync: a socket whose second read first lets the OTHER connection run a whole request
            class Hooked(rpcsim.FakeSocket):
                def _take(self, k):
                    if self.recv_calls >= 1 and not getattr(self, "fired", False) and len(self.chunks) == 1:
                        self.fired = True
                        sb = rpcsim.FakeSocket(chunks=[rb])
                        cb = rpcsim.sync_client(sb)
                        self.other = rpcfmt.pdu(cb._send_pdu(rpcfmt.rand_pdu(__import__("random").Random(2), 0), _expect_response()))
                    return super()._take(k)
            sa = Hooked(chunks=[ra[:cut], ra[cut:]])
            ca = rpcsim.sync_client(sa)
            try:
                gotA = rpcfmt.pdu(ca._send_pdu(rpcfmt.rand_pdu(__import__("random").Random(1), 0), _expect_response()))
                gotB = getattr(sa, "other", None)
            except Exception as e:  # noqa
                gotA, gotB = "err " + canon_exc(e), getattr(sa, "other", None)
            ctx.count("two_connections:sync")
            if gotA != wantA or (gotB is not None and gotB != wantB):
                ctx.violation("sync client: octets received on another connection end up in this connection's PDU", inp, str(gotA)[:120], wantA[:120])
                return
            # ---- async: two clients on one event loop
            async def go():
                xa, xb = asyncio.StreamReader(), asyncio.StreamReader()
                c1, c2 = rpcsim.async_client(xa, rpcsim.FakeWriter()), rpcsim.async_client(xb, rpcsim.FakeWriter())
                t1 = asyncio.ensure_future(c1._send_pdu(rpcfmt.rand_pdu(__import__("random").Random(1), 0), _expect_response()))
                xa.feed_data(ra[:cut])
                for _ in range(5):
                    await asyncio.sleep(0)
                t2 = asyncio.ensure_future(c2._send_pdu(rpcfmt.rand_pdu(__import__("random").Random(2), 0), _expect_response()))
                xb.feed_data(rb)
                r2 = await asyncio.wait_for(t2, 2)
                xa.feed_data(ra[cut:])
                r1 = await asyncio.wait_for(t1, 2)
                return rpcfmt.pdu(r1), rpcfmt.pdu(r2)
            try:
                g1, g2 = asyncio.run(go())
            except Exception as e:  # noqa
                g1, g2 = "err " + canon_exc(e), None
            ctx.count("two_connections:async")
            if g1 != wantA or (g2 is not None and g2 != wantB):
                ctx.violation("async client: octets received on another connection end up in this connection's PDU", inp, str(g1)[:120], wantA[:120])
                return


def _expect_response():
    from dpapi_ng._rpc import _request
    return _request.Response



def after_eof(ctx):
    """a connection that ended early stays an error: after a call failed because the peer closed before a whole PDU arrived (EOF at several
    offsets), a further call on the SAME client object fails promptly too — it neither hangs nor reads anything as a reply (both clients)"""
    from dpapi_ng import _rpc as r
    from dpapi_ng._rpc import _request
    reply = rpcfmt.finalize(_request.Response(header=r.PDUHeader(5, 0, r.PacketType.RESPONSE, r.PacketFlags(3), r.DataRep(), 0, 0, 1), sec_trailer=None, alloc_hint=64,
                                               context_id=0, cancel_count=0, stub_data=bytes(64)))
    for k in (0, 7, 16, 40, len(reply) - 1):
        # sync
        sock = rpcsim.FakeSocket(chunks=[reply[:k]] if k else [])
        c = rpcsim.sync_client(sock)
        outs = []
        for _ in range(2):
            try:
                c._send_pdu(rpcfmt.rand_pdu(__import__("random").Random(1), 0), _expect_response())
                outs.append("ok")
            except Exception as e:  # noqa
                outs.append("err " + canon_exc(e))
        ctx.count("after_eof:sync")
        if not all(o.startswith("err") for o in outs):
            ctx.violation("sync client: a call after the connection ended early is not an error", {"scenario": "after_eof", "eof_at": k}, str(outs), "two errors")
            return

        async def go():
            reader = asyncio.StreamReader()
            if k:
                reader.feed_data(reply[:k])
            reader.feed_eof()
            ac = rpcsim.async_client(reader, rpcsim.FakeWriter())
            res = []
            for _ in range(2):
                try:
                    await asyncio.wait_for(ac._send_pdu(rpcfmt.rand_pdu(__import__("random").Random(1), 0), _expect_response()), 3)
                    res.append("ok")
                except asyncio.TimeoutError:
                    res.append("hang")
                except Exception as e:  # noqa
                    res.append("err " + canon_exc(e))
            return res
        outs = asyncio.run(go())
        ctx.count("after_eof:async")
        if not all(o.startswith("err") for o in outs):
            ctx.violation("async client: a call after the connection ended early hangs or is not an error", {"scenario": "after_eof", "eof_at": k}, str(outs), "two prompt errors")
            return


def run(ctx):
    prelude.validate(ctx)
    rng = ctx.rng
    cases = []
    for raw in replies(rng):
        n = len(raw)
        exp = expect_of(raw)
        whole, calls0, _, dec0 = run_sync([raw], exp)
        parts = [[raw]]
        parts += [[raw[:i], raw[i:]] for i in (range(1, n) if n <= 200 else list(range(1, 40)) + list(range(40, n, 37)))]
        if ctx.thorough:
            parts += [[raw[:i], raw[i:j], raw[j:]] for i in range(1, n) for j in range(i + 1, n)] if n <= 120 else \
                     [[raw[:i], raw[i:j], raw[j:]] for i in range(1, min(n, 40)) for j in range(i + 1, n, 3)]
        else:
            parts += [[raw[:i], raw[i:j], raw[j:]] for i in range(1, min(n, 20)) for j in range(i + 1, min(n, 40), 2)]
        for _ in range(200 if ctx.thorough else 40):
            cuts = sorted(set(rng.randrange(1, n) for _ in range(rng.randrange(3, 12))))
            parts.append([raw[a:b] for a, b in zip([0] + cuts, cuts + [n])])
        # one octet per read (a reply trickling in): thousands of reads for one PDU
        if n >= 256:
            parts.append([raw[i:i + 1] for i in range(n)])
            parts.append([raw[:16]] + [raw[i:i + 2] for i in range(16, n, 2)])
        # trailing bytes of a following PDU in the last chunk must be left alone
        parts.append([raw[:5], raw[5:] + b"\x05\x00\x0b\x03"])
        for chunks in parts:
            out, calls, left, dec = run_sync(chunks, exp)
            cases.append((f"recv_sync {','.join(hx(c) for c in chunks)}", f"{out} {calls} {hx(left)}"))
            ctx.count(f"sync_chunks:{min(len(chunks), 4)}")
            if out != whole or (dec0 is not None and dec != dec0):
                ctx.violation("sync client: a segmented reply is not reassembled to the same PDU as single-piece delivery", {"chunks": [hx(c) for c in chunks]}, out[:100], whole[:100])
            if calls > len(chunks) + 1:
                ctx.violation("sync client issues more reads than chunks", {"chunks": [hx(c) for c in chunks]}, calls, f"≤ {len(chunks) + 1}")
            if len(chunks) <= 3 and (rng.random() < (1.0 if ctx.thorough else 0.15)):
                aout, adec = run_async(chunks, False, exp)
                stream = b"".join(chunks)
                cases.append((f"recv_async {hx(stream)}", f"{aout} {hx(stream[n:])}" if aout.startswith("ok") else aout))
                ctx.count("async_cases")
                if aout != whole:
                    ctx.violation("async client: a segmented reply is not reassembled to the same PDU", {"chunks": [hx(c) for c in chunks]}, aout[:100], whole[:100])
        # EOF at every offset (including 0), delivered in one or two chunks
        for k in (range(0, n) if n <= 200 else sorted({k_ for k_ in list(range(0, 40)) + list(range(40, n, 53)) + [n - 1, (n & 0xFF) if (n & 0xFF) >= 16 else 16] if k_ < n})):
            for chunks in ([raw[:k]] if k else [[]])[0:1] if False else ([[raw[:k]]] if k else [[]]) + ([[raw[:k // 2], raw[k // 2:k]]] if k >= 2 else []):
                chunks = [c for c in chunks if c]
                out, calls, left, _ = run_sync(chunks, exp)
                cases.append((f"recv_sync {','.join(hx(c) for c in chunks) or '-'}", out if out.startswith("err") else f"{out} {calls} {hx(left)}"))
                ctx.count("eof_cases")
                if not out.startswith("err "):
                    ctx.violation("sync client: connection closed before a full PDU arrived is not an error", {"eof_at": k}, out[:80], "error")
                if calls > len(chunks) + 2:
                    ctx.violation("sync client: keeps reading after EOF", {"eof_at": k, "recv_calls": calls}, calls, f"≤ {len(chunks) + 2}")
                if k % (1 if ctx.thorough else 7) == 0:
                    aout, _ = run_async(chunks, True, exp)
                    cases.append((f"recv_async {hx(b''.join(chunks))}", aout))
                    if not aout.startswith("err ") or "Timeout" in aout:
                        ctx.violation("async client: EOF before a full PDU is not a prompt error", {"eof_at": k}, aout, "error")
    for i in range(0, len(cases), 4000):
        ctx.compare_batch(cases[i:i + 4000], nontrivial=lambda line, impl: "," in line or impl.startswith("err"))
    two_connections(ctx)
    after_eof(ctx)


def search(ctx, broken, disagreements):
    pass


def replay(ctx, payload):
    v = payload["violation"]["input"]
    print("recorded input:", str(v)[:300])
    from dpapi_ng._rpc import _bind
    if "chunks" in v:
        chunks = [bytes.fromhex(c.replace("-", "")) for c in v["chunks"]]
        raw = b"".join(chunks)
        exp = expect_of(raw)
        a = run_sync(chunks, exp)
        b = run_sync([raw], exp)
        print(a[0][:80], a[1], "|", b[0][:80])
        return a[0] == b[0]
    c2 = type(ctx)(ctx.prop, "quick", ctx.seed)
    run(c2)
    return not c2.violations
