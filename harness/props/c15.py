"""C15 — bind/auth handshake relays tokens faithfully and fails closed."""
from __future__ import annotations
import asyncio, itertools
import prelude, rpcfmt, rpcsim
from check import canon_exc, hx
from rpcfmt import jo

MANIFEST = {
    "text": "Lean theorems over an arbitrary provider script and server script (induction, any number of legs): tokens_sent (each non-empty provider token is sent exactly once, in order, the first in a bind and the rest in alter_context PDUs), tokens_fed (the server's tokens are fed back in order, an absent token as b\"\"), stops_when_complete, rejections_surface (bind_nak / fault / unexpected PDU type / closed connection end the handshake with an error), sign_header_iff (header signing stays on exactly while every ack advertised it), request_only_on_accepted (_process_bind_result); SyncRpcClient.bind / AsyncRpcClient.bind and _process_bind_result are tied to the model by correspondence with a scripted AuthenticationProvider (1..4 legs, empty final token) and every scripted server behaviour to depth 3 (quick) / 4 (thorough); tokens_fed / bind_feeds_ack_token / ack_token: each leg is stepped with exactly the auth value of the ack received last (the bind_ack's for the first alter_context, then each alter_context_resp's), none skipped, none repeated",
    "note": "Trusted: Lean kernel; model (differential tie); a result vector shorter than the offered context list surfaces as IndexError (an error, as the property requires, though not a deliberate type)",
    "technique": "Lean 4 proof (induction over the provider script) + exhaustive small-scope script correspondence",
}
THEOREMS = ["DpapiNg.C15.tokens_sent", "DpapiNg.C15.stops_when_complete", "DpapiNg.C15.rejections_surface", "DpapiNg.C15.unexpected_is_error", "DpapiNg.C15.sign_header_iff", "DpapiNg.C15.bind_first_token", "DpapiNg.C15.ack_token", "DpapiNg.C15.tokens_fed", "DpapiNg.C15.bind_feeds_ack_token"]
RULE = ("provider scripts with 1..4 legs (complete flag after the last or an earlier leg, empty final token) × server scripts to depth 3 (quick) / 4 (thorough) over "
        "{bind_ack / alter_context_resp with result vectors [accept,accept] [accept,reject] [reject,accept] [negotiate_ack] [] and header-sign flag on/off and token / no token, "
        "bind_nak, fault, response, EOF}; sync and async; distinct by op line")
ASSUMPTIONS = ["the provider yields its tokens in order and reports `complete` truthfully"]


def contexts():
    from dpapi_ng import _client as c
    return c._ISD_KEY_CONTEXTS


def server_alphabet(rng):
    """functions leg_index → reply bytes (or None for EOF)"""
    from dpapi_ng import _rpc as r
    from dpapi_ng._rpc import _bind, _request, _pdu
    import uuid
    A, U, P, N = (_bind.ContextResultCode(i) for i in range(4))
    z = uuid.UUID(int=0)

    def ack(results, sign, token):
        def f(i):
            tr = r.SecTrailer(r.SecurityProvider(10), r.AuthenticationLevel(6), 0, 0, token) if token is not None else None
            cls = _bind.BindAck if i == 0 else _bind.AlterContextResponse
            pt = r.PacketType.BIND_ACK if i == 0 else r.PacketType.ALTER_CONTEXT_RESP
            h = r.PDUHeader(5, 0, pt, r.PacketFlags(3 | (4 if sign else 0)), r.DataRep(), 0, len(token) if token is not None else 0, 1)
            return rpcfmt.finalize(cls(header=h, sec_trailer=tr, max_xmit_frag=5840, max_recv_frag=5840, assoc_group=1, sec_addr="49664",
                                       results=[_bind.ContextResult(c, 0, z, 0) for c in results]))
        return f
    out = {}
    for name, res in (("AA", [A, A]), ("AR", [A, P]), ("RA", [U, A]), ("N", [N]), ("E", [])):
        for sign in (0, 1):
            for tok in ("t", "n"):
                out[f"ack{name}{sign}{tok}"] = ack(res, sign, None if tok == "n" else b"srv-" + name.encode())
    out["nak"] = lambda i: rpcfmt.finalize(_bind.BindNak(header=r.PDUHeader(5, 0, r.PacketType.BIND_NAK, r.PacketFlags(3), r.DataRep(), 0, 0, 1), sec_trailer=None, reject_reason=4, versions=[(5, 0)]))
    out["fault"] = lambda i: rpcfmt.finalize(_pdu.Fault(header=r.PDUHeader(5, 0, r.PacketType.FAULT, r.PacketFlags(3), r.DataRep(), 0, 0, 1), sec_trailer=None, alloc_hint=0, context_id=0, cancel_count=0, status=5,
                                                        flags=_pdu.FaultFlags(0), stub_data=b""))
    # a fault that says "the call did not execute" (PFC_DID_NOT_EXECUTE, 0x20): still a rejection of the bind / alter_context it answers
    out["faultDNE"] = lambda i: rpcfmt.finalize(_pdu.Fault(header=r.PDUHeader(5, 0, r.PacketType.FAULT, r.PacketFlags(3 | 0x20), r.DataRep(), 0, 0, 1), sec_trailer=None, alloc_hint=0, context_id=0,
                                                           cancel_count=0, status=0x1C010003, flags=_pdu.FaultFlags(0), stub_data=b""))
    out["resp"] = lambda i: rpcfmt.finalize(_request.Response(header=r.PDUHeader(5, 0, r.PacketType.RESPONSE, r.PacketFlags(3), r.DataRep(), 0, 0, 1), sec_trailer=None, alloc_hint=0, context_id=0, cancel_count=0, stub_data=b"x"))
    out["wrongack"] = lambda i: ack([A, A], 1, b"w")(1 if i == 0 else 0)      # alter_context_resp to a bind / bind_ack to an alter_context
    out["eof"] = lambda i: None
    return out


def run_bind(script, server_fns, use_auth, use_async):
    ctxs = contexts()
    replies = [f(i) for i, f in enumerate(server_fns)]
    prov = rpcfmt.ScriptedProvider(script=list(script)) if use_auth else None
    if use_async:
        async def go():
            reader = asyncio.StreamReader()
            pending = list(replies)

            def on_write(data):
                if pending:
                    r_ = pending.pop(0)
                    if r_ is None:
                        reader.feed_eof()
                    else:
                        reader.feed_data(r_)
                else:
                    reader.feed_eof()
            w = rpcsim.FakeWriter(on_write)
            c = rpcsim.async_client(reader, w, prov)
            try:
                ack = await asyncio.wait_for(c.bind(ctxs), 2)
                return c, w.sent, "ok " + rpcfmt.pdu(ack), ack
            except Exception as e:  # noqa
                return c, w.sent, "err " + canon_exc(e), None
        c, sent, out, ack = asyncio.run(go())
        return c, prov, sent, out, ack, replies
    else:
        sock = rpcsim.FakeSocket(replies=[r_ for r_ in replies])
        c = rpcsim.sync_client(sock, prov)
        try:
            ack = c.bind(ctxs)
            out = "ok " + rpcfmt.pdu(ack)
        except Exception as e:  # noqa
            out, ack = "err " + canon_exc(e), None
        sent = sock.sent
    return c, prov, sent, out, ack, replies


def events_of(sent, prov):
    from dpapi_ng._rpc import _pdu
    ev = []
    for i, raw in enumerate(sent):
        fed = prov.fed[i] if prov and i < len(prov.fed) else None
        try:
            p = _pdu.PDU.unpack(raw)
        except Exception:  # noqa  (the client sent something that is not a PDU: shown as type 254, flagged by the framing oracle)
            ev.append((254, 0, None, [], fed))
            continue
        tok = p.sec_trailer.auth_value if p.sec_trailer else None
        ev.append((int(p.header.packet_type), int(p.header.packet_flags), tok, [c.context_id for c in p.contexts], fed))
    if prov:
        for j in range(len(sent), len(prov.fed)):
            if prov.fed_ok[j] if hasattr(prov, "fed_ok") else True:
                ev.append((255, 0, None, [], prov.fed[j]))
    return ev


def show_events(ev):
    def o(t):
        return "none" if t is None else hx(t)
    return jo((f"{a}.{b}.{o(t)}.{jo(map(str, ids), ',')}.{o(f)}" for a, b, t, ids, f in ev), ",")



def request_after_bind(ctx):
    """whatever the handshake made of the server's behaviour — acks with or without tokens, a provider that ends on an empty token with
    its context still incomplete — once bind() has returned on a client constructed WITH authentication, a request is never sent
    unprotected: it goes out with a security trailer (auth_len ≠ 0, stub not in clear) or request() raises"""
    import itertools
    from dpapi_ng import _rpc as r
    from dpapi_ng._rpc import _request
    alpha = server_alphabet(ctx.rng)
    marker = b"GETKEY STUB THAT MUST BE SEALED"
    clear = rpcfmt.finalize(_request.Response(header=r.PDUHeader(5, 0, r.PacketType.RESPONSE, r.PacketFlags(3), r.DataRep(), 0, 0, 1), sec_trailer=None,
                                               alloc_hint=4, context_id=0, cancel_count=0, stub_data=b"\x00" * 4))
    scripts = [[(b"c1", True)], [(b"c1", False), (b"", False)], [(b"c1", False), (b"c2", False), (b"", False)], [(b"c1", False), (b"", True)],
               [(b"c1", False), (b"c2", True)], [(b"", False)]]
    for sc in scripts:
        for k in (1, 2):
            for acks in itertools.product(["ackAA1t", "ackAA1n", "ackAA0n", "ackAA0t"], repeat=k):
                for use_async in (False, True):
                    replies = [alpha[a](i) for i, a in enumerate(acks)] + [clear]
                    prov = rpcfmt.ScriptedProvider(script=list(sc))
                    got = {"bind": None, "wire": None}

                    def drive_sync():
                        sock = rpcsim.FakeSocket(replies=list(replies))
                        c = rpcsim.sync_client(sock, prov)
                        c.bind(contexts())
                        got["bind"] = len(sock.sent)
                        try:
                            c.request(0, 0, marker)
                        finally:
                            got["wire"] = sock.sent[got["bind"]] if len(sock.sent) > got["bind"] else None

                    async def drive_async():
                        reader = asyncio.StreamReader()
                        pending = list(replies)
                        w = rpcsim.FakeWriter(lambda data: reader.feed_data(pending.pop(0)) if pending else reader.feed_eof())
                        c = rpcsim.async_client(reader, w, prov)
                        await asyncio.wait_for(c.bind(contexts()), 2)
                        got["bind"] = len(w.sent)
                        try:
                            await asyncio.wait_for(c.request(0, 0, marker), 2)
                        finally:
                            got["wire"] = w.sent[got["bind"]] if len(w.sent) > got["bind"] else None
                    try:
                        asyncio.run(drive_async()) if use_async else drive_sync()
                    except Exception:  # noqa  (an error — during bind or on the request — is a closed failure)
                        pass
                    ctx.count("request_after_bind:" + ("sent" if got["wire"] is not None else ("bind_error" if got["bind"] is None else "request_error")))
                    wire = got["wire"]
                    if wire is not None and (int.from_bytes(wire[10:12], "little") == 0 or marker in wire):
                        ctx.violation("after bind() on an authenticated client, a request goes out without security (no trailer / stub in clear)",
                                      {"provider_script": [(hx(t), d) for t, d in sc], "server_script": list(acks), "async": use_async, "scenario": "request_after_bind",
                                       "context_complete": bool(prov.ctx.complete)}, hx(wire)[:120], "a sealed request, or an error")
                        return



def two_clients(ctx):
    """what one connection negotiates is its own: two authenticated clients alive at once whose servers differ in header-signing support,
    their handshakes in either order / interleaved — each ends up using header signing exactly when ITS server advertised it, and the
    alter_context of each carries the flag its own exchange calls for (sync objects; async on one loop)"""
    alpha = server_alphabet(ctx.rng)
    sc = [(b"c1", False), (b"c2", True)]
    for order in ("A then B", "B then A", "interleaved"):
        for use_async in (False, True):
            pa, pb = rpcfmt.ScriptedProvider(script=list(sc)), rpcfmt.ScriptedProvider(script=list(sc))
            ra = [alpha["ackAA1t"](0), alpha["ackAA1t"](1)]          # server A advertises header signing on every leg
            rb = [alpha["ackAA0t"](0), alpha["ackAA0t"](1)]          # server B never does
            res = {}
            if not use_async:
                sa, sb = rpcsim.FakeSocket(replies=list(ra)), rpcsim.FakeSocket(replies=list(rb))
                ca, cb = rpcsim.sync_client(sa, pa), rpcsim.sync_client(sb, pb)
                try:
                    if order == "interleaved":
                        # B's whole handshake runs between A's first and second leg (inside A's socket)
                        orig = sa.sendall
                        st = {"n": 0}

                        def hooked(data):
                            st["n"] += 1
                            if st["n"] == 2:
                                cb.bind(contexts())
                            return orig(data)
                        sa.sendall = hooked
                        ca.bind(contexts())
                    elif order == "A then B":
                        ca.bind(contexts()); cb.bind(contexts())
                    else:
                        cb.bind(contexts()); ca.bind(contexts())
                    res = {"A": bool(ca._sign_header), "B": bool(cb._sign_header)}
                except Exception as e:  # noqa
                    res = {"error": canon_exc(e)}
            else:
                async def go():
                    xa, xb = asyncio.StreamReader(), asyncio.StreamReader()
                    qa, qb = list(ra), list(rb)
                    ca = rpcsim.async_client(xa, rpcsim.FakeWriter(lambda d: xa.feed_data(qa.pop(0)) if qa else xa.feed_eof()), pa)
                    cb = rpcsim.async_client(xb, rpcsim.FakeWriter(lambda d: xb.feed_data(qb.pop(0)) if qb else xb.feed_eof()), pb)
                    if order == "interleaved":
                        await asyncio.gather(ca.bind(contexts()), cb.bind(contexts()))
                    elif order == "A then B":
                        await ca.bind(contexts()); await cb.bind(contexts())
                    else:
                        await cb.bind(contexts()); await ca.bind(contexts())
                    return {"A": bool(ca._sign_header), "B": bool(cb._sign_header)}
                try:
                    res = asyncio.run(go())
                except Exception as e:  # noqa
                    res = {"error": canon_exc(e)}
            ctx.count("two_clients:" + order)
            if res != {"A": True, "B": False}:
                ctx.violation("header signing of one connection follows what ANOTHER connection negotiated", {"scenario": "two_clients", "order": order, "async": use_async},
                              str(res), "{'A': True, 'B': False}")
                return



def requests_keep_negotiation(ctx):
    """what the handshake negotiated holds for the life of the connection: after a bind in which both sides advertised header signing (or the
    server did not), EVERY later request and reply on that client is wrapped / unwrapped with that same setting — a reply PDU's flags (where
    bit 0x04 means "cancel pending", not "header signing") do not renegotiate it (both clients, three requests)"""
    alpha = server_alphabet(ctx.rng)
    for sign in (True, False):
        for resp_flags in (3, 3 | 4):
            for use_async in (False, True):
                acks = [alpha["ackAA1t" if sign else "ackAA0t"](0), alpha["ackAA1t" if sign else "ackAA0t"](1)]
                prov = rpcfmt.ScriptedProvider(script=[(b"c1", False), (b"c2", True)])
                replies = list(acks) + [rpcsim.sealed_response(bytes([i]) * 20, 16, sign, flags=resp_flags)[0] for i in range(3)]
                res = {"err": None}

                def drive_sync():
                    sock = rpcsim.FakeSocket(replies=list(replies))
                    c = rpcsim.sync_client(sock, prov)
                    c.bind(contexts())
                    for i in range(3):
                        c.request(0, 0, bytes([65 + i]) * 9)

                async def drive_async():
                    reader = asyncio.StreamReader()
                    pending = list(replies)
                    w = rpcsim.FakeWriter(lambda data: reader.feed_data(pending.pop(0)) if pending else reader.feed_eof())
                    c = rpcsim.async_client(reader, w, prov)
                    await asyncio.wait_for(c.bind(contexts()), 2)
                    for i in range(3):
                        await asyncio.wait_for(c.request(0, 0, bytes([65 + i]) * 9), 2)
                try:
                    asyncio.run(drive_async()) if use_async else drive_sync()
                except Exception as e:  # noqa
                    res["err"] = canon_exc(e)
                ctx.count("requests_keep_negotiation")
                got = [bool(w_[3]) for w_ in prov.wrap_calls] + [bool(u_[4]) for u_ in prov.unwrap_calls]
                inp = {"scenario": "requests_keep_negotiation", "negotiated_header_signing": sign, "reply_flags": resp_flags, "async": use_async}
                if res["err"] is not None or got != [sign] * 6:
                    ctx.violation("header signing negotiated at bind time is not what later requests / replies on the connection are protected with",
                                  inp, f"error={res['err']} wrap/unwrap sign_header={got}", f"three requests and replies, all {sign}")
                    return


def downgraded_reply(ctx):
    """the negotiated setting also binds what is ACCEPTED: with header signing negotiated, a reply protected without it (signature over the
    stub alone — what a reply with a tampered header looks like) is rejected, and does not switch the connection over; and the other way
    round (three requests, the second reply protected the other way; both clients)"""
    alpha = server_alphabet(ctx.rng)
    for sign in (True, False):
        for use_async in (False, True):
            acks = [alpha["ackAA1t" if sign else "ackAA0t"](0), alpha["ackAA1t" if sign else "ackAA0t"](1)]
            prov = rpcfmt.ScriptedProvider(script=[(b"c1", False), (b"c2", True)])
            replies = list(acks) + [rpcsim.sealed_response(bytes([i]) * 20, 16, sign if i != 1 else not sign)[0] for i in range(3)]
            outcomes = []

            def drive_sync():
                sock = rpcsim.FakeSocket(replies=list(replies))
                c = rpcsim.sync_client(sock, prov)
                c.bind(contexts())
                for i in range(3):
                    try:
                        c.request(0, 0, bytes([65 + i]) * 9)
                        outcomes.append("ok")
                    except Exception as e:  # noqa
                        outcomes.append("err " + canon_exc(e))

            async def drive_async():
                reader = asyncio.StreamReader()
                pending = list(replies)
                w = rpcsim.FakeWriter(lambda data: reader.feed_data(pending.pop(0)) if pending else reader.feed_eof())
                c = rpcsim.async_client(reader, w, prov)
                await asyncio.wait_for(c.bind(contexts()), 2)
                for i in range(3):
                    try:
                        await asyncio.wait_for(c.request(0, 0, bytes([65 + i]) * 9), 2)
                        outcomes.append("ok")
                    except Exception as e:  # noqa
                        outcomes.append("err " + canon_exc(e))
            try:
                asyncio.run(drive_async()) if use_async else drive_sync()
            except Exception as e:  # noqa
                outcomes.append("bind err " + canon_exc(e))
            ctx.count("downgraded_reply")
            got = [bool(w_[3]) for w_ in prov.wrap_calls] + [bool(u_[4]) for u_ in prov.unwrap_calls]
            inp = {"scenario": "downgraded_reply", "negotiated_header_signing": sign, "second_reply_header_signed": not sign, "async": use_async}
            if len(outcomes) != 3 or outcomes[0] != "ok" or not outcomes[1].startswith("err") or outcomes[2] != "ok" or any(g != sign for g in got):
                ctx.violation("a reply protected with the other header-signing setting than the one negotiated at bind time is accepted, or switches the connection over",
                              inp, f"outcomes={outcomes} wrap/unwrap sign_header={got}", f"['ok', 'err …', 'ok'], every wrap / unwrap with sign_header={sign}")
                return


def run(ctx):
    from dpapi_ng import _client as cl
    from dpapi_ng._rpc import _pdu
    prelude.validate(ctx)
    rng = ctx.rng
    alpha = server_alphabet(rng)
    names = sorted(alpha)
    cases = []
    core = ["ackAA1t", "ackAA0t", "ackAA1n", "ackAR1t", "ackRA0t", "ackN1t", "ackE1t", "nak", "fault", "faultDNE", "resp", "eof", "wrongack"]
    scripts = [[(b"c1", True)], [(b"c1", False), (b"c2", True)], [(b"c1", False), (b"c2", False), (b"c3", True)], [(b"c1", False), (b"c2", False), (b"", True)],
               [(b"c1", False), (b"", False)], [(b"c1", False), (b"c2", False), (b"c3", False), (b"c4", True)], [(b"c1", False), (b"c2", False)], [(b"", True)],
               # tokens of a different length on every leg (NTLM / Kerberos tokens are): each PDU must be framed for ITS token
               [(b"A" * 40, False), (b"B" * 24, False), (b"C" * 57, False), (b"D" * 12, True)], [(b"a" * 5, False), (b"b" * 33, False), (b"c" * 4, True)]]
    depth = 4 if ctx.thorough else 3
    ctxs_line = jo((rpcfmt.ctxel(c) for c in contexts()), "|")
    combos = []
    for sc in scripts:
        for d in range(1, depth + 1):
            for srv in itertools.product(core if d <= 2 or ctx.thorough else core[:8], repeat=d):
                if d == depth and not ctx.thorough and rng.random() > 0.25:
                    continue
                combos.append((sc, srv, True))
    for srv in itertools.product(names, repeat=1):
        combos.append(([], srv, False))
        combos.append(([(b"c1", False), (b"c2", True)], srv + ("ackAA1t",), True))
    for sc, srv, use_auth in combos:
        use_async = rng.random() < 0.2
        c, prov, sent, out, ack, replies = run_bind(sc, [alpha[s] for s in srv], use_auth, use_async)
        ev = events_of(sent, prov)
        line = f"bind {'10.16' if use_auth else 'none'} {jo((f'{hx(t)}:{int(d)}' for t, d in sc), ',')} {ctxs_line} {jo((hx(r_) for r_ in replies if r_ is not None), ',')}"
        # replies after an EOF are unreachable; the model's server list simply ends there
        if None in replies:
            k = replies.index(None)
            line = f"bind {'10.16' if use_auth else 'none'} {jo((f'{hx(t)}:{int(d)}' for t, d in sc), ',')} {ctxs_line} {jo((hx(r_) for r_ in replies[:k]), ',')}"
        sh = int(bool(c._sign_header))
        impl_out = out
        if out.startswith("err ") and out[4:] in ("IncompleteReadError", "ConnectionError"):
            impl_out = "err ConnectionError"
        cases.append((line, f"{show_events(ev)} {sh} {impl_out}"))
        ctx.count(f"legs:{len(sc)}")
        ctx.count("outcome:" + out.split(" ")[0])
        # ---- direct oracle (property statement) -------------------------------------------------------------
        inp = {"provider_script": [(hx(t), d) for t, d in sc], "server_script": list(srv), "async": use_async}
        if use_auth:
            toks = [t for (_, _, t, _, _) in ev if t is not None]
            produced = []
            for (t, d) in sc[:len(prov.fed)]:
                produced.append(t)
            nonempty = [t for t in produced if t]
            if toks != nonempty[:len(toks)] or (out.startswith("ok") and toks != nonempty):
                ctx.violation("provider tokens are not each sent exactly once and in order", inp, [hx(t) for t in toks], [hx(t) for t in nonempty])
            # framing of every PDU sent, read straight from the wire octets (C706 12.6: frag_len at 8, auth_len at 10; the security
            # trailer's 8-octet header precedes the token): the token must be the trailing auth_len octets of a frag_len-octet PDU
            for i, raw in enumerate(sent):
                if i < len(nonempty):
                    fl_, al_ = int.from_bytes(raw[8:10], "little"), int.from_bytes(raw[10:12], "little")
                    if fl_ != len(raw) or al_ != len(nonempty[i]) or bytes(raw[len(raw) - al_:]) != nonempty[i] or raw[len(raw) - al_ - 8] != 10:
                        ctx.violation("a handshake PDU is not framed for the token it carries (frag_len / auth_len / trailer position)", inp,
                                      f"pdu {i}: frag_len={fl_} auth_len={al_} wire={len(raw)} octets", f"frag_len={len(raw)} auth_len={len(nonempty[i])}, token last")
                        break
            for i, (pt, fl, t, ids, fed) in enumerate(e for e in ev if e[0] != 255):
                if (i == 0) != (pt == 11) or (i > 0 and pt != 14):
                    ctx.violation("first token not in a bind / later token not in an alter_context", inp, pt, "11 then 14")
            # tokens fed: None first, then the server's tokens in order (absent → b"")
            srv_toks = []
            for r_ in replies:
                if r_ is None:
                    break
                try:
                    p = _pdu.PDU.unpack(r_)
                    srv_toks.append(p.sec_trailer.auth_value if getattr(p, "sec_trailer", None) else b"")
                except Exception:  # noqa
                    break
            want_fed = [None] + srv_toks
            if prov.fed != want_fed[:len(prov.fed)]:
                ctx.violation("server tokens are not fed back in order", inp, [None if f is None else hx(f) for f in prov.fed], [None if f is None else hx(f) for f in want_fed])
            # … for as long as the security context is incomplete: a bind that returns has a complete context
            if out.startswith("ok") and not prov.ctx.complete and all(produced):      # (an empty token ends the loop by design)
                ctx.violation("bind() returns although the security context is still incomplete (its remaining tokens were never sent)", inp,
                              f"{len(prov.fed)} step(s), complete={prov.ctx.complete}", "stepped until complete")
            # stops when complete
            done_at = next((i for i, (_, d) in enumerate(sc) if d), None)
            if done_at is not None and len(prov.fed) > done_at + 1:
                ctx.violation("the client keeps stepping the security context after it is complete", inp, len(prov.fed), done_at + 1)
        # rejections surface
        for i, s in enumerate(srv[:len(sent)]):
            # an alter_context_resp answering a bind carries the same fields as a bind_ack and is processed as one
            # (subclass); only the reverse — a bind_ack answering an alter_context — is an unexpected type
            if (s in ("nak", "fault", "faultDNE", "resp", "eof") or (s == "wrongack" and i > 0)) and not out.startswith("err "):
                ctx.violation("a rejection / unexpected reply during binding is ignored", inp, out[:80], "error")
                break
        if out.startswith("ok") and use_auth:
            acks = [_pdu.PDU.unpack(r_) for r_ in replies[:len(sent)]]
            want_sign = all(int(a.header.packet_flags) & 4 for a in acks)
            if bool(c._sign_header) != want_sign:
                ctx.violation("header signing is not used exactly when both sides advertised it", inp, bool(c._sign_header), want_sign)
        # request only on an accepted context
        if ack is not None:
            for desired in (0, 1):
                try:
                    cl._process_bind_result(contexts(), ack, desired)
                    r_ = "ok accepted"
                except Exception as e:  # noqa
                    r_ = "err " + canon_exc(e)
                cases.append((f"bindresult {ctxs_line} {desired} {rpcfmt.pdu(ack)}", r_))
                accepted = desired < len(ack.results) and int(ack.results[desired].result) == 0
                if (r_ == "ok accepted") != accepted and r_ != "err IndexError":
                    ctx.violation("_process_bind_result does not accept exactly the contexts the server accepted", {"results": [int(x.result) for x in ack.results], "desired": desired}, r_, accepted)
                # the verdict on the offered contexts is the one in the server's bind_ack — the FIRST reply on the wire — whatever
                # later legs carried and whatever object bind() hands back
                if out.startswith("ok") and replies and replies[0] is not None:
                    first = _pdu.PDU.unpack(replies[0])
                    if not hasattr(first, "results"):
                        continue        # (bind() returned although the first reply was no bind_ack: reported by the rejection oracle above)
                    acc0 = desired < len(first.results) and int(first.results[desired].result) == 0
                    if r_ == "ok accepted" and not acc0:
                        ctx.violation("a request would be issued on a presentation context the server's bind_ack did not accept",
                                      {**inp, "bind_ack_results": [int(x.result) for x in first.results], "desired": desired}, r_, "error")
    for i in range(0, len(cases), 3000):
        ctx.compare_batch(cases[i:i + 3000], nontrivial=lambda line, impl: True)
    request_after_bind(ctx)
    two_clients(ctx)
    requests_keep_negotiation(ctx)
    downgraded_reply(ctx)


def search(ctx, broken, disagreements):
    pass


def replay(ctx, payload):
    print("recorded input:", payload["violation"]["input"])
    c2 = type(ctx)(ctx.prop, "quick", ctx.seed)
    run(c2)
    return not c2.violations
