"""C16 — key material is accepted only from replies sealed by the security context."""
from __future__ import annotations
import asyncio
import prelude, rpcfmt, rpcsim
from check import canon_exc, hx

MANIFEST = {
    "text": "Lean theorems: sealed_only (on a sealed request, a returned response's stub is exactly what the security context's unwrap produced from header / body / trailer-header / signature taken at the offsets frag_len and auth_len dictate), cleartext_rejected (a response with auth_len 0 to a sealed request is an error — the D11 repair), tamper_rejected (under the idealisation that unwrap verifies what the peer sealed — over header and trailer too when signing — any alteration of body, signature, or signed header/trailer is an error); the trailer-offset and encrypt-offset kernels are regenerated from source; SyncRpcClient.request / AsyncRpcClient.request are tied to the model by correspondence with a scripted provider over authentic replies and every alteration (trailer removed, each bit of body / signature / header / trailer, pad_length, frag_len / auth_len changes, replayed reply); thorough tier repeats the alterations against a real NTLM security context from pyspnego",
    "note": "Trusted: Lean kernel; model (differential tie + kernels); the integrity of the security context (unwrap verifies) is a premise about pyspnego / NTLM / Kerberos, never a conclusion — partial in that respect; Kerberos / Negotiate are not run (no KDC in the sandbox)",
    "technique": "Lean 4 proof (decision logic + dataflow under an explicit idealisation) + kernel extraction + alteration correspondence",
}
THEOREMS = ["DpapiNg.C16.cleartext_rejected", "DpapiNg.C16.sealed_only", "DpapiNg.C16.tamper_rejected"]
RULE = ("authentic sealed replies (stub lengths 0..80, signature sizes {16,28,60,76}, header signing on/off) and all alterations: security trailer removed (auth_len 0, with and without the "
        "trailer bytes), every single-bit flip of header / body / trailer header / signature, pad_length and frag_len / auth_len changes, truncation, replay of a previous reply, "
        "a fault / bind_ack in place of the response; sync and async; distinct by op line")
ASSUMPTIONS = ["A.Ideal: unwrap succeeds only on what the peer's context sealed (over header | body | trailer when signing)"]


def do_request(reply, header_len, sign, use_async, req_stub=b"\x01" * 12):
    auth = rpcfmt.ScriptedProvider(header_len=header_len)
    if use_async:
        async def go():
            reader = asyncio.StreamReader()
            reader.feed_data(reply)
            reader.feed_eof()
            c = rpcsim.async_client(reader, rpcsim.FakeWriter(), auth)
            c._sign_header = sign
            return await c.request(0, 0, req_stub)
        f = lambda: asyncio.run(go())
    else:
        sock = rpcsim.FakeSocket(replies=[reply])
        c = rpcsim.sync_client(sock, auth)
        c._sign_header = sign
        f = lambda: c.request(0, 0, req_stub)
    try:
        resp = f()
        return "ok " + rpcfmt.pdu(resp), resp, auth
    except Exception as e:  # noqa
        k = canon_exc(e)
        return "err " + ("ConnectionError" if k in ("IncompleteReadError", "ConnectionError") else k), None, auth


def alterations(rng, wire, header_len, thorough):
    n = len(wire)
    tr = n - header_len - 8
    out = [("authentic", wire)]
    # security trailer removed: auth_len := 0 (trailer bytes kept / dropped)
    m = bytearray(wire); m[10:12] = b"\x00\x00"; out.append(("auth_len=0 keep bytes", bytes(m)))
    m = bytearray(wire[:tr]); m[10:12] = b"\x00\x00"; m[8:10] = len(m).to_bytes(2, "little"); out.append(("trailer removed", bytes(m)))
    bits = range(n * 8) if thorough or n < 120 else sorted(set(rng.randrange(n * 8) for _ in range(300)) | set(range(0, 24 * 8)) | set(range(tr * 8, n * 8, 3)))
    for i in bits:
        out.append((f"bitflip@{i // 8}", wire[:i // 8] + bytes([wire[i // 8] ^ (1 << (i % 8))]) + wire[i // 8 + 1:]))
    for pad in range(16):
        m = bytearray(wire); m[tr + 2] = pad; out.append((f"pad_length={pad}", bytes(m)))
    for d in (-9, -8, -1, 1, 8, 100):
        m = bytearray(wire); v = int.from_bytes(m[10:12], "little") + d
        if 0 <= v < 65536:
            m[10:12] = v.to_bytes(2, "little"); out.append((f"auth_len{d:+d}", bytes(m)))
        m = bytearray(wire); v = int.from_bytes(m[8:10], "little") + d
        if 16 <= v <= n:
            m[8:10] = v.to_bytes(2, "little"); out.append((f"frag_len{d:+d}", bytes(m[:v])))
    # a cleartext RESPONSE forged by an on-path party: attacker's stub, a copied security trailer header, k bytes of junk as the token
    for k in list(range(0, 18)) + [header_len - 1, header_len, header_len + 1]:
        for body in (b"ATTACKER-STUB-16", b"", b"evil"):
            trailer = bytearray(wire[tr:tr + 8]); trailer[2] = 0
            m = bytearray(wire[:24]) + body + (bytes(trailer) + bytes([0xA5]) * k if k or body == b"evil" else b"")
            m[8:10] = len(m).to_bytes(2, "little"); m[10:12] = k.to_bytes(2, "little")
            out.append((f"forged cleartext auth_len={k}", bytes(m)))
    # … and with every authentication level / type value in the copied trailer (the reply claims a weaker protection level)
    for level in range(0, 8):
        for body in (b"ATTACKER-STUB-16", wire[24:tr]):
            trailer = bytearray(wire[tr:tr + 8]); trailer[1] = level
            m = bytearray(wire[:24]) + body + bytes(trailer) + (bytes([0xA5]) * header_len if body != wire[24:tr] else wire[tr + 8:])
            m[8:10] = len(m).to_bytes(2, "little"); m[10:12] = header_len.to_bytes(2, "little")
            out.append((f"trailer auth_level={level}" + (" forged cleartext" if body != wire[24:tr] else ""), bytes(m)))
    for i in range(tr * 8, (tr + 8) * 8):     # every bit of the security trailer header, always
        out.append((f"bitflip@{i // 8}", wire[:i // 8] + bytes([wire[i // 8] ^ (1 << (i % 8))]) + wire[i // 8 + 1:]))
    for c in (16, 23, 24, 25, tr, tr + 7, tr + 8, n - 1):
        if 16 <= c < n:
            m = bytearray(wire[:c]); m[8:10] = c.to_bytes(2, "little"); out.append((f"truncated@{c}", bytes(m)))
    return out


def run(ctx):
    from dpapi_ng import _rpc as r
    from dpapi_ng._rpc import _pdu, _bind
    prelude.validate(ctx)
    rng = ctx.rng
    cases = []
    configs = [(hl, sign) for hl in (16, 28, 60, 76) for sign in (False, True)]
    for (hl, sign) in configs:
        stubs = [b"", b"K" * 7, bytes(range(48)), bytes(rng.randrange(256) for _ in range(rng.randrange(1, 80)))]
        prev_wire = None
        for stub in (stubs if ctx.thorough else stubs[1:3] if hl != 16 else stubs):
            wire, plain = rpcsim.sealed_response(stub, hl, sign)
            alts = alterations(rng, wire, hl, ctx.thorough)
            if prev_wire is not None:
                alts.append(("replay of a previous reply", prev_wire))
            other_sign, _ = rpcsim.sealed_response(stub, hl, not sign)
            alts.append(("sealed with the other header-signing setting", other_sign))
            alts.append(("fault instead", rpcfmt.finalize(_pdu.Fault(header=r.PDUHeader(5, 0, r.PacketType.FAULT, r.PacketFlags(3), r.DataRep(), 0, 0, 1), sec_trailer=None, alloc_hint=0, context_id=0,
                                                                 cancel_count=0, status=5, flags=_pdu.FaultFlags(0), stub_data=b""))))
            prev_wire = wire
            for kind, m in alts:
                use_async = rng.random() < 0.15
                # the request that the reply answers: usually a 12-octet stub, sometimes one with NO input parameters at all (still sealed)
                req_stub = b"" if (kind in ("authentic", "auth_len=0 keep bytes", "trailer removed") or rng.random() < 0.1) and rng.random() < 0.5 else b"\x01" * 12
                out, resp, auth = do_request(m, hl, sign, use_async, req_stub)
                ctx.count("request_stub:" + ("empty" if not req_stub else "12"))
                tr = int.from_bytes(m[8:10], "little") - (int.from_bytes(m[10:12], "little") + 8)
                line = f"process_response 10.{hl} {int(sign)} {hx(m)} response 24.{24 + (len(req_stub) + 15) // 16 * 16}"
                # the transport part (frag_len beyond the data etc.) is C14's; only complete frames reach _process_response
                frag = int.from_bytes(m[8:10], "little")
                if frag == len(m) and len(m) >= 16:
                    cases.append((line, out))
                ctx.count("alteration:" + kind.split("@")[0].split("=")[0])
                # ---- direct oracle ----------------------------------------------------------------------
                if out.startswith("ok "):
                    got = resp.stub_data
                    if kind == "replay of a previous reply":
                        ctx.count("replay_accepted (same session key, no sequence numbers in the toy context)")
                        continue
                    if got != plain:
                        ctx.violation("a reply that is not the authentic sealed reply is returned to the caller", {"alteration": kind, "header_len": hl, "sign": sign, "wire": hx(m)}, hx(got)[:80], "error, or the sealed plaintext")
                    if not auth.unwrap_calls:
                        ctx.violation("a response is returned without the security context having unwrapped it", {"alteration": kind, "header_len": hl, "sign": sign, "wire": hx(m)}, "unwrap not called", "unwrap called")
                    elif m != wire and kind not in ("authentic",) and not kind.startswith(("pad_length", "bitflip")):
                        pass
                    if m != wire:
                        # an altered frame may only be accepted if the alteration lies outside everything that is protected
                        i = next(j for j in range(min(len(m), len(wire))) if m[j] != wire[j]) if len(m) == len(wire) else -1
                        protected = (24 <= i < len(wire)) and not (tr <= i < tr + 8) or (sign and (i < 24 or tr <= i < tr + 8))
                        if i == -1 or protected:
                            ctx.violation("an altered reply is accepted although the altered byte is covered by the seal", {"alteration": kind, "header_len": hl, "sign": sign, "wire": hx(m)}, "accepted", "rejected")
                        else:
                            ctx.count("accepted_alteration_outside_protection (header/trailer unsigned)")
    for i in range(0, len(cases), 3000):
        ctx.compare_batch(cases[i:i + 3000], nontrivial=lambda line, impl: True)
    # a real NTLM security context from pyspnego, created by the library's own AuthenticationProvider (so with the context
    # requirements the library asks for): quick = a sample of the alterations, thorough = 400 per signing mode
    real_ntlm(ctx)
    stripped_handshakes(ctx)
    fragments(ctx)
    after_rejection(ctx)
    downgraded_context(ctx)
    any_port(ctx)
    auth_failure_no_fallback(ctx)


def pick(alts, k):
    """the first alterations of every kind, then an even spread over the rest"""
    if len(alts) <= k:
        return alts
    head = alts[:k // 3]
    rest = alts[k // 3:]
    step = max(1, len(rest) // (k - len(head)))
    return head + rest[::step][:k - len(head)]


def stripped_handshakes(ctx):
    """a party WITHOUT the session key answers the authenticated bind: acks with or without tokens / security trailers, then a CLEARTEXT
    response carrying a stub of its choice.  Whatever the handshake makes of it, request() must never hand that stub to the caller
    (both clients; provider scripts of 1..3 legs)."""
    import itertools
    from props import c15
    from dpapi_ng import _rpc as r
    from dpapi_ng._rpc import _request
    alpha = c15.server_alphabet(ctx.rng)
    evil = b"KEY MATERIAL CHOSEN BY THE ADVERSARY"
    clear = rpcfmt.finalize(_request.Response(header=r.PDUHeader(5, 0, r.PacketType.RESPONSE, r.PacketFlags(3), r.DataRep(), 0, 0, 1), sec_trailer=None,
                                               alloc_hint=len(evil), context_id=0, cancel_count=0, stub_data=evil))
    provider_scripts = [[(b"c1", True)], [(b"c1", False), (b"c2", True)], [(b"c1", False), (b"c2", False), (b"c3", True)]]
    ack_names = ["ackAA1n", "ackAA0n", "ackAA1t", "ackAA0t"]
    for sc in provider_scripts:
        for k in (1, 2, 3):
            for acks in itertools.product(ack_names, repeat=k):
                if k == 3 and ctx.rng.random() > 0.3 and not ctx.thorough:
                    continue
                for use_async in (False, True):
                    replies = [alpha[a](i) for i, a in enumerate(acks)] + [clear, clear]
                    prov = rpcfmt.ScriptedProvider(script=list(sc))
                    got = {"stub": None, "bind": None}

                    def drive_sync():
                        sock = rpcsim.FakeSocket(replies=list(replies))
                        c = rpcsim.sync_client(sock, prov)
                        c.bind(c15.contexts())
                        got["bind"] = "ok"
                        got["stub"] = bytes(c.request(0, 0, b"getkey stub").stub_data)

                    async def drive_async():
                        reader = asyncio.StreamReader()
                        pending = list(replies)

                        def on_write(data):
                            if pending:
                                reader.feed_data(pending.pop(0))
                            else:
                                reader.feed_eof()
                        c = rpcsim.async_client(reader, rpcsim.FakeWriter(on_write), prov)
                        await asyncio.wait_for(c.bind(c15.contexts()), 2)
                        got["bind"] = "ok"
                        got["stub"] = bytes((await asyncio.wait_for(c.request(0, 0, b"getkey stub"), 2)).stub_data)
                    try:
                        asyncio.run(drive_async()) if use_async else drive_sync()
                    except Exception:  # noqa  (any error is the right outcome)
                        pass
                    ctx.count("stripped_handshake:" + ("bind_ok" if got["bind"] else "bind_error"))
                    if got["stub"] is not None and evil in got["stub"]:
                        ctx.violation("a stub chosen by a party without the session key is returned on an authenticated connection",
                                      {"provider_script": [(hx(t), d) for t, d in sc], "server_script": list(acks) + ["cleartext response"], "async": use_async, "scenario": "stripped_handshakes"},
                                      hx(got["stub"])[:60], "error")
                        return



def fragments(ctx):
    """replies in several PDUs: an authentic sealed response whose flags do not say "last fragment", followed by PDUs from a party WITHOUT
    the session key (cleartext responses carrying a stub of its choice, with / without fragment flags, same call id).  Whatever the client
    makes of fragment flags, no octet of the unauthenticated PDUs may reach the caller."""
    from dpapi_ng import _rpc as r
    from dpapi_ng._rpc import _request
    evil = b"KEY MATERIAL CHOSEN BY THE ADVERSARY"

    def clear(flags, stub=evil):
        return rpcfmt.finalize(_request.Response(header=r.PDUHeader(5, 0, r.PacketType.RESPONSE, r.PacketFlags(flags), r.DataRep(), 0, 0, 1), sec_trailer=None,
                                                 alloc_hint=len(stub), context_id=0, cancel_count=0, stub_data=stub))
    genuine = bytes(range(48))
    for header_len in (16, 28):
        for sign in (False, True):
            for first_flags in (1, 0):                       # PFC_FIRST_FRAG only / no fragment flags at all
                for tail in ([clear(2)], [clear(0), clear(2)], [clear(3)], [clear(2, evil + bytes(12))],
                             ["sealed-mid", clear(2)]):
                    for use_async in (False, True):
                        first, _ = rpcsim.sealed_response(genuine, header_len, sign, flags=first_flags)
                        seq = [first]
                        for t in tail:
                            seq.append(rpcsim.sealed_response(genuine[:16], header_len, sign, flags=0)[0] if t == "sealed-mid" else t)
                        wire = b"".join(seq)
                        out, resp, auth = do_request(wire, header_len, sign, use_async)
                        ctx.count("fragmented_reply:" + ("returned" if resp is not None else "error"))
                        if resp is not None and evil in bytes(resp.stub_data):
                            ctx.violation("octets of an unauthenticated continuation PDU are returned on an authenticated connection",
                                          {"scenario": "fragments", "wire": hx(wire), "header_len": header_len, "sign": sign, "async": use_async,
                                           "first_fragment_flags": first_flags, "following_pdus": len(tail)}, hx(bytes(resp.stub_data))[:120], "only octets the security context unwrapped (or an error)")
                            return



def after_rejection(ctx):
    """a connection that has just rejected a reply (bad signature, wrong trailer, cleartext) is still an authenticated connection: the next
    request on the SAME client object must again go out sealed, and a cleartext reply to it must again be refused — whatever the error
    path did to the client's state (both clients)"""
    from dpapi_ng import _rpc as r
    from dpapi_ng._rpc import _request
    evil = b"KEY MATERIAL CHOSEN BY THE ADVERSARY"
    clear = rpcfmt.finalize(_request.Response(header=r.PDUHeader(5, 0, r.PacketType.RESPONSE, r.PacketFlags(3), r.DataRep(), 0, 0, 2), sec_trailer=None,
                                               alloc_hint=len(evil), context_id=0, cancel_count=0, stub_data=evil))
    clear1 = clear[:12] + (1).to_bytes(4, "little") + clear[16:]
    for header_len in (16, 28):
        for sign in (False, True):
            good, _ = rpcsim.sealed_response(bytes(range(32)), header_len, sign)
            bad_kinds = {"bit flipped in the body": good[:30] + bytes([good[30] ^ 1]) + good[31:],
                         "bit flipped in the signature": good[:-1] + bytes([good[-1] ^ 0x80]),
                         "cleartext": clear1}
            for kind, first in bad_kinds.items():
                for second_call_id in (2, 1):
                    second = clear if second_call_id == 2 else clear1
                    for use_async in (False, True):
                        auth = rpcfmt.ScriptedProvider(header_len=header_len)
                        got = {"first": None, "second": None, "wire2": None}

                        def drive_sync():
                            sock = rpcsim.FakeSocket(replies=[first, second])
                            c = rpcsim.sync_client(sock, auth)
                            c._sign_header = sign
                            try:
                                got["first"] = bytes(c.request(0, 0, b"one").stub_data)
                            except Exception as e:  # noqa
                                got["first"] = "err " + canon_exc(e)
                            try:
                                got["second"] = bytes(c.request(0, 0, b"SECRET REQUEST STUB").stub_data)
                            finally:
                                got["wire2"] = sock.sent[-1] if len(sock.sent) > 1 else None

                        async def drive_async():
                            reader = asyncio.StreamReader()
                            pending = [first, second]
                            w = rpcsim.FakeWriter(lambda data: reader.feed_data(pending.pop(0)) if pending else reader.feed_eof())
                            c = rpcsim.async_client(reader, w, auth)
                            c._sign_header = sign
                            try:
                                got["first"] = bytes((await asyncio.wait_for(c.request(0, 0, b"one"), 2)).stub_data)
                            except Exception as e:  # noqa
                                got["first"] = "err " + canon_exc(e)
                            try:
                                got["second"] = bytes((await asyncio.wait_for(c.request(0, 0, b"SECRET REQUEST STUB"), 2)).stub_data)
                            finally:
                                got["wire2"] = w.sent[-1] if len(w.sent) > 1 else None
                        try:
                            asyncio.run(drive_async()) if use_async else drive_sync()
                        except Exception:  # noqa  (an error on the second request is the right outcome)
                            pass
                        ctx.count("after_rejection:" + kind)
                        inp = {"scenario": "after_rejection", "first_reply": kind, "header_len": header_len, "sign": sign, "async": use_async}
                        if isinstance(got["second"], bytes) and evil in got["second"]:
                            ctx.violation("after a rejected reply, a stub chosen by a party without the session key is returned on the same authenticated connection",
                                          inp, hx(got["second"])[:80], "error")
                            return
                        if got["wire2"] is not None and b"SECRET REQUEST STUB" in got["wire2"]:
                            ctx.violation("after a rejected reply, the next request on the same authenticated connection goes out unsealed", inp, hx(got["wire2"])[:120], "a sealed request (or an error)")
                            return



def downgraded_context(ctx):
    """a handshake that COMPLETES but in which the peer (an impostor without the session key, clearing the NTLM SIGN / SEAL flags in its
    challenge) negotiated neither integrity nor confidentiality: the security context then cannot seal.  The client must fail closed — the
    request never goes out in clear, and a cleartext reply carrying a stub of the peer's choice is never returned (both clients)"""
    from props import c15
    from dpapi_ng import _rpc as r
    from dpapi_ng._rpc import _request
    alpha = c15.server_alphabet(ctx.rng)
    evil = b"KEY MATERIAL CHOSEN BY THE ADVERSARY"
    marker = b"GETKEY STUB THAT MUST BE SEALED"
    clear = rpcfmt.finalize(_request.Response(header=r.PDUHeader(5, 0, r.PacketType.RESPONSE, r.PacketFlags(3), r.DataRep(), 0, 0, 1), sec_trailer=None,
                                               alloc_hint=len(evil), context_id=0, cancel_count=0, stub_data=evil))
    for sc in ([(b"c1", True)], [(b"c1", False), (b"c2", True)], [(b"c1", False), (b"c2", False), (b"", True)]):
        for use_async in (False, True):
            acks = ["ackAA1t"] * len([t for t, _ in sc if t]) or ["ackAA1t"]
            replies = [alpha[a](i) for i, a in enumerate(acks)] + [clear]
            prov = rpcfmt.ScriptedProvider(script=list(sc), no_protection=True)
            got = {"stub": None, "wire": None, "n": None}

            def drive_sync():
                sock = rpcsim.FakeSocket(replies=list(replies))
                c = rpcsim.sync_client(sock, prov)
                c.bind(c15.contexts())
                got["n"] = len(sock.sent)
                try:
                    got["stub"] = bytes(c.request(0, 0, marker).stub_data)
                finally:
                    got["wire"] = sock.sent[got["n"]] if len(sock.sent) > got["n"] else None

            async def drive_async():
                reader = asyncio.StreamReader()
                pending = list(replies)
                w = rpcsim.FakeWriter(lambda data: reader.feed_data(pending.pop(0)) if pending else reader.feed_eof())
                c = rpcsim.async_client(reader, w, prov)
                await asyncio.wait_for(c.bind(c15.contexts()), 2)
                got["n"] = len(w.sent)
                try:
                    got["stub"] = bytes((await asyncio.wait_for(c.request(0, 0, marker), 2)).stub_data)
                finally:
                    got["wire"] = w.sent[got["n"]] if len(w.sent) > got["n"] else None
            try:
                asyncio.run(drive_async()) if use_async else drive_sync()
            except Exception:  # noqa  (failing is the right outcome)
                pass
            ctx.count("downgraded_context:" + ("bind_ok" if got["n"] is not None else "bind_error"))
            inp = {"scenario": "downgraded_context", "provider_script": [(hx(t), d) for t, d in sc], "async": use_async}
            if got["stub"] is not None and evil in got["stub"]:
                ctx.violation("a stub chosen by a party without the session key is returned after a handshake that negotiated no message protection", inp, hx(got["stub"])[:80], "error")
                return
            if got["wire"] is not None and marker in got["wire"]:
                ctx.violation("after a handshake that negotiated no message protection the request goes out in clear", inp, hx(got["wire"])[:120], "an error")
                return



def any_port(ctx):
    """the security of the GetKey connection must not depend on WHERE the (unauthenticated) endpoint mapper sent the client: connections made
    with credentials / an authentication protocol — to port 135, to a dynamic port, to anything — carry authentication in their bind, seal
    their request, and refuse a cleartext reply (create_rpc_connection and async_create_rpc_connection over a scripted network)"""
    import socket as _socket
    from props import c15
    from dpapi_ng._rpc import _client as rc, _auth
    from dpapi_ng import _rpc as r
    from dpapi_ng._rpc import _request
    alpha = c15.server_alphabet(ctx.rng)
    evil = b"KEY MATERIAL CHOSEN BY THE ADVERSARY"
    marker = b"GETKEY STUB THAT MUST BE SEALED"
    clear = rpcfmt.finalize(_request.Response(header=r.PDUHeader(5, 0, r.PacketType.RESPONSE, r.PacketFlags(3), r.DataRep(), 0, 0, 1), sec_trailer=None,
                                               alloc_hint=len(evil), context_id=0, cancel_count=0, stub_data=evil))
    saved = (rc.socket, rc.asyncio, _auth.spnego.client)
    for port in (135, 593, 49664, 1):
        for use_async in (False, True):
            owner = type("O", (), {"fed": [], "script": [(b"c1", True)], "header_len": 16, "wrap_calls": [], "unwrap_calls": []})()
            got = {"bind": None, "wire": None, "stub": None}
            replies = [alpha["ackAA1n"](0), clear]
            try:
                _auth.spnego.client = lambda *a, **kw: rpcfmt.ToyContext(owner)
                if not use_async:
                    sock = rpcsim.FakeSocket(replies=list(replies))
                    rc.socket = type("S", (), {"create_connection": staticmethod(lambda addr, timeout=None: sock), "SHUT_RDWR": 2, "MSG_PEEK": _socket.MSG_PEEK})
                    c = rc.create_rpc_connection("dc01", port, username="u", password="p", auth_protocol="ntlm")
                    try:
                        c.bind(c15.contexts())
                        got["bind"] = sock.sent[0]
                        got["stub"] = bytes(c.request(0, 0, marker).stub_data)
                    except Exception:  # noqa
                        pass
                    got["bind"] = got["bind"] or (sock.sent[0] if sock.sent else None)
                    got["wire"] = sock.sent[1] if len(sock.sent) > 1 else None
                else:
                    async def go():
                        reader = asyncio.StreamReader()
                        pending = list(replies)
                        w = rpcsim.FakeWriter(lambda data: reader.feed_data(pending.pop(0)) if pending else reader.feed_eof())

                        async def open_connection(host, port=None, **kw):
                            return reader, w
                        real_open = asyncio.open_connection
                        asyncio.open_connection = open_connection
                        try:
                            c = await rc.async_create_rpc_connection("dc01", port, username="u", password="p", auth_protocol="ntlm")
                            try:
                                await asyncio.wait_for(c.bind(c15.contexts()), 2)
                                got["stub"] = bytes((await asyncio.wait_for(c.request(0, 0, marker), 2)).stub_data)
                            except Exception:  # noqa
                                pass
                        finally:
                            asyncio.open_connection = real_open
                        got["bind"] = w.sent[0] if w.sent else None
                        got["wire"] = w.sent[1] if len(w.sent) > 1 else None
                    asyncio.run(go())
            except Exception as e:  # noqa
                ctx.notes.append(f"any_port: connection set-up raised {canon_exc(e)} (port {port})")
            finally:
                rc.socket, _auth.spnego.client = saved[0], saved[2]
            ctx.count(f"any_port:{port}")
            inp = {"scenario": "any_port", "port": port, "async": use_async}
            if got["bind"] is not None and int.from_bytes(got["bind"][10:12], "little") == 0:
                ctx.violation("a connection requested with an authentication protocol binds without authentication", inp, hx(got["bind"])[:80], "a bind carrying a security trailer")
                return
            if got["stub"] is not None and evil in got["stub"]:
                ctx.violation("a stub chosen by a party without the session key is returned on a connection requested with authentication", inp, hx(got["stub"])[:80], "error")
                return
            if got["wire"] is not None and marker in got["wire"]:
                ctx.violation("a request on a connection requested with authentication goes out in clear", inp, hx(got["wire"])[:100], "sealed")
                return


def auth_failure_no_fallback(ctx):
    """when the security context for the GetKey connection cannot be established — no usable credential, the mechanism refuses the peer's token,
    the logon is rejected (pyspnego raises a SpnegoError when the provider is created or during a leg of the handshake) — the call FAILS.
    It does not fall back to a connection without authentication, whose replies anyone on the path can write: against a DC that would answer
    an unauthenticated GetKey, no bind without a security trailer and no cleartext request reaches the ISD_KEY endpoint, and no key comes back
    (_sync_get_key and _async_get_key against the reference DC)"""
    import spnego.exceptions as se
    import dpapi_ng, dpapi_ng._client as c, dpapi_ng._rpc._client as rc
    import clientsim, refdc, refserver
    from props import c17
    rec = clientsim.standard_roots(real=True)[0]
    sd = dpapi_ng._blob.ProtectionDescriptor.parse("S-1-5-21-1-2-3-1104").get_target_sd()
    now = (361, 5, 7)
    for exc in (se.InvalidTokenError, se.NoCredentialError):
        for fail_at in ("create", "leg 1", "leg 2"):
            for use_async in (False, True):
                ks = refdc.KeyServer(now=now)
                ks.add_root(rec)
                dc = refserver.ReferenceDC(ks, require_privacy=False, acceptor_factory=lambda: refserver.ToyAcceptor(legs=2, header_len=16, support_header_sign=True))
                out = {"key": None, "err": None}
                with c17.online_world(dc, 2, 16, clientsim.time_ns_for(*now), ctx.rng, False):
                    scripted = rc.AuthenticationProvider

                    def failing(username, password, hostname, protocol):
                        if fail_at == "create":
                            raise exc(context_msg="scripted: no security context")
                        p = scripted(username, password, hostname, protocol)
                        real_step, n = p.step, [0]

                        def step(in_token=None):
                            n[0] += 1
                            if n[0] == int(fail_at[-1]):
                                raise exc(context_msg="scripted: the mechanism refused")
                            return real_step(in_token)
                        p.step = step
                        return p
                    rc.AuthenticationProvider = failing
                    try:
                        if use_async:
                            out["key"] = asyncio.run(asyncio.wait_for(c._async_get_key("dc01.domain.test", sd, None, -1, -1, -1, "u", "p", "ntlm"), 5))
                        else:
                            out["key"] = c._sync_get_key("dc01.domain.test", sd, None, -1, -1, -1, "u", "p", "ntlm")
                    except Exception as e:  # noqa  (failing is the right outcome)
                        out["err"] = canon_exc(e)
                    finally:
                        rc.AuthenticationProvider = scripted
                ctx.count("auth_failure_no_fallback:" + fail_at)
                inp = {"scenario": "auth_failure_no_fallback", "raised": exc.__name__, "at": fail_at, "async": use_async}
                isd = [k for k in dc.connections if k.port != 135]
                unauth = [(k.port, r_["type"]) for k in isd for r_ in k.pdus if r_["type"] in (0, 11, 14) and not r_["auth_len"]]
                if out["key"] is not None:
                    ctx.violation("a group key is returned although the security context could not be established", inp, "a key envelope", "an error")
                    return
                if unauth:
                    ctx.violation("after the security context failed, the client talks to the ISD_KEY endpoint without authentication", inp,
                                  f"unauthenticated PDUs (port, type) {unauth[:4]}", "an error and no unauthenticated bind / request")
                    return
                if out["err"] is None:
                    ctx.violation("no error although the security context could not be established", inp, "no error", "an error")
                    return


def real_ntlm(ctx):
    """the same alterations against a real NTLM security context pair from pyspnego (in-process)"""
    import os, tempfile, spnego
    from dpapi_ng._rpc._auth import AuthenticationProvider
    from dpapi_ng import _rpc as r
    from dpapi_ng._rpc import _request
    d = tempfile.mkdtemp()
    uf = os.path.join(d, "users")
    with open(uf, "w") as f:
        f.write("DOM:user:pass\n")
    os.environ["NTLM_USER_FILE"] = uf
    try:
        client = AuthenticationProvider("DOM\\user", "pass", "server", "ntlm")
        server = spnego.server(protocol="ntlm", context_req=spnego.ContextReq.default | spnego.ContextReq.dce_style)
        tok = client.step().auth_value
        while not (client.complete and server.complete):
            stok = server.step(tok)
            if client.complete:
                break
            tok = client.step(stok or b"").auth_value
            if not tok:
                break
        hl = client.ctx.query_message_sizes().header
        n = 0
        for sign in (True, False):
            stub = b"group key envelope bytes " * 3
            pad = (-len(stub)) % 16
            body = stub + b"\x00" * pad
            tr = r.SecTrailer(client.provider, r.AuthenticationLevel.RPC_C_AUTHN_LEVEL_PKT_PRIVACY, pad, 0, b"\x00" * hl)
            p = _request.Response(header=r.PDUHeader(5, 0, r.PacketType.RESPONSE, r.PacketFlags(3), r.DataRep(), 0, hl, 1), sec_trailer=tr, alloc_hint=len(body), context_id=0, cancel_count=0, stub_data=body)
            raw = bytearray(p.pack()); raw[8:10] = len(raw).to_bytes(2, "little")
            off = len(raw) - hl - 8
            import spnego.iov as iov
            sb = iov.BufferType.sign_only if sign else iov.BufferType.data_readonly
            res = server.wrap_iov([(sb, bytes(raw[:24])), bytes(raw[24:off]), (sb, bytes(raw[off:off + 8])), iov.BufferType.header], encrypt=True, qop=None)
            wire = bytes(raw[:24]) + res.buffers[1].data + bytes(raw[off:off + 8]) + res.buffers[3].data
            # NTLM sealing is stateful (sequence numbers): use a fresh client copy per attempt is impossible, so only the
            # first attempt per direction may succeed; alterations are tried first, the authentic frame last
            for kind, m in pick(alterations(ctx.rng, wire, hl, False)[1:], 400 if ctx.thorough else 90):
                sock = rpcsim.FakeSocket(replies=[m])
                c = rpcsim.sync_client(sock, client)
                c._sign_header = sign
                orig_wrap = client.wrap
                client.wrap = lambda h, b, t, s: h + b + t + b"\x00" * hl        # do not advance the real sealing state for our dummy request
                try:
                    resp = c.request(0, 0, b"\x01" * 12)
                    got = resp.stub_data
                except Exception:  # noqa
                    got = None
                finally:
                    client.wrap = orig_wrap
                n += 1
                if got is not None and got != body:
                    ctx.violation("real NTLM context: an altered reply is returned to the caller", {"alteration": kind, "sign": sign}, hx(got)[:60], "error")
        ctx.count("real_ntlm_alterations", n)
    except Exception as e:  # noqa
        ctx.notes.append(f"real NTLM run not possible here: {type(e).__name__}: {e}")
    finally:
        os.environ.pop("NTLM_USER_FILE", None)


def search(ctx, broken, disagreements):
    pass


def replay(ctx, payload):
    v = payload["violation"]["input"]
    print("recorded input:", str(v)[:200])
    if v.get("scenario") == "stripped_handshakes":
        c2 = type(ctx)(ctx.prop, "quick", ctx.seed)
        stripped_handshakes(c2)
        for x in c2.violations[:3]:
            print(" ", x["what"], x["input"], x["observed"][:60])
        return not c2.violations
    if v.get("scenario") == "any_port":
        c2 = type(ctx)(ctx.prop, "quick", ctx.seed)
        any_port(c2)
        for x in c2.violations[:3]:
            print(" ", x["what"], x["input"], x["observed"][:60])
        return not c2.violations
    if v.get("scenario") == "downgraded_context":
        c2 = type(ctx)(ctx.prop, "quick", ctx.seed)
        downgraded_context(c2)
        for x in c2.violations[:3]:
            print(" ", x["what"], x["input"], x["observed"][:60])
        return not c2.violations
    if v.get("scenario") == "after_rejection":
        c2 = type(ctx)(ctx.prop, "quick", ctx.seed)
        after_rejection(c2)
        for x in c2.violations[:3]:
            print(" ", x["what"], x["input"], x["observed"][:60])
        return not c2.violations
    if v.get("scenario") == "fragments":
        out, resp, auth = do_request(bytes.fromhex(v["wire"]), v["header_len"], v["sign"], v["async"])
        print("request() →", out[:200])
        return resp is None or b"KEY MATERIAL CHOSEN BY THE ADVERSARY" not in bytes(resp.stub_data)
    if "wire" not in v:          # found with the real NTLM context (stateful sealing: the whole run is repeated)
        c2 = type(ctx)(ctx.prop, "quick", ctx.seed)
        real_ntlm(c2)
        for x in c2.violations[:3]:
            print(" ", x["what"], x["input"], x["observed"][:60])
        return not c2.violations
    out, resp, auth = do_request(bytes.fromhex(v["wire"]), v["header_len"], v["sign"], False)
    print("request() →", out[:200])
    return out.startswith("err ")
