"""C17 — online vs a conforming DC: faithful requests, correct results, sync = async."""
from __future__ import annotations
import asyncio, contextlib, struct, types, uuid
import prelude, gen, clientsim, refdc, refserver, refimpl, rpcfmt, rpcsim, toycrypto
from check import canon_exc, hx

MANIFEST = {
    "text": "Lean theorems: getKey_request_unprotect / getKey_request_protect (the GetKey stub the client sends is the NDR64 encoding of (target SD of the blob's SID, root key id, L0/L1/L2 the blob names) resp. (SD, optional root key id, −1, −1, −1)), request_is_sealed_with_vt (the call goes out at PKT_PRIVACY with the interface verification trailer [PCONTEXT ISD_KEY NDR64, END] at the next 4-byte boundary, exactly stub‖pad‖vt‖pad handed to the security context), eptMap_request (tower ISD_KEY v1 / NDR v2 / RPC-CO / TCP 135 / IP 0, max_towers 4), online_unprotect_correct (a conforming reply decrypts correctly — composition of C02/C03/C01); sync = async by construction (one model function); the four public functions are tied to the model by running them against an independent in-process reference DC (own PDU / NDR64 / key-chain code) and comparing the captured client PDUs byte for byte with the model's conversation, for blob positions × DC 'now', 4 hashes × {seed reply, DH / P-256 / P-384 public-key reply}, SID shapes and name lengths; transcripts of sync and async are compared PDU by PDU",
    "note": "Trusted: Lean kernel; model (differential tie); the reference DC's reading of C706 / MS-RPCE / MS-GKDI; the security context is the toy one (thorough: real NTLM from pyspnego); Kerberos / Negotiate are not run (no KDC) — partial in that respect",
    "technique": "Lean 4 proof (refinement to a specified conversation + corollaries of C01–C03) + transcript correspondence against an independent reference DC",
}
THEOREMS = ["DpapiNg.C17.getKey_request_unprotect", "DpapiNg.C17.getKey_request_protect", "DpapiNg.C17.request_is_sealed_with_vt", "DpapiNg.C17.verification_trailer_value", "DpapiNg.C17.eptMap_request", "DpapiNg.C17.online_unprotect_correct", "DpapiNg.C17.online_unprotect_public_key_is_error"]
RULE = ("online unprotect of blobs at positions {(31,31),(17,13),(0,0),(5,31),(31,0)} and online protect at DC 'now' positions, 4 hashes × {seed-key reply, DH / ECDH_P256 / ECDH_P384 "
        "public-key reply}, SIDs with 1..15 sub-authorities (every SD length residue mod 8), domain / forest name lengths 0..11 (reply length residues), signature sizes {16,28,60,76}, "
        "header signing supported / not, 2..3 auth legs, both API flavours; each case: captured PDUs vs the model's conversation, result vs plaintext, sync vs async transcript")
ASSUMPTIONS = ["the DC is conforming (reference DC)", "the security context seals what it is handed (toy context; real NTLM in thorough)"]


class FakeConn:
    """a connection to the reference DC.  The DC is conforming but not necessarily quick: every reply is taken to arrive SLOW_REPLY_S seconds
    after the request (a GetKey that first has to create the key for the period); a socket left with a shorter read timeout gives up, as a
    real one would — without this harness having to wait"""
    SLOW_REPLY_S = 30.0

    def __init__(self, conn, rng=None, timeout=None):
        self.conn, self.rx, self.rng, self.timeout = conn, b"", rng, timeout

    def _wait(self):
        if self.timeout is not None and self.timeout < self.SLOW_REPLY_S:
            import socket as _s
            raise _s.timeout("timed out")

    def sendall(self, data):
        self.rx += self.conn.feed(bytes(data))

    def _take(self, n):
        k = n if self.rng is None else max(1, min(n, self.rng.choice([n, n, 1, 7, 16, 100])))
        out, self.rx = self.rx[:k], self.rx[k:]
        return out

    def recv(self, n, flags=0):
        import socket as _s
        if flags & _s.MSG_PEEK:
            self.peeks = getattr(self, "peeks", 0) + 1
            if self.peeks > 100000:
                raise RuntimeError("recv budget exceeded (busy loop)")
            return self.rx[:n]
        self._wait()
        return self._take(n)

    def recv_into(self, view, nbytes=0, flags=0):
        self._wait()
        d = self._take(nbytes or len(view))
        view[:len(d)] = d
        return len(d)

    def shutdown(self, how):
        pass

    def close(self):
        pass

    def settimeout(self, t):
        self.timeout = t


@contextlib.contextmanager
def online_world(dc: refserver.ReferenceDC, legs, header_len, now_ns, rng, chunked):
    """wire dpapi_ng's RPC clients to the in-process reference DC; real `cryptography`, toy RPC security"""
    import dpapi_ng._client as c
    import dpapi_ng._rpc._client as rc
    script = [(b"cli-%d" % (i + 1), i + 1 >= legs) for i in range(legs)]
    providers = []

    def provider(username, password, hostname, protocol):
        p = rpcfmt.ScriptedProvider(script=list(script), header_len=header_len)
        providers.append(p)
        return p

    class Sock:
        SHUT_RDWR = 2

        @staticmethod
        def create_connection(addr, timeout=None):
            return FakeConn(dc.connect(addr[1]), rng if chunked else None, timeout)

    async def open_connection(server, port=135):
        conn = dc.connect(port)
        reader = asyncio.StreamReader()
        def deliver(data):
            reply = conn.feed(data)
            if not chunked or len(reply) < 2:
                reader.feed_data(reply)
                return
            # the reply arrives in several TCP segments, the client task running between them (each segment is fed by a callback
            # that schedules the next one, so the reader wakes up after every segment)
            cuts, off = [], 0
            while off < len(reply):
                k = max(1, min(len(reply) - off, rng.choice([1460, 1460, 1, 7, 16, 100, 600])))
                cuts.append(reply[off:off + k])
                off += k
            loop = asyncio.get_running_loop()

            def feed(i):
                reader.feed_data(cuts[i])
                if i + 1 < len(cuts):
                    loop.call_soon(feed, i + 1)
            feed(0)
        w = rpcsim.FakeWriter(deliver)
        return reader, w

    aio = types.SimpleNamespace(**{k: getattr(asyncio, k) for k in dir(asyncio) if not k.startswith("__")})
    aio.open_connection = open_connection

    class T:
        @staticmethod
        def time_ns():
            return now_ns
    lookups = []

    def lookup(domain_name=None):
        lookups.append(domain_name)
        return types.SimpleNamespace(target="dc01.domain.test", port=389, weight=0, priority=0)

    async def alookup(domain_name=None):
        return lookup(domain_name)
    saved = (rc.socket, rc.asyncio, rc.AuthenticationProvider, c.time, c.lookup_dc, c.async_lookup_dc)
    rc.socket, rc.asyncio, rc.AuthenticationProvider, c.time, c.lookup_dc, c.async_lookup_dc = Sock, aio, provider, T, lookup, alookup
    try:
        yield providers, lookups
    finally:
        rc.socket, rc.asyncio, rc.AuthenticationProvider, c.time, c.lookup_dc, c.async_lookup_dc = saved


def transcript(dc):
    out = []
    for conn in dc.connections:
        for p in conn.pdus:
            out.append((conn.port, p["type"], p["flags"], p.get("token"), p.get("context_id"), p.get("opnum"), p.get("plain_stub"), p.get("contexts"), p["size"] == p["frag_len"]))
    return out


def check_conversation(ctx, dc, kind, sd, rk, ids, legs, inp):
    """direct oracle on what the independent server decoded (Spec.conversation)"""
    conns = dc.connections
    bad = lambda what, obs, req: ctx.violation("online conversation: " + what, inp, obs, req)
    if len(conns) != 2 or conns[0].port != 135 or conns[1].port != dc.isd_port:
        return bad("expected one endpoint-mapper connection then one ISD_KEY connection on the mapped port", [c.port for c in conns], [135, dc.isd_port])
    e, k = conns
    if [p["type"] for p in e.pdus] != [11, 0] or [p["type"] for p in k.pdus] != [11] + [14] * (legs - 1) + [0]:
        return bad("PDU sequence", [[p["type"] for p in c.pdus] for c in conns], [[11, 0], [11] + [14] * (legs - 1) + [0]])
    for p in e.pdus + k.pdus:
        if p["size"] != p["frag_len"]:
            bad("frag_len does not equal the PDU size", p["frag_len"], p["size"])
    # the client writes one PDU at a time: every write is exactly frag_len octets long and nothing is left over on the connection
    for c in conns:
        if getattr(c, "writes", []) != [p["frag_len"] for p in c.pdus] or c.buf:
            bad("a PDU's frag_len differs from the number of octets the client sent for it (or octets are left over)",
                {"writes": getattr(c, "writes", []), "left_over": len(c.buf)}, {"frag_lens": [p["frag_len"] for p in c.pdus]})
    eb = e.pdus[0]
    if [(c[0], c[1][0], c[1][1], [t[0] for t in c[2]]) for c in eb["contexts"]] != [(0, refserver.EPM_UUID, (3, 0), [refserver.NDR64_UUID.bytes_le])] or eb.get("token") is not None:
        bad("endpoint-mapper bind is not (ctx 0, EPM v3, NDR64) without authentication", eb["contexts"], "ctx0 EPM v3 NDR64")
    er = e.pdus[1]
    want_floors = [(13, refserver.ISD_KEY_UUID.bytes_le + b"\x01\x00", b"\x00\x00"), (13, refserver.NDR_UUID.bytes_le + b"\x02\x00", b"\x00\x00"), (11, b"", b"\x00\x00"),
                   (7, b"", struct.pack(">H", 135)), (9, b"", b"\x00" * 4)]
    if (er.get("context_id"), er.get("opnum")) != (0, 3) or er.get("floors") != want_floors or er.get("max_towers") != 4:
        bad("ept_map request is not (ctx 0, opnum 3, tower ISD_KEY/NDR/RPC-CO/TCP 135/IP 0, max_towers 4)", (er.get("context_id"), er.get("opnum"), er.get("floors"), er.get("max_towers")), "see C17")
    kb = k.pdus[0]
    got_ctx = [(c[0], c[1][0], c[1][1], [t[0][:8] for t in c[2]]) for c in kb["contexts"]]
    if got_ctx != [(0, refserver.ISD_KEY_UUID, (1, 0), [refserver.NDR64_UUID.bytes_le[:8]]), (1, refserver.ISD_KEY_UUID, (1, 0), [refserver.BTFN_PREFIX])]:
        bad("ISD_KEY bind does not offer (ctx 0 NDR64, ctx 1 bind-time feature negotiation)", got_ctx, "two contexts")
    toks = [p.get("token") for p in k.pdus[:-1]]
    if toks != [b"cli-%d" % (i + 1) for i in range(legs)]:
        bad("authentication tokens are not relayed once each, in order", toks, "cli-1..cli-n")
    gk = k.pdus[-1]
    if not gk.get("sealed") or gk.get("auth_level") != 6:
        bad("GetKey is not sealed at PKT_PRIVACY", (gk.get("sealed"), gk.get("auth_level")), (True, 6))
    if (gk.get("context_id"), gk.get("opnum")) != (0, 0):
        bad("GetKey is not (ctx 0, opnum 0)", (gk.get("context_id"), gk.get("opnum")), (0, 0))
    want_args = (len(sd), len(sd), sd, rk) + tuple(ids)
    got_args = (gk.get("cb"), gk.get("max_count"), gk.get("target_sd"), gk.get("root_key_id"), gk.get("l0"), gk.get("l1"), gk.get("l2"))
    if got_args != want_args:
        bad(f"{kind}: GetKey arguments", got_args[3:], want_args[3:])
    vt = gk.get("vt") or b""
    want_vt = refserver.VT_SIG + struct.pack("<HH", 0x4002, 40) + refserver.ISD_KEY_UUID.bytes_le + struct.pack("<HH", 1, 0) + refserver.NDR64_UUID.bytes_le + struct.pack("<HH", 1, 0)
    if vt[:len(want_vt)] != want_vt or any(vt[len(want_vt):]) or len(vt) - len(want_vt) != gk.get("pad_length"):
        bad("verification trailer [PCONTEXT ISD_KEY NDR64, END] missing / misplaced / wrong padding", hx(vt)[:120], hx(want_vt))


def model_cases(dc, sd, rk, ids, header_len, sign, legs):
    """the client's captured PDUs vs the model's conversation"""
    e, k = dc.connections
    raw = lambda c: c.raw
    cases = []
    cases.append(("conv_epmbind", "ok " + hx(e.raw[0])))
    cases.append(("conv_eptmap", "ok " + hx(e.raw[1])))
    cases.append((f"conv_isdbind {hx(b'cli-1')} 10", "ok " + hx(k.raw[0])))
    for i in range(1, legs):
        cases.append((f"conv_alter {hx(b'cli-%d' % (i + 1))} 10 {int(sign)}", "ok " + hx(k.raw[i])))
    cases.append((f"conv_getkey 10.{header_len} {int(sign)} {hx(sd)} {'none' if rk is None else hx(rk.bytes_le)} {ids[0]} {ids[1]} {ids[2]}", "ok " + hx(k.raw[-1])))
    return cases


def patch_raw_capture():
    """record the raw bytes each reference connection receives, PDU by PDU"""
    orig = refserver.Connection.handle

    def handle(self, pdu):
        if not hasattr(self, "raw"):
            self.raw = []
        self.raw.append(bytes(pdu))
        return orig(self, pdu)
    refserver.Connection.handle = handle
    return orig


def one_case(ctx, rec, kind, pos, now, sid, names, header_len, hs_support, legs, public, cases, chunked, reply_at_now=False):
    """kind: 'unprotect' | 'protect' | 'protect-rk'"""
    import dpapi_ng
    rng = ctx.rng
    data = b"online secret " + rec.hash_name.encode() + b"/" + rec.secret_algorithm.encode()
    sd = dpapi_ng._blob.ProtectionDescriptor.parse(sid).get_target_sd()
    now_ns = clientsim.time_ns_for(*now)
    inp = {"kind": kind, "hash": rec.hash_name, "alg": rec.secret_algorithm, "position": pos, "now": now, "sid": sid, "names": names, "header_len": header_len,
           "header_sign": hs_support, "legs": legs, "public": public, "reply_at_now": reply_at_now}

    def new_dc():
        ks = refdc.KeyServer(now=now, domain=names[0], forest=names[1], public_for=(lambda s: True) if public else (lambda s: False))
        ks.add_root(rec)
        ks.reply_at_now = reply_at_now
        # the ISD_KEY endpoint port varies in its number of digits (the bind_ack's secondary address is the port as text + NUL)
        isd_port = [49664, 5000, 593, 65535, 1024, 7][(legs + header_len + len(sid)) % 6]
        return refserver.ReferenceDC(ks, isd_port=isd_port, acceptor_factory=lambda: refserver.ToyAcceptor(legs=legs, header_len=header_len, support_header_sign=hs_support))

    blob = None
    if kind == "unprotect":
        # a blob at `pos`, made with a root-key cache
        s = clientsim.Sim(refdc.KeyServer(now=pos), real_crypto=True)
        s.dc.add_root(rec)
        s.now_ns = clientsim.time_ns_for(*pos)
        with s.world():
            s.load(rec)
            r = s.protect(data, sid, rk=rec.id)
        blob = bytes.fromhex(r[5:])
    results, transcripts, dcs = {}, {}, {}
    script = None
    if public and kind != "unprotect" and rec.secret_algorithm == "DH":
        # the ephemeral exponent is scripted so that the DH shared secret has a LEADING ZERO octet at the group's width (1 in 256 by
        # chance): a peer — the DC, Windows — serialises it at the fixed width, and so must this side
        import os as _os
        hn_ = rec.hash_name.lower()
        seed_ = refimpl.Chain(hn_, rec.key, rec.id, sd, now[0]).K2(now[1], now[2])
        kl_, p_, g_ = refimpl.parse_ffc_params(rec.secret_parameters)
        y_ = pow(g_, int.from_bytes(refimpl.group_private_key(hn_, seed_, "DH", rec.private_key_length), "big"), p_)
        nb_ = -(-rec.private_key_length // 8)
        for _ in range(20000):
            x_ = int.from_bytes(_os.urandom(nb_), "big")
            if pow(y_, x_, p_) >> (8 * (kl_ - 1)) == 0 and 1 < pow(g_, x_, p_) < p_ - 1:
                script = lambda n, x_=x_, nb_=nb_: x_.to_bytes(n, "big") if n == nb_ else _os.urandom(n)
                inp["scripted"] = "ephemeral exponent with a leading-zero shared secret"
                ctx.count("protect:public:leading_zero_secret")
                break
    for flavour in ("sync", "async"):
        dc = new_dc()
        dcs[flavour] = dc
        with online_world(dc, legs, header_len, now_ns, rng, chunked) as (providers, lookups), toycrypto.recording(script) as rlog:
            rlog.kdf_budget = 200          # a derivation that runs away is an error, not a hang
            try:
                if kind == "unprotect":
                    f = (lambda: dpapi_ng.ncrypt_unprotect_secret(blob, server="dc01")) if flavour == "sync" else (lambda: asyncio.run(dpapi_ng.async_ncrypt_unprotect_secret(blob, server="dc01")))
                else:
                    rkarg = rec.id if kind == "protect-rk" else None
                    f = (lambda: dpapi_ng.ncrypt_protect_secret(data, sid, root_key_identifier=rkarg, server="dc01")) if flavour == "sync" else \
                        (lambda: asyncio.run(dpapi_ng.async_ncrypt_protect_secret(data, sid, root_key_identifier=rkarg, server="dc01")))
                results[flavour] = ("ok", f())
            except Exception as e:  # noqa
                results[flavour] = ("err", canon_exc(e) + ": " + str(e)[:80])
        transcripts[flavour] = transcript(dc)
        # the security context of every authenticated connection is fed the server's tokens in order: nothing, then srv-1, srv-2, …
        for pr in providers:
            want_fed = [None] + [b"srv-%d" % (i + 1) for i in range(len(pr.fed) - 1)]
            got_fed = [None if x is None else bytes(x) for x in pr.fed]
            if results[flavour][0] == "ok" and (got_fed != want_fed or len(pr.fed) != legs):
                ctx.violation("the security context is not fed the server's tokens in order", dict(inp, flavour=flavour), str(got_fed), str([None] + [b"srv-%d" % (i + 1) for i in range(legs - 1)]))
        sign = hs_support
        if results[flavour][0] == "ok":
            ids = pos if kind == "unprotect" else (-1, -1, -1)
            rk = rec.id if kind in ("unprotect", "protect-rk") else None
            check_conversation(ctx, dc, kind, sd, rk, ids, legs, dict(inp, flavour=flavour))
            cases += model_cases(dc, sd, rk, ids, header_len, sign, legs)
    ctx.count(f"{kind}:{'public' if public else 'seed'}")
    # sync = async
    if transcripts["sync"] != transcripts["async"]:
        ctx.violation("sync and async APIs conduct different conversations", inp, "transcripts differ", "identical PDUs, contexts and stubs")
    # results
    for flavour, (st, val) in results.items():
        if kind == "unprotect":
            ok = (st, val) == ("ok", data) if not public else st == "err"     # a caller who only gets the public key cannot decrypt
            if not ok:
                ctx.violation("online unprotect does not return the plaintext", dict(inp, flavour=flavour), (st, val if st == "err" else hx(val)[:40]), "the plaintext")
        else:
            if st != "ok":
                ctx.violation("online protect fails", dict(inp, flavour=flavour), val, "a blob")
                continue
            # decrypt with a fresh root-key cache (a seed holder)
            s = clientsim.Sim(refdc.KeyServer(now=now), real_crypto=True)
            s.dc.add_root(rec)
            with s.world():
                s.load(rec)
                back = s.unprotect(val)
            if back != "done " + hx(data):
                ctx.violation("a blob protected online does not decrypt to the plaintext", dict(inp, flavour=flavour), back[:80], "done …")
            from dpapi_ng._blob import DPAPINGBlob
            kid = DPAPINGBlob.unpack(val).key_identifier
            # … and an INDEPENDENT seed holder (own key chain, own DH / ECDH / KDFs) can unwrap it: the KEK is the construction's
            try:
                from cryptography.hazmat.primitives import keywrap as _kw
                from cryptography.hazmat.primitives.ciphers.aead import AESGCM as _G
                b_ = DPAPINGBlob.unpack(val)
                hn_ = rec.hash_name.lower()
                seed_ = refimpl.Chain(hn_, rec.key, rec.id, sd, kid.l0).K2(kid.l1, kid.l2)
                if kid.flags & 1:
                    kek_ = refimpl.kek_public(hn_, rec.secret_algorithm, refimpl.group_private_key(hn_, seed_, rec.secret_algorithm, rec.private_key_length), kid.key_info)
                else:
                    kek_ = refimpl.kek_nonce(hn_, seed_, kid.key_info)
                pt_ = _G(_kw.aes_key_unwrap(kek_, b_.enc_cek)).decrypt(b_.enc_content_parameters[4:16], b_.enc_content, None)
                ind = "done " + hx(pt_)
            except Exception as e:  # noqa
                ind = "err " + canon_exc(e)
            if ind != "done " + hx(data):
                ctx.violation("a blob protected online cannot be decrypted by an independent seed holder (the KEK is not the construction's)", dict(inp, flavour=flavour), ind[:80], "the plaintext")
            if (kid.l0, kid.l1, kid.l2) != tuple(now) or kid.domain_name != names[0] or kid.forest_name != names[1] or kid.root_key_identifier != rec.id:
                ctx.violation("blob protected online does not name the DC's current key", dict(inp, flavour=flavour), (kid.l0, kid.l1, kid.l2, kid.domain_name), (now, names[0]))


def shared_cache_history(ctx, rec, rng):
    """one KeyCache across three online calls (what a long-running service does): protect (the DC's current key is fetched and its seed
    key stored), protect again naming the root key (answered from the cache), then unprotect of a blob from an EARLIER L1 interval
    of the same L0 (covered by the stored seed key): every result must be right and both flavours must conduct the same conversation"""
    import dpapi_ng
    now, early = (361, 17, 13), (361, 9, 5)
    sid, data = "S-1-5-21-1-2-3-1103", b"history"
    now_ns = clientsim.time_ns_for(*now)
    s = clientsim.Sim(refdc.KeyServer(now=early), real_crypto=True)
    s.dc.add_root(rec)
    s.now_ns = clientsim.time_ns_for(*early)
    with s.world():
        s.load(rec)
        old_blob = bytes.fromhex(s.protect(b"old secret", sid, rk=rec.id)[5:])
        other_blob = bytes.fromhex(s.protect(b"another group's secret", "S-1-5-21-7-7-7-512", rk=rec.id)[5:])
    inp = {"scenario": "shared cache: protect; protect naming the root key; unprotect a blob of an earlier L1 interval", "hash": rec.hash_name, "alg": rec.secret_algorithm,
           "dc_now": now, "old_blob_position": early}
    transcripts = {}
    for flavour in ("sync", "async"):
        ks = refdc.KeyServer(now=now)
        ks.add_root(rec)
        dc = refserver.ReferenceDC(ks, acceptor_factory=lambda: refserver.ToyAcceptor(legs=2, header_len=16, support_header_sign=True))
        cache = dpapi_ng.KeyCache()
        outs = []
        with online_world(dc, 2, 16, now_ns, rng, False) as (providers, lookups), toycrypto.recording() as rlog:
            rlog.kdf_budget = 400

            def call(f, af):
                try:
                    return ("ok", f() if flavour == "sync" else asyncio.run(af()))
                except Exception as e:  # noqa
                    return ("err", canon_exc(e) + ": " + str(e)[:60])
            outs.append(call(lambda: dpapi_ng.ncrypt_protect_secret(data, sid, server="dc01", cache=cache),
                             lambda: dpapi_ng.async_ncrypt_protect_secret(data, sid, server="dc01", cache=cache)))
            rlog.reset_budget()
            outs.append(call(lambda: dpapi_ng.ncrypt_protect_secret(data, sid, root_key_identifier=rec.id, server="dc01", cache=cache),
                             lambda: dpapi_ng.async_ncrypt_protect_secret(data, sid, root_key_identifier=rec.id, server="dc01", cache=cache)))
            rlog.reset_budget()
            outs.append(call(lambda: dpapi_ng.ncrypt_unprotect_secret(old_blob, server="dc01", cache=cache),
                             lambda: dpapi_ng.async_ncrypt_unprotect_secret(old_blob, server="dc01", cache=cache)))
            # a fourth call that misses the cache (another security descriptor), after the DC's dynamic ISD_KEY endpoint MOVED (service restart):
            # every online conversation asks the endpoint mapper where the key service listens
            rlog.reset_budget()
            n_conn = len(dc.connections)
            moved = getattr(dc, "isd_port", None)
            if moved is not None:
                dc.isd_port = 5000 if moved != 5000 else 5001
            fourth = call(lambda: dpapi_ng.ncrypt_unprotect_secret(other_blob, server="dc01", cache=cache),
                          lambda: dpapi_ng.async_ncrypt_unprotect_secret(other_blob, server="dc01", cache=cache))
            ports = [cn.port for cn in dc.connections[n_conn:]]
            if fourth != ("ok", b"another group's secret") or ports[:1] != [135]:
                ctx.violation("a later online call on a shared cache does not ask the endpoint mapper / does not reach the key service after its endpoint moved",
                              dict(inp, flavour=flavour, call="4 (unprotect for another SID, ISD_KEY endpoint moved)"), str((fourth[0], str(fourth[1])[:60], ports)), "the plaintext; connections [135, <new port>]")
        transcripts[flavour] = transcript(dc)
        ctx.count("shared_cache_history")
        if outs[2] != ("ok", b"old secret"):
            ctx.violation("online unprotect does not return the plaintext", dict(inp, flavour=flavour, call="3 (unprotect)"), str(outs[2])[:100], "the plaintext")
        for i in (0, 1):
            if outs[i][0] != "ok":
                ctx.violation("online protect fails", dict(inp, flavour=flavour, call=i + 1), outs[i][1], "a blob")
                continue
            s2 = clientsim.Sim(refdc.KeyServer(now=now), real_crypto=True)
            s2.dc.add_root(rec)
            with s2.world():
                s2.load(rec)
                back = s2.unprotect(outs[i][1])
            if back != "done " + hx(data):
                ctx.violation("a blob protected online does not decrypt to the plaintext", dict(inp, flavour=flavour, call=i + 1), back[:80], "done …")
    if transcripts["sync"] != transcripts["async"]:
        ctx.violation("sync and async APIs conduct different conversations", inp, "transcripts differ", "identical PDUs, contexts and stubs")


def run(ctx):
    prelude.validate(ctx)
    rng = ctx.rng
    orig = patch_raw_capture()
    cases = []
    try:
        roots = clientsim.standard_roots(real=True)
        positions = [(361, 31, 31), (361, 17, 13), (361, 0, 0), (361, 5, 31), (361, 31, 0), (362, 1, 30)]
        sids = ["S-1-5-21-1-2-3-1103"] + ["S-1-5" + "".join("-%d" % rng.choice([0, 1, 2**32 - 1, rng.randrange(2**32)]) for _ in range(n)) for n in range(1, 16)]
        names = [("", ""), ("a", "b"), ("domain.test", "forest.test"), ("dömäin.test", "f"), ("x" * 7, "y" * 4), ("corp", "corp" * 3)]
        n = 0
        for rec in roots:
            slow = rec.secret_algorithm == "DH" and len(rec.secret_parameters) > 100
            for public in (False, True):
                if slow and public and not ctx.thorough and rng.random() < 0.75:
                    continue
                for kind in ("unprotect", "protect", "protect-rk"):
                    if public and kind == "unprotect" and rng.random() < 0.7:
                        continue
                    if not ctx.thorough and rng.random() < 0.55:
                        continue
                    reps = 3 if ctx.thorough else 1
                    for _ in range(reps):
                        one_case(ctx, rec, kind, rng.choice(positions), rng.choice(positions), rng.choice(sids), rng.choice(names), rng.choice([16, 28, 60, 76]),
                                 rng.random() < 0.7, rng.choice([2, 2, 3, 4]), public, cases, chunked=rng.random() < 0.5)
                        n += 1
        # every relation between the blob's position and the DC's clock (the reply is positioned by the DC's 'now'):
        # same position, later L2 in the same L1, the next L1 with a smaller / larger L2, two L1s on, L2 = 31 shapes, the next L0
        fast = [r for r in roots if r.secret_algorithm == "ECDH_P256"]
        rel = [((361, 4, 3), (361, 4, 3)), ((361, 4, 3), (361, 4, 9)), ((361, 4, 3), (361, 5, 7)), ((361, 4, 9), (361, 5, 2)), ((361, 4, 3), (361, 6, 0)),
               ((361, 4, 31), (361, 5, 0)), ((361, 4, 3), (361, 5, 31)), ((361, 4, 3), (361, 4, 31)), ((361, 31, 31), (362, 0, 0)), ((361, 0, 0), (361, 31, 31))]
        for i, (pos, now) in enumerate(rel):
            rec = fast[i % len(fast)]
            for at_now in (False, True):
                one_case(ctx, rec, "unprotect", pos, now, sids[0], names[2], 16, True, 2 + (i + int(at_now)) % 4, False, cases, chunked=False, reply_at_now=at_now)
                ctx.count("blob_vs_dc_clock_relation:" + ("reply positioned at the DC clock" if at_now else "reply positioned at the request"))
                n += 1
        # a caller who only gets the group PUBLIC key (DH): every run, for two hashes, with the scripted leading-zero shared secret
        for rec in [r for r in roots if r.secret_algorithm == "DH"][:: 3 if not ctx.thorough else 1][:4]:
            one_case(ctx, rec, rng.choice(["protect", "protect-rk"]), (361, 17, 13), rng.choice(positions), sids[0], names[2], 16, True, 2, True, cases, chunked=False)
            n += 1
        for rec in fast[:2]:
            shared_cache_history(ctx, rec, rng)
        ctx.count("online_cases", n)
    finally:
        refserver.Connection.handle = orig
    ctx.compare_batch(cases, nontrivial=lambda line, impl: True)
    if ctx.thorough:
        real_ntlm_online(ctx)


def real_ntlm_online(ctx):
    """one full online unprotect with a real NTLM security context from pyspnego on both sides"""
    import os, tempfile, spnego, dpapi_ng
    import spnego.iov as iov
    import dpapi_ng._client as c
    import dpapi_ng._rpc._client as rc
    d = tempfile.mkdtemp()
    uf = os.path.join(d, "users")
    with open(uf, "w") as f:
        f.write("DOM:user:pass\n")
    os.environ["NTLM_USER_FILE"] = uf

    class NtlmAcceptor:
        support_header_sign = True

        def __init__(self):
            self.ctx = spnego.server(protocol="ntlm", context_req=spnego.ContextReq.default | spnego.ContextReq.dce_style)
            self.header_len = 16

        def step(self, token):
            return self.ctx.step(token)

        def _bt(self, sign):
            return iov.BufferType.sign_only if sign else iov.BufferType.data_readonly

        def unwrap(self, sign, header, body, trailer, signature):
            r = self.ctx.unwrap_iov([(self._bt(sign), header), body, (self._bt(sign), trailer), (iov.BufferType.header, signature)])
            return r.buffers[1].data or b""

        def wrap(self, sign, header, body, trailer):
            r = self.ctx.wrap_iov([(self._bt(sign), header), body, (self._bt(sign), trailer), iov.BufferType.header], encrypt=True, qop=None)
            return r.buffers[1].data or b"", r.buffers[3].data or b""
    try:
        rec = clientsim.standard_roots(real=True)[-2]
        data, sid, pos = b"ntlm online", "S-1-5-21-1-2-3-1103", (361, 17, 13)
        s = clientsim.Sim(refdc.KeyServer(now=pos), real_crypto=True)
        s.dc.add_root(rec)
        s.now_ns = clientsim.time_ns_for(*pos)
        with s.world():
            s.load(rec)
            blob = bytes.fromhex(s.protect(data, sid, rk=rec.id)[5:])
        ks = refdc.KeyServer(now=pos)
        ks.add_root(rec)
        dc = refserver.ReferenceDC(ks, acceptor_factory=NtlmAcceptor)

        class Sock:
            SHUT_RDWR = 2

            @staticmethod
            def create_connection(addr, timeout=None):
                return FakeConn(dc.connect(addr[1]))
        saved = rc.socket
        rc.socket = Sock
        try:
            out = dpapi_ng.ncrypt_unprotect_secret(blob, server="dc01", username="DOM\\user", password="pass", auth_protocol="ntlm")
        finally:
            rc.socket = saved
        ctx.count("real_ntlm_online_unprotect")
        if out != data:
            ctx.violation("online unprotect with a real NTLM context does not return the plaintext", {"auth": "ntlm"}, hx(out), hx(data))
        gk = dc.connections[1].pdus[-1]
        if not gk.get("sealed") or gk.get("l1") != 17:
            ctx.violation("real NTLM: GetKey not sealed / wrong arguments", {"auth": "ntlm"}, (gk.get("sealed"), gk.get("l1")), (True, 17))
    except Exception as e:  # noqa
        ctx.notes.append(f"real NTLM online run not possible here: {type(e).__name__}: {e}")
    finally:
        os.environ.pop("NTLM_USER_FILE", None)


def search(ctx, broken, disagreements):
    pass


def replay(ctx, payload):
    v = payload["violation"]["input"]
    print("recorded input:", v)
    rec = [r for r in clientsim.standard_roots(real=True) if r.hash_name == v["hash"] and r.secret_algorithm == v["alg"]][0]
    orig = patch_raw_capture()
    c2 = type(ctx)(ctx.prop, "quick", ctx.seed)
    try:
        if "kind" not in v:       # the shared-cache history
            shared_cache_history(c2, rec, c2.rng)
        else:
            # (cases run in one process: state a connection may leave behind — e.g. a remembered signature size — is part of the input;
            #  a call with ANOTHER signature size and leg count goes first)
            c0 = type(ctx)(ctx.prop, "quick", ctx.seed)
            one_case(c0, rec, v["kind"], tuple(v["position"]), tuple(v["now"]), v["sid"], tuple(v["names"]), 16 if v["header_len"] != 16 else 76, v["header_sign"], 2 if v["legs"] != 2 else 3, v["public"], [], False,
                     reply_at_now=v.get("reply_at_now", False))
            one_case(c2, rec, v["kind"], tuple(v["position"]), tuple(v["now"]), v["sid"], tuple(v["names"]), v["header_len"], v["header_sign"], v["legs"], v["public"], [], False, reply_at_now=v.get("reply_at_now", False))
    finally:
        refserver.Connection.handle = orig
    for x in c2.violations:
        print(" ", x["what"], x["observed"])
    return not c2.violations
