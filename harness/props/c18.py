"""C18 — endpoint-mapper replies: right port if well-formed, bounded work for any reply."""
from __future__ import annotations
import struct
import prelude, rpcfmt, clientsim
from check import canon_exc, hx
from props.c12 import rand_tower, budgeted

MANIFEST = {
    "text": "Lean theorems: port_is_first_tcp (the port returned is that of the first tower having a TCP floor; a non-zero status or no TCP floor is ValueError), firstTcp_spec, towersUnpack_bounded (every iteration of the repaired tower loop consumes ≥ 14 bytes, so the number of towers decoded and the work are bounded by the reply length whatever count the reply announces — 2^64−1 included), floorsUnpack_bounded; the tower padding kernels and the exhaustion guard are regenerated from source; EptMapResult.unpack and _process_ept_map_result are tied to the model by correspondence on replies produced by an independent NDR64 encoder (0..6 towers, floor payloads covering every tower-length residue mod 8, unknown protocols, TCP floor position) and on adversarial byte strings (tower / floor counts up to 2^64−1, truncations) under a line-event budget; eptMapResult_roundtrip (decode(encode r) = r for EVERY well-formed reply: any floors of the five kinds, any number of towers, every tower length residue mod 8, entry handle, referents) and wellformed_reply_gives_port (so a well-formed reply with status 0 yields the port of the first tower with a TCP floor); eptMap_roundtrip (the ept_map REQUEST: decode(encode m) = m for every well-formed request, object UUID present or absent, any tower, NDR64 padding skipped exactly)",
    "note": "Trusted: Lean kernel; model (differential tie + kernels); the reading of NDR64 (8-byte conformance, 8-aligned towers) in the harness's independent encoder; memory is bounded by the same argument as time (one list cell per decoded floor), not measured",
    "technique": "Lean 4 proof (decision logic + decreasing-measure work bound, ∀ bytes) + kernel extraction + reference-encoder / adversarial correspondence under a step budget",
}
MODULES = ["DpapiNg.Properties.C18", "DpapiNg.Properties.C18Rt"]
THEOREMS = ["DpapiNg.C18.port_is_first_tcp", "DpapiNg.C18.firstTcp_spec", "DpapiNg.C18.firstTcp_none", "DpapiNg.C18.towersUnpack_len", "DpapiNg.C18.towersUnpack_error_mono", "DpapiNg.C18.towersUnpack_bounded", "DpapiNg.C18.floorsUnpack_len", "DpapiNg.C18.tower_padding_aligned",
            "DpapiNg.C18.floor_rt", "DpapiNg.C18.towerStep_entry", "DpapiNg.C18.towers_rt", "DpapiNg.C18.eptMapResult_roundtrip", "DpapiNg.C18.wellformed_reply_gives_port", "DpapiNg.C18.eptMap_roundtrip"]
RULE = ("reference-encoded replies: 0..6 towers, tower lengths covering every residue mod 8, unknown floor protocols, TCP floor in every position / absent, status codes {0, non-zero}, trailing "
        "alignment padding 0..7; adversarial: tower counts and floor counts up to 2^64-1, truncations at every offset, random bytes; line-event budget 40·len+4000; distinct by op line")
ASSUMPTIONS = ["well-formed = the NDR64 encoding of ept_map's [out] parameters as produced by the independent encoder"]


def ndr64_reply(towers_bytes, status, entry_handle=b"\x00" * 20, tail=0):
    """ept_map reply: entry_handle (20) | num_towers (4) | pad to 8 | max_count (8) offset (8) actual_count (8) |
    referent ids | towers, each 8-aligned: length (8) length (4) bytes | status (4), 4-aligned"""
    n = len(towers_bytes)
    out = entry_handle + struct.pack("<I", n)
    out += b"\x00" * (-len(out) % 8)
    out += struct.pack("<QQQ", max(n, 4), 0, n)          # conformant varying array: max_count, offset, actual_count
    for i in range(n):
        out += struct.pack("<Q", 3 + i)
    for t in towers_bytes:
        out += b"\x00" * (-len(out) % 8)
        out += struct.pack("<Q", len(t)) + struct.pack("<I", len(t)) + t
    out += b"\x00" * (-len(out) % 4) + b"\x00" * tail
    return out + struct.pack("<I", status)


def tower_bytes(t):
    return struct.pack("<H", len(t)) + b"".join(f.pack() for f in t)



def many_floors(towers, floors):
    """a well-formed reply of `towers` towers holding `floors` minimal unknown-protocol floors each (5 octets per floor), TCP floor last"""
    from dpapi_ng import _epm as e
    tb = struct.pack("<H", floors + 1) + b"\x01\x00\x21\x00\x00" * floors + e.TCPFloor(49664).pack()
    return ndr64_reply([tb] * towers, 0)


def scaling(ctx, small=(8, 1250), big=(8, 40000)):
    """time proportional to size, measured: CPU seconds per floor for a reply 32 times larger must not be a multiple of the small reply's
    (work done outside the interpreter — copies of the remaining reply per floor, say — shows in no step count, only here)"""
    import time, gc
    from dpapi_ng import _epm as e

    def per_floor(shape):
        stub = many_floors(*shape)
        best = None
        for _ in range(2):
            gc.collect()
            t0 = time.process_time()
            res = e.EptMapResult.unpack(stub)
            dt = time.process_time() - t0
            best = dt if best is None else min(best, dt)
            n = sum(len(t) for t in res.towers)
            del res
        return best / max(n, 1), len(stub), n
    a, la, na = per_floor(small)
    b, lb, nb = per_floor(big)
    ratio = b / max(a, 1e-9)
    ctx.count("scaling:floors_small", na)
    ctx.count("scaling:floors_big", nb)
    ctx.notes.append(f"ept_map reply scaling: {a * 1e6:.2f} µs/floor at {la} octets, {b * 1e6:.2f} µs/floor at {lb} octets (ratio {ratio:.2f})")
    if ratio > 3.0:
        ctx.violation("an ept_map reply is not processed in time proportional to its size (CPU time per floor grows with the reply)",
                      {"scenario": "scaling", "small": list(small), "big": list(big), "len_small": la, "len_big": lb},
                      f"{a * 1e6:.2f} µs/floor → {b * 1e6:.2f} µs/floor (×{ratio:.1f})", "about the same cost per floor (≤ ×3)")


def run(ctx):
    from dpapi_ng import _client as cl, _epm as e
    from dpapi_ng import _rpc as r
    from dpapi_ng._rpc import _request
    prelude.validate(ctx)
    rng = ctx.rng
    cases = []

    def resp_of(stub):
        return _request.Response(header=r.PDUHeader(5, 0, r.PacketType.RESPONSE, r.PacketFlags(3), r.DataRep(), 0, 0, 1), sec_trailer=None, alloc_hint=0, context_id=0, cancel_count=0, stub_data=stub)

    def port_call(stub):
        return budgeted(lambda: cl._process_ept_map_result(resp_of(stub)), str, len(stub))

    residues = set()
    for _ in range(1500 if ctx.thorough else 300):
        k = rng.randrange(0, 7)
        ts = []
        for i in range(k):
            t = rand_tower(rng)
            if rng.random() < 0.4:
                t = [f for f in t if not isinstance(f, e.TCPFloor)]
            ts.append(t)
        tbs = [tower_bytes(t) for t in ts]
        for tb in tbs:
            residues.add(len(tb) % 8)
        status = rng.choice([0, 0, 0, 0x16C9A0D6, 1])
        # NDR64 aligns the status to 4 only; any extra trailing padding is not produced by a conforming encoder
        stub = ndr64_reply(tbs, status)
        out = port_call(stub)
        cases.append((f"eptres_port {hx(stub)}", out))
        fmt = lambda q: f"{rpcfmt.eh(q.entry_handle)} {rpcfmt.towers(q.towers)} {q.status}"
        dec = budgeted(lambda: e.EptMapResult.unpack(stub), fmt, len(stub))
        cases.append((f"eptres_unpack {hx(stub)}", dec))
        ctx.count(f"towers:{k}")
        # ---- direct oracle -------------------------------------------------------------------------------------
        want_dec = f"ok none {rpcfmt.towers(ts)} {status}"
        if dec != want_dec:
            ctx.violation("a well-formed ept_map reply is not decoded to its towers", {"towers": rpcfmt.towers(ts)[:300], "status": status, "reply": hx(stub)}, dec[:300], want_dec[:300])
        first = None
        for t in ts:
            for f in t:
                if isinstance(f, e.TCPFloor):
                    first = f.port
                    break
            if first is not None:
                break
        want = "err ValueError" if status != 0 or first is None else f"ok {first}"
        if out != want:
            ctx.violation("wrong port / missing error for an ept_map reply", {"towers": rpcfmt.towers(ts)[:300], "status": status, "reply": hx(stub)}, out, want)
        # the same reply in the other well-formed layouts: every tower INCLUDING the last padded to 8 before the status (what the library's own
        # encoder and some servers emit), and with the status code's high octets set
        for status2 in (status, 0x16C9A0D6, 0x01000000, 0) if k else (status,):
            alt = [ndr64_reply(tbs, status2, tail=(-(len(ndr64_reply(tbs, status2)) - 4)) % 8)]
            try:
                alt.append(bytes(e.EptMapResult(entry_handle=None, towers=ts, status=status2).pack()))
            except Exception:  # noqa
                pass
            want2 = "err ValueError" if status2 != 0 or first is None else f"ok {first}"
            for stub2 in alt:
                out2 = port_call(stub2)
                ctx.count("reply_layout:last_tower_padded")
                if out2 != want2:
                    ctx.violation("wrong port / missing error for an ept_map reply", {"towers": rpcfmt.towers(ts)[:300], "status": status2, "reply": hx(stub2), "layout": "last tower padded to 8"}, out2, want2)
                    break
    ctx.count("tower_length_residues_mod8_seen", len(residues))
    # ---- adversarial ------------------------------------------------------------------------------------------------
    base = ndr64_reply([tower_bytes([e.TCPFloor(49664), e.IPFloor(0)]), tower_bytes([e.UUIDFloor(rpcfmt.rand_uuid(rng), 1, 0)])], 0)
    adv = []
    for cnt in (2**40, 2**64 - 1, 2**32, 65536, 7, 3, 0):
        m = bytearray(base); m[40:48] = struct.pack("<Q", cnt); adv.append(bytes(m))
        m = bytearray(base[:52]); m[40:48] = struct.pack("<Q", cnt); adv.append(bytes(m))
    off = 48 + 16   # first tower (after two referent ids)
    for fl in (65535, 1000, 3):
        m = bytearray(base); m[off + 12:off + 14] = struct.pack("<H", fl); adv.append(bytes(m))
    for ln in (2**63, 2**64 - 1, 0, 5):
        m = bytearray(base); m[off:off + 8] = struct.pack("<Q", ln); adv.append(bytes(m))
    adv.append(b"\x00" * 20 + struct.pack("<I", 4) + struct.pack("<Q", 2**40) + b"\x00" * 8 + struct.pack("<Q", 2**40) + b"\x00" * 4)   # the 52-byte D12 reply
    adv += [base[:c] for c in range(len(base))]
    for _ in range(300 if ctx.thorough else 60):
        n = rng.choice([0, 4, 24, 48, 52, 60, 100, 400, 4000, 65535])
        adv.append(bytes(rng.randrange(256) for _ in range(min(n, 400))) * (1 if n <= 400 else n // 400))
        m = bytearray(base)
        for _ in range(rng.randrange(1, 4)):
            m[rng.randrange(len(m))] = rng.randrange(256)
        adv.append(bytes(m))
    # a long run of minimal floors (5 bytes each): the decoder must stay linear
    many = b"\x00" * 20 + struct.pack("<I", 1) + struct.pack("<Q", 1) + b"\x00" * 8 + struct.pack("<Q", 1) + struct.pack("<Q", 3)
    many += struct.pack("<Q", 60000) + struct.pack("<I", 60000) + struct.pack("<H", 12000) + b"\x01\x00\x21\x00\x00" * 12000 + b"\x00" * 6 + struct.pack("<I", 0)
    adv.append(many)
    for stub in adv:
        out = port_call(stub)
        cases.append((f"eptres_port {hx(stub)}", out))
        ctx.count("adversarial")
        if "StepBudgetExceeded" in out:
            ctx.violation("an ept_map reply is not processed in time proportional to its size", {"reply": hx(stub)[:400], "len": len(stub)}, out, "terminates within 40·len+4000 line events")
    for i in range(0, len(cases), 2000):
        ctx.compare_batch(cases[i:i + 2000], nontrivial=lambda line, impl: True)
    scaling(ctx)


def search(ctx, broken, disagreements):
    pass


def replay(ctx, payload):
    from dpapi_ng import _client as cl
    from dpapi_ng import _rpc as r
    from dpapi_ng._rpc import _request
    v = payload["violation"]["input"]
    if v.get("scenario") == "scaling":
        n0 = len(ctx.violations)
        scaling(ctx, tuple(v["small"]), tuple(v["big"]))
        print(ctx.notes[-1])
        return len(ctx.violations) == n0
    stub = bytes.fromhex(v["reply"].replace("-", ""))
    resp = _request.Response(header=r.PDUHeader(5, 0, r.PacketType.RESPONSE, r.PacketFlags(3), r.DataRep(), 0, 0, 1), sec_trailer=None, alloc_hint=0, context_id=0, cancel_count=0, stub_data=stub)
    out = budgeted(lambda: cl._process_ept_map_result(resp), str, len(stub))
    print("port →", out)
    return "StepBudgetExceeded" not in out
