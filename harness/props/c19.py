"""C19 — every encryption uses fresh CEK, nonce and key-identifier randomness."""
from __future__ import annotations
import uuid
import prelude, gen, clientsim, refdc, toycrypto, refimpl
from check import canon_exc, hx

MANIFEST = {
    "text": "Lean theorems: protect_uses_draws (the blob's GCM nonce is the second draw, enc_cek is the wrap of the first draw, the content is encrypted under exactly (first, second) draw), keyInfo_is_draw (nonce mode), distinct_nonce_distinct_blob / distinct_keyInfo_distinct_blob, pairwise_distinct (a history fed from a non-repeating draw stream never reuses a CEK, nonce, key-identifier nonce or (key, nonce) pair); tied to the code by correspondence with the RNG scripted as a counter (blob fields must equal the draws the model names; 3 draws per protect, 0 per unprotect) and as a constant (blobs must then repeat: no hidden entropy), plus real os.urandom histories whose CEKs are recovered by unwrapping",
    "note": "Trusted: Lean kernel; model (differential tie); that os.urandom / AESGCM.generate_key draws are distinct is a premise (probability, not logic)",
    "technique": "Lean 4 proof (dataflow of explicit draws) + scripted-RNG correspondence",
}
THEOREMS = ["DpapiNg.C19.protect_uses_draws", "DpapiNg.C19.keyInfo_is_draw", "DpapiNg.C19.distinct_nonce_distinct_blob",
            "DpapiNg.C19.distinct_keyInfo_distinct_blob", "DpapiNg.C19.pairwise_distinct"]
RULE = ("histories of N protect calls (identical and different arguments, nonce and public-key mode) interleaved with unprotect calls and cache reuse; RNG scripted as a "
        "counter stream / as a constant / real os.urandom; distinct by op line; non-trivial = history with ≥ 2 protects")
ASSUMPTIONS = ["successive os.urandom draws are distinct (probabilistic premise)"]


def history(ctx, real, mode, n_ops, constant_rng=False, cases=None, odd=False):
    roots = clientsim.odd_roots() if odd else clientsim.standard_roots(real=real)
    rec = ctx.rng.choice([r for r in roots if not (r.secret_algorithm == "DH" and len(r.secret_parameters) > 100 and mode == "public")])
    kw = {} if real else dict(kdf_factory=clientsim.toy_kdf_factory, public_key_fn=clientsim.toy_public_key)
    dc = refdc.KeyServer(now=(361, 17, 13), public_for=(lambda sd: True) if mode == "public" else (lambda sd: False), **kw)
    dc.add_root(rec)
    sim = clientsim.Sim(dc, real_crypto=real)
    if constant_rng:
        sim._rng = lambda n: bytes([0x5A]) * n
    if real and not constant_rng:
        import os
        sim._rng = lambda n: os.urandom(n)
    seeker = None
    blobs = []
    with sim.world():
        if mode == "cache":
            sim.load(rec)
        for i in range(n_ops):
            if blobs and ctx.rng.random() < 0.3 and mode != "public":
                d0 = len(sim.log.urandom)
                sim.unprotect(ctx.rng.choice(blobs)[0])
                if len(sim.log.urandom):
                    ctx.violation("unprotect consumed randomness", {"mode": mode}, len(sim.log.urandom), 0)
                continue
            same = ctx.rng.random() < 0.5
            data = b"same plaintext" if same else gen.rand_bytes(ctx.rng, ctx.rng.randrange(0, 40))
            out = sim.protect(data, "S-1-5-21-1-2-3-1103", rk=rec.id if mode == "cache" or ctx.rng.random() < 0.5 else None)
            if not out.startswith("done "):
                ctx.violation("protect fails", {"mode": mode}, out, "done")
                continue
            draws = list(sim.last_draws)
            if len(draws) != 3:
                ctx.violation("a protect call does not make exactly three random draws", {"mode": mode, "hash": rec.hash_name}, len(draws), 3)
            want = [32, 12, (32 if mode != "public" else -(-rec.private_key_length // 8))]
            if [len(d) for d in draws] != want:
                ctx.violation("random draws have unexpected sizes", {"mode": mode}, [len(d) for d in draws], want)
            blobs.append((bytes.fromhex(out[5:]), data, draws))
        sim.dump()
    if cases is not None:
        cases.append(sim.line())
    # direct oracle on the blobs of this history
    from dpapi_ng._blob import DPAPINGBlob
    seen = {"cek": {}, "iv": {}, "ki": {}, "pair": {}, "blob": {}}
    for bi, (raw, data, draws) in enumerate(blobs):
        b = DPAPINGBlob.unpack(raw)
        iv = b.enc_content_parameters[4:16]
        if len(draws) == 3:
            if iv != draws[1]:
                ctx.violation("GCM nonce in the blob is not the drawn nonce", {"mode": mode}, hx(iv), hx(draws[1]))
            if mode != "public" and b.key_identifier.key_info != draws[2]:
                ctx.violation("key-identifier nonce is not the drawn nonce", {"mode": mode}, hx(b.key_identifier.key_info), hx(draws[2]))
        items = {"cek": draws[0] if draws else None, "iv": iv, "ki": b.key_identifier.key_info, "pair": (draws[0] if draws else None, iv), "blob": raw}
        for k, v in items.items():
            if v in seen[k]:
                if constant_rng:
                    continue
                ctx.violation(f"{k} repeated across protect calls", {"mode": mode, "calls": [seen[k][v], bi]}, "repeat", "pairwise distinct")
            seen[k][v] = bi
    if constant_rng:
        # with a constant RNG identical arguments must give identical blobs: no hidden entropy source is relied on
        same = [raw for raw, data, _ in blobs if data == b"same plaintext"]
        if len(set(same)) > 1:
            ctx.violation("blobs differ although every random draw was identical (hidden entropy source)", {"mode": mode}, len(set(same)), 1)
    return len(blobs)


def overlapping(ctx):
    """two protect calls that OVERLAP in time (what two threads sharing the library do): the outer call is suspended at its k-th random
    draw while a complete inner call runs, then resumes — here by re-entering the library from the scripted os.urandom, which fixes the
    schedule.  The CEKs (recovered by unwrapping with an independently derived KEK), GCM nonces and key-identifier nonces of the two
    blobs must differ, and each blob must decrypt to its own plaintext."""
    import os, uuid
    import dpapi_ng
    import dpapi_ng._client as c
    from dpapi_ng._blob import DPAPINGBlob, ProtectionDescriptor
    from cryptography.hazmat.primitives import keywrap
    rk = uuid.UUID("d778c271-9025-9a82-f6dc-b8960b8ad8c5")
    root, sid, now = bytes(range(64)), "S-1-5-21-1-2-3-1103", (361, 17, 13)
    now_ns = clientsim.time_ns_for(*now)

    class T:
        @staticmethod
        def time_ns():
            return now_ns
    old = c.time
    c.time = T
    try:
        for k in (2, 3):
            cache = dpapi_ng.KeyCache()
            cache.load_key(root, root_key_id=rk)
            st = {"n": 0, "inner": None}

            def rng(n):
                st["n"] += 1
                if st["n"] == k and st["inner"] is None:
                    st["inner"] = b""
                    st["inner"] = dpapi_ng.ncrypt_protect_secret(b"inner call", sid, root_key_identifier=rk, cache=cache)
                return os.urandom(n)
            with toycrypto.recording(rng):
                outer = dpapi_ng.ncrypt_protect_secret(b"outer call", sid, root_key_identifier=rk, cache=cache)
            inner = st["inner"]
            ctx.count("overlapping_protects")
            inp = {"schedule": f"outer call suspended at its draw #{k}, inner call runs to completion, outer resumes", "scenario": "overlapping"}
            if not inner:
                ctx.violation("the inner protect of an overlapping pair did not run", inp, "-", "a blob")
                continue
            chain = refimpl.Chain("sha512", root, rk, ProtectionDescriptor.parse(sid).get_target_sd(), now[0])
            ceks, ivs, kis = [], [], []
            for name, raw, want in (("outer", outer, b"outer call"), ("inner", inner, b"inner call")):
                b = DPAPINGBlob.unpack(raw)
                kid = b.key_identifier
                kek = refimpl.kek_nonce("sha512", chain.K2(kid.l1, kid.l2), kid.key_info)
                try:
                    ceks.append(keywrap.aes_key_unwrap(kek, b.enc_cek))
                except Exception as e:  # noqa
                    ctx.violation("a blob of an overlapping pair does not unwrap under the independently derived KEK", {**inp, "blob": name}, canon_exc(e), "a CEK")
                    ceks.append(None)
                ivs.append(b.enc_content_parameters[4:16])
                kis.append(kid.key_info)
                try:
                    back = dpapi_ng.ncrypt_unprotect_secret(raw, cache=cache)
                except Exception as e:  # noqa
                    back = ("raised " + canon_exc(e)).encode()
                if back != want:
                    ctx.violation("a blob of an overlapping pair does not decrypt to its own plaintext", {**inp, "blob": name}, hx(back)[:60], hx(want))
            for what, pair in (("cek", ceks), ("iv", ivs), ("ki", kis)):
                if pair[0] is not None and pair[0] == pair[1]:
                    ctx.violation(f"{what} repeated across protect calls", inp, "the two blobs carry the same " + what, "pairwise distinct")
    finally:
        c.time = old


def p521_public_mode(ctx):
    """ECDH_P521 public-key mode: 66 random octets are rarely a valid P-521 scalar, so most ephemeral draws are refused (ValueError);
    whatever IS emitted must carry pairwise distinct ephemeral public keys — a fallback that folds refused draws into a small range
    would repeat within a few dozen calls"""
    import struct
    from cryptography.hazmat.primitives.asymmetric import ec
    pn = ec.generate_private_key(ec.SECP521R1()).public_key().public_numbers()
    peer = b"ECK5" + struct.pack("<I", 66) + pn.x.to_bytes(66, "big") + pn.y.to_bytes(66, "big")
    env = gen.make_env(flags=1, secret_algorithm="ECDH_P521", secret_parameters=b"", private_key_length=521, public_key_length=1042, l1_key=b"", l2_key=peer,
                       kdf_parameters=gen.kdf_params("SHA512"))
    seen, refused = {}, 0
    for i in range(400 if ctx.thorough else 160):
        try:
            kek, kid = env.new_kek()
        except ValueError:
            refused += 1
            continue
        except Exception as e:  # noqa
            ctx.violation("new_kek escapes with an unexpected error for an ECDH_P521 group key", {"call": i}, canon_exc(e), "a KEK or ValueError")
            return
        if kid.key_info in seen or kek in seen.values():
            ctx.violation("ki repeated across protect calls", {"mode": "public", "alg": "ECDH_P521", "calls": [list(seen).index(kid.key_info) if kid.key_info in seen else -1, i],
                                                                "scenario": "p521_public_mode"}, "the same ephemeral public key / KEK twice", "pairwise distinct")
            return
        seen[kid.key_info] = kek
    ctx.count("p521_public_mode:emitted", len(seen))
    ctx.count("p521_public_mode:refused", refused)



def concurrent_identical(ctx):
    """N async protect calls with IDENTICAL arguments in flight on one event loop (asyncio.gather over a batch), from the cache (root key
    loaded) and through a stubbed DC (public-key reply): every call must still make its own draws — the blobs, their CEKs (unwrapped with an
    independently derived KEK where possible), GCM nonces and key-identifier values are pairwise distinct"""
    import asyncio, uuid
    import dpapi_ng
    import dpapi_ng._client as c
    from dpapi_ng._blob import DPAPINGBlob, ProtectionDescriptor
    from cryptography.hazmat.primitives import keywrap
    rk = uuid.UUID("d778c271-9025-9a82-f6dc-b8960b8ad8c5")
    root, sid, now = bytes(range(64)), "S-1-5-21-1-2-3-1103", (361, 17, 13)
    now_ns = clientsim.time_ns_for(*now)
    old = (c.time, c._async_get_key)
    c.time = type("T", (), {"time_ns": staticmethod(lambda: now_ns)})
    chain = refimpl.Chain("sha512", root, rk, ProtectionDescriptor.parse(sid).get_target_sd(), now[0])
    try:
        for path in ("cache", "dc-public"):
            cache = dpapi_ng.KeyCache()
            if path == "cache":
                cache.load_key(root, root_key_id=rk)
            else:
                import gen
                pub = refimpl.group_public_key("sha512", chain.K2(now[1], now[2]), "ECDH_P256", b"", 256)
                env = gen.make_env(l0=now[0], l1=now[1], l2=now[2], l1_key=b"", l2_key=pub, flags=1, secret_algorithm="ECDH_P256", secret_parameters=b"",
                                   private_key_length=256, public_key_length=512, root_key_identifier=rk, kdf_parameters=gen.kdf_params("SHA512"))

                async def agk(*a, **kw):
                    await asyncio.sleep(0)
                    return env
                c._async_get_key = agk

            async def batch():
                return await asyncio.gather(*[dpapi_ng.async_ncrypt_protect_secret(b"same data", sid, root_key_identifier=rk, cache=cache, server="dc01") for _ in range(6)])
            try:
                blobs = asyncio.run(batch())
            except Exception as e:  # noqa
                ctx.violation("concurrent identical async protects fail", {"scenario": "concurrent_identical", "path": path}, canon_exc(e), "six blobs")
                continue
            ctx.count("concurrent_identical:" + path, len(blobs))
            ivs, kis, ceks = [], [], []
            for raw in blobs:
                b = DPAPINGBlob.unpack(raw)
                ivs.append(bytes(b.enc_content_parameters[4:16]))
                kis.append(bytes(b.key_identifier.key_info))
                if path == "cache":
                    ceks.append(keywrap.aes_key_unwrap(refimpl.kek_nonce("sha512", chain.K2(b.key_identifier.l1, b.key_identifier.l2), b.key_identifier.key_info), b.enc_cek))
                else:
                    ceks.append(bytes(b.enc_cek))
            for what, vals in (("blob", [bytes(x) for x in blobs]), ("GCM nonce", ivs), ("key-identifier value", kis), ("CEK" if path == "cache" else "wrapped CEK", ceks)):
                if len(set(vals)) != len(vals):
                    ctx.violation(f"{what} repeated across concurrent identical protect calls", {"scenario": "concurrent_identical", "path": path, "calls": len(vals)},
                                  f"{len(set(vals))} distinct of {len(vals)}", "pairwise distinct")
                    return
    finally:
        c.time, c._async_get_key = old


def run(ctx):
    prelude.validate(ctx)
    cases = []
    n = 0
    for mode in ("cache", "dc", "public"):
        for _ in range(20 if ctx.thorough else 6):
            n += history(ctx, False, mode, ctx.rng.randrange(4, 12), cases=cases)
            ctx.count("toy_history:" + mode)
        n += history(ctx, False, mode, 6, constant_rng=True, cases=cases)
        ctx.count("constant_rng_history:" + mode)
        for _ in range(8 if ctx.thorough else 3):
            n += history(ctx, False, mode, ctx.rng.randrange(4, 9), cases=cases, odd=True)
            ctx.count("toy_history_unaligned_key_length:" + mode)
    ctx.compare_batch(cases, nontrivial=lambda line, impl: line.count("pbegin") >= 2)
    # real os.urandom support run
    total = 0
    for mode in ("cache", "dc"):
        total += history(ctx, True, mode, 400 if ctx.thorough else 60)
    ctx.count("real_urandom_protects", total)
    overlapping(ctx)
    concurrent_identical(ctx)
    p521_public_mode(ctx)


def search(ctx, broken, disagreements):
    pass


def replay(ctx, payload):
    print("recorded input:", payload["violation"]["input"])
    c2 = type(ctx)(ctx.prop, "quick", ctx.seed)
    run(c2)
    return not c2.violations
