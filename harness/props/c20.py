"""C20 — DC discovery asks the right SRV name and picks the best record."""
from __future__ import annotations
import asyncio, itertools
import prelude
from check import canon_exc, hx

MANIFEST = {
    "text": "Lean theorems pick_best (lowest priority, then highest weight, for every non-empty answer list), pick_perm (order independence under any permutation), query_name, strip_target/rstrip_dot over a model whose selection is core List.mergeSort (stable) on the key (priority, -weight); tied to _dns.py by correspondence of lookup_dc and async_lookup_dc with the resolver scripted over every multiset of ≤3 (quick) / ≤5 (thorough) records in every permutation; the four call sites in _client.py (sync/async × protect/unprotect without a server) are driven through the public API with the resolver and GetKey stubbed: one lookup, for the blob's domain name / the caller's domain_name, connection to the chosen target, sync = async",
    "note": "Trusted: Lean kernel; that Python's sorted() is a stable sort by the key tuple (modelled by mergeSort); dnspython's Answer iteration order = the scripted order; tie is differential",
    "technique": "Lean 4 proof (sortedness + permutation lemmas of mergeSort) over a hand-written model + exhaustive small-scope correspondence",
}
THEOREMS = ["DpapiNg.C20.query_name", "DpapiNg.C20.pick_best", "DpapiNg.C20.pick_perm", "DpapiNg.C20.strip_target",
            "DpapiNg.C20.rstrip_dot", "DpapiNg.C20.pick_empty"]
RULE = ("every multiset of 1..N SRV records over priorities {0,1,2} × weights {0,1,2} in every permutation (N=3 quick, 5 thorough), "
        "targets with/without trailing dots, domain given / None / ''; sync and async lookups; distinct by op line, non-trivial = ≥2 records")
ASSUMPTIONS = ["sorted() is stable", "the SRV prefix and the '.' join are ASCII"]


class Name:
    """stands for dns.name.Name: str() / to_text() give the presentation form (absolute names end in '.')"""
    def __init__(self, text):
        self.text = text

    def __str__(self):
        return self.text

    def to_text(self, omit_final_dot=False):
        return self.text[:-1] if omit_final_dot and self.text.endswith(".") else self.text

    def __eq__(self, other):
        return str(self) == str(other)

    def __hash__(self):
        return hash(self.text)


class Rec:
    def __init__(self, target, port, weight, priority):
        self.target, self.port, self.weight, self.priority = Name(target), port, weight, priority


class FakeDns:
    """Stands for the `dns` package as seen from dpapi_ng._dns."""
    def __init__(self, answers, log):
        outer = self

        class _R:
            @staticmethod
            def resolve(name, rdtype, **kw):
                log.append(("sync", name, rdtype, kw))
                return list(outer.answers)

        class _A:
            @staticmethod
            async def resolve(name, rdtype, **kw):
                log.append(("async", name, rdtype, kw))
                return list(outer.answers)
        self.answers = answers
        self.resolver = _R
        self.asyncresolver = _A


def impl(domain, recs, use_async):
    import dpapi_ng._dns as d
    log = []
    old = d.dns
    d.dns = FakeDns([Rec(*r) for r in recs], log)
    try:
        if use_async:
            r = asyncio.run(d.async_lookup_dc(domain))
        else:
            r = d.lookup_dc(domain)
        (_, name, rdtype, kw) = log[0]
        extra = "" if (rdtype == "SRV" and kw == {"search": True} and len(log) == 1) else f" BADCALL {rdtype} {kw} {len(log)}"
        return f"ok {hx(name.encode())} {hx(r.target.encode())} {r.port} {r.weight} {r.priority}" + extra
    except Exception as e:  # noqa
        return "err " + canon_exc(e)
    finally:
        d.dns = old


def opline(domain, recs):
    dom = "none" if domain is None else hx(domain.encode())
    rs = ";".join(f"{hx(t.encode())}:{p}:{w}:{pr}" for (t, p, w, pr) in recs) or "-"
    return f"dnspick {dom} {rs}"


def oracle(ctx, domain, recs, out):
    """Direct oracle: lowest priority, then highest weight; trailing dot removed; other fields unchanged."""
    if not recs:
        return
    if not out.startswith("ok ") or "BADCALL" in out:
        ctx.violation("lookup failed or resolver called with the wrong arguments", {"domain": domain, "records": recs}, out, "ok")
        return
    _, q, t, p, w, pr = out.split(" ")[:6]
    want_q = "_ldap._tcp.dc._msdcs" + (("." + domain) if domain else "")
    if bytes.fromhex(q).decode() != want_q:
        ctx.violation("wrong SRV query name", {"domain": domain}, bytes.fromhex(q).decode(), want_q)
    best_p = min(r[3] for r in recs)
    best_w = max(r[2] for r in recs if r[3] == best_p)
    if (int(pr), int(w)) != (best_p, best_w):
        ctx.violation("did not pick lowest priority / highest weight", {"domain": domain, "records": recs}, out, f"priority {best_p} weight {best_w}")
        return
    target = bytes.fromhex(t.replace("-", "")).decode()
    cands = [r for r in recs if r[3] == best_p and r[2] == best_w and r[1] == int(p)
             and (r[0] == target or r[0] == target + ".")]
    if not cands:
        ctx.violation("returned record is not one of the answers with its trailing dot removed", {"domain": domain, "records": recs}, out, "a record of the answer")



class FaultDns:
    """a resolver that answers per query name: a record list, or an exception class to raise (resolution faults)"""
    def __init__(self, table, log):
        import dns.resolver as real

        def answer(flavour, name, rdtype, kw):
            log.append((flavour, name, rdtype, kw))
            a = table.get(name, real.NXDOMAIN)
            if isinstance(a, type) and issubclass(a, BaseException):
                raise a()
            return list(a)

        class _R:
            NXDOMAIN, NoAnswer, NoNameservers, LifetimeTimeout, YXDOMAIN = real.NXDOMAIN, real.NoAnswer, real.NoNameservers, real.LifetimeTimeout, real.YXDOMAIN

            @staticmethod
            def resolve(name, rdtype, **kw):
                return answer("sync", name, rdtype, kw)

        class _A:
            @staticmethod
            async def resolve(name, rdtype, **kw):
                return answer("async", name, rdtype, kw)
        import dns.exception
        self.resolver, self.asyncresolver, self.exception = _R, _A, dns.exception


def faults(ctx):
    """resolution faults: when the query for the requested domain's SRV name fails (NXDOMAIN, NoAnswer, no servers, timeout), no other
    name may be asked instead and no record published under another name may be returned as that domain's DC"""
    import dns.resolver as real
    import dpapi_ng._dns as d
    prefix = "_ldap._tcp.dc._msdcs"
    other = [Rec("dc01.local.test.", 389, 100, 0)]
    for domain in ("other.test", "corp.domain.test", None, ""):
        want_q = prefix + (("." + domain) if domain else "")
        for exc in (real.NXDOMAIN, real.NoAnswer, real.NoNameservers, real.LifetimeTimeout):
            # every other plausible name answers: the bare prefix (search list), the parent domain, the forest root
            table = {prefix: other, prefix + ".test": other, prefix + ".domain.test": other, prefix + ".local.test": other}
            table[want_q] = exc
            for use_async in (False, True):
                log = []
                old = d.dns
                d.dns = FaultDns(table, log)
                try:
                    try:
                        r = asyncio.run(d.async_lookup_dc(domain)) if use_async else d.lookup_dc(domain)
                        obs = f"returned {r.target}:{r.port}"
                    except Exception as e:  # noqa
                        obs = "err " + canon_exc(e)
                finally:
                    d.dns = old
                asked = [n for (_, n, _, _) in log]
                ctx.count("fault:" + exc.__name__)
                inp = {"domain": domain, "fault": exc.__name__, "async": use_async, "scenario": "resolution_fault"}
                if any(n != want_q for n in asked):
                    ctx.violation("after a failed lookup a different SRV name was asked", inp, str(asked), str([want_q]))
                elif obs.startswith("returned"):
                    ctx.violation("a record that was not published under the requested SRV name was returned", inp, obs, "error")

class _Stop(Exception):
    pass


def call_sites(ctx):
    """the four places the result is used (sync/async × protect/unprotect, no server given): the lookup is made for the blob's
    DOMAIN name (unprotect) / the caller's domain_name (protect), exactly once, and the connection goes to the chosen record's target"""
    import dataclasses
    import dpapi_ng, dpapi_ng._dns as d, dpapi_ng._client as c
    from dpapi_ng._blob import DPAPINGBlob
    import clientsim, refdc, uuid
    rk = uuid.UUID("d778c271-9025-9a82-f6dc-b8960b8ad8c5")
    dc = refdc.KeyServer(kdf_factory=clientsim.toy_kdf_factory, public_key_fn=clientsim.toy_public_key, now=(361, 7, 7))
    dc.add_root(refdc.RootKeyRec(rk, bytes(range(64))))
    sim = clientsim.Sim(dc)
    with sim.world():
        sim.load(dc.roots[rk])
        out = sim.protect(b"x", "S-1-5-21-1-2-3-1103", rk=rk)
    blob = DPAPINGBlob.unpack(bytes.fromhex(out[5:]))
    recs = [Rec("backup.corp.test.", 390, 5, 10), Rec("dc02.child.corp.test.", 389, 1, 0), Rec("dc01.child.corp.test.", 389, 9, 0)]
    for (dom, forest) in (("child.corp.test", "corp.test"), ("corp.test", "corp.test"), ("a.test", "zz.a.test")):
        wire = dataclasses.replace(blob, key_identifier=dataclasses.replace(blob.key_identifier, domain_name=dom, forest_name=forest)).pack()
        for kind in ("unprotect", "protect:None", "protect:" + dom):
            seen = {}
            for flavour in ("sync", "async"):
                log, servers = [], []

                def sgk(server, *a, **kw):
                    servers.append(server)
                    raise _Stop()

                async def agk(server, *a, **kw):
                    servers.append(server)
                    raise _Stop()
                saved = (d.dns, c._sync_get_key, c._async_get_key)
                d.dns, c._sync_get_key, c._async_get_key = FakeDns(recs, log), sgk, agk
                try:
                    if kind == "unprotect":
                        f = (lambda: dpapi_ng.ncrypt_unprotect_secret(wire)) if flavour == "sync" else (lambda: asyncio.run(dpapi_ng.async_ncrypt_unprotect_secret(wire)))
                        want_dom = dom
                    else:
                        arg = None if kind.endswith("None") else dom
                        f = (lambda: dpapi_ng.ncrypt_protect_secret(b"x", "S-1-5-18", domain_name=arg)) if flavour == "sync" else \
                            (lambda: asyncio.run(dpapi_ng.async_ncrypt_protect_secret(b"x", "S-1-5-18", domain_name=arg)))
                        want_dom = arg
                    try:
                        f()
                        res = "returned"
                    except _Stop:
                        res = "stopped at GetKey"
                    except Exception as e:  # noqa
                        res = "err " + canon_exc(e)
                finally:
                    d.dns, c._sync_get_key, c._async_get_key = saved
                want_q = "_ldap._tcp.dc._msdcs" + (("." + want_dom) if want_dom else "")
                obs = (res, [(m, n) for (m, n, _, _) in log], servers)
                want = ("stopped at GetKey", [(flavour, want_q)], ["dc01.child.corp.test"])
                ctx.count("call_site:" + kind.split(":")[0] + ":" + flavour)
                if obs != want:
                    ctx.violation("the API does not look up the DC of the right domain / connect to the chosen record",
                                  {"api": kind, "flavour": flavour, "blob_domain": dom, "blob_forest": forest}, str(obs), str(want))
                seen[flavour] = (obs[1][0][1] if obs[1] else None, obs[2])
            if seen["sync"] != seen["async"]:
                ctx.violation("sync and async APIs look up / connect differently", {"api": kind, "blob_domain": dom, "blob_forest": forest}, str(seen["async"]), str(seen["sync"]))


def run(ctx):
    prelude.validate(ctx)
    call_sites(ctx)
    faults(ctx)
    rng = ctx.rng
    N = 5 if ctx.thorough else 3
    vals = [(p, w) for p in (0, 1, 2) for w in (0, 1, 2)]
    cases = []
    seen_sync_async = 0
    domains = ["example.com", None, "", "corp.domain.test"]
    for n in range(0, N + 1):
        for combo in itertools.combinations_with_replacement(range(len(vals)), n):
            perms = set(itertools.permutations(combo))
            for perm in perms:
                recs = []
                for i, vi in enumerate(perm):
                    p, w = vals[vi]
                    dot = "." if (i + vi) % 2 == 0 else ""
                    recs.append((f"dc{i}.example.com{dot}", 389 + i, w, p))
                domain = domains[(len(perm) + sum(perm)) % len(domains)]
                out_s = impl(domain, recs, False)
                cases.append((opline(domain, recs), out_s))
                ctx.count(f"records:{n}")
                oracle(ctx, domain, recs, out_s)
                if rng.random() < (0.02 if ctx.thorough else 0.3):
                    out_a = impl(domain, recs, True)
                    cases.append((opline(domain, recs), out_a))
                    seen_sync_async += 1
                    if out_a != out_s:
                        ctx.violation("sync and async lookups disagree", {"domain": domain, "records": recs}, out_a, out_s)
    # wide value ranges, multiple trailing dots, unicode-free odd names
    for _ in range(300):
        n = rng.randrange(1, 7)
        recs = [(rng.choice(["a.b", "a.b.", "host.", "x", "dc.corp.test.", ".", ""]), rng.randrange(0, 65536), rng.choice([0, 1, rng.randrange(0, 65536)]), rng.choice([0, 1, rng.randrange(0, 65536)])) for _ in range(n)]
        domain = rng.choice(domains)
        out = impl(domain, recs, rng.random() < 0.5)
        cases.append((opline(domain, recs), out))
        oracle(ctx, domain, recs, out)
        ctx.count("records:random")
    ctx.count("async_cases", seen_sync_async)
    ctx.exhaustive = True
    ctx.compare_batch(cases, nontrivial=lambda line, impl: line.count(";") >= 1)


def search(ctx, broken, disagreements):
    for d in disagreements:
        toks = d["op"].split(" ")
        if toks[0] != "dnspick" or toks[2] == "-":
            continue
        domain = None if toks[1] == "none" else bytes.fromhex(toks[1].replace("-", "")).decode()
        recs = []
        for r in toks[2].split(";"):
            t, p, w, pr = r.split(":")
            recs.append((bytes.fromhex(t.replace("-", "")).decode(), int(p), int(w), int(pr)))
        for a in (False, True):
            oracle(ctx, domain, recs, impl(domain, recs, a))


def replay(ctx, payload):
    v = payload["violation"]["input"]
    n0 = len(ctx.violations)
    if v.get("scenario") == "resolution_fault":
        faults(ctx)
        for x in ctx.violations[n0:]:
            print(" ", x["what"], x["input"], x["observed"])
        return len(ctx.violations) == n0
    if "api" in v:
        call_sites(ctx)
        for x in ctx.violations[n0:]:
            print(" ", x["what"], x["input"], x["observed"])
        return len(ctx.violations) == n0
    recs = [tuple(r) for r in v["records"]]
    for a in (False, True):
        out = impl(v.get("domain"), recs, a)
        print(("async " if a else "sync ") + out)
        oracle(ctx, v.get("domain"), recs, out)
    return len(ctx.violations) == n0
