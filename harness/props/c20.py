"""C20 — DC discovery asks the right SRV name and picks the best record."""
from __future__ import annotations
import asyncio, itertools
import prelude
from check import canon_exc, hx

MANIFEST = {
    "text": "Lean theorems pick_best (lowest priority, then highest weight, for every non-empty answer list), pick_perm (order independence under any permutation), query_name, strip_target/rstrip_dot over a model whose selection is core List.mergeSort (stable) on the key (priority, -weight); tied to _dns.py by correspondence of lookup_dc and async_lookup_dc with the resolver scripted over every multiset of ≤3 (quick) / ≤5 (thorough) records in every permutation",
    "note": "Trusted: Lean kernel; that Python's sorted() is a stable sort by the key tuple (modelled by mergeSort); dnspython's Answer iteration order = the scripted order; tie is differential",
    "technique": "Lean 4 proof (sortedness + permutation lemmas of mergeSort) over a hand-written model + exhaustive small-scope correspondence",
}
THEOREMS = ["DpapiNg.C20.query_name", "DpapiNg.C20.pick_best", "DpapiNg.C20.pick_perm", "DpapiNg.C20.strip_target",
            "DpapiNg.C20.rstrip_dot", "DpapiNg.C20.pick_empty"]
RULE = ("every multiset of 1..N SRV records over priorities {0,1,2} × weights {0,1,2} in every permutation (N=3 quick, 5 thorough), "
        "targets with/without trailing dots, domain given / None / ''; sync and async lookups; distinct by op line, non-trivial = ≥2 records")
ASSUMPTIONS = ["sorted() is stable", "the SRV prefix and the '.' join are ASCII"]


class Rec:
    def __init__(self, target, port, weight, priority):
        self.target, self.port, self.weight, self.priority = target, port, weight, priority


class FakeDns:
    """Stands for the `dns` package as seen from dpapi_ng._dns."""
    def __init__(self, answers, log):
        outer = self

        class _R:
            @staticmethod
            def resolve(name, rdtype, **kw):
                log.append(("sync", name, rdtype, kw))
                return list(outer.answers)

        class _A:
            @staticmethod
            async def resolve(name, rdtype, **kw):
                log.append(("async", name, rdtype, kw))
                return list(outer.answers)
        self.answers = answers
        self.resolver = _R
        self.asyncresolver = _A


def impl(domain, recs, use_async):
    import dpapi_ng._dns as d
    log = []
    old = d.dns
    d.dns = FakeDns([Rec(*r) for r in recs], log)
    try:
        if use_async:
            r = asyncio.run(d.async_lookup_dc(domain))
        else:
            r = d.lookup_dc(domain)
        (_, name, rdtype, kw) = log[0]
        extra = "" if (rdtype == "SRV" and kw == {"search": True} and len(log) == 1) else f" BADCALL {rdtype} {kw} {len(log)}"
        return f"ok {hx(name.encode())} {hx(r.target.encode())} {r.port} {r.weight} {r.priority}" + extra
    except Exception as e:  # noqa
        return "err " + canon_exc(e)
    finally:
        d.dns = old


def opline(domain, recs):
    dom = "none" if domain is None else hx(domain.encode())
    rs = ";".join(f"{hx(t.encode())}:{p}:{w}:{pr}" for (t, p, w, pr) in recs) or "-"
    return f"dnspick {dom} {rs}"


def oracle(ctx, domain, recs, out):
    """Direct oracle: lowest priority, then highest weight; trailing dot removed; other fields unchanged."""
    if not recs:
        return
    if not out.startswith("ok ") or "BADCALL" in out:
        ctx.violation("lookup failed or resolver called with the wrong arguments", {"domain": domain, "records": recs}, out, "ok")
        return
    _, q, t, p, w, pr = out.split(" ")[:6]
    want_q = "_ldap._tcp.dc._msdcs" + (("." + domain) if domain else "")
    if bytes.fromhex(q).decode() != want_q:
        ctx.violation("wrong SRV query name", {"domain": domain}, bytes.fromhex(q).decode(), want_q)
    best_p = min(r[3] for r in recs)
    best_w = max(r[2] for r in recs if r[3] == best_p)
    if (int(pr), int(w)) != (best_p, best_w):
        ctx.violation("did not pick lowest priority / highest weight", {"domain": domain, "records": recs}, out, f"priority {best_p} weight {best_w}")
        return
    target = bytes.fromhex(t.replace("-", "")).decode()
    cands = [r for r in recs if r[3] == best_p and r[2] == best_w and r[1] == int(p)
             and (r[0] == target or r[0] == target + ".")]
    if not cands:
        ctx.violation("returned record is not one of the answers with its trailing dot removed", {"domain": domain, "records": recs}, out, "a record of the answer")


def run(ctx):
    prelude.validate(ctx)
    rng = ctx.rng
    N = 5 if ctx.thorough else 3
    vals = [(p, w) for p in (0, 1, 2) for w in (0, 1, 2)]
    cases = []
    seen_sync_async = 0
    domains = ["example.com", None, "", "corp.domain.test"]
    for n in range(0, N + 1):
        for combo in itertools.combinations_with_replacement(range(len(vals)), n):
            perms = set(itertools.permutations(combo))
            for perm in perms:
                recs = []
                for i, vi in enumerate(perm):
                    p, w = vals[vi]
                    dot = "." if (i + vi) % 2 == 0 else ""
                    recs.append((f"dc{i}.example.com{dot}", 389 + i, w, p))
                domain = domains[(len(perm) + sum(perm)) % len(domains)]
                out_s = impl(domain, recs, False)
                cases.append((opline(domain, recs), out_s))
                ctx.count(f"records:{n}")
                oracle(ctx, domain, recs, out_s)
                if rng.random() < (0.02 if ctx.thorough else 0.3):
                    out_a = impl(domain, recs, True)
                    cases.append((opline(domain, recs), out_a))
                    seen_sync_async += 1
                    if out_a != out_s:
                        ctx.violation("sync and async lookups disagree", {"domain": domain, "records": recs}, out_a, out_s)
    # wide value ranges, multiple trailing dots, unicode-free odd names
    for _ in range(300):
        n = rng.randrange(1, 7)
        recs = [(rng.choice(["a.b", "a.b.", "host.", "x", "dc.corp.test."]), rng.randrange(0, 65536), rng.randrange(0, 65536), rng.randrange(0, 65536)) for _ in range(n)]
        domain = rng.choice(domains)
        out = impl(domain, recs, rng.random() < 0.5)
        cases.append((opline(domain, recs), out))
        oracle(ctx, domain, recs, out)
        ctx.count("records:random")
    ctx.count("async_cases", seen_sync_async)
    ctx.exhaustive = True
    ctx.compare_batch(cases, nontrivial=lambda line, impl: line.count(";") >= 1)


def search(ctx, broken, disagreements):
    for d in disagreements:
        toks = d["op"].split(" ")
        if toks[0] != "dnspick" or toks[2] == "-":
            continue
        domain = None if toks[1] == "none" else bytes.fromhex(toks[1].replace("-", "")).decode()
        recs = []
        for r in toks[2].split(";"):
            t, p, w, pr = r.split(":")
            recs.append((bytes.fromhex(t.replace("-", "")).decode(), int(p), int(w), int(pr)))
        for a in (False, True):
            oracle(ctx, domain, recs, impl(domain, recs, a))


def replay(ctx, payload):
    v = payload["violation"]["input"]
    recs = [tuple(r) for r in v["records"]]
    n0 = len(ctx.violations)
    for a in (False, True):
        out = impl(v.get("domain"), recs, a)
        print(("async " if a else "sync ") + out)
        oracle(ctx, v.get("domain"), recs, out)
    return len(ctx.violations) == n0
