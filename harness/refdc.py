"""Reference MS-GKDI key server (the key-derivation half of a domain controller), independent of
dpapi_ng's derivation code: it answers GetKey(target_sd, root_key_id, L0, L1, L2) with the group
key envelope a conforming DC returns (MS-GKDI 3.1.4.1): seed keys for authorised callers, the
group public key otherwise.  `kdf` is pluggable so the same server runs under the toy KDF (model
correspondence) and under real HMAC (direct oracles / C17)."""
from __future__ import annotations
import struct, uuid
import refimpl


class RootKeyRec:
    def __init__(self, rk_id: uuid.UUID, key: bytes, hash_name="SHA512", secret_algorithm="DH", secret_parameters=None,
                 private_key_length=512, public_key_length=2048, version=1):
        self.id, self.key, self.hash_name, self.secret_algorithm = rk_id, key, hash_name, secret_algorithm
        self.secret_parameters = secret_parameters if secret_parameters is not None else (
            refimpl.ffc_params(256, refimpl.RFC5114_P, refimpl.RFC5114_G) if secret_algorithm == "DH" else b"")
        self.private_key_length, self.public_key_length, self.version = private_key_length, public_key_length, version

    @property
    def kdf_parameters(self):
        n = refimpl.u16z(self.hash_name)
        return struct.pack("<IIII", 0, 1, len(n), 0) + n


class KeyServer:
    def __init__(self, kdf_factory=None, now=(361, 17, 13), domain="domain.test", forest="forest.test", public_for=lambda sd: False, l2_at_31=True,
                 public_key_fn=None):
        """kdf_factory(hash_name) -> kdf(key, context) (64-byte output, label 'KDS service');
        public_key_fn(root, l2_seed) -> bytes overrides the group public key computation (toy groups)"""
        self.roots = {}
        self.kdf_factory = kdf_factory or (lambda hn: (lambda k, c: refimpl.kbkdf_hmac(hn.lower(), k, refimpl.LABEL, c, 64)))
        self.now, self.domain, self.forest = now, domain, forest
        self.public_for, self.l2_at_31, self.public_key_fn = public_for, l2_at_31, public_key_fn
        self.calls = []
        self.default_root = None

    def add_root(self, rec: RootKeyRec, default=False):
        self.roots[rec.id] = rec
        if default or self.default_root is None:
            self.default_root = rec.id

    def chain(self, rec, sd, l0):
        return refimpl.Chain(rec.hash_name.lower(), rec.key, rec.id, sd, l0, kdf=self.kdf_factory(rec.hash_name))

    def get_key(self, target_sd: bytes, root_key_id, l0=-1, l1=-1, l2=-1):
        """returns the fields of the GroupKeyEnvelope (dict), for dpapi_ng.GroupKeyEnvelope(**fields)"""
        self.calls.append((bytes(target_sd), root_key_id, l0, l1, l2))
        rec = self.roots[root_key_id] if root_key_id else self.roots[self.default_root]
        if (l0, l1, l2) == (-1, -1, -1):
            l0, l1, l2 = self.now
        if l1 == -1 or l2 == -1 or not (0 <= l1 <= 31 and 0 <= l2 <= 31):
            raise ValueError("reference DC: unsupported key id")
        if getattr(self, "reply_at_now", False) and l0 == self.now[0] and (l1, l2) <= tuple(self.now[1:]):
            # another conforming answer: the newest seed keys the caller may hold, which cover the requested position
            l1, l2 = self.now[1:]
        ch = self.chain(rec, bytes(target_sd), l0)
        common = dict(version=rec.version, l0=l0, l1=l1, l2=l2, root_key_identifier=rec.id, kdf_algorithm="SP800_108_CTR_HMAC",
                      kdf_parameters=rec.kdf_parameters, secret_algorithm=rec.secret_algorithm, secret_parameters=rec.secret_parameters,
                      private_key_length=rec.private_key_length, public_key_length=rec.public_key_length,
                      domain_name=self.domain, forest_name=self.forest)
        if self.public_for(bytes(target_sd)):
            seed = ch.K2(l1, l2)
            pub = (self.public_key_fn(rec, seed) if self.public_key_fn else
                   refimpl.group_public_key(rec.hash_name.lower(), seed, rec.secret_algorithm, rec.secret_parameters, rec.private_key_length))
            return dict(common, flags=1, l1_key=b"", l2_key=pub)
        k1, k2 = ch.seed_keys(l1, l2, self.l2_at_31)
        return dict(common, flags=0, l1_key=k1, l2_key=k2)
