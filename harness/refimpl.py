"""Independent reference implementations, written from the specifications (SP800-108, SP800-56A,
MS-GKDI 3.1.4.1) with hashlib/hmac and pure-Python elliptic-curve arithmetic only.  Used as
direct oracles and as the key-derivation core of the reference domain controller (harness/refdc.py).
Nothing here imports dpapi_ng.
"""
from __future__ import annotations
import hashlib, hmac, math, struct, uuid

LABEL = "KDS service\0".encode("utf-16-le")
PUBLABEL = "KDS public key\0".encode("utf-16-le")
SHA512ID = "SHA512\0".encode("utf-16-le")


def u16z(s: str) -> bytes:
    return (s + "\0").encode("utf-16-le")


def kbkdf_hmac(hashname, key, label, context, length):
    """SP800-108 KDF in counter mode, HMAC PRF, 32-bit counter before the fixed data, 32-bit L."""
    out, i = b"", 1
    while len(out) < length:
        out += hmac.new(key, struct.pack(">I", i) + label + b"\x00" + context + struct.pack(">I", length * 8), hashname).digest()
        i += 1
    return out[:length]


def concat_kdf(hashname, z, otherinfo, length):
    """SP800-56A single-step (concatenation) KDF with a hash."""
    out, i = b"", 1
    while len(out) < length:
        out += hashlib.new(hashname, struct.pack(">I", i) + z + otherinfo).digest()
        i += 1
    return out[:length]


def kctx(rk: uuid.UUID, l0, l1, l2) -> bytes:
    return rk.bytes_le + struct.pack("<iii", l0, l1, l2)


class Chain:
    """MS-GKDI key chain for one (hash, root key, root key id, SD, L0); K1/K2 computed lazily."""
    def __init__(self, hashname, root_key, rk, sd, l0, kdf=None):
        self.kdf = kdf or (lambda k, c: kbkdf_hmac(hashname, k, LABEL, c, 64))
        self.rk, self.sd, self.l0 = rk, sd, l0
        l0seed = self.kdf(root_key, kctx(rk, l0, -1, -1))
        self._k1 = {31: self.kdf(l0seed, kctx(rk, l0, 31, -1) + sd)}
        self._k2 = {}

    def K1(self, i):
        if i not in self._k1:
            self._k1[i] = self.kdf(self.K1(i + 1), kctx(self.rk, self.l0, i, -1))
        return self._k1[i]

    def K2(self, i, j):
        if (i, j) not in self._k2:
            if j == 31:
                self._k2[(i, j)] = self.kdf(self.K1(i), kctx(self.rk, self.l0, i, 31))
            else:
                self._k2[(i, j)] = self.kdf(self.K2(i, j + 1), kctx(self.rk, self.l0, i, j))
        return self._k2[(i, j)]

    def seed_keys(self, a, b, with_l2_at_31=True):
        """(l1_key, l2_key) a conforming server returns for position (a, b) (MS-GKDI 2.2.4)"""
        if b == 31:
            return self.K1(a), (self.K2(a, 31) if with_l2_at_31 else b"")
        return (self.K1(a - 1) if a > 0 else b""), self.K2(a, b)


# --- pure-Python short Weierstrass arithmetic (a = -3) ---------------------------------------------
class Curve:
    def __init__(self, name, p, b, gx, gy, size):
        self.name, self.p, self.b, self.g, self.size = name, p, b, (gx, gy), size

    def on_curve(self, P):
        x, y = P
        return (y * y - (x * x * x - 3 * x + self.b)) % self.p == 0

    def add(self, P, Q):
        if P is None:
            return Q
        if Q is None:
            return P
        p = self.p
        (x1, y1), (x2, y2) = P, Q
        if x1 == x2 and (y1 + y2) % p == 0:
            return None
        if P == Q:
            lam = (3 * x1 * x1 - 3) * pow(2 * y1, -1, p) % p
        else:
            lam = (y2 - y1) * pow(x2 - x1, -1, p) % p
        x3 = (lam * lam - x1 - x2) % p
        return x3, (lam * (x1 - x3) - y1) % p

    def mul(self, k, P):
        R = None
        while k:
            if k & 1:
                R = self.add(R, P)
            P = self.add(P, P)
            k >>= 1
        return R


P256 = Curve("P256", 2**256 - 2**224 + 2**192 + 2**96 - 1,
             0x5ac635d8aa3a93e7b3ebbd55769886bc651d06b0cc53b0f63bce3c3e27d2604b,
             0x6b17d1f2e12c4247f8bce6e563a440f277037d812deb33a0f4a13945d898c296,
             0x4fe342e2fe1a7f9b8ee7eb4a7c0f9e162bce33576b315ececbb6406837bf51f5, 32)
P384 = Curve("P384", 2**384 - 2**128 - 2**96 + 2**32 - 1,
             0xb3312fa7e23ee7e4988e056be3f82d19181d9c6efe8141120314088f5013875ac656398d8a2ed19d2a85c8edd3ec2aef,
             0xaa87ca22be8b05378eb1c71ef320ad746e1d3b628ba79b9859f741e082542a385502f25dbf55296c3a545e3872760ab7,
             0x3617de4a96262c6f5d9e98bf9292dc29f8f41dbd289a147ce9da3113b5f0b8c00a60b1ce1d7e819d7a431d7c90ea0e5f, 48)
CURVES = {"ECDH_P256": (P256, b"ECK1", "sha256"), "ECDH_P384": (P384, b"ECK3", "sha384")}
assert P256.on_curve(P256.g) and P384.on_curve(P384.g)

# RFC 5114 2.3 (2048-bit MODP group with 256-bit prime order subgroup)
RFC5114_P = 17125458317614137930196041979257577826408832324037508573393292981642667139747621778802438775238728592968344613589379932348475613503476932163166973813218698343816463289144185362912602522540494983090531497232965829536524507269848825658311420299335922295709743267508322525966773950394919257576842038771632742044142471053509850123605883815857162666917775193496157372656195558305727009891276006514000409365877218171388319923896309377791762590614311849642961380224851940460421710449368927252974870395873936387909672274883295377481008150475878590270591798350563488168080923804611822387520198054002990623911454389104774092183
RFC5114_G = 8041367327046189302693984665026706374844608289874374425728797669509435881459140662650215832833471328470334064628508692231999401840332046192569287351991689963279656892562484773278584208040987631569628520464069532361274047374444344996651832979378318849943741662110395995778429270819222431610927356005913836932462099770076239554042855287138026806960470277326229482818003962004453764400995790974042663675692120758726145869061236443893509136147942414445551848162391468541444355707785697825741856849161233887307017428371823608125699892904960841221593344499088996021883972185241854777608212592397013510086894908468466292313


def ffc_params(kl, p, g) -> bytes:
    return struct.pack("<I4sI", 12 + 2 * kl, b"DHPM", kl) + p.to_bytes(kl, "big") + g.to_bytes(kl, "big")


def ffc_key(kl, p, g, y) -> bytes:
    return b"DHPB" + struct.pack("<I", kl) + p.to_bytes(kl, "big") + g.to_bytes(kl, "big") + y.to_bytes(kl, "big")


def parse_ffc_params(b):
    kl = struct.unpack_from("<I", b, 8)[0]
    return kl, int.from_bytes(b[12:12 + kl], "big"), int.from_bytes(b[12 + kl:12 + 2 * kl], "big")


def group_private_key(hashname, l2_seed, secret_alg, private_key_length_bits):
    """the private key of the group key pair for a position, derived from the L2 seed key (MS-GKDI 3.1.4.1.2)"""
    return kbkdf_hmac(hashname, l2_seed, LABEL, u16z(secret_alg), math.ceil(private_key_length_bits / 8))


def group_public_key(hashname, l2_seed, secret_alg, secret_params, private_key_length_bits) -> bytes:
    x = int.from_bytes(group_private_key(hashname, l2_seed, secret_alg, private_key_length_bits), "big")
    if secret_alg == "DH":
        kl, p, g = parse_ffc_params(secret_params)
        return ffc_key(kl, p, g, pow(g, x, p))
    cv, magic, _ = CURVES[secret_alg]
    pt = cv.mul(x, cv.g)
    if pt is None:
        raise ValueError("the derived private scalar is ≡ 0 mod the group order: no group public key exists")
    X, Y = pt
    return magic + struct.pack("<I", cv.size) + X.to_bytes(cv.size, "big") + Y.to_bytes(cv.size, "big")


def shared_secret(secret_alg, private_key: bytes, peer_public: bytes):
    """(Z, hash for the concat KDF) from a private key and the peer's FFCDHKey / ECDHKey structure"""
    d = int.from_bytes(private_key, "big")
    if secret_alg == "DH":
        assert peer_public[:4] == b"DHPB"
        kl = struct.unpack_from("<I", peer_public, 4)[0]
        p = int.from_bytes(peer_public[8:8 + kl], "big")
        y = int.from_bytes(peer_public[8 + 2 * kl:8 + 3 * kl], "big")
        return pow(y, d, p).to_bytes(kl, "big"), "sha256"
    cv, magic, hn = CURVES[secret_alg]
    assert peer_public[:4] == magic
    kl = struct.unpack_from("<I", peer_public, 4)[0]
    P = (int.from_bytes(peer_public[8:8 + kl], "big"), int.from_bytes(peer_public[8 + kl:8 + 2 * kl], "big"))
    assert cv.on_curve(P)
    return cv.mul(d, P)[0].to_bytes(cv.size, "big"), hn


def kek_public(hashname, secret_alg, private_key: bytes, peer_public: bytes) -> bytes:
    """KEK in public-key mode: DH/ECDH → SP800-56A concat KDF → SP800-108, as Windows parameterises them"""
    z, zh = shared_secret(secret_alg, private_key, peer_public)
    secret = concat_kdf(zh, z, SHA512ID + PUBLABEL + LABEL, hashlib.new(zh).digest_size)
    return kbkdf_hmac(hashname, secret, LABEL, PUBLABEL, 32)


def kek_nonce(hashname, l2_seed, nonce) -> bytes:
    return kbkdf_hmac(hashname, l2_seed, LABEL, nonce, 32)
