"""Reference DCE/RPC domain controller, in-process: endpoint mapper (ept_map) on "port 135" and the
MS-GKDI ISD_KEY interface (GetKey) on a dynamic port, written from C706 / MS-RPCE / MS-GKDI with
`struct` only (it does not use dpapi_ng's codecs).  Key derivation is harness/refdc.KeyServer; the
security context is pluggable (the toy context of rpcfmt, or a real pyspnego NTLM acceptor)."""
from __future__ import annotations
import struct, uuid
import refdc, rpcfmt

EPM_UUID = uuid.UUID("e1af8308-5d1f-11c9-91a4-08002b14a0fa")
ISD_KEY_UUID = uuid.UUID("b9785960-524f-11df-8b6d-83dcded72085")
NDR_UUID = uuid.UUID("8a885d04-1ceb-11c9-9fe8-08002b104860")
NDR64_UUID = uuid.UUID("71710533-beba-4937-8319-b5dbef9ccc36")
BTFN_PREFIX = uuid.UUID("6cb71c2c-9812-4540-0000-000000000000").bytes_le[:8]
VT_SIG = bytes.fromhex("8ae3137102f43671")


class ToyAcceptor:
    """server side of the toy security context: n legs, then seals with rpcfmt.toy_wrap"""
    def __init__(self, legs=2, header_len=16, support_header_sign=True, final_token=None):
        self.legs, self.header_len, self.support_header_sign, self.final_token = legs, header_len, support_header_sign, final_token
        self.seen = []
        self.complete = False

    def step(self, token):
        self.seen.append(bytes(token))
        if len(self.seen) >= self.legs:
            self.complete = True
            return self.final_token          # None: the last reply carries no security trailer
        return b"srv-%d" % len(self.seen)

    def unwrap(self, sign, header, body, trailer, signature):
        return rpcfmt.toy_unwrap(sign, header, body, trailer, signature)

    def wrap(self, sign, header, body, trailer):
        return rpcfmt.toy_wrap(sign, header, body, trailer, self.header_len)


class Connection:
    """one TCP connection to the reference DC; `feed(bytes)` → reply bytes"""
    def __init__(self, dc, port):
        self.dc, self.port = dc, port
        self.acceptor = dc.acceptor_factory() if port != 135 else None
        self.contexts = {}
        self.sign = False
        self.pdus = []          # decoded client PDUs (the transcript)
        self.buf = b""

    def feed(self, data: bytes) -> bytes:
        self.writes = getattr(self, "writes", []) + [len(data)]      # what the client handed to the transport, write by write
        self.buf += data
        out = b""
        while len(self.buf) >= 16:
            frag = struct.unpack_from("<H", self.buf, 8)[0]
            if len(self.buf) < frag:
                break
            pdu, self.buf = self.buf[:frag], self.buf[frag:]
            out += self.handle(pdu)
        return out

    def hdr(self, ptype, flags, frag_len, auth_len, call_id):
        return struct.pack("<BBBBBBBBHHI", 5, 0, ptype, flags, 0x10, 0, 0, 0, frag_len, auth_len, call_id)

    def handle(self, pdu: bytes) -> bytes:
        ver, vmin, ptype, flags, drep0, _, _, _, frag, auth_len, call_id = struct.unpack_from("<BBBBBBBBHHI", pdu, 0)
        rec = {"type": ptype, "flags": flags, "auth_len": auth_len, "call_id": call_id, "frag_len": frag, "size": len(pdu)}
        self.pdus.append(rec)
        body_end = len(pdu) - (auth_len + 8 if auth_len else 0)
        trailer = pdu[body_end:body_end + 8] if auth_len else None
        token = pdu[body_end + 8:] if auth_len else None
        if trailer:
            rec["sec_trailer"] = struct.unpack("<BBBBI", trailer)
            rec["token"] = token
        if ptype in (11, 14):                                  # bind / alter_context
            n = pdu[24]
            off = 28
            ctxs = []
            for _ in range(n):
                cid, nts = struct.unpack_from("<HH", pdu, off)
                abstract = (uuid.UUID(bytes_le=pdu[off + 4:off + 20]), struct.unpack_from("<HH", pdu, off + 20))
                off += 24
                ts = []
                for _ in range(nts):
                    ts.append((pdu[off:off + 16], struct.unpack_from("<I", pdu, off + 16)[0]))
                    off += 20
                ctxs.append((cid, abstract, ts))
            rec["contexts"] = ctxs
            rec["max_frags"] = struct.unpack_from("<HH", pdu, 16)
            results = []
            for cid, abstract, ts in ctxs:
                want = EPM_UUID if self.port == 135 else ISD_KEY_UUID
                if abstract[0] == want and any(t[0] == NDR64_UUID.bytes_le for t in ts):
                    results.append((0, 0, NDR64_UUID.bytes_le, 1))
                    self.contexts[cid] = "ndr64"
                elif ts and ts[0][0][:8] == BTFN_PREFIX:
                    results.append((3, 3, b"\x00" * 16, 0))                # negotiate_ack, both features
                else:
                    results.append((2, 1, b"\x00" * 16, 0))                # provider rejection: abstract syntax not supported
            out_tok = None
            rflags = 3
            if self.acceptor is not None and token is not None:
                out_tok = self.acceptor.step(token)
                if flags & 4 and self.acceptor.support_header_sign:
                    rflags |= 4
                    self.sign = True if ptype == 11 else self.sign
                elif ptype == 11:
                    self.sign = False
            sec_addr = b"%d\x00" % (self.port if self.port != 135 else 135)
            body = struct.pack("<HHI", 5840, 5840, 0x1234) + struct.pack("<H", len(sec_addr)) + sec_addr
            body += b"\x00" * (-(len(body) + 16) % 4)
            body += struct.pack("<I", len(results)) + b"".join(struct.pack("<HH16sI", *r) for r in results)
            auth = b""
            if out_tok is not None:
                auth = struct.pack("<BBBBI", 10, 6, 0, 0, 0) + out_tok
            rtype = 12 if ptype == 11 else 15
            total = 16 + len(body) + len(auth)
            return self.hdr(rtype, rflags, total, len(out_tok) if out_tok is not None else 0, call_id) + body + auth
        if ptype == 0:                                          # request
            alloc, cid, opnum = struct.unpack_from("<IHH", pdu, 16)
            rec.update(context_id=cid, opnum=opnum)
            stub = pdu[24:body_end]
            if auth_len:
                try:
                    stub = self.acceptor.unwrap(self.sign, pdu[:24], stub, trailer, token)
                except Exception:  # noqa
                    return self.fault(call_id, 5)
                rec["sealed"] = True
                rec["pad_length"] = trailer[2]
                rec["auth_level"] = trailer[1]
            rec["plain_stub"] = stub
            if self.contexts.get(cid) != "ndr64":
                return self.fault(call_id, 0x1C00001A)
            if self.port == 135 and opnum == 3:
                reply = self.dc.ept_map(stub, rec)
            elif self.port != 135 and opnum == 0:
                if self.dc.require_privacy and not auth_len:
                    return self.fault(call_id, 5)
                reply = self.dc.get_key(stub, rec)
            else:
                return self.fault(call_id, 0x1C010002)
            if reply is None:
                return self.fault(call_id, 0x1C00001B)
            if auth_len:
                pad = -len(reply) % 16
                body = reply + b"\x00" * pad
                hl = self.acceptor.header_len
                tr = struct.pack("<BBBBI", 10, 6, pad, 0, 0)
                head = self.hdr(2, 3, 24 + len(body) + 8 + hl, hl, call_id) + struct.pack("<IHBB", len(body), cid, 0, 0)
                sealed, sig = self.acceptor.wrap(self.sign, head, body, tr)
                return head + sealed + tr + sig
            return self.hdr(2, 3, 24 + len(reply), 0, call_id) + struct.pack("<IHBB", len(reply), cid, 0, 0) + reply
        return self.fault(call_id, 0x1C010014)

    def fault(self, call_id, status):
        return self.hdr(3, 3, 32, 0, call_id) + struct.pack("<IHBBII", 0, 0, 0, 0, status, 0)


class ReferenceDC:
    def __init__(self, keyserver: refdc.KeyServer, isd_port=49664, acceptor_factory=None, require_privacy=True):
        self.ks, self.isd_port = keyserver, isd_port
        self.acceptor_factory = acceptor_factory or (lambda: ToyAcceptor())
        self.require_privacy = require_privacy
        self.connections = []
        self.ept_requests, self.getkey_requests = [], []

    def connect(self, port):
        c = Connection(self, port)
        self.connections.append(c)
        return c

    # ---- ept_map (C706 appendix, NDR64) ---------------------------------------------------------------------
    def ept_map(self, stub, rec):
        self.ept_requests.append(stub)
        # [in] object referent(8)+uuid(16) | map_tower referent(8) | tower: max(8) length(4) floors | entry_handle(20) | max_towers(4)
        tl = struct.unpack_from("<Q", stub, 32)[0]
        tower = stub[44:44 + tl]
        rec["tower"] = tower
        floors = self.parse_tower(tower)
        rec["floors"] = floors
        pad = -(44 + tl) % 8
        rec["max_towers"] = struct.unpack_from("<I", stub, 44 + tl + pad + 20)[0]
        want = floors and floors[0][0] == 13 and floors[0][1][:16] == ISD_KEY_UUID.bytes_le
        if not want:
            return struct.pack("<20sI", b"", 0) + struct.pack("<QQQ", 4, 0, 0) + struct.pack("<I", 0x16C9A0D6)
        t = self.make_tower(ISD_KEY_UUID, 1, NDR_UUID, 2, self.isd_port)
        out = struct.pack("<20sI", b"", 1) + struct.pack("<QQQ", 4, 0, 1) + struct.pack("<Q", 3)
        out += struct.pack("<QI", len(t), len(t)) + t
        out += b"\x00" * (-len(out) % 4)
        return out + struct.pack("<I", 0)

    @staticmethod
    def parse_tower(t):
        n = struct.unpack_from("<H", t, 0)[0]
        off, out = 2, []
        for _ in range(n):
            ll = struct.unpack_from("<H", t, off)[0]
            proto, lhs = t[off + 2], t[off + 3:off + 2 + ll]
            off += 2 + ll
            rl = struct.unpack_from("<H", t, off)[0]
            rhs = t[off + 2:off + 2 + rl]
            off += 2 + rl
            out.append((proto, lhs, rhs))
        return out

    @staticmethod
    def make_tower(iface, iface_ver, syntax, syntax_ver, port):
        def fl(proto, lhs, rhs):
            return struct.pack("<HB", len(lhs) + 1, proto) + lhs + struct.pack("<H", len(rhs)) + rhs
        floors = [fl(13, iface.bytes_le + struct.pack("<H", iface_ver), b"\x00\x00"), fl(13, syntax.bytes_le + struct.pack("<H", syntax_ver), b"\x00\x00"),
                  fl(11, b"", b"\x00\x00"), fl(7, b"", struct.pack(">H", port)), fl(9, b"", bytes([127, 0, 0, 1]))]
        return struct.pack("<H", len(floors)) + b"".join(floors)

    # ---- GetKey (MS-GKDI 3.1.4.1, NDR64) ---------------------------------------------------------------------
    def get_key(self, stub, rec):
        cb = struct.unpack_from("<I", stub, 0)[0]
        mx = struct.unpack_from("<Q", stub, 8)[0]
        sd = stub[16:16 + cb]
        off = 16 + cb
        off += -off % 8
        ref = struct.unpack_from("<Q", stub, off)[0]
        off += 8
        rk = None
        if ref:
            rk = uuid.UUID(bytes_le=stub[off:off + 16])
            off += 16
        l0, l1, l2 = struct.unpack_from("<iii", stub, off)
        off += 12
        rest = stub[off:]
        # verification trailer: aligned to 4 after the stub, signature then commands
        vt_off = off + (-off % 4)
        rec.update(cb=cb, max_count=mx, target_sd=sd, root_key_id=rk, l0=l0, l1=l1, l2=l2, args_end=off, vt=stub[vt_off:])
        self.getkey_requests.append(dict(rec))
        try:
            f = self.ks.get_key(sd, rk, l0, l1, l2)
        except Exception:  # noqa
            return struct.pack("<I", 0) + b"\x00" * 4 + struct.pack("<Q", 0) + struct.pack("<I", 0x80070057)
        env = self.pack_envelope(f)
        out = struct.pack("<I", len(env)) + b"\x00" * 4 + struct.pack("<Q", 0x20000) + struct.pack("<Q", len(env)) + env
        out += b"\x00" * (-len(out) % 4)
        return out + struct.pack("<I", 0)

    @staticmethod
    def pack_envelope(f):
        z = lambda s: (s + "\0").encode("utf-16-le")
        ka, sa, dn, fn = z(f["kdf_algorithm"]), z(f["secret_algorithm"]), z(f["domain_name"]), z(f["forest_name"])
        return struct.pack("<I4sIIII16sIIIIIIIIII", f["version"], b"KDSK", f["flags"], f["l0"], f["l1"], f["l2"], f["root_key_identifier"].bytes_le,
                           len(ka), len(f["kdf_parameters"]), len(sa), len(f["secret_parameters"]), f["private_key_length"], f["public_key_length"],
                           len(f["l1_key"]), len(f["l2_key"]), len(dn), len(fn)) + ka + f["kdf_parameters"] + sa + f["secret_parameters"] + dn + fn + f["l1_key"] + f["l2_key"]
