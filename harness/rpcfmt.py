"""Line-protocol formatting of dpapi_ng._rpc / _epm objects (the Python twin of lean/DpapiNg/Drv/Rpc.lean),
generators of well-formed messages, and the toy security context (twin of `toyAuth`)."""
from __future__ import annotations
import uuid
import toycrypto
from check import hx


def jo(items, sep):
    items = list(items)
    return sep.join(items) if items else "-"


def header(h):
    d = h.data_rep
    return f"{h.version}.{h.version_minor}.{int(h.packet_type)}.{int(h.packet_flags)}.{int(d.byte_order)}.{int(d.character)}.{int(d.floating_point)}.{h.frag_len}.{h.auth_len}.{h.call_id}"


def trailer(t):
    return "none" if t is None else f"{int(t.type)}.{int(t.level)}.{t.pad_length}.{t.context_id}.{hx(t.auth_value)}"


def syn(s):
    return f"{hx(s.uuid.bytes_le)}:{s.version}:{s.version_minor}"


def ctxel(c):
    return f"{c.context_id}/{syn(c.abstract_syntax)}/{jo((syn(t) for t in c.transfer_syntaxes), ',')}"


def res(r):
    return f"{int(r.result)}:{r.reason}:{hx(r.syntax.bytes_le)}:{r.syntax_version}"


def body(p):
    from dpapi_ng import _rpc as r
    from dpapi_ng._rpc import _bind, _request, _pdu
    if isinstance(p, _bind.BindAck):
        al = int(isinstance(p, _bind.AlterContextResponse))
        return f"bindack {al} {p.max_xmit_frag} {p.max_recv_frag} {p.assoc_group} {hx(p.sec_addr.encode('utf-8'))} {jo((res(x) for x in p.results), '|')}"
    if isinstance(p, _bind.Bind):
        al = int(isinstance(p, _bind.AlterContext))
        return f"bind {al} {p.max_xmit_frag} {p.max_recv_frag} {p.assoc_group} {jo((ctxel(c) for c in p.contexts), '|')}"
    if isinstance(p, _bind.BindNak):
        return f"bindnak {p.reject_reason} {jo((f'{a}.{b}' for a, b in p.versions), '|')}"
    if isinstance(p, _request.Request):
        return f"request {p.alloc_hint} {p.context_id} {p.opnum} {'none' if p.obj is None else hx(p.obj.bytes_le)} {hx(p.stub_data)}"
    if isinstance(p, _request.Response):
        return f"response {p.alloc_hint} {p.context_id} {p.cancel_count} {hx(p.stub_data)}"
    if isinstance(p, _pdu.Fault):
        return f"fault {p.alloc_hint} {p.context_id} {p.cancel_count} {p.status} {int(p.flags)} {hx(p.stub_data)}"
    raise TypeError(type(p))


def pdu(p):
    return f"{header(p.header)} {trailer(p.sec_trailer)} {body(p)}"


def cmd(c):
    from dpapi_ng._rpc import _verification as v
    head = f"{c.command.value & 0x3FFF}.{int(c.flags)}"
    if isinstance(c, v.CommandBitmask):
        return f"{head}:bitmask:{c.bits}"
    if isinstance(c, v.CommandPContext):
        return f"{head}:pcontext:{syn(c.interface_id)}:{syn(c.transfer_syntax)}"
    if isinstance(c, v.CommandHeader2):
        d = c.data_rep
        return f"{head}:header2:{int(c.packet_type)}.{int(d.byte_order)}.{int(d.character)}.{int(d.floating_point)}.{c.call_id}.{c.context_id}.{c.opnum}"
    return f"{head}:raw:{hx(c.value)}"


def floor(f):
    from dpapi_ng import _epm as e
    if isinstance(f, e.TCPFloor):
        return f"tcp:{f.port}"
    if isinstance(f, e.IPFloor):
        return f"ip:{f.addr}"
    if isinstance(f, e.RPCConnectionOrientedFloor):
        return f"rpcco:{f.version_minor}"
    if isinstance(f, e.UUIDFloor):
        return f"uuid:{hx(f.uuid.bytes_le)}:{f.version}:{f.version_minor}"
    return f"raw:{f.protocol.value}:{hx(f.lhs)}:{hx(f.rhs)}"


def tower(t):
    return jo((floor(f) for f in t), ",")


def towers(ts):
    return "|".join(tower(t) for t in ts) if ts else "none"


def eh(h):
    return "none" if h is None else f"{h[0]}:{hx(h[1].bytes_le)}"


# ---- generators ------------------------------------------------------------------------------------
def rand_uuid(rng):
    return uuid.UUID(bytes=bytes(rng.randrange(256) for _ in range(16)))


def rand_syntax(rng):
    from dpapi_ng._rpc import SyntaxId
    import uuid as _uuid
    # half of the identifiers come from a small pool (NDR, NDR64, ISD_KEY), so the same interface is seen again with another major /
    # minor version — within one message and across decodes in one process
    pool = [_uuid.UUID("8a885d04-1ceb-11c9-9fe8-08002b104860"), _uuid.UUID("71710533-beba-4937-8319-b5dbef9ccc36"),
            _uuid.UUID("b9785960-524f-11df-8b6d-83dcded72085")]
    u = rng.choice(pool) if rng.random() < 0.5 else rand_uuid(rng)
    return SyntaxId(u, rng.choice([0, 1, 2, 65535]), rng.choice([0, 1, 2, 65535]))


def rand_header(rng, ptype, flags=None, auth_len=0):
    from dpapi_ng._rpc import PDUHeader, PacketType, PacketFlags, DataRep
    from dpapi_ng._rpc._pdu import IntegerRep, CharacterRep, FloatingPointRep
    # the data-representation label is carried as a label: every combination is a well-formed header (the library reads and
    # writes the header's integers little-endian whatever the label says)
    drep = DataRep() if rng.random() < 0.7 else DataRep(byte_order=rng.choice(list(IntegerRep)), character=rng.choice(list(CharacterRep)), floating_point=rng.choice(list(FloatingPointRep)))
    return PDUHeader(version=5, version_minor=rng.choice([0, 1]), packet_type=PacketType(ptype), packet_flags=PacketFlags(flags if flags is not None else rng.choice([3, 7, 0x83 if ptype == 0 else 3])),
                     data_rep=drep, frag_len=0, auth_len=auth_len, call_id=rng.choice([1, 2, 2**32 - 1]))


def rand_trailer(rng, n=None):
    from dpapi_ng._rpc import SecTrailer, SecurityProvider, AuthenticationLevel
    n = rng.choice([1, 16, 28, 60, 64]) if n is None else n
    return SecTrailer(type=rng.choice(list(SecurityProvider)), level=rng.choice(list(AuthenticationLevel)), pad_length=rng.randrange(16), context_id=rng.choice([0, 1, 2**32 - 1]),
                      auth_value=bytes(rng.randrange(256) for _ in range(n)))


def finalize(p):
    """set frag_len to the packed size (what the client does in _prepare_pdu) and return the bytes"""
    import dataclasses
    b = bytearray(p.pack())
    b[8:10] = len(b).to_bytes(2, "little")
    return bytes(b)


def rand_pdu(rng, ptype=None):
    from dpapi_ng import _rpc as r
    from dpapi_ng._rpc import _bind, _request, _pdu
    ptype = ptype if ptype is not None else rng.choice([0, 2, 3, 11, 12, 13, 14, 15])
    tr = rand_trailer(rng) if rng.random() < 0.5 and ptype != 13 else None
    al = len(tr.auth_value) if tr else 0
    if ptype in (11, 14):
        ctxs = [_bind.ContextElement(rng.choice([0, 1, 65535]), rand_syntax(rng), [rand_syntax(rng) for _ in range(rng.randrange(0, 5))]) for _ in range(rng.randrange(0, 9))]
        cls = _bind.Bind if ptype == 11 else _bind.AlterContext
        return cls(header=rand_header(rng, ptype, auth_len=al), sec_trailer=tr, max_xmit_frag=rng.choice([5840, 0, 65535]), max_recv_frag=5840, assoc_group=rng.choice([0, 2**32 - 1]), contexts=ctxs)
    if ptype in (12, 15):
        rs = [_bind.ContextResult(_bind.ContextResultCode(rng.randrange(4)), rng.choice([0, 1, 2, 65535]), rand_uuid(rng), rng.choice([0, 1, 2**32 - 1])) for _ in range(rng.randrange(0, 7))]
        sa = rng.choice(["", "1", "13", "135", "49664", "4966é", "x" * 7])
        cls = _bind.BindAck if ptype == 12 else _bind.AlterContextResponse
        return cls(header=rand_header(rng, ptype, auth_len=al), sec_trailer=tr, max_xmit_frag=5840, max_recv_frag=5840, assoc_group=rng.randrange(2**32), sec_addr=sa, results=rs)
    if ptype == 13:
        return _bind.BindNak(header=rand_header(rng, ptype), sec_trailer=None, reject_reason=rng.choice([0, 4, 65535]), versions=[(5, rng.randrange(256)) for _ in range(rng.randrange(0, 4))])
    stub = bytes(rng.randrange(256) for _ in range(rng.choice([0, 1, 7, 8, 16, 33, 100])))
    if ptype == 0:
        # (a present object UUID may have any value: the nil UUID is a value, not an absence)
        obj = rng.choice([rand_uuid(rng), rand_uuid(rng), uuid.UUID(int=0), uuid.UUID(int=1), uuid.UUID(int=2**128 - 1)]) if rng.random() < 0.5 else None
        return _request.Request(header=rand_header(rng, 0, flags=0x83 if obj is not None else 3, auth_len=al), sec_trailer=tr, alloc_hint=rng.choice([len(stub), len(stub), 0, max(0, len(stub) - 1), len(stub) + 5, 2**32 - 1]), context_id=rng.choice([0, 1]), opnum=rng.choice([0, 3, 65535]), obj=obj, stub_data=stub)
    if ptype == 2:
        return _request.Response(header=rand_header(rng, 2, auth_len=al), sec_trailer=tr, alloc_hint=rng.choice([len(stub), len(stub), 0, max(0, len(stub) - 1), len(stub) + 5, 2**32 - 1]), context_id=0, cancel_count=rng.choice([0, 255]), stub_data=stub)
    return _pdu.Fault(header=rand_header(rng, 3, auth_len=al), sec_trailer=tr, alloc_hint=rng.randrange(2**32), context_id=0, cancel_count=0, status=rng.choice([5, 0x1C010003, 2**32 - 1, 0x80070005, 0xC0000022, 0x80000000, 0x7FFFFFFF]),
                      flags=_pdu.FaultFlags(rng.choice([0, 1])), stub_data=stub)


# ---- toy security context -----------------------------------------------------------------------------
class _AuthError(Exception):
    pass


def AuthError(msg):
    """what a security context raises: pyspnego's contexts raise SpnegoError subclasses (a failed signature check is BadMICError),
    and so does the toy one — code that treats SpnegoError specially must meet the same type here"""
    try:
        from spnego.exceptions import BadMICError
        return BadMICError(context_msg=msg)
    except Exception:  # noqa  (pyspnego not importable: plain exception)
        return _AuthError(msg)


KEY = b"key"


def toy_wrap(sign, header, body, trailer, header_len):
    sealed = toycrypto.xor(body, toycrypto.stream(50, [KEY], len(body)))
    sig = toycrypto.stream(51, [KEY, header if sign else b"", body, trailer if sign else b""], header_len)
    return sealed, sig


def toy_unwrap(sign, header, body, trailer, signature):
    plain = toycrypto.xor(body, toycrypto.stream(50, [KEY], len(body)))
    if not signature or toycrypto.stream(51, [KEY, header if sign else b"", plain, trailer if sign else b""], len(signature)) != signature:
        raise AuthError("bad signature")
    return plain


class _Buf:
    def __init__(self, data):
        self.data = data


class _Res:
    def __init__(self, bufs):
        self.buffers = [_Buf(b) for b in bufs]


class ToyContext:
    """What `spnego.client(...)` is to AuthenticationProvider: scripted legs + the toy seal, behind pyspnego's iov interface."""
    def __init__(self, owner):
        self.o = owner
        self.complete = False

    def step(self, in_token=None):
        self.o.fed.append(in_token)
        if not self.o.script:
            raise AuthError("no more legs")
        tok, done = self.o.script.pop(0)
        self.complete = done
        return tok

    def query_message_sizes(self):
        return type("Sizes", (), {"header": self.o.header_len})()

    @property
    def context_attr(self):
        """what the peer's final token negotiated (pyspnego: ContextReq flags): integrity and confidentiality unless the owner says the
        acceptor cleared them — then, like pyspnego's NTLM without SIGN / SEAL, the context refuses to wrap or unwrap"""
        import spnego
        if getattr(self.o, "no_protection", False):
            return spnego.ContextReq(0)
        return spnego.ContextReq.integrity | spnego.ContextReq.confidentiality | spnego.ContextReq.sequence_detect | spnego.ContextReq.replay_detect

    @staticmethod
    def _parts(iov):
        import spnego.iov
        (t0, header), body, (t2, trailer), last = iov
        if t0 != t2 or t0 not in (spnego.iov.BufferType.sign_only, spnego.iov.BufferType.data_readonly):
            raise AuthError("unexpected iov buffer types")
        return t0 == spnego.iov.BufferType.sign_only, bytes(header), bytes(body), bytes(trailer), last

    def wrap_iov(self, iov, encrypt=True, qop=None):
        if getattr(self.o, "no_protection", False):
            raise AuthError("wrap without integrity or confidentiality")
        sign, header, body, trailer, _ = self._parts(iov)
        if not encrypt:
            raise AuthError("request not sealed")
        self.o.wrap_calls.append((header, body, trailer, sign))
        sealed, sig = toy_wrap(sign, header, body, trailer, self.o.header_len)
        return _Res([header, sealed, trailer, sig])

    def unwrap_iov(self, iov):
        if getattr(self.o, "no_protection", False):
            raise AuthError("unwrap without integrity or confidentiality")
        sign, header, body, trailer, last = self._parts(iov)
        signature = bytes(last[1])
        self.o.unwrap_calls.append((header, body, trailer, signature, sign))
        return _Res([header, toy_unwrap(sign, header, body, trailer, signature), trailer, signature])


def _provider_class():
    """ScriptedProvider IS dpapi_ng's AuthenticationProvider (its step / get_empty_trailer / wrap / unwrap run unchanged);
    only the pyspnego context underneath is the toy one."""
    from dpapi_ng._rpc._auth import AuthenticationProvider
    from dpapi_ng._rpc import SecurityProvider

    class ScriptedProvider(AuthenticationProvider):
        def __init__(self, script=(), header_len=16, provider=10, no_protection=False):
            self.no_protection = no_protection  # the acceptor negotiated neither integrity nor confidentiality
            self.script = list(script)          # [(out_token, complete_after)]
            self.fed = []
            self.header_len = header_len
            self.wrap_calls = []
            self.unwrap_calls = []
            # run the real constructor; only `spnego.client` underneath it is the toy context
            import dpapi_ng._rpc._auth as _auth
            real_client = _auth.spnego.client
            _auth.spnego.client = lambda *a, **kw: ToyContext(self)
            try:
                super().__init__("user", "pass", hostname="dc01", protocol={9: "negotiate", 10: "ntlm", 16: "kerberos"}.get(provider, "ntlm"))
            finally:
                _auth.spnego.client = real_client
            self.provider = SecurityProvider(provider)
    return ScriptedProvider


_PROVIDER = None


def ScriptedProvider(*a, **kw):
    global _PROVIDER
    if _PROVIDER is None:
        _PROVIDER = _provider_class()
    return _PROVIDER(*a, **kw)
