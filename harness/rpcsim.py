"""Scripted transports for the real RPC clients of dpapi_ng: a fake socket that delivers a chunk
list (sync), a real asyncio.StreamReader fed chunk by chunk (async), and helpers to build sealed
replies with the toy security context."""
from __future__ import annotations
import asyncio
import rpcfmt
from check import canon_exc, hx


class FakeSocket:
    """recv(n) returns the first min(n, |chunk|) bytes of the head chunk; no chunk left = EOF (b"")."""
    def __init__(self, chunks=(), replies=None):
        self.chunks = [bytes(c) for c in chunks]
        self.replies = list(replies) if replies is not None else None      # one reply (bytes or list of chunks) per send
        self.sent = []
        self.recv_calls = 0
        self.closed = False

    def sendall(self, data):
        self.sent.append(bytes(data))
        if self.replies is not None:
            if self.replies:
                r = self.replies.pop(0)
                if r is not None:
                    self.chunks += [r] if isinstance(r, (bytes, bytearray)) else list(r)

    def _take(self, n):
        self.recv_calls += 1
        if self.recv_calls > 100000:
            raise RuntimeError("recv budget exceeded (busy loop)")
        if not self.chunks:
            return b""
        c = self.chunks[0]
        out, rest = c[:n], c[n:]
        if rest:
            self.chunks[0] = rest
        else:
            self.chunks.pop(0)
        return out

    def recv(self, n, flags=0):
        import socket as _s
        if flags & _s.MSG_PEEK:        # look without consuming (counts as a read: a peek loop at EOF is still a busy loop)
            self.recv_calls += 1
            if self.recv_calls > 100000:
                raise RuntimeError("recv budget exceeded (busy loop)")
            return self.chunks[0][:n] if self.chunks else b""
        return self._take(n)

    def recv_into(self, view, nbytes=0, flags=0):
        d = self._take(nbytes or len(view))
        view[:len(d)] = d
        return len(d)

    def shutdown(self, how):
        pass

    def close(self):
        self.closed = True

    def settimeout(self, t):
        pass


class FakeWriter:
    def __init__(self, on_write=None):
        self.sent = []
        self.on_write = on_write

    def write(self, data):
        self.sent.append(bytes(data))
        if self.on_write:
            self.on_write(bytes(data))

    async def drain(self):
        return None

    def close(self):
        pass

    async def wait_closed(self):
        return None


def sync_client(sock, auth=None):
    from dpapi_ng._rpc._client import SyncRpcClient
    return SyncRpcClient(sock, auth)


def async_client(reader, writer, auth=None):
    from dpapi_ng._rpc._client import AsyncRpcClient
    c = AsyncRpcClient(reader, writer, auth)

    async def wrap_sync(func, *args):          # the thread-pool hop is irrelevant to the logic under test
        return func(*args)
    c._wrap_sync = wrap_sync
    return c


def sealed_response(stub: bytes, header_len: int, sign: bool, provider=10, pad=None, call_id=1, flags=3, ctx_id=0):
    """an authentic PKT_PRIVACY response as the peer's (toy) security context would produce it"""
    from dpapi_ng import _rpc as r
    from dpapi_ng._rpc import _request
    pad = (-len(stub)) % 16 if pad is None else pad
    body = stub + b"\x00" * pad
    tr = r.SecTrailer(type=r.SecurityProvider(provider), level=r.AuthenticationLevel.RPC_C_AUTHN_LEVEL_PKT_PRIVACY, pad_length=pad, context_id=0, auth_value=b"\x00" * header_len)
    hdr = r.PDUHeader(version=5, version_minor=0, packet_type=r.PacketType.RESPONSE, packet_flags=r.PacketFlags(flags), data_rep=r.DataRep(), frag_len=0, auth_len=header_len, call_id=call_id)
    p = _request.Response(header=hdr, sec_trailer=tr, alloc_hint=len(body), context_id=ctx_id, cancel_count=0, stub_data=body)
    raw = bytearray(p.pack())
    raw[8:10] = len(raw).to_bytes(2, "little")
    off = len(raw) - header_len - 8
    header, plain, trailer = bytes(raw[:24]), bytes(raw[24:off]), bytes(raw[off:off + 8])
    sealed, sig = rpcfmt.toy_wrap(sign, header, plain, trailer, header_len)
    return header + sealed + trailer + sig, plain
