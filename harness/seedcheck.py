#!/usr/bin/env python3
"""Regression suite for the checks themselves: apply every change kept under /verif/seeded/<label>/patch.diff to /repo (one at a
time, undone straight afterwards), run the property's quick check and report whether it is caught, and with a failing input.
  seedcheck.py [label ...]        (needs a clean /repo working tree; not registered in MANIFEST.json)"""
import glob, json, os, subprocess, sys

ROOT = os.path.dirname(os.path.dirname(os.path.abspath(__file__)))
labels = sys.argv[1:] or sorted(os.path.basename(os.path.dirname(p)) for p in glob.glob(os.path.join(ROOT, "seeded", "*", "patch.diff")))
assert subprocess.run(["git", "-C", "/repo", "status", "--short"], capture_output=True, text=True).stdout.strip() == "", "/repo not clean"
bad = 0
for lab in labels:
    d = os.path.join(ROOT, "seeded", lab)
    prop = json.load(open(os.path.join(d, "meta.json")))["property"]
    r = subprocess.run(["git", "-C", "/repo", "apply", os.path.join(d, "patch.diff")], capture_output=True, text=True)
    if r.returncode:
        print(f"{lab}: patch does not apply: {r.stderr.strip()[:200]}")
        bad += 1
        continue
    try:
        p = subprocess.run([os.path.join(ROOT, "check"), prop, "--tier", "quick"], capture_output=True, text=True, cwd=ROOT, timeout=3000)
        lines = [l for l in p.stdout.splitlines() if l.startswith("VIOLATION")]
        verdict = "MISSED" if p.returncode != 1 else ("caught, no failing input" if any("no-failing-input-found" in l for l in lines) else "caught with failing input")
        print(f"{lab}: {prop} exit={p.returncode} {verdict}")
        bad += verdict != "caught with failing input"
    finally:
        subprocess.run(["git", "-C", "/repo", "checkout", "--", "."])
# evidence files were rewritten by runs on modified trees: restore them from a run on the clean tree
print("re-run ./run_all.sh on the clean tree before committing evidence/")
sys.exit(1 if bad else 0)
