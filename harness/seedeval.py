#!/usr/bin/env python3
"""Evaluate one seeded change produced by an independent sub-agent:
  seedeval.py <Cxx> [<label>]
 1. in the scratch worktree /tmp/seed/<Cxx>: confirm the test suite passes with the change, the demo fails
    with it and passes without it;
 2. apply the patch to /repo, run ./check <Cxx> (quick), undo the patch;
 3. store patch.diff, demo.py and meta.json under /verif/seeded/<label or Cxx>/ with what was run and seen.
"""
import json, os, shutil, subprocess, sys

pid = sys.argv[1]
label = sys.argv[2] if len(sys.argv) > 2 else pid
wt = os.path.join(os.environ.get("SEED_DIR", "/tmp/seed"), pid)
out = f"{wt}/_out"
env = dict(os.environ, PYTHONPATH=f"{wt}/src")
PY = "/venv/bin/python"


def run(cmd, cwd=None, env=None, timeout=3000):
    p = subprocess.run(cmd, cwd=cwd, env=env, capture_output=True, text=True, timeout=timeout)
    return p.returncode, "\n".join(l for l in (p.stdout + p.stderr).splitlines() if not l.startswith("WARNING"))


patch = open(f"{out}/patch.diff").read()
meta = json.load(open(f"{out}/meta.json"))
# 1. scratch worktree
run(["git", "checkout", "--", "src"], cwd=wt)
rc0, o0 = run([PY, f"{out}/demo.py"], cwd=wt, env=env, timeout=600)
rc, o = run(["git", "apply", f"{out}/patch.diff"], cwd=wt)
assert rc == 0, o
rct, ot = run([PY, "-m", "pytest", "-q", "-p", "no:cacheprovider"], cwd=wt, env=env)
rc1, o1 = run([PY, f"{out}/demo.py"], cwd=wt, env=env, timeout=600)
run(["git", "checkout", "--", "src"], cwd=wt)
confirmed = dict(tests_pass_with_change=(rct == 0 and "276 passed" in ot), tests_tail=ot.splitlines()[-1] if ot else "",
                 demo_passes_without_change=(rc0 == 0), demo_fails_with_change=(rc1 != 0),
                 demo_with_change_tail=o1.splitlines()[-1][:300] if o1 else "", demo_without_change_tail=o0.splitlines()[-1][:300] if o0 else "")
print(json.dumps(confirmed, indent=1))
# 2. the checks against the change in /repo
rc, o = run(["git", "-C", "/repo", "status", "--short"])
assert o.strip() == "", "/repo not clean: " + o
rc, o = run(["git", "-C", "/repo", "apply", f"{out}/patch.diff"])
assert rc == 0, o
results = {}
try:
    for chk in [pid] + sys.argv[3:]:
        rc, o = run(["/verif/check", chk, "--tier", "quick"], cwd="/verif", timeout=3000)
        tail = [l for l in o.splitlines() if l.strip()][-3:]
        results[chk] = dict(exit=rc, tail=[t[:400] for t in tail])
        print(chk, "exit", rc)
        for t in tail:
            print("   ", t[:300])
finally:
    run(["git", "-C", "/repo", "checkout", "--", "."])
# 3. record
dst = f"/verif/seeded/{label}"
os.makedirs(dst, exist_ok=True)
shutil.copy(f"{out}/patch.diff", dst)
shutil.copy(f"{out}/demo.py", dst)
meta.update(confirmed_by_us=confirmed, checks=results,
            what_we_ran=[f"cd {wt} && PYTHONPATH=src /venv/bin/python -m pytest -q (with the patch)", "demo.py with and without the patch",
                         f"git -C /repo apply patch.diff; ./check {pid} --tier quick; git -C /repo checkout -- ."],
            caught=any(r["exit"] == 1 for r in results.values()),
            caught_with_failing_input=any(r["exit"] == 1 and not any("no-failing-input-found" in t for t in r["tail"]) for r in results.values()))
json.dump(meta, open(f"{dst}/meta.json", "w"), indent=1)
print("caught:", meta["caught"], "with failing input:", meta["caught_with_failing_input"])
