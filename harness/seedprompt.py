#!/usr/bin/env python3
"""Prepare one round of seeded changes (not a registered check; part of the self-test of the machinery, DESIGN.md 12.5).

    seedprompt.py <dir>          e.g. /tmp/seed13

For every property creates a scratch git worktree of /repo at <dir>/<Cxx> and writes <dir>/<Cxx>/_out/PROMPT.txt: the property's text
(and nothing from /verif's machinery), the rules (the 276 tests must still pass, a demo that fails with the change and passes without it,
something specific needed to manifest), and one-line summaries of the changes already tried for that property so that the next one
uses a different mechanism.  A fresh sub-agent is then started per property with the single instruction to read and follow that file;
`SEED_DIR=<dir> seedeval.py <Cxx> <Cxx>-<suffix>` confirms and records its result.  Remove the worktrees afterwards
(`git -C /repo worktree remove --force <dir>/<Cxx>`).
"""
import glob, json, os, subprocess, sys

root = sys.argv[1]
os.makedirs(root, exist_ok=True)
props = [json.loads(l) for l in open("/verif/properties.jsonl")]
for p in props:
    pid = p["id"]
    wt = f"{root}/{pid}"
    if not os.path.exists(wt):
        subprocess.run(["git", "-C", "/repo", "worktree", "add", "--detach", wt, "HEAD"], check=True, capture_output=True)
    os.makedirs(f"{wt}/_out", exist_ok=True)
    tried = []
    for d in sorted(glob.glob(f"/verif/seeded/{pid}*")):
        try:
            tried.append("- " + json.load(open(d + "/meta.json")).get("summary", "")[:350].replace("\n", " "))
        except Exception:  # noqa
            pass
    prompt = f"""You are helping to evaluate how well a verification suite detects regressions in the open-source Python library jborean93/dpapi-ng (pure-Python DPAPI-NG encrypt/decrypt: ASN.1 DER + CMS codec, DCE/RPC client, MS-GKDI key derivation).

You have your own scratch git worktree of the repository at {wt} (source in {wt}/src/dpapi_ng, tests in {wt}/tests). Work ONLY inside {wt}. Never touch /repo or /verif and do not read anything under /verif. Run python as /venv/bin/python with PYTHONPATH={wt}/src so that your worktree's sources are the ones imported (e.g. `cd {wt} && PYTHONPATH={wt}/src /venv/bin/python -m pytest -q -p no:cacheprovider`). There is no network.

The property (a semantic guarantee users rely on):

id: {pid}
title: {p['title']}
statement: {p['statement']}
quantified over: {p['quantifier']['text']}
code it is anchored in: {json.dumps(p['anchors'])}

Your task: produce ONE realistic change to the library source (under src/dpapi_ng only; do not edit tests) that BREAKS this property while the library still imports and the whole existing test suite (276 tests) still passes. It should look like something a maintainer could plausibly commit (a refactor, an optimisation, a 'simplification', a misguided hardening, a cache, a changed boundary, an off-by-one, reordered operations, a compatibility shim, error handling ...), not sabotage marked by comments. It must need something specific to manifest — a particular interleaving, a fault at a particular point, a multi-step sequence of operations, an unusual input or boundary value, or two cooperating sites that each look fine alone — NOT something ordinary use would expose at once.

Changes of the following kinds have ALREADY been tried for this property; yours must use a clearly different mechanism and preferably a different code site (look at ALL the anchored files and the code they call, not just the most obvious function):
{chr(10).join(tried)}

Deliverables, all written into {wt}/_out/ :
 1. patch.diff — the change, produced with `cd {wt} && git diff -- src > _out/patch.diff` (must apply with `git apply` onto a clean checkout).
 2. demo.py — a small self-contained program (it may import dpapi_ng, cryptography, the test helpers' data under tests/, and stub sockets / resolvers / security contexts itself) that exits 0 and prints PASS on the unchanged library and exits non-zero, printing what went wrong, with your change applied. It must exercise the library through its real functions/classes and demonstrate the property violation, and run in under 2 minutes.
 3. meta.json — {{"property": "{pid}", "summary": "<what the change does, which file/function>", "needs": "<what specific input / sequence / interleaving is needed for it to manifest>", "tests_pass_with_change": true/false, "demo_fails_with_change": true/false, "demo_passes_without_change": true/false}}

Before finishing, verify yourself: (a) with the change applied the full test suite passes (276 passed); (b) demo.py fails with the change; (c) `git checkout -- src` then demo.py passes; leave the worktree with the change NOT applied (clean `git status` for src) at the end. Report briefly what you changed and what it needs to manifest."""
    open(f"{wt}/_out/PROMPT.txt", "w").write(prompt)
print(f"{len(props)} worktrees and prompts under {root}")
