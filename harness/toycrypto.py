"""Toy crypto — the Python twin of lean/DpapiNg/Model/ToyCrypto.lean — and the shim that
substitutes it (or a recording wrapper around the real library) at the third-party API
boundary of dpapi_ng: `_crypto.{KBKDFHMAC,ConcatKDFHash,AESGCM,keywrap,os}`, `_gkdi.{ec,os}`.

The boundary is the third-party API, not `_crypto.py`, so the repository's own wrapper
parameters (rlen=4, llen=4, CounterLocation.BeforeFixed, the otherinfo concatenation order,
aad=None) are inside what is compared: a wrong parameter is logged as BADPARAM, which makes
every comparison that involves it disagree.
"""
from __future__ import annotations
import contextlib
from cryptography.exceptions import InvalidTag
from cryptography.hazmat.primitives import hashes
from cryptography.hazmat.primitives.keywrap import InvalidUnwrap
from cryptography.hazmat.primitives.kdf.kbkdf import CounterLocation, Mode

M64 = (1 << 64) - 1
FNV_PRIME = 0x100000001b3
FNV_OFFSET = 0xcbf29ce484222325


def fnv(h: int, b: bytes) -> int:
    for x in b:
        h = ((h ^ x) * FNV_PRIME) & M64
    return h


def ser(parts) -> bytes:
    return b"".join(len(p).to_bytes(4, "little") + bytes(p) for p in parts)


def stream(tag: int, parts, n: int) -> bytes:
    h0 = fnv(FNV_OFFSET, bytes([tag]) + ser(parts))
    out = bytearray()
    for i in range((n + 7) // 8):
        out += fnv(FNV_OFFSET, h0.to_bytes(8, "little") + i.to_bytes(4, "little")).to_bytes(8, "little")
    return bytes(out[:n])


def xor(a: bytes, b: bytes) -> bytes:
    return bytes(x ^ y for x, y in zip(a, b))


HASH_ID = {"sha1": 1, "sha256": 2, "sha384": 3, "sha512": 4}
Q = {"secp256r1": 65521, "secp384r1": 65519, "secp521r1": 65497}
WIDTH = {"secp256r1": 32, "secp384r1": 48, "secp521r1": 66}


class KdfBudgetExceeded(Exception):
    """raised by the scripted KDF when the implementation makes far more KDF calls than any
    derivation needs (turns a non-terminating derivation into a reportable outcome)"""


class Log:
    kdf_budget = 300

    def __init__(self):
        self.calls = []          # (kind, detail...)
        self.bad = []            # parameter violations at the API boundary
        self.urandom = []        # draws handed out

    def count(self, kind):
        return sum(1 for c in self.calls if c[0] == kind)

    def reset_budget(self):
        self.nkdf = 0


def valid_key(k):
    return len(k) in (16, 24, 32)


def make_toy(log: Log, rng_script=None):
    """Returns the namespace of substitutes.  rng_script: callable n -> bytes for os.urandom."""

    class KBKDFHMAC:
        def __init__(self, algorithm, mode, length, rlen, llen, location, label, context, fixed, **kw):
            if not (mode == Mode.CounterMode and rlen == 4 and llen == 4 and location == CounterLocation.BeforeFixed and fixed is None and not kw):
                log.bad.append(("KBKDFHMAC", str(mode), rlen, llen, str(location), fixed, kw))
            self.a, self.length, self.label, self.context = algorithm.name, length, label, context

        def derive(self, secret):
            log.calls.append(("kdf", self.a, bytes(secret), bytes(self.label), bytes(self.context), self.length))
            log.nkdf = getattr(log, "nkdf", 0) + 1
            if log.nkdf > log.kdf_budget:
                raise KdfBudgetExceeded()
            return stream(10 + HASH_ID[self.a], [secret, self.label, self.context, self.length.to_bytes(4, "little")], self.length)

    class ConcatKDFHash:
        def __init__(self, algorithm, length, otherinfo, **kw):
            if kw:
                log.bad.append(("ConcatKDFHash", kw))
            self.a, self.length, self.other = algorithm.name, length, otherinfo

        def derive(self, secret):
            log.calls.append(("concat", self.a, bytes(secret), bytes(self.other), self.length))
            return stream(20 + HASH_ID[self.a], [secret, self.other, self.length.to_bytes(4, "little")], self.length)

    class AESGCM:
        def __init__(self, key):
            if not valid_key(key):
                raise ValueError("AESGCM key must be 128, 192, or 256 bits.")
            self.key = bytes(key)

        @staticmethod
        def generate_key(bit_length):
            if bit_length != 256:
                log.bad.append(("generate_key", bit_length))
            b = urandom(bit_length // 8)
            return b

        def encrypt(self, nonce, data, aad):
            if aad is not None:
                log.bad.append(("aad", aad))
            if not 8 <= len(nonce) <= 128:
                raise ValueError("Nonce must be between 8 and 128 bytes")
            log.calls.append(("gcm_enc", self.key, bytes(nonce), bytes(data)))
            ct = xor(data, stream(40, [self.key, nonce], len(data)))
            return ct + stream(41, [self.key, nonce, ct], 16)

        def decrypt(self, nonce, data, aad):
            if aad is not None:
                log.bad.append(("aad", aad))
            if not 8 <= len(nonce) <= 128:
                raise ValueError("Nonce must be between 8 and 128 bytes")
            log.calls.append(("gcm_dec", self.key, bytes(nonce), bytes(data)))
            data = bytes(data)
            if len(data) < 16:
                raise InvalidTag()
            ct, tag = data[:-16], data[-16:]
            if stream(41, [self.key, nonce, ct], 16) != tag:
                raise InvalidTag()
            return xor(ct, stream(40, [self.key, nonce], len(ct)))

    class keywrap:
        InvalidUnwrap = InvalidUnwrap

        @staticmethod
        def aes_key_wrap(kek, cek, backend=None):
            if not valid_key(kek):
                raise ValueError("The wrapping key must be a valid AES key length")
            if len(cek) < 16 or len(cek) % 8:
                raise ValueError("The key to wrap must be at least 16 bytes / a multiple of 8 bytes")
            log.calls.append(("wrap", bytes(kek), bytes(cek)))
            return stream(30, [kek, cek], 8) + xor(cek, stream(31, [kek], len(cek)))

        @staticmethod
        def aes_key_unwrap(kek, w, backend=None):
            if not valid_key(kek):
                raise ValueError("The wrapping key must be a valid AES key length")
            w = bytes(w)
            log.calls.append(("unwrap", bytes(kek), w))
            if len(w) < 24 or len(w) % 8:
                raise InvalidUnwrap("Must be at least 24 bytes / a multiple of 8 bytes")
            body = w[8:]
            cek = xor(body, stream(31, [kek], len(body)))
            if stream(30, [kek, cek], 8) != w[:8]:
                raise InvalidUnwrap()
            return cek

    def urandom(n):
        b = rng_script(n) if rng_script else bytes((17 * i + 3) & 0xFF for i in range(n))
        log.urandom.append(bytes(b))
        log.calls.append(("urandom", n))
        return bytes(b)

    _urandom = urandom

    class _os:
        urandom = staticmethod(_urandom)

    # --- toy EC ------------------------------------------------------------------------------
    class _Curve:
        def __init__(self, name):
            self.name = name
            self.key_size = {"secp256r1": 256, "secp384r1": 384, "secp521r1": 521}[name]

    class _PubNumbers:
        def __init__(self, x, y, curve):
            self.x, self.y, self.curve = x, y, curve

        def public_key(self):
            q = Q[self.curve.name]
            if self.x >= q or self.y != (3 * self.x + 1) % q or self.x == 0:
                raise ValueError("Invalid EC key: point is not on the curve")
            return _Pub(self)

        def public_numbers(self):
            return self

    class _Pub:
        def __init__(self, nums):
            self.nums = nums

        def public_numbers(self):
            return self.nums

    class _Priv:
        def __init__(self, d, curve):
            self.d, self.curve = d, curve

        def public_key(self):
            q = Q[self.curve.name]
            x = (7 * self.d) % q
            return _Pub(_PubNumbers(x, (3 * x + 1) % q, self.curve))

        def exchange(self, algo, pub):
            q = Q[self.curve.name]
            log.calls.append(("ecdh", self.curve.name, self.d, pub.nums.x, pub.nums.y))
            return ((self.d * pub.nums.x) % q).to_bytes(WIDTH[self.curve.name], "big")

    class ec:
        SECP256R1 = staticmethod(lambda: _Curve("secp256r1"))
        SECP384R1 = staticmethod(lambda: _Curve("secp384r1"))
        SECP521R1 = staticmethod(lambda: _Curve("secp521r1"))
        EllipticCurvePublicNumbers = _PubNumbers
        EllipticCurve = _Curve

        @staticmethod
        def ECDH():
            return "ECDH"

        @staticmethod
        def derive_private_key(d, curve, backend=None):
            if d % Q[curve.name] == 0:
                raise ValueError("private_value must be a positive integer / in range")
            return _Priv(d, curve)

    return dict(KBKDFHMAC=KBKDFHMAC, ConcatKDFHash=ConcatKDFHash, AESGCM=AESGCM, keywrap=keywrap, os=_os, ec=ec)


@contextlib.contextmanager
def toy(rng_script=None):
    """Install the toy crypto at the API boundary; yields the call log."""
    import dpapi_ng._crypto as c
    import dpapi_ng._gkdi as g
    log = Log()
    ns = make_toy(log, rng_script)
    wanted = ((c, "KBKDFHMAC"), (c, "ConcatKDFHash"), (c, "AESGCM"), (c, "keywrap"), (c, "os"), (g, "ec"), (g, "os"))
    # a module that no longer imports one of these names does not use it: substitute only what is there (the draw-count and
    # primitive-call oracles then see whatever it uses instead as a missing / unexpected call)
    saved = {(m, k): getattr(m, k) for m, k in wanted if hasattr(m, k)}
    try:
        for (m, k) in saved:
            setattr(m, k, ns[k])
        yield log
    finally:
        for (m, k), v in saved.items():
            setattr(m, k, v)


@contextlib.contextmanager
def recording(rng_script=None):
    """Real crypto, but log KDF/primitive calls and (optionally) script os.urandom / generate_key."""
    import dpapi_ng._crypto as c
    import dpapi_ng._gkdi as g
    log = Log()
    real_kb, real_ck, real_gcm, real_kw, real_os_c, real_os_g = c.KBKDFHMAC, c.ConcatKDFHash, c.AESGCM, c.keywrap, getattr(c, "os", None), getattr(g, "os", None)

    class KB:
        def __init__(self, **kw):
            if not (kw.get("mode") == Mode.CounterMode and kw.get("rlen") == 4 and kw.get("llen") == 4 and kw.get("location") == CounterLocation.BeforeFixed and kw.get("fixed") is None):
                log.bad.append(("KBKDFHMAC", kw))
            self.kw = kw
            self.inner = real_kb(**kw)

        def derive(self, secret):
            log.calls.append(("kdf", self.kw["algorithm"].name, bytes(secret), bytes(self.kw["label"]), bytes(self.kw["context"]), self.kw["length"]))
            log.nkdf = getattr(log, "nkdf", 0) + 1
            if log.nkdf > log.kdf_budget:
                raise KdfBudgetExceeded()
            return self.inner.derive(secret)

    def urandom(n):
        import os as _o
        b = rng_script(n) if rng_script else _o.urandom(n)
        log.urandom.append(bytes(b))
        log.calls.append(("urandom", n))
        return bytes(b)

    _urandom = urandom

    class _os:
        urandom = staticmethod(_urandom)

    class GCM:
        def __init__(self, key):
            self.inner = real_gcm(key)
            self.key = bytes(key)

        @staticmethod
        def generate_key(bit_length):
            return urandom(bit_length // 8)

        def encrypt(self, nonce, data, aad):
            log.calls.append(("gcm_enc", self.key, bytes(nonce), bytes(data)))
            return self.inner.encrypt(nonce, data, aad)

        def decrypt(self, nonce, data, aad):
            log.calls.append(("gcm_dec", self.key, bytes(nonce), bytes(data)))
            return self.inner.decrypt(nonce, data, aad)

    class KW:
        InvalidUnwrap = real_kw.InvalidUnwrap

        @staticmethod
        def aes_key_wrap(kek, cek, backend=None):
            log.calls.append(("wrap", bytes(kek), bytes(cek)))
            return real_kw.aes_key_wrap(kek, cek)

        @staticmethod
        def aes_key_unwrap(kek, w, backend=None):
            log.calls.append(("unwrap", bytes(kek), bytes(w)))
            return real_kw.aes_key_unwrap(kek, w)

    try:
        c.KBKDFHMAC, c.AESGCM, c.keywrap = KB, GCM, KW
        if real_os_c is not None:
            c.os = _os
        if real_os_g is not None:
            g.os = _os
        yield log
    finally:
        c.KBKDFHMAC, c.ConcatKDFHash, c.AESGCM, c.keywrap = real_kb, real_ck, real_gcm, real_kw
        if real_os_c is not None:
            c.os = real_os_c
        if real_os_g is not None:
            g.os = real_os_g
