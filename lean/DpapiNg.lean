import DpapiNg.Model.Py
