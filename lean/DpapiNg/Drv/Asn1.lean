import DpapiNg.Drv.Common
import DpapiNg.Model.Asn1
namespace DpapiNg.Drv
open DpapiNg DpapiNg.Asn1

def dispatchAsn1 (toks : List String) : Option String :=
  match toks with
  | ["packint", v] => do
    let v ← int? v
    some (showR ((packInteger v).map toHex))
  | ["readint", h] => do
    let b ← parseHex h
    some (showR ((readInteger b).map fun (v, n) => s!"{v} {n}"))
  | ["packtlv", cls, num, cons, h] => do
    let cls ← nat? cls; let num ← nat? num; let cons ← bool? cons; let b ← parseHex h
    some (showR ((packTLV ⟨cls, num, cons⟩ b).map toHex))
  | ["readhdr", h] => do
    let b ← parseHex h
    some (showR ((readHeader b).map fun hd => s!"{hd.tag.cls} {hd.tag.num} {b01 hd.tag.constructed} {hd.tagLength} {hd.length}"))
  | ["packoid", o] => do
    let arcs ← dotted? o
    some (showR ((packOid arcs).map toHex))
  | ["readoid", h] => do
    let b ← parseHex h
    some (showR ((readOid b).map fun (a, n) => s!"{showDotted a} {n}"))
  | ["readbool", h] => do
    let b ← parseHex h
    some (showR ((readBoolean b).map fun (v, n) => s!"{b01 v} {n}"))
  | ["packbool", v] => do
    let v ← bool? v
    some (showR ((packBoolean v).map toHex))
  | ["readoctet", h] => do
    let b ← parseHex h
    some (showR ((readOctetString b).map fun (v, n) => s!"{toHex v} {n}"))
  | ["readutf8", h] => do
    let b ← parseHex h
    some (showR ((readUtf8Raw b).bind fun (v, n) => if utf8Valid v then .ok s!"{toHex v} {n}" else .error .valueError))
  | ["octnum", n] => do
    let n ← nat? n
    some ("ok " ++ toHex (packOctetNumber n))
  | ["unoctnum", h] => do
    let b ← parseHex h
    some (showR ((unpackOctetNumber b).map fun (v, n) => s!"{v} {n}"))
  | _ => none

end DpapiNg.Drv
