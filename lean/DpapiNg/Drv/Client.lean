import DpapiNg.Drv.Gkdi
import DpapiNg.Model.Client
namespace DpapiNg.Drv
open DpapiNg DpapiNg.Gkdi DpapiNg.Blob DpapiNg.Client

def optHex? (s : String) : Option (Option Bytes) := if s = "none" then some none else (parseHex s).map some
def showOpt (b : Option Bytes) : String := match b with | some x => toHex x | none => "none"

def showReq (r : KeyRequest) : String :=
  s!"net {toHex r.targetSd} {showOpt r.rootKeyId} {r.l0} {r.l1} {r.l2} {showOpt r.domain}"

def showOutcome (o : Outcome) : String :=
  match o with
  | .done b => "done " ++ toHex b
  | .needsNetwork r => showReq r
  | .error e => "err " ++ e.name

structure Session where
  st : CState
  keys : List CKey

def Session.touch (s : Session) (k : CKey) : Session := if s.keys.contains k then s else { s with keys := s.keys ++ [k] }

def showOid (o : List Nat) : String := showDotted o

def showBlob (b : Blob) : String :=
  s!"{showKid b.keyId} {toHex b.sid} {toHex b.encCek} {showOid b.encCekAlg} {showOpt b.encCekParams} {toHex b.encContent} " ++
  s!"{showOid b.encContentAlg} {showOpt b.encContentParams}"

def blob? (t : List String) : Option Blob :=
  match t with
  | [v, f, l0, l1, l2, rk, ki, dn, fn, sid, ecek, a1, p1, ec, a2, p2] => do
    let k ← kid? [v, f, l0, l1, l2, rk, ki, dn, fn]
    some ⟨k, ← parseHex sid, ← parseHex ecek, ← dotted? a1, ← optHex? p1, ← parseHex ec, ← dotted? a2, ← optHex? p2⟩
  | _ => none

/-- one step of a client history -/
def clientStep (C : Crypto) (s : Session) (t : List String) : Option (String × Session) :=
  match t with
  | ["load", rk, key, ver, ka, kp, sa, sp, pr, pu] => do
    let r := mkRootKey (← parseHex key) (← nat? ver) (← parseHex ka) (← optHex? kp) (← parseHex sa) (← optHex? sp) (← nat? pr) (← nat? pu)
    some ("ok", { s with st := cacheLoad s.st (← parseHex rk) r })
  | ["get", sd, rk, l0, l1, l2] => do
    let sd ← parseHex sd; let rk ← parseHex rk; let l0 ← nat? l0
    let (g, st) := cacheGet C s.st sd rk l0 (← nat? l1) (← nat? l2)
    let out := match g with
      | .hit e => "hit " ++ showEnv e.payload
      | .miss => "miss"
      | .fail e => "err " ++ e.name
    some (out, ({ s with st := st }).touch (rk, sd, l0))
  | "store" :: sd :: t => do
    let sd ← parseHex sd; let e ← env? t
    some ("ok", ({ s with st := cacheStore s.st sd e }).touch (e.rootKeyId, sd, e.l0))
  | ["ubegin", blob] => do
    let b ← parseHex blob
    let (o, st) := unprotectBegin C s.st b
    let s' := match blobUnpack b, (blobUnpack b).bind (fun bb => targetSdOf bb.sid) with
      | .ok bb, .ok sd => ({ s with st := st }).touch (bb.keyId.rootKeyId, sd, bb.keyId.l0)
      | _, _ => { s with st := st }
    some (showOutcome o, s')
  | "ufin" :: blob :: t => do
    let b ← parseHex blob; let e ← env? t
    let (o, st) := unprotectFinish C s.st b e
    let s' := match (blobUnpack b).bind (fun bb => targetSdOf bb.sid) with
      | .ok sd => ({ s with st := st }).touch (e.rootKeyId, sd, e.l0)
      | _ => { s with st := st }
    some (showOutcome o, s')
  | ["pbegin", data, sid, rk, dom, ns, cek, iv, rnd] => do
    let sid ← parseHex sid; let rk ← optHex? rk; let ns ← nat? ns
    let (o, st) := protectBegin C s.st (← parseHex data) sid rk (← optHex? dom) ns ⟨← parseHex cek, ← parseHex iv, ← parseHex rnd⟩
    let t := Time.currentTime ns
    let s' := match rk, targetSdOf sid with
      | some id, .ok sd => ({ s with st := st }).touch (id, sd, Time.l0 t)
      | _, _ => { s with st := st }
    some (showOutcome o, s')
  | "pfin" :: data :: sid :: cek :: iv :: rnd :: t => do
    let sid ← parseHex sid; let e ← env? t
    let (o, st) := protectFinish C s.st (← parseHex data) sid e ⟨← parseHex cek, ← parseHex iv, ← parseHex rnd⟩
    let s' := match targetSdOf sid with
      | .ok sd => ({ s with st := st }).touch (e.rootKeyId, sd, e.l0)
      | _ => { s with st := st }
    some (showOutcome o, s')
  | ["dump"] =>
    let rows := s.keys.filterMap fun k =>
      match s.st.seeds k with
      | some e => some s!"{toHex k.1}/{toHex k.2.1}/{k.2.2}@{e.pos.l1},{e.pos.l2},{e.payload.flags},{toHex e.payload.l1Key},{toHex e.payload.l2Key}"
      | none => none
    some ("dump " ++ " ".intercalate (rows.toArray.qsort (fun a b => a < b)).toList, s)
  | _ => none

def runClient (C : Crypto) (ops : List (List String)) : String :=
  let rec go (s : Session) (ops : List (List String)) (acc : List String) : List String :=
    match ops with
    | [] => acc.reverse
    | t :: rest =>
      match clientStep C s t with
      | some (out, s') => go s' rest (out :: acc)
      | none => ("bad-op" :: acc).reverse
  " ; ".intercalate (go ⟨Cache.State.empty, []⟩ ops [])

def dispatchClient (toks : List String) : Option String :=
  let C := Toy.crypto
  match toks with
  | "client" :: rest =>
    -- steps are separated by the token ";"
    let steps := (rest.foldr (fun tk (acc : List (List String)) =>
      if tk = ";" then [] :: acc else match acc with | [] => [[tk]] | h :: t => (tk :: h) :: t) [[]]).filter (· ≠ [])
    some (runClient C steps)
  | ["blob_unpack", h] => do
    let b ← parseHex h
    some (showR ((blobUnpack b).map showBlob))
  | "blob_pack" :: inenv :: t => do
    let b ← blob? t
    some (showR ((blobPack b (← bool? inenv)).map toHex))
  | ["getkey_result", stub, pad] => do
    let pd ← (if pad = "none" then some none else (nat? pad).map some)
    some (showR ((processGetKeyResult (← parseHex stub) pd).map showEnv))
  | ["protdesc_pack", sid] => do some (showR ((protDescPack (← parseHex sid)).map toHex))
  | ["protdesc_unpack", h] => do some (showR ((protDescUnpack (← parseHex h)).map toHex))
  | _ => none

end DpapiNg.Drv
