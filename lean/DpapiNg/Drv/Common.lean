import DpapiNg.Model.Py
namespace DpapiNg.Drv
open DpapiNg

def showR (r : R String) : String :=
  match r with
  | .ok s => "ok " ++ s
  | .error e => "err " ++ e.name

def nat? (s : String) : Option Nat := s.toNat?
def int? (s : String) : Option Int := s.toInt?
def bool? (s : String) : Option Bool := if s = "1" then some true else if s = "0" then some false else none
def b01 (b : Bool) : String := if b then "1" else "0"

/-- dotted decimal (OIDs) -/
def dotted? (s : String) : Option (List Nat) := (s.splitOn ".").mapM (·.toNat?)
def showDotted (l : List Nat) : String := ".".intercalate (l.map toString)

end DpapiNg.Drv
