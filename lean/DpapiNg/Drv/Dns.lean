import DpapiNg.Drv.Common
import DpapiNg.Model.Dns
namespace DpapiNg.Drv
open DpapiNg DpapiNg.Dns

def srv? (s : String) : Option Srv :=
  match s.splitOn ":" with
  | [t, p, w, pr] => do
    let t ← parseHex t; let p ← nat? p; let w ← nat? w; let pr ← nat? pr
    some ⟨t, p, w, pr⟩
  | _ => none

def dispatchDns (toks : List String) : Option String :=
  match toks with
  | ["dnspick", dom, recs] => do
    let d ← (if dom = "none" then some none else (parseHex dom).map some)
    let rs ← (if recs = "-" then some [] else (recs.splitOn ";").mapM srv?)
    let q := queryName d
    some (showR ((pick rs).map fun r => s!"{toHex q} {toHex r.target} {r.port} {r.weight} {r.priority}"))
  | _ => none

end DpapiNg.Drv
