import DpapiNg.Drv.Common
import DpapiNg.Model.Gkdi
import DpapiNg.Model.ToyCrypto
namespace DpapiNg.Drv
open DpapiNg DpapiNg.Gkdi

def hash? (s : String) : Option Hash :=
  match s with
  | "sha1" => some .sha1 | "sha256" => some .sha256 | "sha384" => some .sha384 | "sha512" => some .sha512
  | _ => none

def curve? (s : String) : Option Curve :=
  match s with
  | "P256" => some .p256 | "P384" => some .p384 | "P521" => some .p521 | _ => none
def showCurve : Curve → String | .p256 => "P256" | .p384 => "P384" | .p521 => "P521"

def env? (t : List String) : Option Envelope :=
  match t with
  | [v, f, l0, l1, l2, rk, ka, kp, sa, sp, pr, pu, dn, fn, k1, k2] => do
    some ⟨← nat? v, ← nat? f, ← nat? l0, ← nat? l1, ← nat? l2, ← parseHex rk, ← parseHex ka, ← parseHex kp, ← parseHex sa,
      ← parseHex sp, ← nat? pr, ← nat? pu, ← parseHex dn, ← parseHex fn, ← parseHex k1, ← parseHex k2⟩
  | _ => none

def showEnv (e : Envelope) : String :=
  s!"{e.version} {e.flags} {e.l0} {e.l1} {e.l2} {toHex e.rootKeyId} {toHex e.kdfAlgorithm} {toHex e.kdfParameters} " ++
  s!"{toHex e.secretAlgorithm} {toHex e.secretParameters} {e.privateKeyLength} {e.publicKeyLength} {toHex e.domainName} " ++
  s!"{toHex e.forestName} {toHex e.l1Key} {toHex e.l2Key}"

def kid? (t : List String) : Option KeyId :=
  match t with
  | [v, f, l0, l1, l2, rk, ki, dn, fn] => do
    some ⟨← nat? v, ← nat? f, ← nat? l0, ← nat? l1, ← nat? l2, ← parseHex rk, ← parseHex ki, ← parseHex dn, ← parseHex fn⟩
  | _ => none

def showKid (k : KeyId) : String :=
  s!"{k.version} {k.flags} {k.l0} {k.l1} {k.l2} {toHex k.rootKeyId} {toHex k.keyInfo} {toHex k.domainName} {toHex k.forestName}"

def dispatchGkdi (toks : List String) : Option String :=
  let C := Toy.crypto
  match toks with
  | "env_pack" :: t => do let e ← env? t; some (showR ((envelopePack e).map toHex))
  | ["env_unpack", h] => do let b ← parseHex h; some (showR ((envelopeUnpack b).map showEnv))
  | "kid_pack" :: t => do let k ← kid? t; some (showR ((keyIdPack k).map toHex))
  | ["kid_unpack", h] => do let b ← parseHex h; some (showR ((keyIdUnpack b).map showKid))
  | ["kdfp_pack", h] => do let b ← parseHex h; some (showR ((kdfParamsPack b).map toHex))
  | ["kdfp_unpack", h] => do let b ← parseHex h; some (showR ((kdfParamsUnpack b).map toHex))
  | ["ffcp_pack", kl, fo, g] => do
    some (showR ((ffcParamsPack ⟨← nat? kl, ← nat? fo, ← nat? g⟩).map toHex))
  | ["ffcp_unpack", h] => do
    let b ← parseHex h; some (showR ((ffcParamsUnpack b).map fun p => s!"{p.keyLength} {p.fieldOrder} {p.generator}"))
  | ["ffck_pack", kl, fo, g, pk] => do
    some (showR ((ffcKeyPack ⟨← nat? kl, ← nat? fo, ← nat? g, ← nat? pk⟩).map toHex))
  | ["ffck_unpack", h] => do
    let b ← parseHex h; some (showR ((ffcKeyUnpack b).map fun p => s!"{p.keyLength} {p.fieldOrder} {p.generator} {p.publicKey}"))
  | ["ecdh_pack", cv, kl, x, y] => do
    some (showR ((ecdhKeyPack ⟨← curve? cv, ← nat? kl, ← nat? x, ← nat? y⟩).map toHex))
  | ["ecdh_unpack", h] => do
    let b ← parseHex h; some (showR ((ecdhKeyUnpack b).map fun p => s!"{showCurve p.curve} {p.keyLength} {p.x} {p.y}"))
  | ["getkey_pack", sd, rk, l0, l1, l2] => do
    let sd ← parseHex sd
    let rk ← (if rk = "none" then some none else (parseHex rk).map some)
    some (showR ((getKeyPack ⟨sd, rk, ← int? l0, ← int? l1, ← int? l2⟩).map toHex))
  | ["getkey_unpack", h] => do
    let b ← parseHex h
    some (showR ((getKeyUnpack b).map fun g =>
      s!"{toHex g.targetSd} {match g.rootKeyId with | some r => toHex r | none => "none"} {g.l0} {g.l1} {g.l2}"))
  | ["getkey_resp", h] => do let b ← parseHex h; some (showR ((getKeyUnpackResponse b).map showEnv))
  | ["kdfctx", rk, l0, l1, l2] => do
    some (showR ((kdfContext (← parseHex rk) (← int? l0) (← int? l1) (← int? l2)).map toHex))
  | ["l1key", sd, rk, l0, key, h] => do
    some (showR ((computeL1 C (← parseHex sd) (← parseHex rk) (← nat? l0) (← parseHex key) (← hash? h)).map toHex))
  | "l2key" :: h :: r1 :: r2 :: t => do
    let e ← env? t
    some (showR ((computeL2 C (← hash? h) (← nat? r1) (← nat? r2) e).map toHex))
  | "l2steps" :: r1 :: r2 :: t => do
    let e ← env? t
    some s!"ok {Chain.steps (chainEnv e) (← nat? r1) (← nat? r2)}"
  | "getkek" :: t => do
    let e ← env? (t.take 16); let k ← kid? (t.drop 16)
    some (showR ((getKek C e k).map toHex))
  | "newkek" :: rnd :: t => do
    let e ← env? t; let rnd ← parseHex rnd
    some (showR ((newKek C e rnd).map fun (kek, kid) => s!"{toHex kek} {showKid kid}"))
  | ["computekek", h, sa, sp, priv, pub] => do
    some (showR ((computeKek C (← hash? h) (← parseHex sa) (← parseHex sp) (← parseHex priv) (← parseHex pub)).map toHex))
  | ["pubkey", sa, priv, peer] => do
    some (showR ((computePublicKey C (← parseHex sa) (← parseHex priv) (← parseHex peer)).map toHex))
  | ["toystream", tag, n, a, b] => do
    some ("ok " ++ toHex (Toy.stream (← nat? tag) [← parseHex a, ← parseHex b] (← nat? n)))
  | _ => none

end DpapiNg.Drv
