import DpapiNg.Drv.Common
import DpapiNg.Model.RpcClient
import DpapiNg.Model.Epm
import DpapiNg.Model.ToyCrypto
import DpapiNg.Model.Online
namespace DpapiNg.Drv
open DpapiNg DpapiNg.Rpc DpapiNg.RpcClient DpapiNg.Epm

def splitOnNE (s : String) (sep : String) : List String := if s = "-" then [] else s.splitOn sep
def joinOr (l : List String) (sep : String) : String := if l.isEmpty then "-" else sep.intercalate l

def nats? (s : String) (sep : String := ".") : Option (List Nat) := (s.splitOn sep).mapM nat?

def header? (s : String) : Option Header := do
  match ← nats? s with
  | [v, vm, pt, fl, bo, ch, fp, frag, auth, call] => some ⟨v, vm, pt, fl, ⟨bo, ch, fp⟩, frag, auth, call⟩
  | _ => none
def showHeader (h : Header) : String :=
  s!"{h.version}.{h.versionMinor}.{h.packetType}.{h.packetFlags}.{h.dataRep.byteOrder}.{h.dataRep.character}.{h.dataRep.floatingPoint}.{h.fragLen}.{h.authLen}.{h.callId}"

def trailer? (s : String) : Option (Option SecTrailer) :=
  if s = "none" then some none else
  match s.splitOn "." with
  | [t, l, p, c, a] => do some (some ⟨← nat? t, ← nat? l, ← nat? p, ← nat? c, ← parseHex a⟩)
  | _ => none
def showTrailer (t : Option SecTrailer) : String :=
  match t with
  | none => "none"
  | some t => s!"{t.type}.{t.level}.{t.padLength}.{t.contextId}.{toHex t.authValue}"

def syn? (s : String) : Option SyntaxId :=
  match s.splitOn ":" with
  | [u, v, m] => do some ⟨← parseHex u, ← nat? v, ← nat? m⟩
  | _ => none
def showSyn (s : SyntaxId) : String := s!"{toHex s.uuid}:{s.version}:{s.versionMinor}"

def ctxEl? (s : String) : Option ContextElement :=
  match s.splitOn "/" with
  | [i, a, ts] => do some ⟨← nat? i, ← syn? a, ← (splitOnNE ts ",").mapM syn?⟩
  | _ => none
def showCtxEl (c : ContextElement) : String := s!"{c.contextId}/{showSyn c.abstractSyntax}/{joinOr (c.transferSyntaxes.map showSyn) ","}"

def res? (s : String) : Option ContextResult :=
  match s.splitOn ":" with
  | [r, re, u, v] => do some ⟨← nat? r, ← nat? re, ← parseHex u, ← nat? v⟩
  | _ => none
def showRes (r : ContextResult) : String := s!"{r.result}:{r.reason}:{toHex r.syntaxUuid}:{r.syntaxVersion}"

def body? (t : List String) : Option Body :=
  match t with
  | ["bind", al, mx, mr, ag, cs] => do some (.bind (← bool? al) (← nat? mx) (← nat? mr) (← nat? ag) (← (splitOnNE cs "|").mapM ctxEl?))
  | ["bindack", al, mx, mr, ag, sa, rs] => do
    some (.bindAck (← bool? al) (← nat? mx) (← nat? mr) (← nat? ag) (← parseHex sa) (← (splitOnNE rs "|").mapM res?))
  | ["bindnak", r, vs] => do
    let vv ← (splitOnNE vs "|").mapM fun x => do
      match ← nats? x with | [a, b] => some (a, b) | _ => none
    some (.bindNak (← nat? r) vv)
  | ["request", ah, c, o, obj, stub] => do
    let ob ← (if obj = "none" then some none else (parseHex obj).map some)
    some (.request (← nat? ah) (← nat? c) (← nat? o) ob (← parseHex stub))
  | ["response", ah, c, cc, stub] => do some (.response (← nat? ah) (← nat? c) (← nat? cc) (← parseHex stub))
  | ["fault", ah, c, cc, st, fl, stub] => do some (.fault (← nat? ah) (← nat? c) (← nat? cc) (← nat? st) (← nat? fl) (← parseHex stub))
  | _ => none

def showBody (b : Body) : String :=
  match b with
  | .bind al mx mr ag cs => s!"bind {b01 al} {mx} {mr} {ag} {joinOr (cs.map showCtxEl) "|"}"
  | .bindAck al mx mr ag sa rs => s!"bindack {b01 al} {mx} {mr} {ag} {toHex sa} {joinOr (rs.map showRes) "|"}"
  | .bindNak r vs => s!"bindnak {r} {joinOr (vs.map fun (a, b) => s!"{a}.{b}") "|"}"
  | .request ah c o obj stub => s!"request {ah} {c} {o} {match obj with | some x => toHex x | none => "none"} {toHex stub}"
  | .response ah c cc stub => s!"response {ah} {c} {cc} {toHex stub}"
  | .fault ah c cc st fl stub => s!"fault {ah} {c} {cc} {st} {fl} {toHex stub}"

def showPdu (p : Pdu) : String := s!"{showHeader p.header} {showTrailer p.secTrailer} {showBody p.body}"

def cmd? (s : String) : Option Command :=
  match s.splitOn ":" with
  | [cf, "raw", v] => do match ← nats? cf with | [c, f] => some ⟨c, f, .raw (← parseHex v)⟩ | _ => none
  | [cf, "bitmask", b] => do match ← nats? cf with | [c, f] => some ⟨c, f, .bitmask (← nat? b)⟩ | _ => none
  | [cf, "pcontext", u1, v1, m1, u2, v2, m2] => do
    match ← nats? cf with
    | [c, f] => some ⟨c, f, .pcontext ⟨← parseHex u1, ← nat? v1, ← nat? m1⟩ ⟨← parseHex u2, ← nat? v2, ← nat? m2⟩⟩
    | _ => none
  | [cf, "header2", x] => do
    match ← nats? cf, ← nats? x with
    | [c, f], [pt, bo, ch, fp, call, ctx, op] => some ⟨c, f, .header2 pt ⟨bo, ch, fp⟩ call ctx op⟩
    | _, _ => none
  | _ => none

def showCmd (c : Command) : String :=
  let v := match c.value with
    | .raw v => s!"raw:{toHex v}"
    | .bitmask b => s!"bitmask:{b}"
    | .pcontext i t => s!"pcontext:{showSyn i}:{showSyn t}"
    | .header2 pt d call ctx op => s!"header2:{pt}.{d.byteOrder}.{d.character}.{d.floatingPoint}.{call}.{ctx}.{op}"
  s!"{c.command}.{c.flags}:{v}"

def floor? (s : String) : Option Floor :=
  match s.splitOn ":" with
  | ["raw", p, l, r] => do some (.raw (← nat? p) (← parseHex l) (← parseHex r))
  | ["tcp", p] => do some (.tcp (← nat? p))
  | ["ip", a] => do some (.ip (← nat? a))
  | ["rpcco", m] => do some (.rpcCo (← nat? m))
  | ["uuid", u, v, m] => do some (.uuid (← parseHex u) (← nat? v) (← nat? m))
  | _ => none
def showFloor (f : Floor) : String :=
  match f with
  | .raw p l r => s!"raw:{p}:{toHex l}:{toHex r}"
  | .tcp p => s!"tcp:{p}"
  | .ip a => s!"ip:{a}"
  | .rpcCo m => s!"rpcco:{m}"
  | .uuid u v m => s!"uuid:{toHex u}:{v}:{m}"

def tower? (s : String) : Option (List Floor) := (splitOnNE s ",").mapM floor?
def showTower (t : List Floor) : String := joinOr (t.map showFloor) ","
def towers? (s : String) : Option (List (List Floor)) := if s = "none" then some [] else (s.splitOn "|").mapM tower?
def showTowers (ts : List (List Floor)) : String := if ts.isEmpty then "none" else "|".intercalate (ts.map showTower)

def eh? (s : String) : Option EntryHandle :=
  if s = "none" then some none else
  match s.splitOn ":" with
  | [a, u] => do some (some (← nat? a, ← parseHex u))
  | _ => none
def showEh (h : EntryHandle) : String := match h with | none => "none" | some (a, u) => s!"{a}:{toHex u}"

/-! toy security context, identical to harness/toyauth.py -/
def toyKey : Bytes := [0x6b, 0x65, 0x79]

def toyAuth (provider headerLen : Nat) : Auth where
  provider := provider
  headerLen := headerLen
  wrap := fun sign header body trailer =>
    let sealed := Toy.xor body (Toy.stream 50 [toyKey] body.length)
    (sealed, Toy.stream 51 [toyKey, if sign then header else [], body, if sign then trailer else []] headerLen)
  unwrap := fun sign header body trailer signature =>
    let plain := Toy.xor body (Toy.stream 50 [toyKey] body.length)
    if Toy.stream 51 [toyKey, if sign then header else [], plain, if sign then trailer else []] signature.length = signature ∧ signature ≠ []
    then .ok plain else .error .other

def auth? (s : String) : Option (Option Auth) :=
  if s = "none" then some none else
  match s.splitOn "." with
  | [p, h] => do some (some (toyAuth (← nat? p) (← nat? h)))
  | _ => none

def offs? (s : String) : Option (Option (Nat × Nat)) :=
  if s = "none" then some none else
  match s.splitOn "." with
  | [a, b] => do some (some (← nat? a, ← nat? b))
  | _ => none

def expect? (s : String) : Option Expect :=
  match s with | "bindack" => some .bindAck | "alterresp" => some .alterContextResp | "response" => some .response | _ => none

def showEvent (e : Event) : String :=
  -- an empty token travels with auth_len = 0, so a receiver sees no security trailer
  s!"{e.sentType}.{e.sentFlags}.{match e.sentToken with | some t => (if t.isEmpty then "none" else toHex t) | none => "none"}.{joinOr (e.sentContextIds.map toString) ","}." ++
  s!"{match e.fedToken with | some t => toHex t | none => "none"}"

def dispatchRpc (toks : List String) : Option String :=
  match toks with
  | "pdu_pack" :: h :: t :: body => do
    some (showR ((pduPack ⟨← header? h, ← trailer? t, ← body? body⟩).map toHex))
  | ["pdu_unpack", h] => do some (showR ((pduUnpack (← parseHex h)).map showPdu))
  | ["hdr_unpack", h] => do some (showR ((headerUnpack (← parseHex h)).map showHeader))
  | ["sectrailer_unpack", h] => do some (showR ((secTrailerUnpack (← parseHex h)).map fun t => showTrailer (some t)))
  | ["vt_pack", cs] => do some (showR ((vtPack (← (splitOnNE cs "|").mapM cmd?)).map toHex))
  | ["vt_unpack", h] => do some (showR ((vtUnpack (← parseHex h)).map fun cs => joinOr (cs.map showCmd) "|"))
  | ["cmd_unpack", h] => do some (showR ((commandUnpack (← parseHex h)).map fun (c, n) => s!"{showCmd c} {n}"))
  | ["floor_pack", f] => do some (showR ((floorPack (← floor? f)).map toHex))
  | ["floor_unpack", h] => do some (showR ((floorUnpack (← parseHex h)).map fun (f, l, r) => s!"{showFloor f} {l} {r}"))
  | ["eptmap_pack", obj, tw, eh, mt] => do
    let ob ← (if obj = "none" then some none else (parseHex obj).map some)
    some (showR ((eptMapPack ⟨ob, ← tower? tw, ← eh? eh, ← nat? mt⟩).map toHex))
  | ["eptmap_unpack", h] => do
    some (showR ((eptMapUnpack (← parseHex h)).map fun m =>
      s!"{match m.obj with | some x => toHex x | none => "none"} {showTower m.tower} {showEh m.entryHandle} {m.maxTowers}"))
  | ["eptres_pack", eh, tws, st] => do some (showR ((eptMapResultPack ⟨← eh? eh, ← towers? tws, ← nat? st⟩).map toHex))
  | ["eptres_unpack", h] => do
    some (showR ((eptMapResultUnpack (← parseHex h)).map fun r => s!"{showEh r.entryHandle} {showTowers r.towers} {r.status}"))
  | ["eptres_port", h] => do some (showR ((processEptMapResult (← parseHex h)).map toString))
  | ["mkrequest", a, cid, op, stub, vt, sign] => do
    let auth ← auth? a
    let vtb ← (if vt = "none" then some none else (parseHex vt).map some)
    let (pdu, offs) := createRequest auth (← nat? cid) (← nat? op) (← parseHex stub) vtb
    let wire := preparePdu auth (← bool? sign) pdu offs
    some (showR (wire.map fun w => s!"{toHex w} {match offs with | some (x, y) => s!"{x}.{y}" | none => "none"}"))
  | ["process_response", a, sign, resp, ex, offs] => do
    let auth ← auth? a
    let r ← parseHex resp
    match headerUnpack (r.take 16) with
    | .error e => some ("err " ++ e.name)
    | .ok h => some (showR ((processResponse auth (← bool? sign) r h (← expect? ex) (← offs? offs)).map showPdu))
  | ["recv_sync", cs] => do
    let chunks ← (splitOnNE cs ",").mapM parseHex
    some (showR ((recvSync chunks).map fun (d, _, rest, k) => s!"{toHex d} {k} {toHex rest.flatten}"))
  | ["recv_async", s] => do
    some (showR ((recvAsync (← parseHex s)).map fun (d, _, rest) => s!"{toHex d} {toHex rest}"))
  | ["bind", a, script, cs, server] => do
    let auth ← auth? a
    let sc ← (splitOnNE script ",").mapM fun x =>
      match x.splitOn ":" with | [t, d] => do some (← parseHex t, ← bool? d) | _ => none
    let ctxs ← (splitOnNE cs "|").mapM ctxEl?
    let srv ← (splitOnNE server ",").mapM parseHex
    let r := bind auth sc ctxs srv
    let out := match r.outcome with | .ok p => "ok " ++ showPdu p | .error e => "err " ++ e.name
    some s!"{joinOr (r.events.map showEvent) ","} {b01 r.signHeader} {out}"
  | ["conv_eptmap"] => some (showR (Online.eptMapRequestWire.map toHex))
  | ["conv_epmbind"] => some (showR ((Online.bindWire Online.epmContexts none 0).map toHex))
  | ["conv_isdbind", tok, prov] => do
    some (showR ((Online.bindWire Online.isdKeyContexts (some (← parseHex tok)) (← nat? prov)).map toHex))
  | ["conv_alter", tok, prov, sign] => do
    some (showR ((Online.alterWire [Online.isdKeyContexts.head!] (← parseHex tok) (← nat? prov) (← bool? sign)).map toHex))
  | ["conv_getkey", a, sign, sd, rk, l0, l1, l2] => do
    match ← auth? a with
    | some auth =>
      let rkb ← (if rk = "none" then some none else (parseHex rk).map some)
      some (showR ((Online.getKeyRequestWire auth (← bool? sign) ⟨← parseHex sd, rkb, ← int? l0, ← int? l1, ← int? l2, none⟩).map toHex))
    | none => none
  | "bindresult" :: cs :: desired :: h :: t :: body => do
    let ctxs ← (splitOnNE cs "|").mapM ctxEl?
    some (showR ((processBindResult ctxs ⟨← header? h, ← trailer? t, ← body? body⟩ (← nat? desired)).map fun _ => "accepted"))
  | _ => none

end DpapiNg.Drv
