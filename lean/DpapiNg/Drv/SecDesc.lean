import DpapiNg.Drv.Common
import DpapiNg.Spec.Dtyp
namespace DpapiNg.Drv
open DpapiNg DpapiNg.SecDesc DpapiNg.Spec.Dtyp

/-- UTF-8 bytes → one `Char` per byte (non-ASCII bytes become non-digit, non-dash characters,
    which the grammar rejects exactly as the regex rejects the non-ASCII code point) -/
def bytesToChars (b : Bytes) : List Char := b.map Char.ofNat

def showSid (s : Sid) : String := s!"S-{s.rev}-{s.auth}" ++ String.join (s.subs.map fun x => s!"-{x}")
def showAce (a : Ace) : String := s!"{a.aceType}/{a.flags}/{a.mask}/{showSid a.sid}"
def showAcl (a : Option (List Ace)) : String :=
  match a with
  | none => "none"
  | some l => "[" ++ ",".intercalate (l.map showAce) ++ "]"

def dispatchSecDesc (toks : List String) : Option String :=
  match toks with
  | ["sid", h] => do
    let b ← parseHex h
    some (showR ((sidToBytes (bytesToChars b)).map toHex))
  | ["targetsd", h] => do
    let b ← parseHex h
    some (showR ((targetSdOfStr (bytesToChars b)).map toHex))
  | ["ace", h, mask] => do
    let b ← parseHex h; let m ← nat? mask
    some (showR ((sidToBytes (bytesToChars b)).map fun sb => toHex (aceBytes sb m)))
  | ["dtyp", h] => do
    let b ← parseHex h
    match parseSd b with
    | some sd => some s!"ok {sd.control} {showSid sd.owner} {showSid sd.group} {showAcl sd.sacl} {showAcl sd.dacl}"
    | none => some "err parse"
  | _ => none

end DpapiNg.Drv
