/-
  Model of `_asn1.py`: DER/TLV primitives, function by function (as repaired by the fix:
  commits for the INTEGER carry and the empty INTEGER / OID content).
  Byte strings are `Bytes`; a reader is the remaining view.
-/
import DpapiNg.Model.Py
namespace DpapiNg.Asn1

structure Tag where
  cls : Nat
  num : Nat
  constructed : Bool
  deriving DecidableEq, Repr, Inhabited

structure Header where
  tag : Tag
  tagLength : Nat
  length : Nat
  deriving DecidableEq, Repr, Inhabited

def Tag.universal (n : Nat) (c : Bool := false) : Tag := ⟨0, n, c⟩

def tBOOLEAN := Tag.universal 1
def tINTEGER := Tag.universal 2
def tOCTET := Tag.universal 4
def tOID := Tag.universal 6
def tENUM := Tag.universal 10
def tUTF8 := Tag.universal 12
def tSEQ := Tag.universal 16 true
def tSET := Tag.universal 17 true
def tGENTIME := Tag.universal 24
def ctx (n : Nat) (c : Bool) : Tag := ⟨2, n, c⟩

/-! ### base-128 numbers (`_pack_asn1_octet_number` / `_unpack_asn1_octet_number`) -/

/-- little-endian base-128 digits of `n` (none for 0), as the Python loop appends them -/
def b128LE (n : Nat) : List Nat :=
  if n = 0 then [] else (n % 128) :: b128LE (n / 128)
termination_by n
decreasing_by omega

/-- set the continuation bit on every digit but the first appended one -/
def contLE : List Nat → List Nat
  | [] => []
  | d :: ds => d :: ds.map (· + 128)

def packOctetNumber (n : Nat) : Bytes := (contLE (b128LE n)).reverse

/-- returns (value, octets consumed); `acc` is the value so far -/
def unpackOctetNumberAux : Bytes → Nat → Nat → R (Nat × Nat)
  | [], _, _ => .error .notEnoughData
  | e :: rest, acc, idx =>
    let acc' := acc * 128 + e % 128
    if e / 128 % 2 = 0 then .ok (acc', idx + 1) else unpackOctetNumberAux rest acc' (idx + 1)

def unpackOctetNumber (b : Bytes) : R (Nat × Nat) := unpackOctetNumberAux b 0 0

/-! ### TLV writer (`_pack_asn1`) -/

/-- minimal big-endian digits of `n` (none for 0): the `while length:` loop then `reverse` -/
def minLE (n : Nat) : List Nat :=
  if n = 0 then [] else (n % 256) :: minLE (n / 256)
termination_by n
decreasing_by omega

def lengthOctets (n : Nat) : Bytes :=
  if n < 128 then [n]
  else let ds := (minLE n).reverse; (ds.length + 128) :: ds

def identifierOctets (t : Tag) : Bytes :=
  let b := t.cls * 64 + (if t.constructed then 32 else 0)
  if t.num < 31 then [b + t.num] else (b + 31) :: packOctetNumber t.num

def packTLV (t : Tag) (content : Bytes) : R Bytes :=
  if t.cls > 3 then .error .valueError
  else .ok (identifierOctets t ++ lengthOctets content.length ++ content)

/-! ### header reader (`_read_asn1_header`) -/

/-- universal tag numbers `TypeTagNumber` knows -/
def knownUniversal (n : Nat) : Bool := n ≤ 36

/-- the `for idx in range(1, length_octets)` loop: big-endian value of the next `k` octets -/
def readLenOctets : Nat → Bytes → Nat → R Nat
  | 0, _, acc => .ok acc
  | _ + 1, [], _ => .error .notEnoughData
  | k + 1, x :: rest, acc => readLenOctets k rest (acc * 256 + x)

/-- first part of `_read_asn1_header`: identifier octets → (tag, number of octets) -/
def readIdentifier (view : Bytes) : R (Tag × Nat) :=
  match view with
  | [] => .error .notEnoughData
  | o :: rest =>
    let cls := o / 64 % 4
    let constructed := o / 32 % 2 = 1
    let num0 := o % 32
    (if num0 = 31 then unpackOctetNumber rest else .ok (num0, 0)) >>= fun (num, cnt) =>
    if cls = 0 ∧ ¬ knownUniversal num then .error .valueError
    else .ok (⟨cls, num, constructed⟩, 1 + cnt)

/-- second part: length octets → (number of octets, length) -/
def readLength (view : Bytes) : R (Nat × Nat) :=
  match view with
  | [] => .error .notEnoughData
  | l :: rest2 =>
    if l = 128 then .error .valueError
    else if l ≥ 128 then
      (readLenOctets (l % 128) rest2 0) >>= fun len => .ok (1 + l % 128, len)
    else .ok (1, l)

def readHeader (view : Bytes) : R Header :=
  readIdentifier view >>= fun (tag, tagOctets) =>
  readLength (view.drop tagOctets) >>= fun (lenOctets, len) =>
  .ok ⟨tag, tagOctets + lenOctets, len⟩

/-- `_validate_tag`: returns (content, total octets consumed) -/
def validateTag (view : Bytes) (expected : Option Tag) (typeTag : Tag) (header : Option Header) : R (Bytes × Nat) :=
  (match header with | some h => .ok h | none => readHeader view) >>= fun h =>
  let exp := expected.getD (match header with | some h' => h'.tag | none => typeTag)
  if h.tag ≠ exp then .error .valueError else
  let v := view.drop h.tagLength
  if v.length < h.length then .error .notEnoughData
  else .ok (v.take h.length, h.tagLength + h.length)

/-! ### INTEGER -/

def valLE := Py.fromLE

def digitsPos (v : Nat) : List Nat :=
  if v ≤ 0x7F then [v] else (v % 256) :: digitsPos (v / 256)
termination_by v
decreasing_by omega

def digitsNegRaw (n : Nat) : List Nat :=
  if n ≤ 0x80 then [0xFF - n] else (0xFF - n % 256) :: digitsNegRaw (n / 256)
termination_by n
decreasing_by omega

def incLE : List Nat → List Nat
  | [] => []
  | d :: ds => if d < 0xFF then (d + 1) :: ds else 0 :: incLE ds

/-- most significant digit of a little-endian digit list -/
def top : List Nat → Nat
  | [] => 0
  | [d] => d
  | _ :: d :: ds => top (d :: ds)

/-- the writer's byte loop, little-endian (before `b_int.reverse()`) -/
def packLE (v : Int) : List Nat :=
  if v < 0 then
    let b := incLE (digitsNegRaw v.natAbs)
    if top b = 0x7F then b ++ [0xFF] else b
  else digitsPos v.toNat

/-- the (repaired) reader's loops on the little-endian view of the content -/
def readLE (ds : List Nat) : Int :=
  if 0x80 ≤ top ds then - (valLE (incLE (ds.map (0xFF - ·))) : Int) else (valLE ds : Int)

def packIntegerContent (v : Int) : Bytes := (packLE v).reverse

def packInteger (v : Int) (tag : Option Tag := none) : R Bytes :=
  packTLV (tag.getD tINTEGER) (packIntegerContent v)

/-- `_read_asn1_integer`: (value, consumed) -/
def readInteger (view : Bytes) (tag : Option Tag := none) (header : Option Header := none) : R (Int × Nat) :=
  validateTag view tag tINTEGER header >>= fun (raw, consumed) =>
  if raw = [] then .error .valueError else .ok (readLE raw.reverse, consumed)

/-! ### OBJECT IDENTIFIER (arcs as naturals; the dotted string is CPython's `str`/`int`) -/

/-- one arc: base-128, continuation bit on all but the last octet; arc 0 is one octet -/
def arcOctets (n : Nat) : Bytes :=
  if n = 0 then [0] else packOctetNumber n

def encodeOid (arcs : List Nat) : R Bytes :=
  match arcs with
  | a :: b :: rest =>
    if a > 39 ∨ b > 39 then .error .valueError
    else .ok ((arcOctets (40 * a + b)) ++ (rest.map arcOctets).flatten)
  | _ => .error .indexError

def packOid (arcs : List Nat) (tag : Option Tag := none) : R Bytes :=
  encodeOid arcs >>= fun c => packTLV (tag.getD tOID) c

/-- the `while idx != len(raw_oid)` loop; fuel = remaining length (each step consumes ≥ 1) -/
def readArcs : Nat → Bytes → R (List Nat)
  | _, [] => .ok []
  | 0, _ :: _ => .ok []
  | fuel + 1, b@(_ :: _) =>
    unpackOctetNumber b >>= fun (n, k) =>
    readArcs fuel (b.drop k) >>= fun rest => .ok (n :: rest)

def readOid (view : Bytes) (tag : Option Tag := none) (header : Option Header := none) : R (List Nat × Nat) :=
  validateTag view tag tOID header >>= fun (raw, consumed) =>
  match raw with
  | [] => .error .valueError
  | f :: rest =>
    readArcs rest.length rest >>= fun arcs =>
    .ok (f / 40 :: f % 40 :: arcs, consumed)

/-! ### other primitives -/

def packBoolean (v : Bool) (tag : Option Tag := none) : R Bytes :=
  packTLV (tag.getD tBOOLEAN) [if v then 255 else 0]

def readBoolean (view : Bytes) (tag : Option Tag := none) (header : Option Header := none) : R (Bool × Nat) :=
  validateTag view tag tBOOLEAN header >>= fun (raw, consumed) =>
  .ok ((raw.filter (· ≠ 0)) ≠ [], consumed)

def packOctetString (b : Bytes) (tag : Option Tag := none) : R Bytes :=
  packTLV (tag.getD tOCTET) b

def readOctetString (view : Bytes) (tag : Option Tag := none) (header : Option Header := none) : R (Bytes × Nat) :=
  validateTag view tag tOCTET header

/-- UTF-8 / time strings enter the model as their encoded bytes (the codec is CPython's). -/
def packUtf8 (b : Bytes) (tag : Option Tag := none) : R Bytes := packTLV (tag.getD tUTF8) b
def readUtf8Raw (view : Bytes) (tag : Option Tag := none) (header : Option Header := none) : R (Bytes × Nat) :=
  validateTag view tag tUTF8 header
def packGenTime (b : Bytes) (tag : Option Tag := none) : R Bytes := packTLV (tag.getD tGENTIME) b
def readGenTimeRaw (view : Bytes) (tag : Option Tag := none) (header : Option Header := none) : R (Bytes × Nat) :=
  validateTag view tag tGENTIME header

def readSequence (view : Bytes) (tag : Option Tag := none) (header : Option Header := none) : R (Bytes × Nat) :=
  validateTag view tag tSEQ header
def readSet (view : Bytes) (tag : Option Tag := none) (header : Option Header := none) : R (Bytes × Nat) :=
  validateTag view tag tSET header

/-- `ASN1Reader.read_enumerated` / `_read_asn1_enumerated` -/
def readEnumerated (view : Bytes) (tag : Option Tag := none) (header : Option Header := none) : R (Int × Nat) :=
  let t := match tag with
    | some t => t
    | none => match header with | some h => h.tag | none => tENUM
  readInteger view (some t) header

/-! ### UTF-8 validity (what `bytes.decode("utf-8")` accepts), used where the model must
    predict `UnicodeDecodeError` (a `ValueError`). -/
def utf8Valid : Bytes → Bool
  | [] => true
  | b0 :: rest =>
    if b0 < 0x80 then utf8Valid rest
    else if b0 < 0xC2 then false
    else if b0 < 0xE0 then
      match rest with
      | b1 :: r => if 0x80 ≤ b1 ∧ b1 < 0xC0 then utf8Valid r else false
      | _ => false
    else if b0 < 0xF0 then
      match rest with
      | b1 :: b2 :: r =>
        let lo := if b0 = 0xE0 then 0xA0 else 0x80
        let hi := if b0 = 0xED then 0xA0 else 0xC0
        if lo ≤ b1 ∧ b1 < hi ∧ 0x80 ≤ b2 ∧ b2 < 0xC0 then utf8Valid r else false
      | _ => false
    else if b0 < 0xF5 then
      match rest with
      | b1 :: b2 :: b3 :: r =>
        let lo := if b0 = 0xF0 then 0x90 else 0x80
        let hi := if b0 = 0xF4 then 0x90 else 0xC0
        if lo ≤ b1 ∧ b1 < hi ∧ 0x80 ≤ b2 ∧ b2 < 0xC0 ∧ 0x80 ≤ b3 ∧ b3 < 0xC0 then utf8Valid r else false
      | _ => false
    else false
termination_by b => b.length
decreasing_by all_goals simp_wf <;> omega

end DpapiNg.Asn1
