/-
  `DPAPINGBlob.pack` as data: the nested constructor calls that build the CMS objects, the three `ASN1Writer()` / `x.pack(writer)`
  rounds and the final `b"".join([...])`.  The translator (`harness/extract.py`, kind "bplan") regenerates the plan from /repo's
  current source on every run; `Proofs/BPlan.lean` proves that `Blob.blobPack` is its interpretation, with every object packed
  by the regenerated writer programs of `Proofs/WProg.lean`.
-/
import DpapiNg.Model.WProg
namespace DpapiNg.BPlan
open DpapiNg DpapiNg.WProg

inductive CExpr where
  | int (i : Int)                                   -- an integer literal
  | oid (o : List Nat)                              -- a class constant holding a dotted OID (`EnvelopedData.CONTENT_TYPE_DATA_OID`, …)
  | field (f : String)                              -- `self.f`
  | packOf (f : String)                             -- `self.f.pack()`
  | buf (x : String)                                -- `writer.get_data()` after `x.pack(writer)` on a fresh writer
  | var (x : String)                                -- a local bound by an earlier statement
  | obj (cls : String) (fields : List (String × CExpr))   -- `Cls(kw=…, …)` (positional arguments resolved through the dataclass)
  | list (xs : List CExpr)                          -- `[a, b, …]`
  | ifLayout (a b : CExpr)                          -- `a if blob_in_envelope else b`
  | emptyBytes                                      -- `b""`
  deriving Repr

inductive Step where
  | bind (x : String) (e : CExpr)                   -- `x = <constructor expression>`
  | packTo (x : String) (cls : String)              -- `writer = ASN1Writer()`; `x.pack(writer)`: the buffer is `buf x`
  deriving Repr

structure Env where
  fields : String → Val                             -- `self.f`
  packs : String → R Bytes                          -- `self.f.pack()`
  inEnvelope : Bool
  schema : String → List String                     -- dataclass fields of each class, in declaration order
  vars : List (String × Val)
  bufs : List (String × Bytes)

mutual
def eval (env : Env) : CExpr → R Val
  | .int i => .ok (.int i)
  | .oid o => .ok (.oid o)
  | .field f => .ok (env.fields f)
  | .packOf f => (env.packs f).map Val.bytes
  | .buf x => match env.bufs.lookup x with | some b => .ok (.bytes b) | none => .error .keyError
  | .var x => match env.vars.lookup x with | some v => .ok v | none => .error .keyError
  | .obj cls fields => do
    let vs ← evalFields env fields
    -- a dataclass instance: every declared field, in declaration order; fields not given take their default `None`
    .ok (.obj ((env.schema cls).map fun k => (k, (vs.lookup k).getD .none)))
  | .list xs => do
    let vs ← evalList env xs
    .ok (.list vs)
  | .ifLayout a b => if env.inEnvelope then eval env a else eval env b
  | .emptyBytes => .ok (.bytes [])
def evalFields (env : Env) : List (String × CExpr) → R (List (String × Val))
  | [] => .ok []
  | (k, e) :: rest => do
    let v ← eval env e
    let vs ← evalFields env rest
    .ok ((k, v) :: vs)
def evalList (env : Env) : List CExpr → R (List Val)
  | [] => .ok []
  | e :: rest => do
    let v ← eval env e
    let vs ← evalList env rest
    .ok (v :: vs)
end

def runSteps (call : String → Val → R Bytes) : List Step → Env → R Env
  | [], env => .ok env
  | .bind x e :: rest, env => do
    let v ← eval env e
    runSteps call rest { env with vars := (x, v) :: env.vars }
  | .packTo x cls :: rest, env => do
    let v ← (match env.vars.lookup x with | some v => .ok v | none => .error .keyError : R Val)
    let b ← call cls v
    runSteps call rest { env with bufs := (x, b) :: env.bufs }

/-- the final `return b"".join([e1, e2, …])` over bytes-valued expressions -/
def runJoin (env : Env) : List CExpr → R Bytes
  | [] => .ok []
  | e :: rest => do
    let v ← eval env e
    let b ← runJoin env rest
    match v with
    | .bytes x => .ok (x ++ b)
    | _ => .error .typeError

def run (call : String → Val → R Bytes) (plan : List Step × List CExpr) (env : Env) : R Bytes := do
  let env' ← runSteps call plan.1 env
  runJoin env' plan.2

end DpapiNg.BPlan
