/-
  Model of `_pkcs7.py` (ContentInfo / EnvelopedData / KEKRecipientInfo / …) and of
  `_blob.py` (`ProtectionDescriptor`, `DPAPINGBlob.pack` / `.unpack`), on top of the ASN.1 model.
  A reader is the remaining view; every `read_*` returns the value and the rest.
  OIDs are arc lists (the dotted string is CPython's); UTF-8 values are carried as bytes.
-/
import DpapiNg.Model.Asn1
import DpapiNg.Model.Gkdi
namespace DpapiNg.Blob
open DpapiNg DpapiNg.Asn1 DpapiNg.Gkdi

def oidEnvelopedData : List Nat := [1, 2, 840, 113549, 1, 7, 3]
def oidData : List Nat := [1, 2, 840, 113549, 1, 7, 1]
def oidMicrosoftSoftware : List Nat := [1, 3, 6, 1, 4, 1, 311, 74, 1]
def oidSidProtector : List Nat := [1, 3, 6, 1, 4, 1, 311, 74, 1, 1]
def oidAes256Wrap : List Nat := [2, 16, 840, 1, 101, 3, 4, 1, 45]
def oidAes256Gcm : List Nat := [2, 16, 840, 1, 101, 3, 4, 1, 46]
def utf8SID : Bytes := [83, 73, 68]

/-! ### reader steps: (value, rest) -/

def rdOid (v : Bytes) : R (List Nat × Bytes) := (readOid v).map fun (a, n) => (a, v.drop n)
def rdInt (v : Bytes) : R (Int × Bytes) := (readInteger v).map fun (a, n) => (a, v.drop n)
def rdOctets (v : Bytes) (tag : Option Tag := none) : R (Bytes × Bytes) :=
  (readOctetString v tag).map fun (a, n) => (a, v.drop n)
def rdSeq (v : Bytes) (header : Option Header := none) : R (Bytes × Bytes) :=
  (readSequence v none header).map fun (a, n) => (a, v.drop n)
def rdSet (v : Bytes) : R (Bytes × Bytes) := (readSet v).map fun (a, n) => (a, v.drop n)
def rdUtf8 (v : Bytes) : R (Bytes × Bytes) :=
  (readUtf8Raw v) >>= fun (a, n) => if utf8Valid a then .ok (a, v.drop n) else .error .valueError
def rdGenTime (v : Bytes) (header : Option Header) : R (Bytes × Bytes) :=
  (readGenTimeRaw v none header) >>= fun (a, n) => if utf8Valid a then .ok (a, v.drop n) else .error .valueError

/-! ### writers -/
def wSeq (c : Bytes) : R Bytes := packTLV tSEQ c
def wSet (c : Bytes) : R Bytes := packTLV tSET c

/-! ### AlgorithmIdentifier -/
structure AlgId where
  algorithm : List Nat
  parameters : Option Bytes
  deriving DecidableEq, Repr

/-- Python truthiness of `Optional[bytes]` -/
def truthy (b : Option Bytes) : Bool := match b with | some x => !x.isEmpty | none => false
def orEmpty (b : Option Bytes) : Bytes := b.getD []

def algIdPack (a : AlgId) : R Bytes := do
  let o ← packOid a.algorithm
  wSeq (o ++ (if truthy a.parameters then orEmpty a.parameters else []))

def algIdUnpack (v : Bytes) : R (AlgId × Bytes) := do
  let (c, rest) ← rdSeq v
  let (alg, c') ← rdOid c
  pure (⟨alg, if c' = [] then none else some c'⟩, rest)

/-! ### ProtectionDescriptor (SID type) -/
def protDescPack (sidUtf8 : Bytes) : R Bytes := do
  let o ← packOid oidSidProtector
  let a ← packUtf8 utf8SID
  let b ← packUtf8 sidUtf8
  let s3 ← wSeq (a ++ b)
  let s2 ← wSeq s3
  let s1 ← wSeq s2
  wSeq (o ++ s1)

def protDescUnpack (v : Bytes) : R Bytes := do
  let (c, _) ← rdSeq v
  let (ct, c1) ← rdOid c
  let (s1, _) ← rdSeq c1
  let (s2, _) ← rdSeq s1
  let (s3, _) ← rdSeq s2
  let (vt, r1) ← rdUtf8 s3
  let (val, _) ← rdUtf8 r1
  if ct = oidSidProtector ∧ vt = utf8SID then pure val else throw .valueError

/-! ### KEKIdentifier / OtherKeyAttribute / KEKRecipientInfo -/
structure OtherAttr where
  keyAttrId : List Nat
  keyAttr : Option Bytes
  deriving DecidableEq, Repr

structure KekId where
  keyIdentifier : Bytes
  date : Option Bytes
  other : Option OtherAttr
  deriving DecidableEq, Repr

def otherAttrPack (o : OtherAttr) : R Bytes := do
  let i ← packOid o.keyAttrId
  wSeq (i ++ (if truthy o.keyAttr then orEmpty o.keyAttr else []))

def kekIdPack (k : KekId) : R Bytes := do
  let ki ← packOctetString k.keyIdentifier
  let d ← (if truthy k.date then packGenTime (orEmpty k.date) else pure [])
  let o ← (match k.other with | some o => otherAttrPack o | none => pure [])
  wSeq (ki ++ d ++ o)

def kekIdUnpack (v : Bytes) : R (KekId × Bytes) := do
  let (c, rest) ← rdSeq v
  let (ki, c1) ← rdOctets c
  let h ← readHeader c1
  let (date, c2, h2) ←
    (if h.tag.cls = 0 ∧ h.tag.num = 24 then do
      let (d, c2) ← rdGenTime c1 (some h)
      let h2 ← readHeader c2
      pure (some d, c2, h2)
    else pure (none, c1, h) : R (Option Bytes × Bytes × Header))
  let other ←
    (if h2.tag.cls = 0 ∧ h2.tag.num = 16 then do
      let (oc, _) ← rdSeq c2 (some h2)
      let (id, oc1) ← rdOid oc
      pure (some ⟨id, if oc1 = [] then none else some oc1⟩)
    else pure none : R (Option OtherAttr))
  pure (⟨ki, date, other⟩, rest)

structure KekRi where
  version : Int
  kekid : KekId
  alg : AlgId
  encryptedKey : Bytes
  deriving DecidableEq, Repr

def kekRiPack (r : KekRi) : R Bytes := do
  let v ← packInteger r.version
  let k ← kekIdPack r.kekid
  let a ← algIdPack r.alg
  let e ← packOctetString r.encryptedKey
  packTLV (ctx 2 true) (v ++ k ++ a ++ e)

/-- `RecipientInfo.unpack` → `KEKRecipientInfo.unpack` -/
def recipientInfoUnpack (v : Bytes) : R (KekRi × Bytes) := do
  let h ← readHeader v
  if ¬ (h.tag.cls = 2 ∧ h.tag.num = 2) then throw .notImplemented
  let (c, rest) ← rdSeq v (some h)
  let (ver, c1) ← rdInt c
  let (kid, c2) ← kekIdUnpack c1
  let (alg, c3) ← algIdUnpack c2
  let (ek, _) ← rdOctets c3
  pure (⟨ver, kid, alg, ek⟩, rest)

/-- the `while recipient_infos_reader:` loop; fuel = remaining length (each info consumes ≥ 2 octets) -/
def recipientInfosUnpack : Nat → Bytes → R (List KekRi)
  | _, [] => .ok []
  | 0, _ :: _ => .ok []
  | fuel + 1, v@(_ :: _) => do
    let (ri, rest) ← recipientInfoUnpack v
    let more ← recipientInfosUnpack fuel rest
    pure (ri :: more)

/-! ### EncryptedContentInfo / EnvelopedData / ContentInfo -/
structure EncContentInfo where
  contentType : List Nat
  alg : AlgId
  content : Option Bytes
  deriving DecidableEq, Repr

def encContentInfoPack (e : EncContentInfo) : R Bytes := do
  let t ← packOid e.contentType
  let a ← algIdPack e.alg
  let c ← (if truthy e.content then packOctetString (orEmpty e.content) (some (ctx 0 false)) else pure [])
  wSeq (t ++ a ++ c)

def encContentInfoUnpack (v : Bytes) : R (EncContentInfo × Bytes) := do
  let (c, rest) ← rdSeq v
  let (t, c1) ← rdOid c
  let (a, c2) ← algIdUnpack c1
  let content ← (if c2 = [] then pure none else (rdOctets c2 (some (ctx 0 false))).map fun (x, _) => some x : R (Option Bytes))
  pure (⟨t, a, content⟩, rest)

structure EnvelopedData where
  version : Int
  recipientInfos : List KekRi
  encContentInfo : EncContentInfo
  deriving DecidableEq, Repr

def envelopedDataPack (e : EnvelopedData) : R Bytes := do
  let v ← packInteger e.version
  let ris ← e.recipientInfos.mapM kekRiPack
  let s ← wSet ris.flatten
  let c ← encContentInfoPack e.encContentInfo
  wSeq (v ++ s ++ c)

def envelopedDataUnpack (v : Bytes) : R EnvelopedData := do
  let (c, _) ← rdSeq v
  let (ver, c1) ← rdInt c
  if ver ≠ 2 then throw .notImplemented
  let (setc, c2) ← rdSet c1
  let ris ← recipientInfosUnpack setc.length setc
  let (eci, _) ← encContentInfoUnpack c2
  pure ⟨ver, ris, eci⟩

def contentInfoPack (contentType : List Nat) (content : Bytes) : R Bytes := do
  let t ← packOid contentType
  let c ← packOctetString content (some (ctx 0 true))
  wSeq (t ++ c)

/-- `ContentInfo.unpack(data, header=header)` -/
def contentInfoUnpack (v : Bytes) (header : Header) : R (List Nat × Bytes) := do
  let (c, _) ← rdSeq v (some header)
  let (t, c1) ← rdOid c
  let (content, _) ← rdOctets c1 (some (ctx 0 true))
  pure (t, content)

/-! ### DPAPINGBlob -/
structure Blob where
  keyId : KeyId
  sid : Bytes
  encCek : Bytes
  encCekAlg : List Nat
  encCekParams : Option Bytes
  encContent : Bytes
  encContentAlg : List Nat
  encContentParams : Option Bytes
  deriving DecidableEq, Repr

def blobPack (b : Blob) (inEnvelope : Bool := true) : R Bytes := do
  let kid ← keyIdPack b.keyId
  let pd ← protDescPack b.sid
  let ri : KekRi := ⟨4, ⟨kid, none, some ⟨oidMicrosoftSoftware, some pd⟩⟩, ⟨b.encCekAlg, b.encCekParams⟩, b.encCek⟩
  let ed : EnvelopedData := ⟨2, [ri], ⟨oidData, ⟨b.encContentAlg, b.encContentParams⟩, some (if inEnvelope then b.encContent else [])⟩⟩
  let edb ← envelopedDataPack ed
  let ci ← contentInfoPack oidEnvelopedData edb
  pure (ci ++ (if inEnvelope then [] else b.encContent))

def blobUnpack (data : Bytes) : R Blob := do
  let header ← readHeader data
  let n := header.tagLength + header.length
  let (ct, content) ← contentInfoUnpack (data.take n) header
  let remaining := data.drop n
  if ct ≠ oidEnvelopedData then throw .valueError
  let ed ← envelopedDataUnpack content
  match ed.recipientInfos with
  | [ri] =>
    if ri.version ≠ 4 then throw .valueError
    let kid ← keyIdUnpack ri.kekid.keyIdentifier
    match ri.kekid.other with
    | some o =>
      if o.keyAttrId ≠ oidMicrosoftSoftware then throw .valueError
      let sid ← protDescUnpack (orEmpty o.keyAttr)
      let encContent := if truthy ed.encContentInfo.content then orEmpty ed.encContentInfo.content else remaining
      pure ⟨kid, sid, ri.encryptedKey, ri.alg.algorithm, ri.alg.parameters, encContent,
        ed.encContentInfo.alg.algorithm, ed.encContentInfo.alg.parameters⟩
    | none => throw .valueError
  | _ => throw .valueError

end DpapiNg.Blob
