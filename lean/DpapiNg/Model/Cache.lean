/-
  `KeyCache` as a state machine (as repaired: the root-key path replaces a non-covering entry).
  Envelopes are abstract here (position + payload) so that the theorems hold for every payload;
  the cache key K stands for (root key id, target SD, L0), R for the root key id.
  Atomic steps are `load`, `get` (`_get_key`), `store` (`_store_key` of a DC reply) and `storeBack`
  (`_store_key` of an envelope that came out of the cache itself: the hit path of unprotect, and
  the derived envelope of the protect path).  A synchronous call is get;store back to back; an
  async call may have any other steps between its get and its store — so a list of steps is
  every history *and* every interleaving.
-/
namespace DpapiNg.Cache

structure Pos where
  l1 : Nat
  l2 : Nat
deriving DecidableEq

def Pos.le (p q : Pos) : Prop := p.l1 < q.l1 ∨ (p.l1 = q.l1 ∧ p.l2 ≤ q.l2)
def Pos.lt (p q : Pos) : Prop := p.l1 < q.l1 ∨ (p.l1 = q.l1 ∧ p.l2 < q.l2)
instance (p q : Pos) : Decidable (Pos.le p q) := by unfold Pos.le; exact inferInstance
instance (p q : Pos) : Decidable (Pos.lt p q) := by unfold Pos.lt; exact inferInstance
def Pos.top : Pos := ⟨31, 31⟩
def Pos.InRange (p : Pos) : Prop := p.l1 ≤ 31 ∧ p.l2 ≤ 31

theorem Pos.le_trans {a b c : Pos} (h1 : Pos.le a b) (h2 : Pos.le b c) : Pos.le a c := by
  unfold Pos.le at *; omega
theorem Pos.le_of_lt {a b : Pos} (h : Pos.lt a b) : Pos.le a b := by
  unfold Pos.le; unfold Pos.lt at h; omega
theorem Pos.le_top {p : Pos} (h : p.InRange) : Pos.le p Pos.top := by
  unfold Pos.le Pos.top; unfold Pos.InRange at h; simp only; omega

section
variable {K R P RK E : Type} [DecidableEq K] [DecidableEq R]
-- K = (rk, sd, l0);  R = root key id;  P = envelope payload;  RK = root key record;  E = error kind

structure Env (P : Type) where
  pos : Pos
  payload : P

structure State (K R P RK : Type) where
  roots : R → Option RK           -- loaded root keys
  seeds : K → Option (Env P)      -- best known envelope per (rk, sd, l0)

/-- outcome of `_get_key`: an envelope, `None` (go to the DC), or an exception while deriving from the root key -/
inductive Got (P E : Type) where
  | hit (e : Env P)
  | miss
  | fail (err : E)

-- payload of the envelope `_get_key` derives from a root key (`compute_l1_key` can raise)
variable (rkOf : K → R) (rootEnv : RK → K → Except E P)

def setSeed (s : State K R P RK) (k : K) (e : Env P) : State K R P RK :=
  { s with seeds := fun k' => if k' = k then some e else s.seeds k' }

/-- the root-key path of `_get_key` -/
def fromRoot (s : State K R P RK) (k : K) : Got P E × State K R P RK :=
  match s.roots (rkOf k) with
  | some r =>
    match rootEnv r k with
    | .ok pl => let g : Env P := ⟨Pos.top, pl⟩; (.hit g, setSeed s k g)
    | .error e => (.fail e, s)
  | none => (.miss, s)

/-- repaired `KeyCache._get_key` -/
def getKey (s : State K R P RK) (k : K) (p : Pos) : Got P E × State K R P RK :=
  match s.seeds k with
  | some e => if Pos.le p e.pos then (.hit e, s) else fromRoot rkOf rootEnv s k
  | none => fromRoot rkOf rootEnv s k

/-- `KeyCache._store_key` -/
def storeKey (s : State K R P RK) (k : K) (e : Env P) : State K R P RK :=
  match s.seeds k with
  | none => setSeed s k e
  | some ex => if Pos.lt ex.pos e.pos then setSeed s k e else s

def loadKey (s : State K R P RK) (r : R) (p : RK) : State K R P RK :=
  { s with roots := fun r' => if r' = r then some p else s.roots r' }

inductive Op (K R P RK : Type) where
  | load (r : R) (p : RK)
  | get (k : K) (p : Pos)
  | store (k : K) (e : Env P)        -- an envelope obtained from the DC for key k
  | storeBack (k : K) (e : Env P)    -- an envelope the client got from / derived out of the cache

def step (s : State K R P RK) : Op K R P RK → State K R P RK
  | .load r p => loadKey s r p
  | .get k p => (getKey rkOf rootEnv s k p).2
  | .store k e => storeKey s k e
  | .storeBack k e => storeKey s k e

def run (s : State K R P RK) (ops : List (Op K R P RK)) : State K R P RK := ops.foldl (step rkOf rootEnv) s

def State.empty : State K R P RK := ⟨fun _ => none, fun _ => none⟩

end
end DpapiNg.Cache
