/-
  The L1/L2 walk of `compute_l2_key` (as repaired), over an arbitrary key type, KDF and
  context functions, so that what is proved holds for every hash, root key, SD and L0 at once.
    c1 i   = context (L0, i, −1)        c2 i j = context (L0, i, j)
-/
namespace DpapiNg.Chain
variable {Key Ctx : Type}

structure Env (Key : Type) where
  l1 : Nat
  l2 : Nat
  l1Key : Key
  l2Key : Key

section
variable (kdf : Key → Ctx → Key) (c1 : Nat → Ctx) (c2 : Nat → Nat → Ctx)

/-- `while l1 != request_l1: l1 -= 1; l1_key = kdf(l1_key, ctx(l1, -1))`; `n` = iterations -/
def walk1 (k : Key) (l1 : Nat) : Nat → Key
  | 0 => k
  | n + 1 => walk1 (kdf k (c1 (l1 - 1))) (l1 - 1) n

/-- `while l2 != request_l2: l2 -= 1; l2_key = kdf(l2_key, ctx(l1, l2))` -/
def walk2 (k : Key) (l1 l2 : Nat) : Nat → Key
  | 0 => k
  | n + 1 => walk2 (kdf k (c2 l1 (l2 - 1))) l1 (l2 - 1) n

/-- the guard added by the fix: all four indices in 0..31 and the request covered by the seed -/
def rejects (env : Env Key) (r1 r2 : Nat) : Prop :=
  31 < r1 ∨ 31 < r2 ∨ 31 < env.l1 ∨ 31 < env.l2 ∨ env.l1 < r1 ∨ (env.l1 = r1 ∧ env.l2 < r2)

instance (env : Env Key) (r1 r2 : Nat) : Decidable (rejects env r1 r2) := by unfold rejects; infer_instance

/-- L1 index the walk starts from (the `l2 != 31 and l1 != request_l1` pre-decrement) -/
def startL1 (env : Env Key) (r1 : Nat) : Nat :=
  if env.l2 ≠ 31 ∧ env.l1 ≠ r1 then env.l1 - 1 else env.l1

def reseed (env : Env Key) (r1 : Nat) : Prop :=
  (env.l2 = 31 ∨ env.l1 ≠ r1) ∨ startL1 env r1 ≠ r1

instance (env : Env Key) (r1 : Nat) : Decidable (reseed env r1) := by unfold reseed; infer_instance

/-- number of KDF invocations `compute_l2_key` makes -/
def steps (env : Env Key) (r1 r2 : Nat) : Nat :=
  (startL1 env r1 - r1) + (if reseed env r1 then 1 + (31 - r2) else env.l2 - r2)

def computeL2 (env : Env Key) (r1 r2 : Nat) : Option Key :=
  if rejects env r1 r2 then none else
  let l1 := startL1 env r1
  let l1Key := walk1 kdf c1 env.l1Key l1 (l1 - r1)
  let (l2, l2Key) := if reseed env r1 then (31, kdf l1Key (c2 r1 31)) else (env.l2, env.l2Key)
  some (walk2 kdf c2 l2Key r1 l2 (l2 - r2))

/-! the MS-GKDI chain (specification) from the L1 key of index 31 -/
def K1 (k31 : Key) (i : Nat) : Key := walk1 kdf c1 k31 31 (31 - i)
def K2 (k31 : Key) (i j : Nat) : Key := walk2 kdf c2 (kdf (K1 kdf c1 k31 i) (c2 i 31)) i 31 (31 - j)

/-- the envelope shapes MS-GKDI 2.2.4 allows for position (a, b) -/
inductive Conforming (k31 : Key) : Env Key → Prop
  | atL2_31 (a : Nat) (k2 : Key) : a ≤ 31 → Conforming k31 ⟨a, 31, K1 kdf c1 k31 a, k2⟩
  | below (a b : Nat) (k1 : Key) : a ≤ 31 → b < 31 → (0 < a → k1 = K1 kdf c1 k31 (a - 1)) →
      Conforming k31 ⟨a, b, k1, K2 kdf c1 c2 k31 a b⟩

end
end DpapiNg.Chain
