/-
  Model of `_client.py`: `KeyCache` (an instance of the generic cache state machine of
  Model/Cache.lean), `_decrypt_blob`, `_encrypt_blob`, `_get_protection_gke_from_cache` and the
  cache-side halves of `ncrypt_protect_secret` / `ncrypt_unprotect_secret` (the four public
  functions differ only in `await`, so sync and async share this model).
  The clock and the random draws are explicit arguments.
-/
import DpapiNg.Model.Blob
import DpapiNg.Model.Cache
import DpapiNg.Model.SecDesc
import DpapiNg.Model.Time
namespace DpapiNg.Client
open DpapiNg DpapiNg.Gkdi DpapiNg.Blob

structure RootKey where
  key : Bytes
  version : Nat
  kdfAlgorithm : Bytes
  kdfParameters : Bytes
  secretAlgorithm : Bytes
  secretParameters : Option Bytes
  privateKeyLength : Nat
  publicKeyLength : Nat
  deriving DecidableEq, Repr

/-- `KDFParameters("SHA512").pack()` -/
def defaultKdfParams : Bytes := [0, 0, 0, 0, 1, 0, 0, 0, 14, 0, 0, 0, 0, 0, 0, 0] ++ u16 "SHA512" ++ [0, 0]

def rfc5114P : Nat := 17125458317614137930196041979257577826408832324037508573393292981642667139747621778802438775238728592968344613589379932348475613503476932163166973813218698343816463289144185362912602522540494983090531497232965829536524507269848825658311420299335922295709743267508322525966773950394919257576842038771632742044142471053509850123605883815857162666917775193496157372656195558305727009891276006514000409365877218171388319923896309377791762590614311849642961380224851940460421710449368927252974870395873936387909672274883295377481008150475878590270591798350563488168080923804611822387520198054002990623911454389104774092183
def rfc5114G : Nat := 8041367327046189302693984665026706374844608289874374425728797669509435881459140662650215832833471328470334064628508692231999401840332046192569287351991689963279656892562484773278584208040987631569628520464069532361274047374444344996651832979378318849943741662110395995778429270819222431610927356005913836932462099770076239554042855287138026806960470277326229482818003962004453764400995790974042663675692120758726145869061236443893509136147942414445551848162391468541444355707785697825741856849161233887307017428371823608125699892904960841221593344499088996021883972185241854777608212592397013510086894908468466292313

/-- `FFCDHParameters(256, p, g).pack()` for the RFC 5114 group -/
def defaultDhParams : Bytes :=
  Py.toLE (12 + 256 + 256) 4 ++ dhpm ++ Py.toLE 256 4 ++ Py.toBE rfc5114P 256 ++ Py.toBE rfc5114G 256

/-- `KeyCache.load_key` defaults -/
def mkRootKey (key : Bytes) (version : Nat) (kdfAlgorithm : Bytes) (kdfParameters : Option Bytes) (secretAlgorithm : Bytes)
    (secretParameters : Option Bytes) (privateKeyLength publicKeyLength : Nat) : RootKey :=
  let kp := if truthy kdfParameters then orEmpty kdfParameters else defaultKdfParams
  let sp := if secretAlgorithm = dhName ∧ ¬ truthy secretParameters then some defaultDhParams else secretParameters
  ⟨key, version, kdfAlgorithm, kp, secretAlgorithm, sp, privateKeyLength, publicKeyLength⟩

/-- cache key: (root key id, target SD, L0) -/
abbrev CKey := Bytes × Bytes × Nat
abbrev CState := Cache.State CKey Bytes Envelope RootKey

def rkOf (k : CKey) : Bytes := k.1

/-- the envelope `_get_key` builds from a root key for (rk, sd, l0) -/
def rootEnv (C : Crypto) (r : RootKey) (k : CKey) : R Envelope := do
  let hn ← kdfParamsUnpack r.kdfParameters
  let alg ← hashOfName hn
  let l1seed ← computeL1 C k.2.1 k.1 k.2.2 r.key alg
  pure ⟨r.version, 2, k.2.2, 31, 31, k.1, r.kdfAlgorithm, r.kdfParameters, r.secretAlgorithm, orEmpty r.secretParameters,
    r.privateKeyLength, r.publicKeyLength, [], [], l1seed, []⟩

def envOf (e : Envelope) : Cache.Env Envelope := ⟨⟨e.l1, e.l2⟩, e⟩

/-- `KeyCache._get_key(target_sd, root_key_id, l0, l1, l2)` -/
def cacheGet (C : Crypto) (s : CState) (sd rk : Bytes) (l0 l1 l2 : Nat) : Cache.Got Envelope PyErr × CState :=
  Cache.getKey rkOf (rootEnv C) s (rk, sd, l0) ⟨l1, l2⟩

/-- `KeyCache._store_key(target_sd, key)` -/
def cacheStore (s : CState) (sd : Bytes) (e : Envelope) : CState :=
  Cache.storeKey s (e.rootKeyId, sd, e.l0) (envOf e)

def cacheLoad (s : CState) (rkId : Bytes) (r : RootKey) : CState := Cache.loadKey s rkId r

/-! ### target security descriptor of a blob / descriptor string (UTF-8 bytes of the SID string) -/
def targetSdOf (sidUtf8 : Bytes) : R Bytes := SecDesc.targetSdOfStr (sidUtf8.map Char.ofNat)

/-! ### `_decrypt_blob` -/
def cekDecrypt (C : Crypto) (alg : List Nat) (kek value : Bytes) : R Bytes :=
  if alg = oidAes256Wrap then C.keyUnwrap kek value else .error .notImplemented

def gcmIv (parameters : Option Bytes) : R Bytes :=
  if ¬ truthy parameters then .error .valueError
  else do
    let (c, _) ← rdSeq (orEmpty parameters)
    let (iv, _) ← rdOctets c
    pure iv

def contentDecrypt (C : Crypto) (alg : List Nat) (parameters : Option Bytes) (cek value : Bytes) : R Bytes :=
  if alg = oidAes256Gcm then do
    let iv ← gcmIv parameters
    C.gcmDecrypt cek iv value
  else .error .notImplemented

def decryptBlob (C : Crypto) (b : Blob) (key : Envelope) : R Bytes := do
  let kek ← getKek C key b.keyId
  let cek ← cekDecrypt C b.encCekAlg kek b.encCek
  contentDecrypt C b.encContentAlg b.encContentParams cek b.encContent

/-! ### `_encrypt_blob`: three draws — CEK (32), GCM nonce (12), KEK nonce / ephemeral private key -/
structure Draws where
  cek : Bytes
  iv : Bytes
  kekRnd : Bytes
  deriving DecidableEq, Repr

def gcmParams (iv : Bytes) : R Bytes := do
  let o ← Asn1.packOctetString iv
  let i ← Asn1.packInteger 16
  wSeq (o ++ i)

def encryptBlobValue (C : Crypto) (data : Bytes) (key : Envelope) (sidUtf8 : Bytes) (d : Draws) : R Blob := do
  let params ← gcmParams d.iv
  let iv ← gcmIv (some params)                         -- `content_encrypt` reads the nonce back from the parameters
  let encContent ← C.gcmEncrypt d.cek iv data
  let (kek, kid) ← newKek C key d.kekRnd
  let encCek ← C.keyWrap kek d.cek
  pure ⟨kid, sidUtf8, encCek, oidAes256Wrap, none, encContent, oidAes256Gcm, some params⟩

def encryptBlob (C : Crypto) (data : Bytes) (key : Envelope) (sidUtf8 : Bytes) (d : Draws) : R Bytes :=
  encryptBlobValue C data key sidUtf8 d >>= fun b => blobPack b true

/-- `_process_get_key_result`: strip exactly the declared auth padding, then decode the NDR64 reply -/
def processGetKeyResult (stub : Bytes) (padLength : Option Nat) : R Envelope :=
  let n : Int := match padLength with
    | some p => if p ≠ 0 then (stub.length : Int) - p else stub.length
    | none => stub.length
  getKeyUnpackResponse (Py.sliceTo stub n)

/-! ### the cache-side halves of the public functions -/

/-- what is asked of the DC when the cache cannot answer -/
structure KeyRequest where
  targetSd : Bytes
  rootKeyId : Option Bytes
  l0 : Int
  l1 : Int
  l2 : Int
  domain : Option Bytes
  deriving DecidableEq, Repr

inductive Outcome where
  | done (result : Bytes)
  | needsNetwork (req : KeyRequest)
  | error (e : PyErr)
  deriving DecidableEq, Repr

def ofR (r : R Bytes) : Outcome := match r with | .ok b => .done b | .error e => .error e

/-- `ncrypt_unprotect_secret(data, cache=…)` up to the point where it would contact a DC -/
def unprotectBegin (C : Crypto) (s : CState) (data : Bytes) : Outcome × CState :=
  match blobUnpack data with
  | .error e => (.error e, s)
  | .ok b =>
    match targetSdOf b.sid with
    | .error e => (.error e, s)
    | .ok sd =>
      match cacheGet C s sd b.keyId.rootKeyId b.keyId.l0 b.keyId.l1 b.keyId.l2 with
      | (.fail e, s1) => (.error e, s1)
      | (.miss, s1) => (.needsNetwork ⟨sd, some b.keyId.rootKeyId, b.keyId.l0, b.keyId.l1, b.keyId.l2, some b.keyId.domainName⟩, s1)
      | (.hit env, s1) =>
        let s2 := if env.payload.isPublicKey then s1 else cacheStore s1 sd env.payload
        (ofR (decryptBlob C b env.payload), s2)

/-- the rest of `ncrypt_unprotect_secret` once the DC has replied with `reply` -/
def unprotectFinish (C : Crypto) (s : CState) (data : Bytes) (reply : Envelope) : Outcome × CState :=
  match blobUnpack data with
  | .error e => (.error e, s)
  | .ok b =>
    match targetSdOf b.sid with
    | .error e => (.error e, s)
    | .ok sd =>
      let s2 := if reply.isPublicKey then s else cacheStore s sd reply
      (ofR (decryptBlob C b reply), s2)

/-- `_get_protection_gke_from_cache` for a given root key id -/
def protectionGke (C : Crypto) (s : CState) (sd rk : Bytes) (timeNs : Nat) : R (Option Envelope) × CState :=
  let t := Time.currentTime timeNs
  let l0 := Time.l0 t
  let l1 := Time.l1 t
  let l2 := Time.l2 t
  match cacheGet C s sd rk l0 l1 l2 with
  | (.fail e, s1) => (.error e, s1)
  | (.miss, s1) => (.ok none, s1)
  | (.hit env, s1) =>
    let rkEnv := env.payload
    let r : R (Option Envelope) := do
      let hn ← kdfParamsUnpack rkEnv.kdfParameters
      let alg ← hashOfName hn
      let l2Key ← computeL2 C alg l1 l2 rkEnv
      pure (some ⟨rkEnv.version, rkEnv.flags, l0, l1, l2, rk, rkEnv.kdfAlgorithm, rkEnv.kdfParameters, rkEnv.secretAlgorithm,
        rkEnv.secretParameters, rkEnv.privateKeyLength, rkEnv.publicKeyLength, rkEnv.domainName, rkEnv.forestName, [], l2Key⟩)
    (r, s1)

/-- `ncrypt_protect_secret(data, descriptor, root_key_identifier, cache=…)` up to the DC -/
def protectBegin (C : Crypto) (s : CState) (data sidUtf8 : Bytes) (rk : Option Bytes) (domain : Option Bytes) (timeNs : Nat) (d : Draws) :
    Outcome × CState :=
  match targetSdOf sidUtf8 with
  | .error e => (.error e, s)
  | .ok sd =>
    let (g, s1) := match rk with
      | some id => protectionGke C s sd id timeNs
      | none => (.ok none, s)
    match g with
    | .error e => (.error e, s1)
    | .ok none => (.needsNetwork ⟨sd, rk, -1, -1, -1, domain⟩, s1)
    | .ok (some env) =>
      let s2 := if env.isPublicKey then s1 else cacheStore s1 sd env
      (ofR (encryptBlob C data env sidUtf8 d), s2)

def protectFinish (C : Crypto) (s : CState) (data sidUtf8 : Bytes) (reply : Envelope) (d : Draws) : Outcome × CState :=
  match targetSdOf sidUtf8 with
  | .error e => (.error e, s)
  | .ok sd =>
    let s2 := if reply.isPublicKey then s else cacheStore s sd reply
    (ofR (encryptBlob C data reply sidUtf8 d), s2)

end DpapiNg.Client
