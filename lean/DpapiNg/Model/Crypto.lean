/-
  The third-party cryptographic API as a parameter of the model (never an axiom).
  Each field stands for the `cryptography` call named beside it, with the exact parameters
  the repository's wrappers in `_crypto.py` pass (the harness checks those parameters at
  the API boundary: rlen=4, llen=4, CounterMode, BeforeFixed, fixed=None, aad=None).
-/
import DpapiNg.Model.Py
namespace DpapiNg

inductive Hash where | sha1 | sha256 | sha384 | sha512
  deriving DecidableEq, Repr, Inhabited

def Hash.digestSize : Hash → Nat
  | .sha1 => 20 | .sha256 => 32 | .sha384 => 48 | .sha512 => 64

def Hash.name : Hash → String
  | .sha1 => "sha1" | .sha256 => "sha256" | .sha384 => "sha384" | .sha512 => "sha512"

inductive Curve where | p256 | p384 | p521
  deriving DecidableEq, Repr, Inhabited

structure Crypto where
  /-- `KBKDFHMAC(algorithm, CounterMode, length, rlen=4, llen=4, BeforeFixed, label, context).derive(secret)` -/
  kbkdf : Hash → (secret label context : Bytes) → (length : Nat) → Bytes
  /-- `ConcatKDFHash(algorithm, length, otherinfo).derive(secret)` -/
  concatKdf : Hash → (secret otherinfo : Bytes) → (length : Nat) → Bytes
  /-- `ec.derive_private_key(d, curve).public_key().public_numbers()` → (x, y) -/
  ecPublic : Curve → Nat → R (Nat × Nat)
  /-- `derive_private_key(d).exchange(ECDH(), EllipticCurvePublicNumbers(x, y, curve).public_key())` -/
  ecExchange : Curve → (d x y : Nat) → R Bytes
  /-- `keywrap.aes_key_wrap(kek, cek)` / `aes_key_unwrap(kek, wrapped)` -/
  keyWrap : (kek cek : Bytes) → R Bytes
  keyUnwrap : (kek wrapped : Bytes) → R Bytes
  /-- `AESGCM(key).encrypt(iv, data, None)` / `.decrypt(iv, data, None)` -/
  gcmEncrypt : (key iv data : Bytes) → R Bytes
  gcmDecrypt : (key iv data : Bytes) → R Bytes

/-- the functional laws C01/C03 rest on, as hypotheses (a structure of proofs, not axioms) -/
structure Crypto.Laws (C : Crypto) : Prop where
  unwrap_wrap : ∀ kek cek w, C.keyWrap kek cek = .ok w → C.keyUnwrap kek w = .ok cek
  decrypt_encrypt : ∀ key iv pt c, C.gcmEncrypt key iv pt = .ok c → C.gcmDecrypt key iv c = .ok pt
  /-- ECDH agreement: if both public points exist, the two exchanges agree -/
  ec_agree : ∀ cv a b xa ya xb yb, C.ecPublic cv a = .ok (xa, ya) → C.ecPublic cv b = .ok (xb, yb) →
    C.ecExchange cv a xb yb = C.ecExchange cv b xa ya

/-- `_crypto.kdf` -/
def Crypto.kdf (C : Crypto) (alg : Hash) (secret label context : Bytes) (length : Nat) : Bytes :=
  C.kbkdf alg secret label context length

/-- `_crypto.kdf_concat`: otherinfo = algorithm_id ‖ party_uinfo ‖ party_vinfo -/
def Crypto.kdfConcat (C : Crypto) (alg : Hash) (shared algId partyU partyV : Bytes) (length : Nat) : Bytes :=
  C.concatKdf alg shared (algId ++ partyU ++ partyV) length

end DpapiNg
