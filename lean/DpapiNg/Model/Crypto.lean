/-
  The third-party cryptographic API as a parameter of the model (never an axiom).
  Each field stands for the `cryptography` call named beside it, with the exact parameters
  the repository's wrappers in `_crypto.py` pass (the harness checks those parameters at
  the API boundary: rlen=4, llen=4, CounterMode, BeforeFixed, fixed=None, aad=None).
-/
import DpapiNg.Model.Py
namespace DpapiNg

inductive Hash where | sha1 | sha256 | sha384 | sha512
  deriving DecidableEq, Repr, Inhabited

def Hash.digestSize : Hash → Nat
  | .sha1 => 20 | .sha256 => 32 | .sha384 => 48 | .sha512 => 64

def Hash.name : Hash → String
  | .sha1 => "sha1" | .sha256 => "sha256" | .sha384 => "sha384" | .sha512 => "sha512"

inductive Curve where | p256 | p384 | p521
  deriving DecidableEq, Repr, Inhabited

structure Crypto where
  /-- `KBKDFHMAC(algorithm, CounterMode, length, rlen=4, llen=4, BeforeFixed, label, context).derive(secret)` -/
  kbkdf : Hash → (secret label context : Bytes) → (length : Nat) → Bytes
  /-- `ConcatKDFHash(algorithm, length, otherinfo).derive(secret)` -/
  concatKdf : Hash → (secret otherinfo : Bytes) → (length : Nat) → Bytes
  /-- `ec.derive_private_key(d, curve).public_key().public_numbers()` → (x, y) -/
  ecPublic : Curve → Nat → R (Nat × Nat)
  /-- `derive_private_key(d).exchange(ECDH(), EllipticCurvePublicNumbers(x, y, curve).public_key())` -/
  ecExchange : Curve → (d x y : Nat) → R Bytes
  /-- `keywrap.aes_key_wrap(kek, cek)` / `aes_key_unwrap(kek, wrapped)` -/
  keyWrap : (kek cek : Bytes) → R Bytes
  keyUnwrap : (kek wrapped : Bytes) → R Bytes
  /-- `AESGCM(key).encrypt(iv, data, None)` / `.decrypt(iv, data, None)` -/
  gcmEncrypt : (key iv data : Bytes) → R Bytes
  gcmDecrypt : (key iv data : Bytes) → R Bytes

/-- the functional laws C01/C03 rest on, as hypotheses (a structure of proofs, not axioms) -/
structure Crypto.Laws (C : Crypto) : Prop where
  unwrap_wrap : ∀ kek cek w, C.keyWrap kek cek = .ok w → C.keyUnwrap kek w = .ok cek
  decrypt_encrypt : ∀ key iv pt c, C.gcmEncrypt key iv pt = .ok c → C.gcmDecrypt key iv c = .ok pt
  /-- ECDH agreement: if both public points exist, the two exchanges agree -/
  ec_agree : ∀ cv a b xa ya xb yb, C.ecPublic cv a = .ok (xa, ya) → C.ecPublic cv b = .ok (xb, yb) →
    C.ecExchange cv a xb yb = C.ecExchange cv b xa ya

/-- `_crypto.kdf` -/
def Crypto.kdf (C : Crypto) (alg : Hash) (secret label context : Bytes) (length : Nat) : Bytes :=
  C.kbkdf alg secret label context length

/-- `_crypto.kdf_concat`: otherinfo = algorithm_id ‖ party_uinfo ‖ party_vinfo -/
def Crypto.kdfConcat (C : Crypto) (alg : Hash) (shared algId partyU partyV : Bytes) (length : Nat) : Bytes :=
  C.concatKdf alg shared (algId ++ partyU ++ partyV) length

/-! ### the third-party calls the `Crypto` parameters stand for, as (argument, source expression) tables.
    `harness/extract.py` (kind "callkw") regenerates each table from `_crypto.py` on every run: positional arguments are `#0`, `#1`, …,
    keywords by name (sorted), and `local:x` is the expression a local passed on was assigned from.  So `rlen=4`, the counter
    location, the order of the ConcatKDF other-info parts, the 256-bit CEK, the 12-octet GCM nonce and the absent associated data
    are obligations, not comments. -/
namespace CryptoCalls
def kbkdf : List (String × String) :=
  [("algorithm", "algorithm"), ("context", "context"), ("fixed", "None"), ("label", "label"), ("length", "length"), ("llen", "4"),
   ("location", "CounterLocation.BeforeFixed"), ("mode", "Mode.CounterMode"), ("return", "kdf.derive(secret)"), ("rlen", "4")]
def concatKdf : List (String × String) :=
  [("#0", "algorithm"), ("length", "length"), ("local:otherinfo", "b''.join([algorithm_id, party_uinfo, party_vinfo])"), ("otherinfo", "otherinfo"),
   ("return", "ConcatKDFHash(algorithm, length=length, otherinfo=otherinfo).derive(shared_secret)")]
def cekGenerateKey : List (String × String) := [("#0", "256")]
def cekGenerateNonce : List (String × String) := [("#0", "12")]
def gcmDecrypt : List (String × String) := [("#0", "iv"), ("#1", "value"), ("#2", "None"), ("local:cipher", "AESGCM(cek)"), ("local:iv", "reader.read_octet_string()")]
def gcmEncrypt : List (String × String) := [("#0", "iv"), ("#1", "value"), ("#2", "None"), ("local:cipher", "AESGCM(cek)"), ("local:iv", "reader.read_octet_string()")]
def keyUnwrap : List (String × String) := [("#0", "kek"), ("#1", "value")]
def keyWrap : List (String × String) := [("#0", "kek"), ("#1", "value")]
/-- `compute_l1_key`: the L0 seed from the root key, then the L1 key of index 31 bound to the security descriptor -/
def l1Seed : List (String × String) :=
  [("#0", "algorithm"), ("#1", "root_key"), ("#2", "KDS_SERVICE_LABEL"), ("#3", "compute_kdf_context(root_key_id, l0, -1, -1)"), ("#4", "64"), ("calls", "2")]
def l1Key : List (String × String) :=
  [("#0", "algorithm"), ("#1", "l0_seed"), ("#2", "KDS_SERVICE_LABEL"), ("#3", "compute_kdf_context(root_key_id, l0, 31, -1) + target_sd"), ("#4", "64"), ("calls", "2")]
/-- `compute_l2_key`: the L1 walk, the L2 restart from the L1 key, the L2 walk -/
def l2WalkL1 : List (String × String) :=
  [("#0", "algorithm"), ("#1", "l1_key"), ("#2", "KDS_SERVICE_LABEL"), ("#3", "compute_kdf_context(rk.root_key_identifier, rk.l0, l1, -1)"), ("#4", "64"), ("calls", "3")]
def l2Reseed : List (String × String) :=
  [("#0", "algorithm"), ("#1", "l1_key"), ("#2", "KDS_SERVICE_LABEL"), ("#3", "compute_kdf_context(rk.root_key_identifier, rk.l0, l1, l2)"), ("#4", "64"), ("calls", "3")]
def l2WalkL2 : List (String × String) :=
  [("#0", "algorithm"), ("#1", "l2_key"), ("#2", "KDS_SERVICE_LABEL"), ("#3", "compute_kdf_context(rk.root_key_identifier, rk.l0, l1, l2)"), ("#4", "64"), ("calls", "3")]
/-- `KeyCache._get_key`: the seed envelope built from a loaded root key -/
def rootEnvelope : List (String × String) :=
  [("domain_name", "''"), ("flags", "2"), ("forest_name", "''"), ("kdf_algorithm", "root_key.kdf_algorithm"), ("kdf_parameters", "root_key.kdf_parameters"),
   ("l0", "l0"), ("l1", "31"), ("l1_key", "l1_seed"), ("l2", "31"), ("l2_key", "b''"),
   ("local:l1_seed", "compute_l1_key(target_sd, root_key_id, l0, root_key.key, KDFParameters.unpack(root_key.kdf_parameters).hash_algorithm)"),
   ("local:root_key", "self._root_keys.get(root_key_id, None)"), ("private_key_length", "root_key.private_key_length"),
   ("public_key_length", "root_key.public_key_length"), ("root_key_identifier", "root_key_id"), ("secret_algorithm", "root_key.secret_algorithm"),
   ("secret_parameters", "root_key.secret_parameters or b''"), ("version", "root_key.version")]
def rootL1 : List (String × String) :=
  [("#0", "target_sd"), ("#1", "root_key_id"), ("#2", "l0"), ("#3", "root_key.key"), ("#4", "KDFParameters.unpack(root_key.kdf_parameters).hash_algorithm"),
   ("local:root_key", "self._root_keys.get(root_key_id, None)")]
end CryptoCalls

end DpapiNg
