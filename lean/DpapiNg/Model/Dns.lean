/-
  Model of `_dns.py`: the SRV query name and the selection of the best record.
  Strings are UTF-8 byte lists ('.' = 46; no other code point's UTF-8 bytes contain 46).
-/
import DpapiNg.Model.Py
namespace DpapiNg.Dns

structure Srv where
  target : Bytes
  port : Nat
  weight : Nat
  priority : Nat
  deriving DecidableEq, Repr, Inhabited

/-- "_ldap._tcp.dc._msdcs" -/
def prefix_ : Bytes := [95,108,100,97,112,46,95,116,99,112,46,100,99,46,95,109,115,100,99,115]

/-- `if domain_name: f"{prefix}.{domain_name}" else prefix` (None and "" are both falsy) -/
def queryName (domain : Option Bytes) : Bytes :=
  match domain with
  | some d => if d = [] then prefix_ else prefix_ ++ [46] ++ d
  | none => prefix_

/-- sort key `(a.priority, -a.weight)` compared lexicographically -/
def le (a b : Srv) : Bool :=
  a.priority < b.priority || (a.priority = b.priority && a.weight ≥ b.weight)

def strip (r : Srv) : Srv := { r with target := Py.rstrip 46 r.target }

/-- `_get_highest_answer`: strip each target, stable sort, first element (IndexError on empty) -/
def pick (answers : List Srv) : R Srv :=
  match (answers.map strip).mergeSort le with
  | [] => .error .indexError
  | r :: _ => .ok r

end DpapiNg.Dns
