/-
  Model of `_epm.py` (tower floors, `ept_map` request and reply, as repaired: NDR64 tower padding
  in `EptMapResult.pack`, exhaustion guard in `EptMapResult.unpack`) and of
  `_client._process_ept_map_result`.
-/
import DpapiNg.Model.Rpc
namespace DpapiNg.Epm
open DpapiNg DpapiNg.Rpc

inductive Floor where
  | raw (proto : Nat) (lhs rhs : Bytes)
  | tcp (port : Nat)
  | ip (addr : Nat)
  | rpcCo (versionMinor : Nat)
  | uuid (u : Bytes) (version versionMinor : Nat)
  deriving DecidableEq, Repr, Inhabited

def rawPack (proto : Nat) (lhs rhs : Bytes) : R Bytes := do
  let a ← le (lhs.length + 1) 2
  let p ← le proto 1
  let b ← le rhs.length 2
  pure (a ++ p ++ lhs ++ b ++ rhs)

def floorPack (f : Floor) : R Bytes :=
  match f with
  | .raw p l r => rawPack p l r
  | .tcp port => do let r ← Py.toBytesBE port 2; rawPack 7 [] r
  | .ip addr => do let r ← Py.toBytesBE addr 4; rawPack 9 [] r
  | .rpcCo m => do let r ← le m 2; rawPack 11 [] r
  | .uuid u v m => do let a ← le v 2; let r ← le m 2; rawPack 13 (u ++ a) r

/-- `Floor.unpack`: the floor and the lengths of the raw lhs / rhs (used to advance the view) -/
def floorUnpack (v : Bytes) : R (Floor × Nat × Nat) := do
  let lhsLen := Py.fromLE (Py.sliceN v 0 2)
  let proto ← at_ v 2
  let lhs := Py.sliceN v 3 (lhsLen + 2)
  let off := lhsLen + 2
  let rhsLen := Py.fromLE (Py.sliceN v off (off + 2))
  let rhs := Py.sliceN v (off + 2) (off + rhsLen + 2)
  let f ← (if proto = 7 then pure (.tcp (Py.fromBE rhs))
    else if proto = 9 then pure (.ip (Py.fromBE rhs))
    else if proto = 11 then pure (.rpcCo (Py.fromLE rhs))
    else if proto = 13 then do
      let u ← uuidOf (Py.sliceN lhs 0 16)
      pure (.uuid u (Py.fromLE (Py.sliceN lhs 16 18)) (Py.fromLE rhs))
    else pure (.raw proto lhs rhs) : R Floor)
  pure (f, lhs.length, rhs.length)

/-- `for _ in range(floor_len): floor = Floor.unpack(view); view = view[len(lhs)+len(rhs)+5:]` -/
def floorsUnpack : Nat → Bytes → R (List Floor × Bytes)
  | 0, v => .ok ([], v)
  | n + 1, v => do
    let (f, l, r) ← floorUnpack v
    let (fs, rest) ← floorsUnpack n (v.drop (l + r + 5))
    pure (f :: fs, rest)

def towerBytes (t : List Floor) : R Bytes := do
  let n ← le t.length 2
  let fs ← t.mapM floorPack
  pure (n ++ fs.flatten)

/-- (handle attributes, handle uuid) -/
abbrev EntryHandle := Option (Nat × Bytes)

def entryHandlePack (h : EntryHandle) : R Bytes :=
  match h with
  | some (a, u) => do let x ← le a 4; pure (x ++ u)
  | none => .ok (Py.zeros 20)

def entryHandleUnpack (v : Bytes) : R EntryHandle :=
  if Py.sliceN v 0 20 = Py.zeros 20 then .ok none
  else (uuidOf (Py.sliceN v 4 20)).map fun u => some (Py.fromLE (Py.sliceN v 0 4), u)

structure EptMap where
  obj : Option Bytes
  tower : List Floor
  entryHandle : EntryHandle
  maxTowers : Nat
  deriving DecidableEq, Repr

def eptMapPack (m : EptMap) : R Bytes := do
  let bt ← towerBytes m.tower
  let pad := Py.negMod (bt.length + 4) 8
  let eh ← entryHandlePack m.entryHandle
  let l8 ← le bt.length 8
  let l4 ← le bt.length 4
  let mt ← le m.maxTowers 4
  pure ([1, 0, 0, 0, 0, 0, 0, 0] ++ m.obj.getD (Py.zeros 16) ++ [2, 0, 0, 0, 0, 0, 0, 0] ++ l8 ++ l4 ++ bt ++ Py.zeros pad ++ eh ++ mt)

def eptMapUnpack (v : Bytes) : R EptMap := do
  let bobj := Py.sliceN v 8 24
  let obj ← (if bobj = Py.zeros 16 then pure none else (uuidOf bobj).map some : R (Option Bytes))
  let w := v.drop 32
  let towerLength := Py.fromLE (Py.sliceN w 0 8)
  let pad := Py.negMod (towerLength + 4) 8
  let floorLen := Py.fromLE (Py.sliceN w 12 14)
  let (tower, w) ← floorsUnpack floorLen (w.drop 14)
  let w := w.drop pad
  let eh ← entryHandleUnpack w
  pure ⟨obj, tower, eh, Py.fromLE (Py.sliceN w 20 24)⟩

structure EptMapResult where
  entryHandle : EntryHandle
  towers : List (List Floor)
  status : Nat
  deriving DecidableEq, Repr

/-- one tower of the reply: NDR64 conformance (8) + length (4) + floors + padding to the next 8 -/
def towerEntryPack (t : List Floor) : R Bytes := do
  let bt ← towerBytes t
  let l8 ← le bt.length 8
  let l4 ← le bt.length 4
  pure (l8 ++ l4 ++ bt ++ Py.zeros (Py.negMod (bt.length + 4) 8))

def referents : Nat → Nat → R Bytes
  | _, 0 => .ok []
  | i, n + 1 => do let a ← le (i + 3) 8; let r ← referents (i + 1) n; pure (a ++ r)

def eptMapResultPack (r : EptMapResult) : R Bytes := do
  let eh ← entryHandlePack r.entryHandle
  let n4 ← le r.towers.length 4
  let n8 ← le r.towers.length 8
  let refs ← referents 0 r.towers.length
  let ts ← r.towers.mapM towerEntryPack
  let st ← le r.status 4
  pure (eh ++ n4 ++ n8 ++ Py.zeros 8 ++ n8 ++ refs ++ ts.flatten ++ st)

/-- one iteration of the tower loop of `EptMapResult.unpack` (as repaired: stops when fewer than 14
    bytes remain): the tower and the remaining view -/
def towerStep (v : Bytes) : R (List Floor × Bytes) :=
  if v.length < 14 then .error .valueError
  else do
    let towerLength := Py.fromLE (Py.sliceN v 0 8)
    let pad := Py.negMod (towerLength + 4) 8
    let floorLen := Py.fromLE (Py.sliceN v 12 14)
    let (tower, w) ← floorsUnpack floorLen (v.drop 14)
    pure (tower, w.drop pad)

/-- `for _ in range(tower_count):` -/
def towersUnpack : Nat → Bytes → R (List (List Floor))
  | 0, _ => .ok []
  | n + 1, v =>
    match towerStep v with
    | .error e => .error e
    | .ok (tower, rest) =>
      match towersUnpack n rest with
      | .error e => .error e
      | .ok ts => .ok (tower :: ts)

def eptMapResultUnpack (v : Bytes) : R EptMapResult := do
  let status := Py.fromLE (Py.sliceFrom v (-4))
  let eh ← entryHandleUnpack v
  let towerCount := Py.fromLE (Py.sliceN v 40 48)
  let w := v.drop (48 + 8 * towerCount)
  let towers ← towersUnpack towerCount w
  pure ⟨eh, towers, status⟩

/-- the port of the first TCP floor of a tower -/
def towerTcp : List Floor → Option Nat
  | [] => none
  | .tcp p :: _ => some p
  | _ :: rest => towerTcp rest

/-- `_process_ept_map_result`: the TCP port of the first tower that has a TCP floor -/
def firstTcp : List (List Floor) → Option Nat
  | [] => none
  | t :: ts =>
    match towerTcp t with
    | some p => some p
    | none => firstTcp ts

def processEptMapResult (stub : Bytes) : R Nat := do
  let r ← eptMapResultUnpack stub
  if r.status ≠ 0 then throw .valueError
  match firstTcp r.towers with
  | some p => pure p
  | none => throw .valueError

/-- `build_tcpip_tower` -/
def tcpipTower (service dataRep : SyntaxId) (port addr : Nat) : List Floor :=
  [.uuid service.uuid service.version service.versionMinor, .uuid dataRep.uuid dataRep.version dataRep.versionMinor,
   .rpcCo 0, .tcp port, .ip addr]

end DpapiNg.Epm
