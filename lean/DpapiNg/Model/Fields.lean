/-
  Fixed-offset decoders as data.  An `unpack` / `_unpack` classmethod of the form
  `view = memoryview(data); return cls(kw=<read>, ...)` — every keyword argument a read at literal offsets — is a table
  keyword → read; the translator (`harness/extract.py`, kind "fields") regenerates that table from /repo's current source
  on every run, and `Proofs/Fields.lean` proves that the hand-written model of the same decoder is the interpretation of
  the table (keyword arguments are evaluated left to right, so the first failing read decides the exception).
-/
import DpapiNg.Model.Rpc
namespace DpapiNg.Fields
open DpapiNg DpapiNg.Rpc

inductive Field where
  | byte (i : Nat)                         -- `view[i]`
  | enum (cls : String) (i : Nat)          -- `Cls(view[i])`
  | int (a b : Nat)                        -- `int.from_bytes(view[a:b], byteorder="little")`
  | enumInt (cls : String) (a b : Nat)     -- `Cls(int.from_bytes(view[a:b], byteorder="little"))`
  | uuid (a b : Nat)                       -- `uuid.UUID(bytes_le=view[a:b].tobytes())`
  | rest (a : Nat)                         -- `view[a:].tobytes()`
  | sub (cls : String) (a b : Nat)         -- `Cls.unpack(view[a:b])`
  | param (name : String)                  -- a parameter of the method, handed through
  deriving DecidableEq, Repr

inductive Val where
  | nat (n : Nat)
  | bytes (b : Bytes)
  | rep (d : DataRep)
  | unit
  deriving DecidableEq, Repr

/-- the members of the enum classes the decoders convert to (IntFlag classes accept every value) -/
def enumOk (cls : String) (n : Nat) : Bool :=
  if cls = "PacketType" then validPacketType n
  else if cls = "PacketFlags" then true
  else if cls = "FaultFlags" then true
  else if cls = "SecurityProvider" then validProvider n
  else if cls = "AuthenticationLevel" then validLevel n
  else if cls = "ContextResultCode" then decide (n ≤ 3)
  else false

def evalField (v : Bytes) : Field → R Val
  | .byte i => do let x ← at_ v i; pure (.nat x)
  | .enum cls i => do let x ← at_ v i; if enumOk cls x then pure (.nat x) else throw .valueError
  | .int a b => pure (.nat (Py.fromLE (Py.sliceN v a b)))
  | .enumInt cls a b => if enumOk cls (Py.fromLE (Py.sliceN v a b)) then pure (.nat (Py.fromLE (Py.sliceN v a b))) else throw .valueError
  | .uuid a b => do let u ← uuidOf (Py.sliceN v a b); pure (.bytes u)
  | .rest a => pure (.bytes (v.drop a))
  | .sub cls a b => if cls = "DataRep" then do let d ← dataRepUnpack (Py.sliceN v a b); pure (.rep d) else throw .keyError
  | .param _ => pure .unit

/-- keyword arguments are evaluated left to right -/
def evalFields (v : Bytes) : List (String × Field) → List (String × Val) → R (List (String × Val))
  | [], acc => .ok acc
  | (k, f) :: rest, acc => do
    let x ← evalField v f
    evalFields v rest ((k, x) :: acc)

def getNat (vs : List (String × Val)) (k : String) : Nat := match vs.lookup k with | some (.nat n) => n | _ => 0
def getBytes (vs : List (String × Val)) (k : String) : Bytes := match vs.lookup k with | some (.bytes b) => b | _ => []
def getRep (vs : List (String × Val)) (k : String) : DataRep := match vs.lookup k with | some (.rep d) => d | _ => {}

end DpapiNg.Fields
