/-
  Model of `_gkdi.py` (structures, GetKey stub, key derivation, KEK) and of
  `_blob.KeyIdentifier`, as repaired (range guards in `compute_l2_key` / `compute_kdf_context`).

  Text fields are carried as their UTF-16-LE bytes (the codec is CPython's); `utf16Valid`
  predicts `UnicodeDecodeError` (a `ValueError`).  UUIDs are their 16 `bytes_le`.
-/
import DpapiNg.Model.Crypto
import DpapiNg.Model.Chain
namespace DpapiNg.Gkdi

/-! ### strings -/

/-- what `bytes.decode("utf-16-le")` accepts: even length, surrogates properly paired -/
def utf16Valid : Bytes → Bool
  | [] => true
  | [_] => false
  | lo :: hi :: rest =>
    let u := lo + 256 * hi
    if 0xD800 ≤ u ∧ u < 0xDC00 then
      match rest with
      | lo2 :: hi2 :: rest2 =>
        let u2 := lo2 + 256 * hi2
        if 0xDC00 ≤ u2 ∧ u2 < 0xE000 then utf16Valid rest2 else false
      | _ => false
    else if 0xDC00 ≤ u ∧ u < 0xE000 then false
    else utf16Valid rest
termination_by b => b.length
decreasing_by all_goals simp_wf <;> omega

/-- UTF-16-LE of an ASCII string -/
def u16 (s : String) : Bytes := (s.toList.map fun c => [c.toNat, 0]).flatten

def kdsServiceLabel : Bytes := u16 "KDS service" ++ [0, 0]
def kdsPublicKeyLabel : Bytes := u16 "KDS public key" ++ [0, 0]
def sha512Label : Bytes := u16 "SHA512" ++ [0, 0]

/-- `view[:n - 2].tobytes().decode("utf-16-le")` for a length field `n` (n < 2 gives a negative slice end) -/
def readName (view : Bytes) (n : Nat) : R Bytes :=
  let raw := Py.sliceTo view ((n : Int) - 2)
  if utf16Valid raw then .ok raw else .error .valueError

def u32 (n : Nat) : R Bytes := Py.toBytesLE (n : Int) 4

def uuidOf (b : Bytes) : R Bytes := if b.length = 16 then .ok b else .error .valueError

/-! ### KDFParameters -/

def kdfParamsPack (hashName : Bytes) : R Bytes := do
  let n := hashName ++ [0, 0]
  let l ← u32 n.length
  pure ([0, 0, 0, 0, 1, 0, 0, 0] ++ l ++ [0, 0, 0, 0] ++ n)

def kdfParamsUnpack (v : Bytes) : R Bytes :=
  if Py.sliceN v 0 8 ≠ [0, 0, 0, 0, 1, 0, 0, 0] ∨ Py.sliceN v 12 16 ≠ [0, 0, 0, 0] then .error .valueError
  else
    let hl := Py.fromLE (Py.sliceN v 8 12)
    let raw := Py.slice v 16 (16 + (hl : Int) - 2)  -- may be an empty/backwards slice
    if utf16Valid raw then .ok raw else .error .valueError

def hashOfName (n : Bytes) : R Hash :=
  if n = u16 "SHA1" then .ok .sha1
  else if n = u16 "SHA256" then .ok .sha256
  else if n = u16 "SHA384" then .ok .sha384
  else if n = u16 "SHA512" then .ok .sha512
  else .error .notImplemented

/-! ### FFC DH parameters / key, ECDH key -/

structure FfcParams where
  keyLength : Nat
  fieldOrder : Nat
  generator : Nat
  deriving DecidableEq, Repr

def dhpm : Bytes := [0x44, 0x48, 0x50, 0x4D]
def dhpb : Bytes := [0x44, 0x48, 0x50, 0x42]

def ffcParamsPack (p : FfcParams) : R Bytes := do
  let fo ← Py.toBytesBE p.fieldOrder p.keyLength
  let g ← Py.toBytesBE p.generator p.keyLength
  let l ← u32 (12 + fo.length + g.length)
  let kl ← u32 p.keyLength
  pure (l ++ dhpm ++ kl ++ fo ++ g)

def ffcParamsUnpack (v : Bytes) : R FfcParams :=
  if Py.sliceN v 4 8 ≠ dhpm then .error .valueError
  else
    let kl := Py.fromLE (Py.sliceN v 8 12)
    .ok ⟨kl, Py.fromBE (Py.sliceN v 12 (12 + kl)), Py.fromBE (Py.sliceN v (12 + kl) (12 + kl + kl))⟩

structure FfcKey where
  keyLength : Nat
  fieldOrder : Nat
  generator : Nat
  publicKey : Nat
  deriving DecidableEq, Repr

def ffcKeyPack (k : FfcKey) : R Bytes := do
  let fo ← Py.toBytesBE k.fieldOrder k.keyLength
  let g ← Py.toBytesBE k.generator k.keyLength
  let pk ← Py.toBytesBE k.publicKey k.keyLength
  let kl ← u32 k.keyLength
  pure (dhpb ++ kl ++ fo ++ g ++ pk)

def ffcKeyUnpack (v : Bytes) : R FfcKey :=
  if Py.sliceN v 0 4 ≠ dhpb then .error .valueError
  else
    let kl := Py.fromLE (Py.sliceN v 4 8)
    if v.length < 8 + 3 * kl then .error .valueError else   -- guard added by the fix (D13)
    let fo := Py.sliceN v 8 (8 + kl)
    let v1 := (v.drop (8 + kl))
    let g := Py.sliceN v1 0 kl
    let v2 := (v1.drop kl)
    let pk := Py.sliceN v2 0 kl
    .ok ⟨kl, Py.fromBE fo, Py.fromBE g, Py.fromBE pk⟩

structure EcdhKey where
  curve : Curve
  keyLength : Nat
  x : Nat
  y : Nat
  deriving DecidableEq, Repr

def curveMagic : Curve → Bytes
  | .p256 => [0x45, 0x43, 0x4B, 0x31]
  | .p384 => [0x45, 0x43, 0x4B, 0x33]
  | .p521 => [0x45, 0x43, 0x4B, 0x35]

def curveOfMagic (b : Bytes) : Option Curve :=
  if b = curveMagic .p256 then some .p256
  else if b = curveMagic .p384 then some .p384
  else if b = curveMagic .p521 then some .p521
  else none

/-- hash paired with the curve in `curve_and_hash` -/
def curveHash : Curve → Hash
  | .p256 => .sha256 | .p384 => .sha384 | .p521 => .sha512

def ecdhKeyPack (k : EcdhKey) : R Bytes := do
  let bx ← Py.toBytesBE k.x k.keyLength
  let by_ ← Py.toBytesBE k.y k.keyLength
  let kl ← u32 k.keyLength
  pure (curveMagic k.curve ++ kl ++ bx ++ by_)

def ecdhKeyUnpack (v : Bytes) : R EcdhKey :=
  -- `int.from_bytes(view[:4])` looked up in a dict: a short view gives a different integer ⇒ unknown curve
  match curveOfMagic (Py.sliceN v 0 4) with
  | none => .error .valueError
  | some cv =>
    let l := Py.fromLE (Py.sliceN v 4 8)
    let x := Py.sliceN v 8 (8 + l)
    let v1 := (v.drop (8 + l))
    let y := Py.sliceN v1 0 l
    .ok ⟨cv, l, Py.fromBE x, Py.fromBE y⟩

/-! ### Group key envelope and key identifier -/

structure Envelope where
  version : Nat
  flags : Nat
  l0 : Nat
  l1 : Nat
  l2 : Nat
  rootKeyId : Bytes
  kdfAlgorithm : Bytes
  kdfParameters : Bytes
  secretAlgorithm : Bytes
  secretParameters : Bytes
  privateKeyLength : Nat
  publicKeyLength : Nat
  domainName : Bytes
  forestName : Bytes
  l1Key : Bytes
  l2Key : Bytes
  deriving DecidableEq, Repr, Inhabited

def kdsk : Bytes := [0x4B, 0x44, 0x53, 0x4B]

def Envelope.isPublicKey (e : Envelope) : Bool := e.flags % 2 = 1

def envelopePack (e : Envelope) : R Bytes := do
  let ka := e.kdfAlgorithm ++ [0, 0]
  let sa := e.secretAlgorithm ++ [0, 0]
  let dn := e.domainName ++ [0, 0]
  let fn := e.forestName ++ [0, 0]
  let f1 ← u32 e.version
  let f2 ← u32 e.flags
  let f3 ← u32 e.l0
  let f4 ← u32 e.l1
  let f5 ← u32 e.l2
  let f6 ← u32 ka.length
  let f7 ← u32 e.kdfParameters.length
  let f8 ← u32 sa.length
  let f9 ← u32 e.secretParameters.length
  let f10 ← u32 e.privateKeyLength
  let f11 ← u32 e.publicKeyLength
  let f12 ← u32 e.l1Key.length
  let f13 ← u32 e.l2Key.length
  let f14 ← u32 dn.length
  let f15 ← u32 fn.length
  pure (f1 ++ kdsk ++ f2 ++ f3 ++ f4 ++ f5 ++ e.rootKeyId ++ f6 ++ f7 ++ f8 ++ f9 ++ f10 ++ f11 ++ f12 ++ f13 ++ f14 ++ f15
    ++ ka ++ e.kdfParameters ++ sa ++ e.secretParameters ++ dn ++ fn ++ e.l1Key ++ e.l2Key)

def le32 (v : Bytes) (i : Nat) : Nat := Py.fromLE (Py.sliceN v i (i + 4))

def envelopeUnpack (v : Bytes) : R Envelope :=
  if Py.sliceN v 4 8 ≠ kdsk then .error .valueError else do
  let rk ← uuidOf (Py.sliceN v 24 40)
  let kdfAlgoLen := le32 v 40
  let kdfParaLen := le32 v 44
  let secAlgoLen := le32 v 48
  let secParaLen := le32 v 52
  let l1KeyLen := le32 v 64
  let l2KeyLen := le32 v 68
  let domainLen := le32 v 72
  let forestLen := le32 v 76
  let w := (v.drop 80)
  let kdfAlgo ← readName w kdfAlgoLen
  let w := (w.drop kdfAlgoLen)
  let kdfParam := (w.take kdfParaLen)
  let w := (w.drop kdfParaLen)
  let secAlgo ← readName w secAlgoLen
  let w := (w.drop secAlgoLen)
  let secParam := (w.take secParaLen)
  let w := (w.drop secParaLen)
  let domain ← readName w domainLen
  let w := (w.drop domainLen)
  let forest ← readName w forestLen
  let w := (w.drop forestLen)
  let l1Key := (w.take l1KeyLen)
  let w := (w.drop l1KeyLen)
  let l2Key := (w.take l2KeyLen)
  pure ⟨le32 v 0, le32 v 8, le32 v 12, le32 v 16, le32 v 20, rk, kdfAlgo, kdfParam, secAlgo, secParam,
    le32 v 56, le32 v 60, domain, forest, l1Key, l2Key⟩

structure KeyId where
  version : Nat
  flags : Nat
  l0 : Nat
  l1 : Nat
  l2 : Nat
  rootKeyId : Bytes
  keyInfo : Bytes
  domainName : Bytes
  forestName : Bytes
  deriving DecidableEq, Repr, Inhabited

def KeyId.isPublicKey (k : KeyId) : Bool := k.flags % 2 = 1

def keyIdPack (k : KeyId) : R Bytes := do
  let dn := k.domainName ++ [0, 0]
  let fn := k.forestName ++ [0, 0]
  let f1 ← u32 k.version
  let f2 ← u32 k.flags
  let f3 ← u32 k.l0
  let f4 ← u32 k.l1
  let f5 ← u32 k.l2
  let f6 ← u32 k.keyInfo.length
  let f7 ← u32 dn.length
  let f8 ← u32 fn.length
  pure (f1 ++ kdsk ++ f2 ++ f3 ++ f4 ++ f5 ++ k.rootKeyId ++ f6 ++ f7 ++ f8 ++ k.keyInfo ++ dn ++ fn)

def keyIdUnpack (v : Bytes) : R KeyId :=
  if Py.sliceN v 4 8 ≠ kdsk then .error .valueError else do
  let rk ← uuidOf (Py.sliceN v 24 40)
  let keyInfoLen := le32 v 40
  let domainLen := le32 v 44
  let forestLen := le32 v 48
  let w := (v.drop 52)
  let keyInfo := (w.take keyInfoLen)
  let w := (w.drop keyInfoLen)
  let domain ← readName w domainLen
  let w := (w.drop domainLen)
  let forest ← readName w forestLen
  pure ⟨le32 v 0, le32 v 8, le32 v 12, le32 v 16, le32 v 20, rk, keyInfo, domain, forest⟩

/-! ### GetKey stub -/

structure GetKey where
  targetSd : Bytes
  rootKeyId : Option Bytes
  l0 : Int
  l1 : Int
  l2 : Int
  deriving DecidableEq, Repr

def getKeyPack (g : GetKey) : R Bytes := do
  let n ← Py.toBytesLE g.targetSd.length 8
  let rk := match g.rootKeyId with
    | some id => [0, 0, 2, 0, 0, 0, 0, 0] ++ id
    | none => Py.zeros 8
  let a ← Py.toBytesLESigned g.l0 4
  let b ← Py.toBytesLESigned g.l1 4
  let c ← Py.toBytesLESigned g.l2 4
  pure (n ++ n ++ g.targetSd ++ Py.zeros (Py.negMod g.targetSd.length 8) ++ rk ++ a ++ b ++ c)

def getKeyUnpack (v : Bytes) : R GetKey :=
  let n := Py.fromLE (Py.sliceN v 0 4)
  let sd := Py.sliceN v 16 (16 + n)
  let pad := Py.negMod n 8
  let w := (v.drop (16 + n + pad))
  (if Py.sliceN w 0 8 = Py.zeros 8 then .ok (none, (w.drop 8))
   else (uuidOf (Py.sliceN w 8 24)).map fun id => (some id, (w.drop 24))) >>= fun (rk, w) =>
  .ok ⟨sd, rk, Py.fromLESigned (Py.sliceN w 0 4), Py.fromLESigned (Py.sliceN w 4 8), Py.fromLESigned (Py.sliceN w 8 12)⟩

/-- `GetKey.unpack_response` -/
def getKeyUnpackResponse (v : Bytes) : R Envelope :=
  let hresult := Py.fromLE (Py.sliceFrom v (-4))
  let w := Py.sliceTo v (-4)
  if hresult ≠ 0 then .error .valueError
  else
    let keyLength := Py.fromLE (Py.sliceN w 0 4)
    let w := (w.drop 8)
    envelopeUnpack (Py.sliceN w 16 (16 + keyLength))

/-! ### key derivation -/

/-- `compute_kdf_context` (indices may be −1) -/
def kdfContext (keyGuid : Bytes) (l0 l1 l2 : Int) : R Bytes :=
  if ¬ (-0x80000000 ≤ l0 ∧ l0 ≤ 0x7FFFFFFF ∧ -0x80000000 ≤ l1 ∧ l1 ≤ 0x7FFFFFFF ∧ -0x80000000 ≤ l2 ∧ l2 ≤ 0x7FFFFFFF)
  then .error .valueError
  else do
    let a ← Py.toBytesLESigned l0 4
    let b ← Py.toBytesLESigned l1 4
    let c ← Py.toBytesLESigned l2 4
    pure (keyGuid ++ a ++ b ++ c)

/-- context bytes for in-range arguments (total; used once the range has been checked) -/
def ctxBytes (keyGuid : Bytes) (l0 : Nat) (l1 l2 : Int) : Bytes :=
  match kdfContext keyGuid l0 l1 l2 with
  | .ok b => b
  | .error _ => []

/-- `compute_l1_key` -/
def computeL1 (C : Crypto) (targetSd rootKeyId : Bytes) (l0 : Nat) (rootKey : Bytes) (alg : Hash) : R Bytes := do
  let c0 ← kdfContext rootKeyId l0 (-1) (-1)
  let l0Seed := C.kdf alg rootKey kdsServiceLabel c0 64
  let c1 ← kdfContext rootKeyId l0 31 (-1)
  pure (C.kdf alg l0Seed kdsServiceLabel (c1 ++ targetSd) 64)

def chainEnv (rk : Envelope) : Chain.Env Bytes := ⟨rk.l1, rk.l2, rk.l1Key, rk.l2Key⟩

/-- `compute_l2_key` -/
def computeL2 (C : Crypto) (alg : Hash) (r1 r2 : Nat) (rk : Envelope) : R Bytes :=
  let env := chainEnv rk
  if Chain.rejects env r1 r2 then .error .valueError
  else if rk.l0 > 0x7FFFFFFF ∧ Chain.steps env r1 r2 > 0 then .error .valueError   -- first `compute_kdf_context` call
  else
    match Chain.computeL2 (fun k c => C.kdf alg k kdsServiceLabel c 64)
        (fun i => ctxBytes rk.rootKeyId rk.l0 i (-1)) (fun i j => ctxBytes rk.rootKeyId rk.l0 i j) env r1 r2 with
    | some k => .ok k
    | none => .error .valueError

/-! ### KEK -/

def dhName : Bytes := u16 "DH"
def ecdhPrefix : Bytes := u16 "ECDH_P"
def kdfAlgName : Bytes := u16 "SP800_108_CTR_HMAC"

/-- `compute_kek` -/
def computeKek (C : Crypto) (alg : Hash) (secretAlgorithm secretParameters : Bytes) (privateKey publicKey : Bytes) : R Bytes := do
  let (shared, sh) ←
    (if secretAlgorithm = dhName then do
      let k ← ffcKeyUnpack publicKey
      -- (fix D15) the peer's value must live in the root key's group and be neither 0, 1 nor p − 1
      if secretParameters ≠ [] then do
        let p ← ffcParamsUnpack secretParameters
        if k.fieldOrder ≠ p.fieldOrder ∨ k.generator ≠ p.generator then throw .valueError
      if ¬ (1 < k.publicKey ∧ k.publicKey < k.fieldOrder - 1) then throw .valueError
      -- pow(y, x, p): ValueError for p = 0
      if k.fieldOrder = 0 then throw .valueError
      let s := Py.powMod k.publicKey (Py.fromBE privateKey) k.fieldOrder
      let b ← Py.toBytesBE s k.keyLength
      pure (b, Hash.sha256)
    else if ecdhPrefix.isPrefixOf secretAlgorithm then do
      let k ← ecdhKeyUnpack publicKey
      let s ← C.ecExchange k.curve (Py.fromBE privateKey) k.x k.y
      pure (s, curveHash k.curve)
    else throw .notImplemented : R (Bytes × Hash))
  let secret := C.kdfConcat sh shared sha512Label kdsPublicKeyLabel kdsServiceLabel sh.digestSize
  pure (C.kdf alg secret kdsServiceLabel kdsPublicKeyLabel 32)

/-- `compute_kek_from_public_key` -/
def computeKekFromPublicKey (C : Crypto) (alg : Hash) (seed secretAlgorithm secretParameters publicKey : Bytes) (privateKeyLength : Nat) : R Bytes :=
  let priv := C.kdf alg seed kdsServiceLabel (secretAlgorithm ++ [0, 0]) privateKeyLength
  computeKek C alg secretAlgorithm secretParameters priv publicKey

/-- `compute_public_key` -/
def computePublicKey (C : Crypto) (secretAlgorithm privateKey peerPublicKey : Bytes) : R Bytes :=
  if secretAlgorithm = dhName then do
    let k ← ffcKeyUnpack peerPublicKey
    if k.fieldOrder = 0 then throw .valueError
    let mine := Py.powMod k.generator (Py.fromBE privateKey) k.fieldOrder
    ffcKeyPack ⟨k.keyLength, k.fieldOrder, k.generator, mine⟩
  else if ecdhPrefix.isPrefixOf secretAlgorithm then do
    let k ← ecdhKeyUnpack peerPublicKey
    let (x, y) ← C.ecPublic k.curve (Py.fromBE privateKey)
    ecdhKeyPack ⟨k.curve, k.keyLength, x, y⟩
  else .error .notImplemented

/-- `GroupKeyEnvelope.get_kek` -/
def getKek (C : Crypto) (e : Envelope) (kid : KeyId) : R Bytes :=
  if e.isPublicKey then .error .valueError
  else if e.l0 ≠ kid.l0 then .error .valueError
  else if e.kdfAlgorithm ≠ kdfAlgName then .error .notImplemented
  else do
    let hn ← kdfParamsUnpack e.kdfParameters
    let alg ← hashOfName hn
    let l2Key ← computeL2 C alg kid.l1 kid.l2 e
    if kid.isPublicKey then
      computeKekFromPublicKey C alg l2Key e.secretAlgorithm e.secretParameters kid.keyInfo (Py.ceilDiv8 e.privateKeyLength)
    else
      pure (C.kdf alg l2Key kdsServiceLabel kid.keyInfo 32)

/-- `GroupKeyEnvelope.new_kek`; `rnd` is the `os.urandom` draw (32 bytes, or ceil(private_key_length/8)) -/
def newKek (C : Crypto) (e : Envelope) (rnd : Bytes) : R (Bytes × KeyId) :=
  if e.kdfAlgorithm ≠ kdfAlgName then .error .notImplemented
  else do
    let hn ← kdfParamsUnpack e.kdfParameters
    let alg ← hashOfName hn
    let (kek, keyInfo) ←
      (if e.isPublicKey then do
        let kek ← computeKek C alg e.secretAlgorithm e.secretParameters rnd e.l2Key
        let ki ← computePublicKey C e.secretAlgorithm rnd e.l2Key
        pure (kek, ki)
      else pure (C.kdf alg e.l2Key kdsServiceLabel rnd 32, rnd) : R (Bytes × Bytes))
    pure (kek, ⟨1, e.flags, e.l0, e.l1, e.l2, e.rootKeyId, keyInfo, e.domainName, e.forestName⟩)

/-- number of random bytes `new_kek` draws -/
def newKekDrawLen (e : Envelope) : Nat := if e.isPublicKey then Py.ceilDiv8 e.privateKeyLength else 32

end DpapiNg.Gkdi
