/-
  Byte layouts as data.  A `pack` method written as `b"".join([...])` is a list of items; the translator
  (`harness/extract.py`, kind "layout") regenerates that list from /repo's current source on every run, and
  `Proofs/Layout.lean` proves that the hand-written model of the same `pack` is the interpretation of the list.
-/
import DpapiNg.Model.Py
namespace DpapiNg.Layout

inductive Item where
  | int (field : String) (width : Nat)        -- `self.<field>.to_bytes(width, byteorder="little")`
  | lenOf (field : String) (width : Nat)      -- `len(<field>).to_bytes(width, byteorder="little")`
  | bytes (field : String)                    -- a bytes-valued field, local or nested `pack()`
  | const (b : Bytes)                         -- a bytes literal
  | lenPlus (k : Nat) (field : String) (width : Nat)  -- `(k + len(<field>)).to_bytes(width, byteorder="little")`
  | countOf (field : String) (width : Nat)    -- `len(self.<list field>).to_bytes(width, byteorder="little")`: how many elements
  | zerosNegMod (k : Nat) (field : String) (m : Nat)  -- `b"\x00" * (-(k + len(<field>)) % m)`
  deriving DecidableEq, Repr

structure Env where
  ints : String → Nat
  bytes : String → R Bytes
  counts : String → Nat := fun _ => 0

def pack (env : Env) : List Item → R Bytes
  | [] => .ok []
  | .int f w :: rest => do
    let a ← Py.toBytesLE (env.ints f : Int) w
    let b ← pack env rest
    pure (a ++ b)
  | .lenOf f w :: rest => do
    let x ← env.bytes f
    let a ← Py.toBytesLE (x.length : Int) w
    let b ← pack env rest
    pure (a ++ b)
  | .bytes f :: rest => do
    let x ← env.bytes f
    let b ← pack env rest
    pure (x ++ b)
  | .const c :: rest => do
    let b ← pack env rest
    pure (c ++ b)
  | .lenPlus k f w :: rest => do
    let x ← env.bytes f
    let a ← Py.toBytesLE ((k + x.length : Nat) : Int) w
    let b ← pack env rest
    pure (a ++ b)
  | .countOf f w :: rest => do
    let a ← Py.toBytesLE (env.counts f : Int) w
    let b ← pack env rest
    pure (a ++ b)
  | .zerosNegMod k f m :: rest => do
    let x ← env.bytes f
    let b ← pack env rest
    pure (Py.zeros (Py.negMod (k + x.length) m) ++ b)

end DpapiNg.Layout
