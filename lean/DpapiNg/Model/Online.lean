/-
  Model of the online half of `_client.py` (`_sync_get_key` / `_async_get_key`): the constants
  (`_EPM_CONTEXTS`, `_ISD_KEY_CONTEXTS`, `_EPT_MAP_ISD_KEY`, `_VERIFICATION_TRAILER`) and the
  conversation they produce: EPM bind → ept_map → ISD_KEY bind with auth legs → sealed GetKey.
  Sync and async are the same model function (the implementations differ only in `await`).
-/
import DpapiNg.Model.Client
import DpapiNg.Model.RpcClient
import DpapiNg.Model.Epm
namespace DpapiNg.Online
open DpapiNg DpapiNg.Rpc DpapiNg.RpcClient DpapiNg.Epm DpapiNg.Client

/-- `uuid.UUID(...).bytes_le` of the well-known interface / syntax identifiers -/
def uuidIsdKey : Bytes := [0x60, 0x59, 0x78, 0xb9, 0x4f, 0x52, 0xdf, 0x11, 0x8b, 0x6d, 0x83, 0xdc, 0xde, 0xd7, 0x20, 0x85]
def uuidEpm : Bytes := [0x08, 0x83, 0xaf, 0xe1, 0x1f, 0x5d, 0xc9, 0x11, 0x91, 0xa4, 0x08, 0x00, 0x2b, 0x14, 0xa0, 0xfa]
def uuidNdr : Bytes := [0x04, 0x5d, 0x88, 0x8a, 0xeb, 0x1c, 0xc9, 0x11, 0x9f, 0xe8, 0x08, 0x00, 0x2b, 0x10, 0x48, 0x60]
def uuidNdr64 : Bytes := [0x33, 0x05, 0x71, 0x71, 0xba, 0xbe, 0x37, 0x49, 0x83, 0x19, 0xb5, 0xdb, 0xef, 0x9c, 0xcc, 0x36]
/-- `bind_time_feature_negotiation()` with no flags: 6cb71c2c-9812-4540-0000-000000000000 -/
def uuidBtfn : Bytes := [0x2c, 0x1c, 0xb7, 0x6c, 0x12, 0x98, 0x40, 0x45, 0, 0, 0, 0, 0, 0, 0, 0]

def isdKey : SyntaxId := ⟨uuidIsdKey, 1, 0⟩
def epm : SyntaxId := ⟨uuidEpm, 3, 0⟩
def ndr : SyntaxId := ⟨uuidNdr, 2, 0⟩
def ndr64 : SyntaxId := ⟨uuidNdr64, 1, 0⟩
def btfn : SyntaxId := ⟨uuidBtfn, 1, 0⟩

def epmContexts : List ContextElement := [⟨0, epm, [ndr64]⟩]
def isdKeyContexts : List ContextElement := [⟨0, isdKey, [ndr64]⟩, ⟨1, isdKey, [btfn]⟩]
def eptMapIsdKey : EptMap := ⟨none, tcpipTower isdKey ndr 135 0, none, 4⟩
def verificationTrailer : List Command := [⟨2, 0x4000, .pcontext isdKey ndr64⟩]

/-- the ept_map request PDU on the (unauthenticated) endpoint-mapper connection -/
def eptMapRequestWire : R Bytes := do
  let stub ← eptMapPack eptMapIsdKey
  let (pdu, offs) := createRequest none 0 3 stub none
  preparePdu none false pdu offs

/-- the GetKey request PDU: NDR64 stub + verification trailer, sealed at PKT_PRIVACY -/
def getKeyRequestWire (auth : Auth) (signHeader : Bool) (req : KeyRequest) : R Bytes := do
  let stub ← Gkdi.getKeyPack ⟨req.targetSd, req.rootKeyId, req.l0, req.l1, req.l2⟩
  let vt ← vtPack verificationTrailer
  let (pdu, offs) := createRequest (some auth) 0 0 stub (some vt)
  preparePdu (some auth) signHeader pdu offs

def bindWire (contexts : List ContextElement) (token : Option Bytes) (provider : Nat) : R Bytes :=
  let (pdu, _) := createBind contexts (token.map (trailerOf provider))
  preparePdu none false pdu none

def alterWire (contexts : List ContextElement) (token : Bytes) (provider : Nat) (signHeader : Bool) : R Bytes :=
  preparePdu none false (createAlterContext contexts (trailerOf provider token) signHeader) none

end DpapiNg.Online
