/-
  Decoders as data.  An `unpack` classmethod written as a straight line of
  `x = int.from_bytes(view[a:b], byteorder="little")`, magic tests, `view = view[n:]` and
  `x = view[:n].tobytes()[.decode("utf-16-le")]` statements ending in a constructor call is a list of steps plus the
  keyword → local-variable table of the constructor call; the translator (`harness/extract.py`, kind "plan")
  regenerates both from /repo's current source on every run, and `Proofs/Plan.lean` proves that the hand-written
  model of the same `unpack` is the interpretation of the list.
-/
import DpapiNg.Model.Gkdi
namespace DpapiNg.Plan
open DpapiNg

/-- offsets computed from decoded (unsigned) integers: literals, locals, `+` and `*` — so natural-number arithmetic is exact -/
inductive Expr where
  | lit (n : Nat)
  | var (name : String)
  | add (a b : Expr)
  | mul (a b : Expr)
  deriving DecidableEq, Repr

inductive Step where
  | int (name : String) (a b : Nat)      -- `name = int.from_bytes(view[a:b], byteorder="little")`
  | magic (a b : Nat)                    -- `if view[a:b].tobytes() != cls.magic: raise ValueError(...)`
  | uuid (name : String) (a b : Nat)     -- `name = uuid.UUID(bytes_le=view[a:b].tobytes())`
  | skip (n : Nat)                       -- `view = view[n:]`
  | skipLen (len : String)               -- `view = view[len:]`
  | bytes (name len : String)            -- `name = view[:len].tobytes()`
  | text (name len : String)             -- `name = view[: len - 2].tobytes().decode("utf-16-le")`
  | slice (name : String) (lo hi : Expr) -- `name = view[lo:hi].tobytes()`
  | skipE (e : Expr)                     -- `view = view[e:]`
  | guardLen (e : Expr)                  -- `if len(view) < e: raise ValueError(...)`
  | beInt (name src : String)            -- `int.from_bytes(src, byteorder="big")` (in the constructor call), bound to `name`
  | magicLit (a b : Nat) (m : Bytes)     -- `view[a:b].tobytes() != b"..."` (a disjunct of the magic test): ValueError
  | textSub (name : String) (lo hi : Expr) (k : Nat)  -- `name = view[lo : hi - k].tobytes().decode("utf-16-le")`
  deriving DecidableEq, Repr

structure Env where
  ints : String → Nat
  bytes : String → Bytes

def Env.empty : Env := ⟨fun _ => 0, fun _ => []⟩
def Env.setInt (e : Env) (k : String) (v : Nat) : Env := { e with ints := fun x => if x = k then v else e.ints x }
def Env.setBytes (e : Env) (k : String) (v : Bytes) : Env := { e with bytes := fun x => if x = k then v else e.bytes x }

def Expr.eval (e : Env) : Expr → Nat
  | .lit n => n
  | .var x => e.ints x
  | .add a b => a.eval e + b.eval e
  | .mul a b => a.eval e * b.eval e

def run (magic : Bytes) : List Step → Bytes → Env → R Env
  | [], _, e => .ok e
  | .int n a b :: rest, v, e => run magic rest v (e.setInt n (Py.fromLE (Py.sliceN v a b)))
  | .magic a b :: rest, v, e => if Py.sliceN v a b ≠ magic then .error .valueError else run magic rest v e
  | .uuid n a b :: rest, v, e =>
    if (Py.sliceN v a b).length = 16 then run magic rest v (e.setBytes n (Py.sliceN v a b)) else .error .valueError
  | .skip k :: rest, v, e => run magic rest (v.drop k) e
  | .skipLen l :: rest, v, e => run magic rest (v.drop (e.ints l)) e
  | .bytes n l :: rest, v, e => run magic rest v (e.setBytes n (v.take (e.ints l)))
  | .text n l :: rest, v, e =>
    let raw := Py.sliceTo v ((e.ints l : Int) - 2)
    if Gkdi.utf16Valid raw then run magic rest v (e.setBytes n raw) else .error .valueError
  | .slice n lo hi :: rest, v, e => run magic rest v (e.setBytes n (Py.sliceN v (lo.eval e) (hi.eval e)))
  | .skipE x :: rest, v, e => run magic rest (v.drop (x.eval e)) e
  | .guardLen x :: rest, v, e => if v.length < x.eval e then .error .valueError else run magic rest v e
  | .beInt n src :: rest, v, e => run magic rest v (e.setInt n (Py.fromBE (e.bytes src)))
  | .magicLit a b m :: rest, v, e => if Py.sliceN v a b ≠ m then .error .valueError else run magic rest v e
  | .textSub n lo hi k :: rest, v, e =>
    let raw := Py.slice v (lo.eval e : Int) ((hi.eval e : Int) - k)
    if Gkdi.utf16Valid raw then run magic rest v (e.setBytes n raw) else .error .valueError

/-- the local variable bound to constructor keyword `k` -/
def arg (ret : List (String × String)) (k : String) : String := (ret.lookup k).getD ""

end DpapiNg.Plan
