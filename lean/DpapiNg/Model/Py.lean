/-
  Py prelude: exactly the CPython behaviours the library leans on, as total functions.
  No imports (core Lean only) so the driver can be compiled natively.

  Bytes are lists of naturals; `IsBytes` says every element is < 256.  The driver only
  ever builds byte lists from hex, so executable behaviour is always on real bytes; the
  theorems that need the range carry `IsBytes` explicitly.
-/
namespace DpapiNg

abbrev Bytes := List Nat

def IsBytes (b : Bytes) : Prop := ∀ x ∈ b, x < 256

instance (b : Bytes) : Decidable (IsBytes b) := by unfold IsBytes; infer_instance

inductive PyErr where
  | valueError | notImplemented | notEnoughData | invalidTag | invalidUnwrap
  | indexError | overflowError | structError | keyError | typeError
  | connectionError | incompleteRead | other
  deriving DecidableEq, Repr, Inhabited

/-- The error types C05 calls deliberate. -/
def Deliberate : PyErr → Prop
  | .valueError | .notImplemented | .notEnoughData | .invalidTag | .invalidUnwrap => True
  | _ => False

instance : DecidablePred Deliberate := fun e => by cases e <;> unfold Deliberate <;> infer_instance

def PyErr.name : PyErr → String
  | .valueError => "ValueError" | .notImplemented => "NotImplementedError"
  | .notEnoughData => "NotEnougData" | .invalidTag => "InvalidTag" | .invalidUnwrap => "InvalidUnwrap"
  | .indexError => "IndexError" | .overflowError => "OverflowError" | .structError => "struct.error"
  | .keyError => "KeyError" | .typeError => "TypeError" | .connectionError => "ConnectionError"
  | .incompleteRead => "IncompleteReadError" | .other => "Other"

abbrev R (α : Type) := Except PyErr α

instance {ε α : Type} [DecidableEq ε] [DecidableEq α] : DecidableEq (Except ε α) := fun a b =>
  match a, b with
  | .ok x, .ok y => if h : x = y then isTrue (by rw [h]) else isFalse (by intro e; cases e; exact h rfl)
  | .error x, .error y => if h : x = y then isTrue (by rw [h]) else isFalse (by intro e; cases e; exact h rfl)
  | .ok _, .error _ => isFalse (by intro e; cases e)
  | .error _, .ok _ => isFalse (by intro e; cases e)

namespace Py

/-- Python's clamping of one slice endpoint against a sequence of length `n`. -/
def clampIdx (n : Nat) (i : Int) : Nat :=
  if i < 0 then (i + n).toNat else min i.toNat n

/-- `xs[i:j]` -/
def slice (xs : List α) (i j : Int) : List α :=
  let a := clampIdx xs.length i
  let b := clampIdx xs.length j
  (xs.take b).drop a

/-- `xs[i:]` -/
def sliceFrom (xs : List α) (i : Int) : List α := xs.drop (clampIdx xs.length i)
/-- `xs[:j]` -/
def sliceTo (xs : List α) (j : Int) : List α := xs.take (clampIdx xs.length j)

/-- `xs[i:j]` for non-negative `i`, `j` (take/drop clamp exactly like Python; `slice_nat` proves
    this is `slice` on the casts) -/
def sliceN (xs : List α) (i j : Nat) : List α := (xs.take j).drop i

/-- `xs[i]` for a non-negative index (IndexError when out of range). -/
def index (xs : List α) (i : Nat) : R α :=
  match xs[i]? with
  | some x => .ok x
  | none => .error .indexError

/-- `int.from_bytes(b, "little")`; empty ↦ 0 -/
def fromLE : Bytes → Nat
  | [] => 0
  | d :: ds => d + 256 * fromLE ds

/-- `int.from_bytes(b, "big")` -/
def fromBE (b : Bytes) : Nat := fromLE b.reverse

/-- `k` little-endian digits of `n` (truncating). -/
def toLE (n : Nat) : Nat → Bytes
  | 0 => []
  | k + 1 => (n % 256) :: toLE (n / 256) k

def toBE (n k : Nat) : Bytes := (toLE n k).reverse

/-- `n.to_bytes(k, "little")` for an `int` that may be negative: OverflowError like CPython. -/
def toBytesLE (n : Int) (k : Nat) : R Bytes :=
  if n < 0 then .error .overflowError
  else if n.toNat < 256 ^ k then .ok (toLE n.toNat k) else .error .overflowError

def toBytesBE (n : Int) (k : Nat) : R Bytes :=
  if n < 0 then .error .overflowError
  else if n.toNat < 256 ^ k then .ok (toBE n.toNat k) else .error .overflowError

/-- `n.to_bytes(k, "little", signed=True)` -/
def toBytesLESigned (n : Int) (k : Nat) : R Bytes :=
  if k = 0 then (if n = 0 ∨ n = -1 then .ok [] else .error .overflowError)
  else if -(2 ^ (8 * k - 1) : Int) ≤ n ∧ n < (2 ^ (8 * k - 1) : Int) then
    .ok (toLE (n % (256 ^ k : Int)).toNat k)
  else .error .overflowError

/-- `int.from_bytes(b, "little", signed=True)` -/
def fromLESigned (b : Bytes) : Int :=
  let v := fromLE b
  if b.length = 0 then 0
  else if v < 2 ^ (8 * b.length - 1) then (v : Int) else (v : Int) - (256 ^ b.length : Int)

/-- Python `-n % m` for natural `n` and positive `m`. -/
def negMod (n m : Nat) : Nat := (m - n % m) % m

/-- `b"\x00" * n` -/
def zeros (n : Nat) : Bytes := List.replicate n 0

/-- `s.rstrip(c)` on a list. -/
def rstrip [DecidableEq α] (c : α) (xs : List α) : List α :=
  (xs.reverse.dropWhile (· = c)).reverse

/-- bit length of a natural number (`int.bit_length`). -/
def bitLength (n : Nat) : Nat := if n = 0 then 0 else Nat.log2 n + 1

/--
  `int(a / b)` as CPython computes it for non-negative ints with `b > 0`: the correctly
  rounded (round-half-even) binary64 quotient, then truncation.  `Nat` arithmetic only.
  Valid while the quotient is < 2^1023 (always, for clock values).  Differentially
  validated against CPython (harness/prelude.py).
-/
def trueDivTrunc (a b : Nat) : Nat :=
  if a = 0 then 0 else
  let q := a / b
  let bits := Nat.log2 (max q 1) + 1
  if bits ≥ 54 then
    let sh := bits - 53
    let m := a / (b * 2^sh)
    let r := a % (b * 2^sh)
    let half := b * 2^sh
    let m' := if 2*r > half ∨ (2*r = half ∧ m % 2 = 1) then m+1 else m
    m' * 2^sh
  else
    let sh := 53 - bits
    let num := a * 2^sh
    let m := num / b
    let r := num % b
    let m' := if 2*r > b ∨ (2*r = b ∧ m % 2 = 1) then m+1 else m
    m' / 2^sh

/-- `math.ceil(n / 8)` for natural `n` below 2^53 (exact in floats). -/
def ceilDiv8 (n : Nat) : Nat := (n + 7) / 8

/-- Python `pow(b, e, m)` by square-and-multiply on the binary digits of `e`. -/
def powMod (b e m : Nat) : Nat :=
  if m = 0 then 0 else
  let rec go (fuel : Nat) (b e acc : Nat) : Nat :=
    match fuel with
    | 0 => acc % m
    | fuel + 1 =>
      if e = 0 then acc % m
      else
        let acc' := if e % 2 = 1 then (acc * b) % m else acc
        go fuel ((b * b) % m) (e / 2) acc'
  go (e + 1) (b % m) e 1

end Py

/-! ### hex helpers used by the driver -/
def hexDigit (c : Char) : Option Nat :=
  if '0' ≤ c ∧ c ≤ '9' then some (c.toNat - '0'.toNat)
  else if 'a' ≤ c ∧ c ≤ 'f' then some (c.toNat - 'a'.toNat + 10)
  else if 'A' ≤ c ∧ c ≤ 'F' then some (c.toNat - 'A'.toNat + 10)
  else none

def parseHexAux : List Char → Bytes → Option Bytes
  | [], acc => some acc.reverse
  | [_], _ => none
  | a :: b :: rest, acc =>
    match hexDigit a, hexDigit b with
    | some x, some y => parseHexAux rest ((16 * x + y) :: acc)
    | _, _ => none

/-- "-" is the empty byte string. -/
def parseHex (s : String) : Option Bytes :=
  if s = "-" then some [] else parseHexAux s.toList []

def hexChar (n : Nat) : Char := "0123456789abcdef".toList.getD n '?'

def toHex (b : Bytes) : String :=
  if b.isEmpty then "-" else
  String.ofList (b.foldr (fun x acc => hexChar (x / 16) :: hexChar (x % 16) :: acc) [])

end DpapiNg
