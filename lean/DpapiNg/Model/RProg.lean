/-
  ASN.1 reader programs as data.  An `unpack` classmethod of `_pkcs7.py` / `_blob.py` — a straight line of
  `reader = reader.read_sequence(...)`, `x = reader.read_*(...)`, `header = reader.peek_header()`, `x = None`,
  `if header.tag… == …:`, `if reader:`, `x = Cls.unpack(reader)`, the `while set_reader:` loop and a final
  `return Cls(kw=x, …)` — is a `List Op` plus a `Ret`; the translator (`harness/extract.py`, kind "rprog") regenerates
  both from /repo's current source on every run, and `Proofs/RProg.lean` proves that the hand-written model of the same
  `unpack` (`Blob.algIdUnpack`, `Blob.kekIdUnpack`, …) is the interpretation of the program.
  A reader is its remaining view; `outer` is what the caller's reader is left with (the rest after the first
  `read_sequence`), which is what the model functions return as their second component.
-/
import DpapiNg.Model.WProg
import DpapiNg.Model.Blob
namespace DpapiNg.RProg
open DpapiNg DpapiNg.Asn1 DpapiNg.WProg

structure St where
  cur : Bytes
  outer : Option Bytes
  hdr : Option Header
  env : List (String × Val)

def St.get (s : St) (x : String) : Val := (s.env.lookup x).getD .none
def St.set (s : St) (x : String) (v : Val) : St := { s with env := (x, v) :: s.env }

inductive Op where
  | enter (useHdr : Bool)                          -- `reader = <reader>.read_sequence([header=header])`
  | readOid (x : String)                           -- `x = reader.read_object_identifier(...)`
  | readInt (x : String)                           -- `x = reader.read_integer(...)`
  | readOctets (x : String) (tag : Option Tag)     -- `x = reader.read_octet_string([tag], ...)`
  | readUtf8 (x : String)                          -- `x = reader.read_utf8_string()`
  | readGenTime (x : String) (useHdr : Bool)       -- `x = reader.read_generalized_time([header=header], ...)`
  | requireInt (x : String) (n : Int) (err : PyErr)  -- `if x != n: raise err`
  | setOfLoop (x : String) (cls : String)          -- `x = []; r = reader.read_set_of(); while r: x.append(cls.unpack(r))`
  | sub (x : String) (cls : String) (useHdr : Bool)  -- `x = cls.unpack(reader[, header=header])`
  | peek                                           -- `header = reader.peek_header()`
  | setNone (x : String)                           -- `x = None`
  | ifHeader (cls num : Nat) (body : List Op)      -- `if header.tag.tag_class == cls and header.tag.tag_number == num:`
  | ifMore (body : List Op)                        -- `if reader:`
  | remaining (x : String)                         -- `x = reader.get_remaining_data()`
  deriving Repr

inductive Cond where
  | oidIs (x : String) (o : List Nat)              -- `x == "<dotted oid>"`
  | textIs (x : String) (b : Bytes)                -- `x == "<text>"`
  deriving Repr

inductive Ret where
  | build (fields : List (String × String))        -- `return Cls(kw=x, …)`
  | dispatch (cls num : Nat) (target : String) (err : PyErr)
      -- `if tag.tag_class == cls and tag.tag_number == num: return target.unpack(reader, header=header)`; `raise err`
  | guarded (conds : List Cond) (x : String) (err : PyErr)  -- `if c1 and c2: return Cls(x)` `else: raise err`
  deriving Repr

abbrev Call := String → Bytes → Option Header → R (Val × Bytes)

/-- the `while reader:` loop over a SET OF; fuel = remaining length (each element consumes ≥ 2 octets) -/
def loop (call : Call) (cls : String) : Nat → Bytes → R (List Val)
  | _, [] => .ok []
  | 0, _ :: _ => .ok []
  | fuel + 1, v@(_ :: _) => do
    let (x, rest) ← call cls v none
    let more ← loop call cls fuel rest
    pure (x :: more)

mutual
def runOp (call : Call) : Op → St → R St
  | .enter useHdr, s => do
    let (c, rest) ← Blob.rdSeq s.cur (if useHdr then s.hdr else none)
    pure { s with cur := c, outer := some (s.outer.getD rest) }
  | .readOid x, s => do
    let (v, r) ← Blob.rdOid s.cur
    pure ({ s with cur := r }.set x (.oid v))
  | .readInt x, s => do
    let (v, r) ← Blob.rdInt s.cur
    pure ({ s with cur := r }.set x (.int v))
  | .readOctets x tag, s => do
    let (v, r) ← Blob.rdOctets s.cur tag
    pure ({ s with cur := r }.set x (.bytes v))
  | .readUtf8 x, s => do
    let (v, r) ← Blob.rdUtf8 s.cur
    pure ({ s with cur := r }.set x (.bytes v))
  | .readGenTime x useHdr, s => do
    let (v, r) ← Blob.rdGenTime s.cur (if useHdr then s.hdr else none)
    pure ({ s with cur := r }.set x (.bytes v))
  | .requireInt x n err, s =>
    match s.get x with
    | .int i => if i ≠ n then .error err else .ok s
    | _ => .error .typeError
  | .setOfLoop x cls, s => do
    let (setc, r) ← Blob.rdSet s.cur
    let items ← loop call cls setc.length setc
    pure ({ s with cur := r }.set x (.list items))
  | .sub x cls useHdr, s => do
    let (v, r) ← call cls s.cur (if useHdr then s.hdr else none)
    pure ({ s with cur := r }.set x v)
  | .peek, s => do
    let h ← readHeader s.cur
    pure { s with hdr := some h }
  | .setNone x, s => .ok (s.set x .none)
  | .ifHeader c n body, s =>
    match s.hdr with
    | some h => if h.tag.cls = c ∧ h.tag.num = n then runOps call body s else .ok s
    | none => .error .typeError
  | .ifMore body, s => if s.cur ≠ [] then runOps call body s else .ok s
  | .remaining x, s => .ok ({ s with cur := [] }.set x (.bytes s.cur))
def runOps (call : Call) : List Op → St → R St
  | [], s => .ok s
  | op :: rest, s => do
    let s' ← runOp call op s
    runOps call rest s'
end

def Cond.holds (s : St) : Cond → Bool
  | .oidIs x o => match s.get x with | .oid o' => o' == o | _ => false
  | .textIs x b => match s.get x with | .bytes b' => b' == b | _ => false

def runRet (call : Call) : Ret → St → R (Val × Bytes)
  | .build fields, s => .ok (.obj (fields.map fun (k, x) => (k, s.get x)), s.outer.getD s.cur)
  | .dispatch c n target err, s =>
    match s.hdr with
    | some h => if h.tag.cls = c ∧ h.tag.num = n then call target s.cur (some h) else .error err
    | none => .error .typeError
  | .guarded conds x err, s =>
    if conds.all (Cond.holds s) then .ok (s.get x, s.outer.getD s.cur) else .error err

/-- `Cls.unpack(reader, header=header)` on a reader whose remaining view is `v` -/
def run (call : Call) (prog : List Op × Ret) (v : Bytes) (header : Option Header) : R (Val × Bytes) := do
  let s ← runOps call prog.1 ⟨v, none, header, []⟩
  runRet call prog.2 s

def noCall : Call := fun _ _ _ => .error .typeError

end DpapiNg.RProg
