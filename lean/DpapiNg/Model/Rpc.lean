/-
  Model of `_rpc/_pdu.py`, `_rpc/_bind.py`, `_rpc/_request.py`, `_rpc/_verification.py`:
  the DCE/RPC connection-oriented PDUs the client uses, their encoders and decoders.
  Enumerations are naturals with the membership test the Python `enum` performs on construction.
-/
import DpapiNg.Model.Py
namespace DpapiNg.Rpc
open DpapiNg

/-- `n.to_bytes(k, "little")` of a field that is a natural number -/
def le (n k : Nat) : R Bytes := Py.toBytesLE (n : Int) k

def uuidOf (b : Bytes) : R Bytes := if b.length = 16 then .ok b else .error .valueError

/-- `view[i]` -/
def at_ (v : Bytes) (i : Nat) : R Nat := Py.index v i

/-! ### header -/

def validPacketType (t : Nat) : Bool := t ≤ 15 ∨ t = 17 ∨ t = 18 ∨ t = 19

structure DataRep where
  byteOrder : Nat := 1
  character : Nat := 0
  floatingPoint : Nat := 0
  deriving DecidableEq, Repr, Inhabited

def dataRepPack (d : DataRep) : R Bytes := do
  let a ← le (d.byteOrder * 16 ||| d.character) 1
  let b ← le d.floatingPoint 1
  pure (a ++ b ++ [0, 0])

def dataRepUnpack (v : Bytes) : R DataRep := do
  let b0 ← at_ v 0
  if b0 / 16 > 1 then throw .valueError        -- IntegerRep
  if b0 % 16 > 1 then throw .valueError        -- CharacterRep
  let b1 ← at_ v 1
  if b1 > 3 then throw .valueError             -- FloatingPointRep
  pure ⟨b0 / 16, b0 % 16, b1⟩

structure Header where
  version : Nat
  versionMinor : Nat
  packetType : Nat
  packetFlags : Nat
  dataRep : DataRep
  fragLen : Nat
  authLen : Nat
  callId : Nat
  deriving DecidableEq, Repr, Inhabited

def headerPack (h : Header) : R Bytes := do
  let a ← le h.version 1
  let b ← le h.versionMinor 1
  let c ← le h.packetType 1
  let d ← le h.packetFlags 1
  let e ← dataRepPack h.dataRep
  let f ← le h.fragLen 2
  let g ← le h.authLen 2
  let i ← le h.callId 4
  pure (a ++ b ++ c ++ d ++ e ++ f ++ g ++ i)

def headerUnpack (v : Bytes) : R Header := do
  let a ← at_ v 0
  let b ← at_ v 1
  let c ← at_ v 2
  if ¬ validPacketType c then throw .valueError
  let d ← at_ v 3
  let e ← dataRepUnpack (Py.sliceN v 4 8)
  pure ⟨a, b, c, d, e, Py.fromLE (Py.sliceN v 8 10), Py.fromLE (Py.sliceN v 10 12), Py.fromLE (Py.sliceN v 12 16)⟩

/-! ### security trailer -/

def validProvider (t : Nat) : Bool := t = 0 ∨ t = 9 ∨ t = 10 ∨ t = 14 ∨ t = 16 ∨ t = 68 ∨ t = 255
def validLevel (l : Nat) : Bool := l ≤ 6

structure SecTrailer where
  type : Nat
  level : Nat
  padLength : Nat
  contextId : Nat
  authValue : Bytes
  deriving DecidableEq, Repr, Inhabited

def secTrailerPack (t : SecTrailer) : R Bytes := do
  let a ← le t.type 1
  let b ← le t.level 1
  let c ← le t.padLength 1
  let d ← le t.contextId 4
  pure (a ++ b ++ c ++ [0] ++ d ++ t.authValue)

def secTrailerUnpack (v : Bytes) : R SecTrailer := do
  let a ← at_ v 0
  if ¬ validProvider a then throw .valueError
  let b ← at_ v 1
  if ¬ validLevel b then throw .valueError
  let c ← at_ v 2
  pure ⟨a, b, c, Py.fromLE (Py.sliceN v 4 8), v.drop 8⟩

def optTrailerPack (t : Option SecTrailer) : R Bytes :=
  match t with | some t => secTrailerPack t | none => .ok []

/-! ### syntax ids, contexts, results -/

structure SyntaxId where
  uuid : Bytes
  version : Nat
  versionMinor : Nat
  deriving DecidableEq, Repr, Inhabited

def syntaxPack (s : SyntaxId) : R Bytes := do
  let a ← le s.version 2
  let b ← le s.versionMinor 2
  pure (s.uuid ++ a ++ b)

def syntaxUnpack (v : Bytes) : R SyntaxId := do
  let u ← uuidOf (Py.sliceN v 0 16)
  pure ⟨u, Py.fromLE (Py.sliceN v 16 18), Py.fromLE (Py.sliceN v 18 20)⟩

structure ContextElement where
  contextId : Nat
  abstractSyntax : SyntaxId
  transferSyntaxes : List SyntaxId
  deriving DecidableEq, Repr, Inhabited

def contextPack (c : ContextElement) : R Bytes := do
  let a ← le c.contextId 2
  let b ← le c.transferSyntaxes.length 2
  let s ← syntaxPack c.abstractSyntax
  let ts ← c.transferSyntaxes.mapM syntaxPack
  pure (a ++ b ++ s ++ ts.flatten)

/-- `for _ in range(n): SyntaxId.unpack(view); view = view[20:]` -/
def syntaxesUnpack : Nat → Bytes → R (List SyntaxId)
  | 0, _ => .ok []
  | n + 1, v => do
    let s ← syntaxUnpack v
    let rest ← syntaxesUnpack n (v.drop 20)
    pure (s :: rest)

def contextUnpack (v : Bytes) : R ContextElement := do
  let n := Py.fromLE (Py.sliceN v 2 4)
  let abs ← syntaxUnpack (v.drop 4)
  let ts ← syntaxesUnpack n (v.drop 24)
  pure ⟨Py.fromLE (Py.sliceN v 0 2), abs, ts⟩

structure ContextResult where
  result : Nat
  reason : Nat
  syntaxUuid : Bytes
  syntaxVersion : Nat
  deriving DecidableEq, Repr, Inhabited

def resultPack (r : ContextResult) : R Bytes := do
  let a ← le r.result 2
  let b ← le r.reason 2
  let c ← le r.syntaxVersion 4
  pure (a ++ b ++ r.syntaxUuid ++ c)

def resultUnpack (v : Bytes) : R ContextResult := do
  let res := Py.fromLE (Py.sliceN v 0 2)
  if res > 3 then throw .valueError          -- ContextResultCode
  let u ← uuidOf (Py.sliceN v 4 20)
  pure ⟨res, Py.fromLE (Py.sliceN v 2 4), u, Py.fromLE (Py.sliceN v 20 24)⟩

/-! ### PDUs -/

inductive Body where
  | bind (isAlter : Bool) (maxXmit maxRecv assocGroup : Nat) (contexts : List ContextElement)
  | bindAck (isAlter : Bool) (maxXmit maxRecv assocGroup : Nat) (secAddr : Bytes) (results : List ContextResult)
  | bindNak (rejectReason : Nat) (versions : List (Nat × Nat))
  | request (allocHint contextId opnum : Nat) (obj : Option Bytes) (stub : Bytes)
  | response (allocHint contextId cancelCount : Nat) (stub : Bytes)
  | fault (allocHint contextId cancelCount status flags : Nat) (stub : Bytes)
  deriving DecidableEq, Repr, Inhabited

structure Pdu where
  header : Header
  secTrailer : Option SecTrailer
  body : Body
  deriving DecidableEq, Repr, Inhabited

def pduPack (p : Pdu) : R Bytes := do
  let h ← headerPack p.header
  match p.body with
  | .bind _ mx mr ag ctxs => do
    let a ← le mx 2; let b ← le mr 2; let c ← le ag 4; let d ← le ctxs.length 4
    let cs ← ctxs.mapM contextPack
    let t ← optTrailerPack p.secTrailer
    pure (h ++ a ++ b ++ c ++ d ++ cs.flatten ++ t)
  | .bindAck _ mx mr ag sa results => do
    -- sec_addr is carried as UTF-8 bytes; non-empty ⇒ NUL terminated
    let bsa := if sa = [] then [] else sa ++ [0]
    let pad := Py.negMod (2 + bsa.length) 4
    let a ← le mx 2; let b ← le mr 2; let c ← le ag 4; let d ← le bsa.length 2; let e ← le results.length 4
    let rs ← results.mapM resultPack
    let t ← optTrailerPack p.secTrailer
    pure (h ++ a ++ b ++ c ++ d ++ bsa ++ Py.zeros pad ++ e ++ rs.flatten ++ t)
  | .bindNak reason versions => do
    let a ← le reason 2
    let vs ← versions.mapM fun (x, y) => do let p ← le x 1; let q ← le y 1; pure (p ++ q)
    let n ← le versions.length 1
    let bv := n ++ vs.flatten
    pure (h ++ a ++ bv ++ Py.zeros (Py.negMod (2 + bv.length) 4))
  | .request ah cid op obj stub => do
    let a ← le ah 4; let b ← le cid 2; let c ← le op 2
    let t ← optTrailerPack p.secTrailer
    pure (h ++ a ++ b ++ c ++ obj.getD [] ++ stub ++ t)
  | .response ah cid cc stub => do
    let a ← le ah 4; let b ← le cid 2; let c ← le cc 1
    let t ← optTrailerPack p.secTrailer
    pure (h ++ a ++ b ++ c ++ [0] ++ stub ++ t)
  | .fault ah cid cc status flags stub => do
    let a ← le ah 4; let b ← le cid 2; let c ← le cc 1; let d ← le flags 1; let e ← le status 4
    let t ← optTrailerPack p.secTrailer
    pure (h ++ a ++ b ++ c ++ d ++ e ++ [0, 0, 0, 0] ++ stub ++ t)

/-- `for _ in range(num_contexts): ContextElement.unpack(view); view = view[24 + 20·n:]` -/
def contextsUnpack : Nat → Bytes → R (List ContextElement)
  | 0, _ => .ok []
  | n + 1, v => do
    let c ← contextUnpack v
    let rest ← contextsUnpack n (v.drop (24 + c.transferSyntaxes.length * 20))
    pure (c :: rest)

def resultsUnpack : Nat → Bytes → R (List ContextResult)
  | 0, _ => .ok []
  | n + 1, v => do
    let r ← resultUnpack v
    let rest ← resultsUnpack n (v.drop 24)
    pure (r :: rest)

def versionsUnpack : Nat → Bytes → R (List (Nat × Nat))
  | 0, _ => .ok []
  | n + 1, v => do
    let a ← at_ v 0
    let b ← at_ v 1
    let rest ← versionsUnpack n (v.drop 2)
    pure ((a, b) :: rest)

/-- what `bytes.decode("utf-8")` accepts (same automaton as in the ASN.1 model, restated to keep this file standalone) -/
def utf8Valid : Bytes → Bool
  | [] => true
  | b0 :: rest =>
    if b0 < 0x80 then utf8Valid rest
    else if b0 < 0xC2 then false
    else if b0 < 0xE0 then
      match rest with
      | b1 :: r => if 0x80 ≤ b1 ∧ b1 < 0xC0 then utf8Valid r else false
      | _ => false
    else if b0 < 0xF0 then
      match rest with
      | b1 :: b2 :: r =>
        let lo := if b0 = 0xE0 then 0xA0 else 0x80
        let hi := if b0 = 0xED then 0xA0 else 0xC0
        if lo ≤ b1 ∧ b1 < hi ∧ 0x80 ≤ b2 ∧ b2 < 0xC0 then utf8Valid r else false
      | _ => false
    else if b0 < 0xF5 then
      match rest with
      | b1 :: b2 :: b3 :: r =>
        let lo := if b0 = 0xF0 then 0x90 else 0x80
        let hi := if b0 = 0xF4 then 0x90 else 0xC0
        if lo ≤ b1 ∧ b1 < hi ∧ 0x80 ≤ b2 ∧ b2 < 0xC0 ∧ 0x80 ≤ b3 ∧ b3 < 0xC0 then utf8Valid r else false
      | _ => false
    else false
termination_by b => b.length
decreasing_by all_goals simp_wf <;> omega

def bodyUnpack (ptype : Nat) (flags : Nat) (v : Bytes) : R Body :=
  if ptype = 11 ∨ ptype = 14 then do
    let n ← at_ v 8
    let ctxs ← contextsUnpack n (v.drop 12)
    pure (.bind (ptype = 14) (Py.fromLE (Py.sliceN v 0 2)) (Py.fromLE (Py.sliceN v 2 4)) (Py.fromLE (Py.sliceN v 4 8)) ctxs)
  else if ptype = 12 ∨ ptype = 15 then do
    let sal := Py.fromLE (Py.sliceN v 8 10)
    let saRaw := Py.slice v 10 (10 + (sal : Int) - 1)
    if ¬ utf8Valid saRaw then throw .valueError
    let pad := Py.negMod (2 + sal) 4
    let w := v.drop (10 + sal + pad)
    let n ← at_ w 0
    let rs ← resultsUnpack n (w.drop 4)
    pure (.bindAck (ptype = 15) (Py.fromLE (Py.sliceN v 0 2)) (Py.fromLE (Py.sliceN v 2 4)) (Py.fromLE (Py.sliceN v 4 8)) saRaw rs)
  else if ptype = 13 then do
    let n ← at_ v 2
    let vs ← versionsUnpack n (v.drop 3)
    pure (.bindNak (Py.fromLE (Py.sliceN v 0 2)) vs)
  else if ptype = 0 then do
    let w := v.drop 8
    let (obj, w) ← (if flags / 128 % 2 = 1 then (uuidOf (Py.sliceN w 0 16)).map fun u => (some u, w.drop 16) else pure (none, w) : R (Option Bytes × Bytes))
    pure (.request (Py.fromLE (Py.sliceN v 0 4)) (Py.fromLE (Py.sliceN v 4 6)) (Py.fromLE (Py.sliceN v 6 8)) obj w)
  else if ptype = 2 then do
    let cc ← at_ v 6
    pure (.response (Py.fromLE (Py.sliceN v 0 4)) (Py.fromLE (Py.sliceN v 4 6)) cc (v.drop 8))
  else if ptype = 3 then do
    let cc ← at_ v 6
    let fl ← at_ v 7
    pure (.fault (Py.fromLE (Py.sliceN v 0 4)) (Py.fromLE (Py.sliceN v 4 6)) cc (Py.fromLE (Py.sliceN v 8 12)) fl (v.drop 16))
  else .error .keyError          -- `_PACKET_TYPE_REGISTRY[header.packet_type]`

/-- `PDU.unpack` -/
def pduUnpack (data : Bytes) : R Pdu := do
  let h ← headerUnpack data
  let v := Py.sliceN data 16 h.fragLen
  let (t, v) ← (if h.authLen ≠ 0 then do
      let t ← secTrailerUnpack (Py.sliceFrom v (-((h.authLen : Int) + 8)))
      pure (some t, Py.sliceTo v (-((h.authLen : Int) + 8)))
    else pure (none, v) : R (Option SecTrailer × Bytes))
  let b ← bodyUnpack h.packetType h.packetFlags v
  -- BindNak._unpack drops the trailer
  let t := match b with | .bindNak _ _ => none | _ => t
  pure ⟨h, t, b⟩

/-! ### verification trailer -/

inductive CmdValue where
  | raw (value : Bytes)
  | bitmask (bits : Nat)
  | pcontext (interfaceId transferSyntax : SyntaxId)
  | header2 (packetType : Nat) (dataRep : DataRep) (callId contextId opnum : Nat)
  deriving DecidableEq, Repr, Inhabited

structure Command where
  command : Nat        -- low 14 bits
  flags : Nat          -- 0x4000 END, 0x8000 MUST_PROCESS
  value : CmdValue
  deriving DecidableEq, Repr, Inhabited

def cmdValuePack (c : Command) : R Bytes :=
  match c.value with
  | .raw v => .ok v
  | .bitmask bits => le bits 4
  | .pcontext i t => do let a ← syntaxPack i; let b ← syntaxPack t; pure (a ++ b)
  | .header2 pt dr callId cid op => do
    let a ← le pt 1; let d ← dataRepPack dr; let e ← le callId 4; let f ← le cid 2; let g ← le op 2
    pure (a ++ [0, 0, 0] ++ d ++ e ++ f ++ g)

def commandPack (c : Command) : R Bytes := do
  let v ← cmdValuePack c
  let a ← le (c.command ||| c.flags) 2
  let b ← le v.length 2
  pure (a ++ b ++ v)

/-- the value decoder `Command.unpack` dispatches to on the command type -/
def cmdValueUnpack (ct : Nat) (value : Bytes) : R CmdValue :=
  if ct = 1 then pure (.bitmask (Py.fromLE value))
  else if ct = 2 then do
    let i ← syntaxUnpack value
    let t ← syntaxUnpack (value.drop 20)
    pure (.pcontext i t)
  else if ct = 3 then do
    let pt ← at_ value 0
    if ¬ validPacketType pt then throw .valueError
    let dr ← dataRepUnpack (Py.sliceN value 4 8)
    pure (.header2 pt dr (Py.fromLE (Py.sliceN value 8 12)) (Py.fromLE (Py.sliceN value 12 14)) (Py.fromLE (Py.sliceN value 14 16)))
  else pure (.raw value)

/-- `Command.unpack`; returns the command and the length of its value -/
def commandUnpack (v : Bytes) : R (Command × Nat) := do
  let f := Py.fromLE (Py.sliceN v 0 2)
  let ct := f % 16384
  let fl := f / 16384 * 16384
  let len := Py.fromLE (Py.sliceN v 2 4)
  let value := Py.sliceN v 4 (4 + len)
  let cv ← cmdValueUnpack ct value
  pure (⟨ct, fl, cv⟩, value.length)

def vtSignature : Bytes := [0x8a, 0xe3, 0x13, 0x71, 0x02, 0xf4, 0x36, 0x71]

def vtPack (cmds : List Command) : R Bytes := do
  let cs ← cmds.mapM commandPack
  pure (vtSignature ++ cs.flatten)

/-- the `while True:` loop of `VerificationTrailer.unpack` (as repaired); fuel = remaining length / 4 + 1 -/
def vtCommands : Nat → Bytes → R (List Command)
  | 0, _ => .error .valueError
  | fuel + 1, v =>
    if v.length < 4 then .error .valueError
    else do
      let (c, n) ← commandUnpack v
      if c.flags / 16384 % 2 = 1 then pure [c]
      else do
        let rest ← vtCommands fuel (v.drop (4 + n))
        pure (c :: rest)

def vtUnpack (v : Bytes) : R (List Command) :=
  if Py.sliceN v 0 8 ≠ vtSignature then .error .valueError
  else vtCommands (v.length / 4 + 1) (v.drop 8)

end DpapiNg.Rpc
