/-
  Model of `_rpc/_client.py` (as repaired: full-header read loop, EOF is an error, a cleartext
  response to a sealed request is rejected): PDU construction, request framing and sealing,
  response processing, the transport read loops and the bind / alter-context handshake.
  The security context (`AuthenticationProvider` over pyspnego) and the socket are parameters.
-/
import DpapiNg.Model.Rpc
namespace DpapiNg.RpcClient
open DpapiNg DpapiNg.Rpc

/-- the security context as the client sees it -/
structure Auth where
  provider : Nat                                   -- SecurityProvider id put into the trailer
  headerLen : Nat                                  -- `query_message_sizes().header`
  /-- `wrap_iov([(sign?, header), body, (sign?, trailer), header_buffer], encrypt=True)` → (sealed body, signature) -/
  wrap : (signHeader : Bool) → (header body trailer : Bytes) → (Bytes × Bytes)
  /-- `unwrap_iov(...)` → plaintext body or an error -/
  unwrap : (signHeader : Bool) → (header body trailer signature : Bytes) → R Bytes

def pfcSupportHeaderSign : Nat := 4

/-- `_create_pdu_header` -/
def mkHeader (ptype authLen callId flags : Nat) : Header :=
  ⟨5, 0, ptype, flags ||| 1 ||| 2, {}, 0, authLen, callId⟩

/-- `_create_bind` (sets `_sign_header` when a token is present) -/
def createBind (contexts : List ContextElement) (t : Option SecTrailer) : Pdu × Bool :=
  match t with
  | some tr => (⟨mkHeader 11 tr.authValue.length 1 pfcSupportHeaderSign, some tr, .bind false 5840 5840 0 contexts⟩, true)
  | none => (⟨mkHeader 11 0 1 0, none, .bind false 5840 5840 0 contexts⟩, false)

/-- `_create_alter_context` -/
def createAlterContext (contexts : List ContextElement) (tr : SecTrailer) (signHeader : Bool) : Pdu :=
  ⟨mkHeader 14 tr.authValue.length 1 (if signHeader then pfcSupportHeaderSign else 0), some tr, .bind true 5840 5840 0 contexts⟩

/-- `_create_request`: (pdu, encrypt_offsets) -/
def createRequest (auth : Option Auth) (contextId opnum : Nat) (stub : Bytes) (vt : Option Bytes) : Pdu × Option (Nat × Nat) :=
  let stub1 := match vt with
    | some v => stub ++ Py.zeros (Py.negMod stub.length 4) ++ v
    | none => stub
  match auth with
  | some a =>
    let padLen := Py.negMod stub1.length 16
    let stub2 := stub1 ++ Py.zeros padLen
    let tr : SecTrailer := ⟨a.provider, 6, padLen, 0, Py.zeros a.headerLen⟩
    (⟨mkHeader 0 a.headerLen 1 0, some tr, .request stub2.length contextId opnum none stub2⟩, some (24, 24 + stub2.length))
  | none => (⟨mkHeader 0 0 1 0, none, .request stub1.length contextId opnum none stub1⟩, none)

/-- `view[8:10] = len(b_pdu).to_bytes(2, "little")` -/
def setFragLen (b : Bytes) : R Bytes := do
  let l ← le b.length 2
  pure (b.take 8 ++ l ++ b.drop 10)

/-- `_prepare_pdu` -/
def preparePdu (auth : Option Auth) (signHeader : Bool) (pdu : Pdu) (offsets : Option (Nat × Nat)) : R Bytes := do
  let b ← pduPack pdu
  let b ← setFragLen b
  match auth, offsets with
  | some a, some (s, e) =>
    let header := b.take s
    let body := Py.sliceN b s e
    let trailer := Py.sliceN b e (e + 8)
    let (sealed, signature) := a.wrap signHeader header body trailer
    pure (header ++ sealed ++ trailer ++ signature)
  | _, _ => pure b

/-- expected reply kinds -/
inductive Expect where | bindAck | alterContextResp | response
  deriving DecidableEq, Repr

def Expect.matches (e : Expect) (b : Body) : Bool :=
  match e, b with
  | .bindAck, .bindAck _ _ _ _ _ _ => true               -- AlterContextResponse is a subclass of BindAck
  | .alterContextResp, .bindAck true _ _ _ _ _ => true
  | .response, .response _ _ _ _ => true
  | _, _ => false

/-- `_process_response` -/
def processResponse (auth : Option Auth) (signHeader : Bool) (response : Bytes) (h : Header) (expect : Expect)
    (offsets : Option (Nat × Nat)) : R Pdu := do
  let sealed := auth.isSome ∧ offsets.isSome
  let response ←
    (match auth, offsets with
     | some a, some (s, _) =>
       if h.authLen ≠ 0 then do
         let off : Int := (h.fragLen : Int) - ((h.authLen : Int) + 8)
         let header := response.take s
         let body := Py.slice response s off
         let trailer := Py.slice response off (off + 8)
         let signature := Py.sliceFrom response (off + 8)
         let dec ← a.unwrap signHeader header body trailer signature
         -- `response[s:off] = dec_stub` (bytearray slice assignment)
         let a := Py.clampIdx response.length s
         let b := max (Py.clampIdx response.length off) a
         pure (response.take a ++ dec ++ response.drop b)
       else pure response
     | _, _ => pure response : R Bytes)
  let pdu ← pduUnpack response
  match pdu.body with
  | .response _ _ _ _ =>
    if sealed ∧ h.authLen = 0 then throw .valueError       -- cleartext reply to a sealed request
    else if expect.matches pdu.body then pure pdu else throw .valueError
  | .bindNak _ _ => throw .valueError
  | .fault _ _ _ _ _ _ => throw .valueError
  | b => if expect.matches b then pure pdu else throw .valueError

/-! ### transport: a `recv(n)` returns the first `min n |chunk|` bytes of the head chunk; no chunk left = EOF -/

/-- read exactly `n` bytes with the loop of the repaired `_send_pdu`
    (`while len(buf) < n: d = recv(n - len(buf)); if not d: raise ConnectionError; buf += d`):
    (data, remaining chunks, number of recv calls) -/
def readN : Nat → List Bytes → R (Bytes × List Bytes × Nat)
  | 0, chunks => .ok ([], chunks, 0)
  | _ + 1, [] => .error .connectionError                  -- `recv` returned b"": closed
  | n + 1, c :: rest =>
    if c = [] then .error .connectionError                  -- an empty read is EOF
    else if c.length ≤ n + 1 then
      (readN (n + 1 - c.length) rest).map fun (d, r, k) => (c ++ d, r, k + 1)
    else .ok (c.take (n + 1), c.drop (n + 1) :: rest, 1)

/-- number of `recv` calls the loop issues, including the one that observes EOF -/
def readNCalls : Nat → List Bytes → Nat
  | 0, _ => 0
  | _ + 1, [] => 1
  | n + 1, c :: rest =>
    if c = [] then 1
    else if c.length ≤ n + 1 then 1 + readNCalls (n + 1 - c.length) rest
    else 1

/-- sync `_send_pdu` receive half: header (16) then `frag_len − 16` more; `view[:16] = header` needs frag_len ≥ 16 -/
def recvSync (chunks : List Bytes) : R (Bytes × Header × List Bytes × Nat) := do
  let (hd, rest, k1) ← readN 16 chunks
  let h ← headerUnpack hd
  if h.fragLen < 16 then throw .valueError
  let (body, rest, k2) ← readN (h.fragLen - 16) rest
  pure (hd ++ body, h, rest, k1 + k2)

/-- async: `StreamReader.readexactly` (IncompleteReadError at EOF) over the same byte stream -/
def readExactly (n : Nat) (stream : Bytes) : R (Bytes × Bytes) :=
  if stream.length < n then .error .incompleteRead else .ok (stream.take n, stream.drop n)

def recvAsync (stream : Bytes) : R (Bytes × Header × Bytes) := do
  let (hd, rest) ← readExactly 16 stream
  let h ← headerUnpack hd
  if h.fragLen < 16 then throw .valueError
  let (body, rest) ← readExactly (h.fragLen - 16) rest
  pure (hd ++ body, h, rest)

/-! ### bind / alter-context handshake -/

/-- `_process_bind_ack`: (accepted contexts, token, still signing headers?) -/
def processBindAck (ack : Pdu) (contexts : List ContextElement) (signHeader : Bool) : R (List ContextElement × Option Bytes × Bool) :=
  match ack.body with
  | .bindAck _ _ _ _ _ results => do
    let acc ← (contexts.zipIdx.mapM fun (c, i) =>
      match results[i]? with
      | some r => pure (if r.result = 0 then [c] else [])
      | none => throw .indexError : R (List (List ContextElement)))
    let sh := if ack.header.packetFlags / 4 % 2 = 1 then signHeader else false
    pure (acc.flatten, ack.secTrailer.map (·.authValue), sh)
  | _ => .error .other

/-- one step of the scripted provider: (token out, context complete afterwards) -/
abbrev ProviderScript := List (Bytes × Bool)

structure Event where
  sentType : Nat
  sentFlags : Nat
  sentToken : Option Bytes
  sentContextIds : List Nat
  fedToken : Option Bytes          -- the `in_token` passed to `step` before this PDU (none for the first leg)
  deriving DecidableEq, Repr

structure BindResult where
  events : List Event
  signHeader : Bool
  outcome : R Pdu                 -- the bind_ack returned to the caller, or the error

/-- exchange one PDU with the scripted server: send `pdu`, take the next reply -/
def exchange (auth : Option Auth) (signHeader : Bool) (pdu : Pdu) (expect : Expect) (server : List Bytes) :
    R (Pdu × List Bytes) := do
  let _ ← preparePdu auth signHeader pdu none
  match server with
  | [] => throw .connectionError
  | reply :: rest =>
    let (resp, h, _, _) ← recvSync [reply]
    let p ← processResponse auth signHeader resp h expect none
    pure (p, rest)

def trailerOf (provider : Nat) (tok : Bytes) : SecTrailer := ⟨provider, 6, 0, 0, tok⟩

/-- the `while not self._auth.complete:` loop; fuel = provider steps left -/
def alterLoop (auth : Auth) : (script : ProviderScript) → (complete : Bool) → (inTok : Option Bytes) → (finalCtx : List ContextElement) →
    (signHeader : Bool) → (server : List Bytes) → (events : List Event) → (ack : Pdu) → BindResult
  | _, true, _, _, sh, _, ev, ack => ⟨ev, sh, .ok ack⟩
  | [], false, inTok, _, sh, _, ev, _ => ⟨ev ++ [⟨255, 0, none, [], some (inTok.getD [])⟩], sh, .error .other⟩   -- `step` raises
  | (tok, done) :: script, false, inTok, finalCtx, sh, server, ev, ack =>
    if tok = [] then ⟨ev ++ [⟨255, 0, none, [], some (inTok.getD [])⟩], sh, .ok ack⟩      -- empty final token: nothing is sent
    else
      let pdu := createAlterContext finalCtx (trailerOf auth.provider tok) sh
      let e : Event := ⟨14, pdu.header.packetFlags, some tok, finalCtx.map (·.contextId), some (inTok.getD [])⟩
      match exchange (some auth) sh pdu .alterContextResp server with
      | .error err => ⟨ev ++ [e], sh, .error err⟩
      | .ok (resp, server') =>
        match processBindAck resp finalCtx sh with
        | .error err => ⟨ev ++ [e], sh, .error err⟩
        | .ok (_, tok', sh') => alterLoop auth script done tok' finalCtx sh' server' (ev ++ [e]) ack

/-- `bind(contexts)` -/
def bind (auth : Option Auth) (script : ProviderScript) (contexts : List ContextElement) (server : List Bytes) : BindResult :=
  match auth with
  | none =>
    let (pdu, _) := createBind contexts none
    let e : Event := ⟨11, pdu.header.packetFlags, none, contexts.map (·.contextId), none⟩
    match exchange none false pdu .bindAck server with
    | .error err => ⟨[e], false, .error err⟩
    | .ok (ack, _) => ⟨[e], false, .ok ack⟩
  | some a =>
    match script with
    | [] => ⟨[], false, .error .other⟩
    | (tok, done) :: script' =>
      let (pdu, sh) := createBind contexts (some (trailerOf a.provider tok))
      let e : Event := ⟨11, pdu.header.packetFlags, some tok, contexts.map (·.contextId), none⟩
      match exchange auth sh pdu .bindAck server with
      | .error err => ⟨[e], sh, .error err⟩
      | .ok (ack, server') =>
        match processBindAck ack contexts sh with
        | .error err => ⟨[e], sh, .error err⟩
        | .ok (finalCtx, tok', sh') => alterLoop a script' done tok' finalCtx sh' server' [e] ack

/-- `_process_bind_result` -/
def processBindResult (requested : List ContextElement) (ack : Pdu) (desired : Nat) : R Unit :=
  match ack.body with
  | .bindAck _ _ _ _ _ results => do
    let acc ← (results.zipIdx.mapM fun (r, i) =>
      if r.result = 0 then
        match requested[i]? with
        | some c => pure [c.contextId]
        | none => throw .indexError
      else pure [] : R (List (List Nat)))
    if acc.flatten.contains desired then pure () else throw .valueError
  | _ => .error .other

end DpapiNg.RpcClient
