/-
  Model of `_security_descriptor.py` (as repaired: ASCII full-match grammar, range checks)
  and of `SIDDescriptor.get_target_sd`.
-/
import DpapiNg.Model.Py
namespace DpapiNg.SecDesc

structure Sid where
  rev : Nat
  auth : Nat
  subs : List Nat
  deriving DecidableEq, Repr, Inhabited

def Sid.WF (s : Sid) : Prop :=
  s.rev ≤ 9 ∧ s.auth < 2 ^ 48 ∧ 1 ≤ s.subs.length ∧ s.subs.length ≤ 15 ∧ ∀ x ∈ s.subs, x < 2 ^ 32

instance (s : Sid) : Decidable s.WF := by unfold Sid.WF; infer_instance

/-! ### the string grammar `^S-([0-9])-([0-9]+)(?:-[0-9]+){1,15}\Z` followed by `int()` -/

/-- the regular expression as written in `sid_to_bytes` (`\\Z`: no trailing newline; `[0-9]`: ASCII digits only). `grammarOk`
    below is its meaning on the `-`-split form; the translator re-checks on every run that the source still says exactly this. -/
def sidPatternSource : String := "^S-([0-9])-([0-9]+)(?:-[0-9]+){1,15}\\Z"

def isDigit (c : Char) : Bool := '0' ≤ c && c ≤ '9'

def decVal (cs : List Char) : Nat := cs.foldl (fun acc c => acc * 10 + (c.toNat - 48)) 0

/-- `str.split("-")` -/
def splitDash : List Char → List (List Char)
  | [] => [[]]
  | c :: cs =>
    match splitDash cs with
    | [] => [[c]]      -- unreachable: splitDash never returns []
    | p :: ps => if c = '-' then [] :: p :: ps else (c :: p) :: ps

def allDigits (p : List Char) : Bool := !p.isEmpty && p.all isDigit

/-- the regular expression, on the split form -/
def grammarOk (parts : List (List Char)) : Bool :=
  match parts with
  | s :: r :: rest =>
    s = ['S'] && r.length = 1 && allDigits r && rest.all allDigits && 2 ≤ rest.length && rest.length ≤ 16
  | _ => false

def parseSidStr (str : List Char) : R Sid :=
  let parts := splitDash str
  if ¬ grammarOk parts then .error .valueError else
  match parts with
  | _ :: r :: a :: subs =>
    let auth := decVal a
    if auth ≥ 2 ^ 48 then .error .valueError
    else if subs.any (fun p => decVal p ≥ 2 ^ 32) then .error .valueError
    else .ok ⟨decVal r, auth, subs.map decVal⟩
  | _ => .error .valueError

/-! ### binary forms -/

def sidBytes (s : Sid) : Bytes :=
  [s.rev, s.subs.length] ++ Py.toBE s.auth 6 ++ (s.subs.map (Py.toLE · 4)).flatten

def sidToBytes (str : List Char) : R Bytes := (parseSidStr str).map sidBytes

def aceBytes (sid : Bytes) (mask : Nat) : Bytes :=
  [0, 0] ++ Py.toLE (8 + sid.length) 2 ++ Py.toLE mask 4 ++ sid

def aclBytes (aces : List Bytes) : Bytes :=
  [2, 0] ++ Py.toLE (8 + aces.flatten.length) 2 ++ Py.toLE aces.length 2 ++ [0, 0] ++ aces.flatten

/-- `sd_to_bytes(owner, group, sacl=None, dacl=...)` on already-encoded SIDs / ACEs -/
def sdBytes (owner group : Bytes) (dacl : List Bytes) : Bytes :=
  let control := 0x8000
  let (control, daclOff, daclB, cur) :=
    if dacl.isEmpty then (control, 0, [], 20)
    else let b := aclBytes dacl; (control + 4, 20, b, 20 + b.length)
  let ownerOff := cur
  let groupOff := cur + owner.length
  [1, 0] ++ Py.toLE control 2 ++ Py.toLE ownerOff 4 ++ Py.toLE groupOff 4 ++ Py.toLE 0 4 ++ Py.toLE daclOff 4
    ++ daclB ++ owner ++ group

def systemSid : Sid := ⟨1, 5, [18]⟩
def everyoneSid : Sid := ⟨1, 1, [0]⟩

/-- `SIDDescriptor(value).get_target_sd()` for an already parsed SID -/
def targetSd (s : Sid) : Bytes :=
  sdBytes (sidBytes systemSid) (sidBytes systemSid) [aceBytes (sidBytes s) 3, aceBytes (sidBytes everyoneSid) 2]

def targetSdOfStr (str : List Char) : R Bytes := (parseSidStr str).map targetSd

end DpapiNg.SecDesc
