/-
  Model of the clock → (L0, L1, L2) map in `_client._get_protection_gke_from_cache`.
  `timeNs` is `time.time_ns()`; FILETIME ticks are 100 ns since 1601.
-/
import DpapiNg.Model.Py
namespace DpapiNg.Time

def epochFiletime : Nat := 116444736000000000
def base : Nat := 360000000000

/-- `current_time = (time.time_ns() // 100) + _EPOCH_FILETIME` -/
def currentTime (timeNs : Nat) : Nat := timeNs / 100 + epochFiletime

/-- the three index expressions, in MS-GKDI's closed form -/
def l0 (t : Nat) : Nat := t / (1024 * base)
def l1 (t : Nat) : Nat := (t / (32 * base)) % 32
def l2 (t : Nat) : Nat := (t / base) % 32

def indices (t : Nat) : Nat × Nat × Nat := (l0 t, l1 t, l2 t)

end DpapiNg.Time
