/-
  A toy, deterministic instantiation of `Crypto`, defined identically in harness/toycrypto.py.
  It is what the driver runs and what the harness scripts the third-party API with, so that the
  whole pipeline (blob bytes included) can be compared exactly between model and implementation.
  It is NOT cryptography: it is an injective-enough labelled function so that a different call
  pattern gives different bytes, plus the exact error behaviour of the real API's preconditions.
  It also witnesses that `Crypto.Laws` is satisfiable.
-/
import DpapiNg.Model.Crypto
namespace DpapiNg.Toy

def fnvPrime : UInt64 := 0x100000001b3
def fnvOffset : Nat := 0xcbf29ce484222325

/-- FNV-1a over 64-bit words (wrapping arithmetic) -/
def fnv (h : Nat) (b : Bytes) : Nat :=
  (b.foldl (fun (h : UInt64) x => (h ^^^ x.toUInt64) * fnvPrime) h.toUInt64).toNat

/-- length-prefixed serialisation of the parts -/
def ser (parts : List Bytes) : Bytes :=
  (parts.map fun p => Py.toLE p.length 4 ++ p).flatten

def block (h0 i : Nat) : Bytes := Py.toLE (fnv fnvOffset (Py.toLE h0 8 ++ Py.toLE i 4)) 8

/-- `n` pseudo-random bytes determined by a tag and the parts -/
def stream (tag : Nat) (parts : List Bytes) (n : Nat) : Bytes :=
  let h0 := fnv fnvOffset (tag :: ser parts)
  (((List.range ((n + 7) / 8)).map (block h0)).flatten).take n

def xor (a b : Bytes) : Bytes := List.zipWith Nat.xor a b

def hashId : Hash → Nat
  | .sha1 => 1 | .sha256 => 2 | .sha384 => 3 | .sha512 => 4

/-- toy group: scalars act on Z_q by multiplication; g = 7; y = (3x + 1) mod q -/
def q : Curve → Nat
  | .p256 => 65521 | .p384 => 65519 | .p521 => 65497
def width : Curve → Nat
  | .p256 => 32 | .p384 => 48 | .p521 => 66

def validKeyLen (k : Bytes) : Bool := k.length = 16 || k.length = 24 || k.length = 32

def crypto : Crypto where
  kbkdf := fun h secret label context n => stream (10 + hashId h) [secret, label, context, Py.toLE n 4] n
  concatKdf := fun h secret other n => stream (20 + hashId h) [secret, other, Py.toLE n 4] n
  ecPublic := fun cv d =>
    if d % q cv = 0 then .error .valueError
    else let x := (7 * d) % q cv; .ok (x, (3 * x + 1) % q cv)
  ecExchange := fun cv d x y =>
    if d % q cv = 0 then .error .valueError
    else if x ≥ q cv ∨ y ≠ (3 * x + 1) % q cv ∨ x = 0 then .error .valueError
    else .ok (Py.toBE ((d * x) % q cv) (width cv))
  keyWrap := fun kek cek =>
    if ¬ validKeyLen kek then .error .valueError
    else if cek.length < 16 ∨ cek.length % 8 ≠ 0 then .error .valueError
    else .ok (stream 30 [kek, cek] 8 ++ xor cek (stream 31 [kek] cek.length))
  keyUnwrap := fun kek w =>
    if ¬ validKeyLen kek then .error .valueError
    else if w.length < 24 ∨ w.length % 8 ≠ 0 then .error .invalidUnwrap
    else
      let body := w.drop 8
      let cek := xor body (stream 31 [kek] body.length)
      if stream 30 [kek, cek] 8 = w.take 8 then .ok cek else .error .invalidUnwrap
  gcmEncrypt := fun key iv pt =>
    if ¬ validKeyLen key then .error .valueError
    else if iv.length < 8 ∨ iv.length > 128 then .error .valueError
    else
      let ct := xor pt (stream 40 [key, iv] pt.length)
      .ok (ct ++ stream 41 [key, iv, ct] 16)
  gcmDecrypt := fun key iv data =>
    if ¬ validKeyLen key then .error .valueError
    else if iv.length < 8 ∨ iv.length > 128 then .error .valueError
    else if data.length < 16 then .error .invalidTag
    else
      let ct := data.take (data.length - 16)
      let tag := data.drop (data.length - 16)
      if stream 41 [key, iv, ct] 16 = tag then .ok (xor ct (stream 40 [key, iv] ct.length)) else .error .invalidTag

end DpapiNg.Toy
