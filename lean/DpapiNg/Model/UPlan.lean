/-
  `DPAPINGBlob.unpack` as data: the split of the input at the outer ContentInfo, the rejection tests (`if a or b …: raise ValueError`),
  the `x = Cls.unpack(<attribute path>)` calls, aliases, and the keyword table of the final `DPAPINGBlob(...)`.  The translator
  (`harness/extract.py`, kind "uplan") regenerates the plan from /repo's current source on every run; `Proofs/UPlan.lean` proves that
  `Blob.blobUnpack` is its interpretation (decoded objects as the `Val`s of `Proofs/WProg.lean`).
-/
import DpapiNg.Model.WProg
import DpapiNg.Model.Blob
namespace DpapiNg.UPlan
open DpapiNg DpapiNg.Asn1 DpapiNg.WProg

inductive UExpr where
  | var (x : String)                              -- a local
  | attr (e : UExpr) (a : String)                 -- `e.a`
  | first (e : UExpr)                             -- `e[0]`
  | orEmpty (e : UExpr)                           -- `e or b""`
  | orRest (e : UExpr)                            -- `e or remaining_data.tobytes()`
  deriving Repr

inductive Cond where                              -- one disjunct of a rejection test
  | intNe (e : UExpr) (n : Int)                   -- `e != n`
  | lenNe (e : UExpr) (n : Nat)                   -- `len(e) != n`
  | notInstance (e : UExpr) (cls : String)        -- `not isinstance(e, cls)` (every decoded recipient info IS a KEKRecipientInfo in the model)
  | oidNe (e : UExpr) (o : List Nat)              -- `e != <class OID constant>`
  | falsy (e : UExpr)                             -- `not e`
  deriving Repr

inductive Step where
  | split (x : String)      -- `header = ASN1Reader(view).peek_header()`; `x = ContentInfo.unpack(view[:n], header=header)`; `remaining_data = view[n:]`
  | reject (conds : List Cond)                    -- `if c1 or c2 or …: raise ValueError(...)`
  | unpack (x : String) (cls : String) (e : UExpr)   -- `x = cls.unpack(e)`
  | alias (x : String) (e : UExpr)                -- `x = e`
  deriving Repr

structure St where
  vals : List (String × Val)
  rest : Bytes

def eval (s : St) : UExpr → Val
  | .var x => (s.vals.lookup x).getD .none
  | .attr e a => (eval s e).field a
  | .first e => match eval s e with | .list (x :: _) => x | _ => .none
  | .orEmpty e => let v := eval s e; if v.truthy then v else .bytes []
  | .orRest e => let v := eval s e; if v.truthy then v else .bytes s.rest

def Cond.holds (s : St) : Cond → Bool
  | .intNe e n => match eval s e with | .int i => i != n | _ => true
  | .lenNe e n => match eval s e with | .list l => l.length != n | _ => true
  | .notInstance e _ => match eval s e with | .obj _ => false | _ => true
  | .oidNe e o => match eval s e with | .oid o' => o' != o | _ => true
  | .falsy e => !(eval s e).truthy

abbrev Call := String → Val → R Val

def runSteps (call : Call) (data : Bytes) : List Step → St → R St
  | [], s => .ok s
  | .split x :: rest, s => do
    let header ← readHeader data
    let n := header.tagLength + header.length
    let (ct, content) ← Blob.contentInfoUnpack (data.take n) header
    runSteps call data rest { vals := (x, .obj [("content_type", .oid ct), ("content", .bytes content)]) :: s.vals, rest := data.drop n }
  | .reject conds :: rest, s => if conds.any (Cond.holds s) then .error .valueError else runSteps call data rest s
  | .unpack x cls e :: rest, s => do
    let v ← call cls (eval s e)
    runSteps call data rest { s with vals := (x, v) :: s.vals }
  | .alias x e :: rest, s => runSteps call data rest { s with vals := (x, eval s e) :: s.vals }

/-- `DPAPINGBlob.unpack(data)`: the steps, then `return DPAPINGBlob(kw=<expr>, …)` -/
def run (call : Call) (plan : List Step × List (String × UExpr)) (data : Bytes) : R Val := do
  let s ← runSteps call data plan.1 ⟨[], []⟩
  .ok (.obj (plan.2.map fun (k, e) => (k, eval s e)))

end DpapiNg.UPlan
