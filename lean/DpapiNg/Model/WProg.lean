/-
  ASN.1 writer programs as data.  A `pack(self, writer)` method of `_pkcs7.py` / `_blob.py` — nested
  `with w.push_sequence(...) as w2:` blocks around `w.write_*(self.f)`, `self.f.pack(w)`, `if self.f:` and
  `for x in self.f: x.pack(w)` — is a `List Op`; the translator (`harness/extract.py`, kind "wprog") regenerates that
  list from /repo's current source on every run, and `Proofs/WProg.lean` proves that the hand-written model of the
  same `pack` (`Blob.algIdPack`, `Blob.kekIdPack`, …) is the interpretation of the list.
-/
import DpapiNg.Model.Asn1
namespace DpapiNg.WProg
open DpapiNg DpapiNg.Asn1

/-- the values a dataclass field can hold (OIDs are arc lists, text is carried as its UTF-8 bytes) -/
inductive Val where
  | int (i : Int)
  | bytes (b : Bytes)
  | oid (o : List Nat)
  | none
  | obj (fields : List (String × Val))
  | list (l : List Val)

def Val.field (v : Val) (f : String) : Val :=
  match v with
  | .obj fs => (fs.lookup f).getD .none
  | _ => .none

/-- Python truthiness (`if self.f:`) -/
def Val.truthy : Val → Bool
  | .int i => i != 0
  | .bytes b => !b.isEmpty
  | .oid _ => true
  | .none => false
  | .obj _ => true
  | .list l => !l.isEmpty

inductive Op where
  | int (f : String)                         -- `w.write_integer(self.f)`
  | oid (f : String)                         -- `w.write_object_identifier(self.f)`
  | octets (f : String) (tag : Option Tag)   -- `w.write_octet_string(self.f[, ASN1Tag(...)])`
  | genTime (f : String)                     -- `w.write_generalized_time(self.f)`
  | utf8 (f : String)                        -- `w.write_utf8_string(self.f)`
  | raw (f : String)                         -- `w.write_raw(self.f)`
  | sub (f : String) (cls : String)          -- `self.f.pack(w)`, `cls` from the field's annotation
  | each (f : String) (cls : String)         -- `for x in self.f: x.pack(w)`
  | ifTruthy (f : String) (body : List Op)   -- `if self.f:`
  | seq (tag : Option Tag) (body : List Op)  -- `with w.push_sequence([tag=...]) as w2:`
  | setOf (body : List Op)                   -- `with w.push_set_of() as w2:`
  deriving Repr

mutual
/-- one writer statement; `call cls v` is `v.pack(w)` for an object of class `cls` -/
def runOp (call : String → Val → R Bytes) (self : Val) : Op → R Bytes
  | .int f => match self.field f with | .int i => packInteger i | _ => .error .typeError
  | .oid f => match self.field f with | .oid o => packOid o | _ => .error .typeError
  | .octets f tag => match self.field f with | .bytes b => packOctetString b tag | _ => .error .typeError
  | .genTime f => match self.field f with | .bytes b => packGenTime b | _ => .error .typeError
  | .utf8 f => match self.field f with | .bytes b => packUtf8 b | _ => .error .typeError
  | .raw f => match self.field f with | .bytes b => .ok b | _ => .error .typeError
  | .sub f cls => call cls (self.field f)
  | .each f cls => match self.field f with
    | .list l => (l.mapM (call cls)).map List.flatten
    | _ => .error .typeError
  | .ifTruthy f body => if (self.field f).truthy then runOps call self body else .ok []
  | .seq tag body => do
    let c ← runOps call self body
    packTLV (tag.getD tSEQ) c
  | .setOf body => do
    let c ← runOps call self body
    packTLV tSET c
def runOps (call : String → Val → R Bytes) (self : Val) : List Op → R Bytes
  | [] => .ok []
  | op :: rest => do
    let a ← runOp call self op
    let b ← runOps call self rest
    pure (a ++ b)
end

def noCall : String → Val → R Bytes := fun _ _ => .error .typeError

end DpapiNg.WProg
