/-
  `_pack_asn1_integer` and the (repaired) `_read_asn1_integer` are inverse for every integer.
  Little-endian digit lists: the Python writer builds LE then reverses; the reader's carry
  walks BE from the end = LE from the start.
-/
import DpapiNg.Model.Asn1
namespace DpapiNg.Asn1

abbrev Dig (ds : List Nat) : Prop := IsBytes ds

/-- value of everything below the most significant digit -/
def low : List Nat → Nat
  | [] => 0
  | [_] => 0
  | d :: d' :: ds => d + 256 * low (d' :: ds)

@[simp] theorem valLE_nil : valLE [] = 0 := rfl
@[simp] theorem valLE_cons (d : Nat) (ds : List Nat) : valLE (d :: ds) = d + 256 * valLE ds := rfl

/-! ### generic digit lemmas -/
theorem pow_pos' (k : Nat) : 0 < 256 ^ k := Nat.pow_pos (by omega)

theorem valLE_append (a b : List Nat) : valLE (a ++ b) = valLE a + 256 ^ a.length * valLE b := by
  induction a with
  | nil => simp
  | cons d ds ih =>
    simp only [List.cons_append, valLE_cons, valLE_nil, ih, List.length_cons, Nat.pow_succ]
    rw [Nat.mul_add, Nat.mul_comm (256 ^ ds.length) 256, Nat.mul_assoc]; omega

theorem valLE_lt (ds : List Nat) (h : Dig ds) : valLE ds < 256 ^ ds.length := by
  induction ds with
  | nil => simp
  | cons d ds ih =>
    have hd : d < 256 := h d (by simp)
    have := ih (fun x hx => h x (by simp [hx]))
    simp only [valLE_cons, valLE_nil, List.length_cons, Nat.pow_succ]; omega

theorem incLE_length (ds : List Nat) : (incLE ds).length = ds.length := by
  induction ds with
  | nil => rfl
  | cons d ds ih => simp only [incLE]; split <;> simp [ih]

theorem incLE_val (ds : List Nat) (h : Dig ds) (hno : valLE ds + 1 < 256 ^ ds.length) :
    valLE (incLE ds) = valLE ds + 1 := by
  induction ds with
  | nil => simp at hno
  | cons d ds ih =>
    have hd : d < 256 := h d (by simp)
    have ht : Dig ds := fun x hx => h x (by simp [hx])
    simp only [incLE]; split
    · simp only [valLE_cons, valLE_nil]; omega
    · have hd' : d = 255 := by omega
      subst hd'
      have : valLE ds + 1 < 256 ^ ds.length := by
        simp only [valLE_cons, valLE_nil, List.length_cons, Nat.pow_succ] at hno; omega
      simp only [valLE_cons, valLE_nil, ih ht this]; omega

theorem incLE_dig (ds : List Nat) (h : Dig ds) : Dig (incLE ds) := by
  induction ds with
  | nil => exact h
  | cons d ds ih =>
    have hd : d < 256 := h d (by simp)
    have ht : Dig ds := fun x hx => h x (by simp [hx])
    simp only [incLE]; split
    · intro x hx; simp at hx; rcases hx with rfl | hx
      · omega
      · exact ht x hx
    · intro x hx; simp at hx; rcases hx with rfl | hx
      · omega
      · exact ih ht x hx

theorem map_inv_val (ds : List Nat) (h : Dig ds) :
    valLE (ds.map (0xFF - ·)) + valLE ds + 1 = 256 ^ ds.length := by
  induction ds with
  | nil => simp
  | cons d ds ih =>
    have hd : d < 256 := h d (by simp)
    have := ih (fun x hx => h x (by simp [hx]))
    simp only [List.map_cons, valLE_cons, valLE_nil, List.length_cons, Nat.pow_succ]; omega

theorem map_inv_dig (ds : List Nat) : Dig (ds.map (0xFF - ·)) := by
  intro x hx; simp at hx; obtain ⟨a, _, rfl⟩ := hx; omega

theorem val_split (ds : List Nat) (hne : ds ≠ []) :
    valLE ds = low ds + 256 ^ (ds.length - 1) * top ds := by
  induction ds with
  | nil => exact absurd rfl hne
  | cons d ds ih =>
    cases ds with
    | nil => simp [valLE_cons, valLE_nil, low, top]
    | cons d' ds' =>
      have := ih (by simp)
      simp only [valLE_cons, valLE_nil, low, top, List.length_cons, Nat.add_sub_cancel] at this ⊢
      rw [Nat.pow_succ]
      have e : 256 ^ ds'.length * 256 * top (d' :: ds') = 256 * (256 ^ ds'.length * top (d' :: ds')) := by
        rw [Nat.mul_comm (256 ^ ds'.length) 256, Nat.mul_assoc]
      rw [e]; omega

theorem low_lt (ds : List Nat) (h : Dig ds) (hne : ds ≠ []) : low ds < 256 ^ (ds.length - 1) := by
  induction ds with
  | nil => exact absurd rfl hne
  | cons d ds ih =>
    cases ds with
    | nil => simp [low]
    | cons d' ds' =>
      have hd : d < 256 := h d (by simp)
      have := ih (fun x hx => h x (by simp [hx])) (by simp)
      simp only [low, List.length_cons, Nat.add_sub_cancel] at this ⊢
      rw [Nat.pow_succ]; omega

theorem top_lt (ds : List Nat) (h : Dig ds) : top ds < 256 := by
  induction ds with
  | nil => simp [top]
  | cons d ds ih =>
    cases ds with
    | nil => simpa [top] using h d (by simp)
    | cons d' ds' => simpa [top] using ih (fun x hx => h x (by simp [hx]))

theorem top_append_one (ds : List Nat) (x : Nat) : top (ds ++ [x]) = x := by
  induction ds with
  | nil => simp [top]
  | cons d ds ih =>
    cases ds with
    | nil => simp [top]
    | cons d' ds' => simpa [top] using ih

theorem top_cons (d : Nat) (ds : List Nat) (hne : ds ≠ []) : top (d :: ds) = top ds := by
  cases ds with
  | nil => exact absurd rfl hne
  | cons d' ds' => simp [top]

/-- the reader computes the signed (two's complement) value of the digit string -/
theorem readLE_signed (ds : List Nat) (h : Dig ds) (hne : ds ≠ []) :
    readLE ds = if 0x80 ≤ top ds then (valLE ds : Int) - ((256 ^ ds.length : Nat) : Int) else (valLE ds : Int) := by
  unfold readLE
  split
  · rename_i ht
    have hinv := map_inv_val ds h
    have hpos : 0 < valLE ds := by
      have hs := val_split ds hne
      have hp := pow_pos' (ds.length - 1)
      have : 256 ^ (ds.length - 1) * 1 ≤ 256 ^ (ds.length - 1) * top ds := Nat.mul_le_mul_left _ (by omega)
      omega
    have hlen : (ds.map (0xFF - ·)).length = ds.length := by simp
    have hno : valLE (ds.map (0xFF - ·)) + 1 < 256 ^ (ds.map (0xFF - ·)).length := by rw [hlen]; omega
    rw [incLE_val _ (map_inv_dig ds) hno]
    omega
  · rfl

/-! ### the writer's digit strings -/
theorem digitsPos_spec (v : Nat) :
    valLE (digitsPos v) = v ∧ Dig (digitsPos v) ∧ digitsPos v ≠ [] ∧ top (digitsPos v) ≤ 0x7F := by
  induction v using Nat.strongRecOn with
  | _ v ih =>
    unfold digitsPos
    split
    · refine ⟨by simp, ?_, by simp, by simp [top]; omega⟩
      intro x hx; simp at hx; omega
    · obtain ⟨h1, h2, h3, h4⟩ := ih (v / 256) (by omega)
      refine ⟨by simp only [valLE_cons, valLE_nil, h1]; omega, ?_, by simp, ?_⟩
      · intro x hx; simp at hx; rcases hx with rfl | hx
        · omega
        · exact h2 x hx
      · rw [top_cons _ _ h3]; exact h4

theorem digitsNegRaw_spec (n : Nat) :
    valLE (digitsNegRaw n) + n + 1 = 256 ^ (digitsNegRaw n).length ∧ Dig (digitsNegRaw n) ∧ digitsNegRaw n ≠ [] ∧
    n + 1 ≤ 129 * 256 ^ ((digitsNegRaw n).length - 1) := by
  induction n using Nat.strongRecOn with
  | _ n ih =>
    unfold digitsNegRaw
    split
    · refine ⟨by simp only [valLE_cons, valLE_nil, List.length_singleton]; omega, ?_, by simp, by simp; omega⟩
      intro x hx; simp at hx; omega
    · obtain ⟨h1, h2, h3, h4⟩ := ih (n / 256) (by omega)
      have hlen : 0 < (digitsNegRaw (n / 256)).length := List.length_pos_iff.mpr h3
      refine ⟨?_, ?_, by simp, ?_⟩
      · simp only [valLE_cons, valLE_nil, List.length_cons, Nat.pow_succ]; omega
      · intro x hx; simp at hx; rcases hx with rfl | hx
        · omega
        · exact h2 x hx
      · obtain ⟨m, hm⟩ : ∃ m, (digitsNegRaw (n / 256)).length = m + 1 := ⟨_, (Nat.succ_pred_eq_of_pos hlen).symm⟩
        simp only [List.length_cons, hm, Nat.add_sub_cancel] at h4 ⊢
        rw [Nat.pow_succ]; omega

/-! ### round trip -/
theorem packLE_nonempty (v : Int) : packLE v ≠ [] := by
  unfold packLE
  split
  · have ⟨_, _, h3, _⟩ := digitsNegRaw_spec v.natAbs
    have : incLE (digitsNegRaw v.natAbs) ≠ [] := by
      intro h; have := congrArg List.length h; rw [incLE_length] at this
      exact h3 (List.eq_nil_of_length_eq_zero this)
    simp only []; split
    · simp
    · exact this
  · exact (digitsPos_spec _).2.2.1

theorem read_pack (v : Int) : readLE (packLE v) = v := by
  unfold packLE
  split
  · -- negative
    rename_i hv
    generalize hn : v.natAbs = n
    have hnpos : 0 < n := by omega
    have hvn : v = -(n : Int) := by omega
    obtain ⟨h1, h2, h3, h4⟩ := digitsNegRaw_spec n
    generalize hraw : digitsNegRaw n = raw at h1 h2 h3 h4
    have hk : 0 < raw.length := List.length_pos_iff.mpr h3
    have hb_dig := incLE_dig raw h2
    have hb_len := incLE_length raw
    have hb_val : valLE (incLE raw) = valLE raw + 1 := incLE_val raw h2 (by omega)
    have hb_ne : incLE raw ≠ [] := by
      intro h; have := congrArg List.length h; rw [hb_len] at this; simp only [List.length_nil] at this; omega
    -- the top digit of the k-byte two's complement is ≥ 0x7F
    have hsplit := val_split (incLE raw) hb_ne
    have hlow := low_lt (incLE raw) hb_dig hb_ne
    rw [hb_len] at hsplit hlow
    have hP := pow_pos' (raw.length - 1)
    have hPk : 256 ^ raw.length = 256 * 256 ^ (raw.length - 1) := by
      obtain ⟨m, hm⟩ : ∃ m, raw.length = m + 1 := ⟨_, (Nat.succ_pred_eq_of_pos hk).symm⟩
      rw [hm, Nat.add_sub_cancel, Nat.pow_succ, Nat.mul_comm]
    have htop : 0x7F ≤ top (incLE raw) := by
      apply Classical.byContradiction; intro hc
      have : 256 ^ (raw.length - 1) * top (incLE raw) ≤ 256 ^ (raw.length - 1) * 126 := Nat.mul_le_mul_left _ (by omega)
      omega
    simp only []
    split
    · -- top = 0x7F : one more octet 0xFF
      rename_i h7f
      have hd : Dig (incLE raw ++ [0xFF]) := by
        intro x hx; simp at hx; rcases hx with hx | rfl
        · exact hb_dig x hx
        · omega
      rw [readLE_signed _ hd (by simp), top_append_one]
      simp only [show (0x80 : Nat) ≤ 0xFF by omega, if_true, valLE_append, hb_len, List.length_append, List.length_singleton, valLE_cons, valLE_nil]
      rw [Nat.pow_succ]
      omega
    · rename_i h7f
      rw [readLE_signed _ hb_dig hb_ne]
      have : 0x80 ≤ top (incLE raw) := by omega
      simp only [this, if_true, hb_len]
      omega
  · -- non-negative
    rename_i hv
    obtain ⟨h1, h2, h3, h4⟩ := digitsPos_spec v.toNat
    rw [readLE_signed _ h2 h3]
    have : ¬ (0x80 ≤ top (digitsPos v.toNat)) := by omega
    simp only [this, if_false, h1]
    omega



/-- the positive loop appends another octet only while the remaining value exceeds 0x7F, so a
    multi-octet encoding never starts with a redundant 00 octet -/
theorem digitsPos_minimal (v : Nat) :
    (digitsPos v).length > 1 → ¬ (top (digitsPos v) = 0 ∧ top ((digitsPos v).dropLast) < 0x80) := by
  induction v using Nat.strongRecOn with
  | _ v ih =>
    intro hlen
    unfold digitsPos at hlen ⊢
    by_cases h : v ≤ 0x7F
    · simp [h] at hlen
    · simp only [h, if_false] at hlen ⊢
      by_cases h2 : v / 256 ≤ 0x7F
      · have e : digitsPos (v / 256) = [v / 256] := by unfold digitsPos; simp [h2]
        simp only [e, top, List.dropLast]
        omega
      · have hne := (digitsPos_spec (v / 256)).2.2.1
        have hlen' : (digitsPos (v / 256)).length > 1 := by
          have e : digitsPos (v / 256) = (v / 256 % 256) :: digitsPos (v / 256 / 256) := by
            conv => lhs; unfold digitsPos
            simp [h2]
          rw [e]
          have h3 := (digitsPos_spec (v / 256 / 256)).2.2.1
          have : 0 < (digitsPos (v / 256 / 256)).length := List.length_pos_iff.mpr h3
          simp only [List.length_cons]; omega
        have := ih (v / 256) (by omega) hlen'
        rw [top_cons _ _ hne]
        have hdl : (v % 256 :: digitsPos (v / 256)).dropLast = v % 256 :: (digitsPos (v / 256)).dropLast := by
          cases hd : digitsPos (v / 256) with
          | nil => exact absurd hd hne
          | cons a as => simp [List.dropLast]
        rw [hdl]
        have hne2 : (digitsPos (v / 256)).dropLast ≠ [] := by
          intro hnil
          have := congrArg List.length hnil
          simp at this; omega
        rw [top_cons _ _ hne2]
        exact this

end DpapiNg.Asn1
