/-
  OBJECT IDENTIFIER round trip: `_read_asn1_object_identifier ∘ _pack_asn1_object_identifier = id`
  for every OID with first arc ≤ 2 and second arc ≤ 39 (later arcs of any size).
-/
import DpapiNg.Proofs.Asn1Rt
namespace DpapiNg.Asn1

theorem arcOctets_ne_nil (n : Nat) : arcOctets n ≠ [] := by
  unfold arcOctets
  split
  · simp
  · rename_i h
    have := (b128LE_spec n).2.2 (by omega)
    unfold packOctetNumber
    intro hnil
    have hl := congrArg List.length hnil
    simp only [List.length_reverse, List.length_nil] at hl
    cases hb : b128LE n with
    | nil => exact this hb
    | cons d ds => rw [hb] at hl; simp [contLE] at hl

theorem unpack_arcOctets (n : Nat) (rest : Bytes) :
    unpackOctetNumber (arcOctets n ++ rest) = .ok (n, (arcOctets n).length) := by
  unfold arcOctets
  split
  · rename_i h; subst h
    simp [unpackOctetNumber, unpackOctetNumberAux]
  · rename_i h
    exact unpack_pack_octetNumber n (by omega) rest

theorem readArcs_flatten (arcs : List Nat) (fuel : Nat) (hf : ((arcs.map arcOctets).flatten).length ≤ fuel) :
    readArcs fuel ((arcs.map arcOctets).flatten) = .ok arcs := by
  induction arcs generalizing fuel with
  | nil => cases fuel <;> simp [readArcs]
  | cons a as ih =>
    simp only [List.map_cons, List.flatten_cons] at hf ⊢
    have hne := arcOctets_ne_nil a
    have hpos : 0 < (arcOctets a).length := List.length_pos_iff.mpr hne
    cases fuel with
    | zero => simp only [List.length_append] at hf; omega
    | succ fuel =>
      cases hb : arcOctets a ++ (as.map arcOctets).flatten with
      | nil =>
        have := congrArg List.length hb
        simp only [List.length_append, List.length_nil] at this; omega
      | cons x xs =>
        simp only [readArcs]
        rw [← hb, unpack_arcOctets]
        simp only [Bind.bind, Except.bind, List.drop_left]
        rw [ih fuel (by simp only [List.length_append] at hf; omega)]

theorem small_arc (n : Nat) (h : n < 128) : arcOctets n = [n] := by
  unfold arcOctets
  split
  · rename_i h0; subst h0; rfl
  · rename_i h0
    unfold packOctetNumber
    have e : b128LE n = [n] := by
      unfold b128LE
      simp only [h0, if_false]
      have : n / 128 = 0 := by omega
      rw [this]
      unfold b128LE
      simp; omega
    simp [e, contLE]

/-- the content octets `_encode_object_identifier` emits -/
def oidContent (a b : Nat) (rest : List Nat) : Bytes := (40 * a + b) :: (rest.map arcOctets).flatten

theorem encodeOid_ok (a b : Nat) (rest : List Nat) (ha : a ≤ 2) (hb : b ≤ 39) :
    encodeOid (a :: b :: rest) = .ok (oidContent a b rest) := by
  unfold encodeOid
  have : ¬ (a > 39 ∨ b > 39) := by omega
  simp only [this, if_false, small_arc (40 * a + b) (by omega), oidContent, List.cons_append, List.nil_append]

theorem readOid_tlv (a b : Nat) (rest : List Nat) (ha : a ≤ 2) (hb : b ≤ 39) (tail : Bytes)
    (hlen : (oidContent a b rest).length < 256 ^ 127) :
    readOid (tlv tOID (oidContent a b rest) ++ tail) = .ok (a :: b :: rest, (tlv tOID (oidContent a b rest)).length) := by
  have hwf : tOID.WF := by decide
  unfold readOid
  rw [validateTag_tlv tOID hwf _ tail hlen none tOID rfl]
  simp only [Bind.bind, Except.bind, oidContent]
  rw [readArcs_flatten rest _ (Nat.le_refl _)]
  simp only []
  have e1 : (40 * a + b) / 40 = a := by omega
  have e2 : (40 * a + b) % 40 = b := by omega
  rw [e1, e2]

theorem packOid_ok (a b : Nat) (rest : List Nat) (ha : a ≤ 2) (hb : b ≤ 39) :
    packOid (a :: b :: rest) = .ok (tlv tOID (oidContent a b rest)) := by
  have hwf : tOID.WF := by decide
  unfold packOid
  simp only [encodeOid_ok a b rest ha hb, Bind.bind, Except.bind, Option.getD, packTLV_ok tOID hwf]

end DpapiNg.Asn1
