/-
  Round trips of the primitive readers over the primitive writers, with exact consumption.
-/
import DpapiNg.Proofs.Asn1Tlv
import DpapiNg.Proofs.Asn1Int
namespace DpapiNg.Asn1

/-- the bytes `packTLV` emits (its only failure is a class outside 0..3) -/
def tlv (t : Tag) (c : Bytes) : Bytes := identifierOctets t ++ lengthOctets c.length ++ c

theorem packTLV_ok (t : Tag) (ht : t.WF) (c : Bytes) : packTLV t c = .ok (tlv t c) := by
  unfold packTLV tlv
  have : ¬ t.cls > 3 := by have := ht.1; omega
  simp [this]

theorem identifierOctets_ne_nil (t : Tag) : identifierOctets t ≠ [] := by
  unfold identifierOctets; simp only; split <;> simp

theorem tlv_ne_nil (t : Tag) (c : Bytes) : tlv t c ≠ [] := by
  intro h
  have := congrArg List.length h
  simp only [tlv, List.length_append, List.length_nil] at this
  have h1 : 0 < (identifierOctets t).length := List.length_pos_iff.mpr (identifierOctets_ne_nil t)
  omega

theorem truthy_tlv (t : Tag) (c : Bytes) : (tlv t c).isEmpty = false := by
  cases h : tlv t c with
  | nil => exact absurd h (tlv_ne_nil t c)
  | cons x xs => rfl

theorem tlv_length (t : Tag) (c : Bytes) : (tlv t c).length = headerLen t c.length + c.length := by
  simp [tlv, headerLen, Nat.add_assoc]

/-- any reader built on `_validate_tag` recovers exactly the content and consumes exactly the TLV -/
theorem validateTag_tlv (t : Tag) (ht : t.WF) (c rest : Bytes) (hc : c.length < 256 ^ 127)
    (expected : Option Tag) (typeTag : Tag) (hexp : expected.getD typeTag = t) :
    validateTag (tlv t c ++ rest) expected typeTag none = .ok (c, (tlv t c).length) := by
  unfold validateTag
  have hh := readHeader_packed t ht c rest hc
  have hdrop : List.drop (headerLen t c.length) (tlv t c ++ rest) = c ++ rest := by
    simp only [tlv]
    rw [List.append_assoc, List.append_assoc]
    have : headerLen t c.length = (identifierOctets t ++ lengthOctets c.length).length := by simp [headerLen]
    rw [← List.append_assoc, this, List.drop_left]
  have hlt : ¬ (c ++ rest).length < c.length := by simp
  simp only [tlv] at hh hdrop ⊢
  simp only [hh, Bind.bind, Except.bind, hexp, ne_eq, not_true_eq_false, if_false, hdrop, hlt, List.take_left]
  simp [headerLen, Nat.add_assoc]

/-- same, when the caller passes the header it peeked (the `header=` argument) -/
theorem validateTag_tlv_header (t : Tag) (c rest : Bytes) (typeTag : Tag) :
    validateTag (tlv t c ++ rest) none typeTag (some ⟨t, headerLen t c.length, c.length⟩)
      = .ok (c, (tlv t c).length) := by
  unfold validateTag
  have hdrop : List.drop (headerLen t c.length) (tlv t c ++ rest) = c ++ rest := by
    simp only [tlv]
    rw [List.append_assoc, List.append_assoc]
    have : headerLen t c.length = (identifierOctets t ++ lengthOctets c.length).length := by simp [headerLen]
    rw [← List.append_assoc, this, List.drop_left]
  have hlt : ¬ (c ++ rest).length < c.length := by simp
  simp only [Bind.bind, Except.bind, Option.getD, ne_eq, not_true_eq_false, if_false, hdrop, hlt, List.take_left]
  simp [headerLen, tlv, Nat.add_assoc]

theorem packLE_isBytes (v : Int) : IsBytes (packLE v) := by
  unfold packLE
  split
  · have ⟨_, h2, _, _⟩ := digitsNegRaw_spec v.natAbs
    have hb := incLE_dig _ h2
    simp only []
    split
    · intro x hx; simp at hx; rcases hx with hx | rfl
      · exact hb x hx
      · omega
    · exact hb
  · exact (digitsPos_spec _).2.1

end DpapiNg.Asn1
