/-
  TLV round trip: `readHeader` / `validateTag` invert `packTLV` for every well-formed tag
  and every content (length short or long form), with exact consumption.
-/
import DpapiNg.Model.Asn1
namespace DpapiNg.Asn1

/-! ### base-128 -/

def val128 : List Nat → Nat
  | [] => 0
  | d :: ds => d + 128 * val128 ds

theorem b128LE_spec (n : Nat) : val128 (b128LE n) = n ∧ (∀ d ∈ b128LE n, d < 128) ∧ (0 < n → b128LE n ≠ []) := by
  induction n using Nat.strongRecOn with
  | _ n ih =>
    unfold b128LE
    split
    · subst_vars; simp [val128]
    · obtain ⟨h1, h2, _⟩ := ih (n / 128) (by omega)
      refine ⟨by simp only [val128, h1]; omega, ?_, by simp⟩
      intro d hd; simp at hd; rcases hd with rfl | hd
      · omega
      · exact h2 d hd

theorem unpackAux_cont (ds : List Nat) (hds : ∀ d ∈ ds, d < 128) (tail : Bytes) (acc idx : Nat) :
    unpackOctetNumberAux ((ds.map (· + 128)).reverse ++ tail) acc idx
      = unpackOctetNumberAux tail (acc * 128 ^ ds.length + val128 ds) (idx + ds.length) := by
  induction ds generalizing tail with
  | nil => simp [val128]
  | cons d ds ih =>
    have hd : d < 128 := hds d (by simp)
    have hds' : ∀ x ∈ ds, x < 128 := fun x hx => hds x (by simp [hx])
    simp only [List.map_cons, List.reverse_cons, List.append_assoc, List.singleton_append]
    rw [ih hds']
    simp only [unpackOctetNumberAux]
    have h1 : (d + 128) / 128 % 2 = 1 := by omega
    have h2 : (d + 128) % 128 = d := by omega
    simp only [h1, h2, show ¬ ((1 : Nat) = 0) by omega, if_false, List.length_cons, val128]
    have e : (acc * 128 ^ ds.length + val128 ds) * 128 + d = acc * 128 ^ (ds.length + 1) + (d + 128 * val128 ds) := by
      rw [Nat.pow_succ, Nat.add_mul, Nat.mul_assoc]; omega
    rw [e, Nat.add_assoc]

theorem unpack_pack_octetNumber (n : Nat) (hn : 0 < n) (rest : Bytes) :
    unpackOctetNumber (packOctetNumber n ++ rest) = .ok (n, (packOctetNumber n).length) := by
  obtain ⟨hv, hd, hne⟩ := b128LE_spec n
  have hne' := hne hn
  unfold unpackOctetNumber packOctetNumber
  generalize hb : b128LE n = ds at *
  cases ds with
  | nil => exact absurd rfl hne'
  | cons d0 ds =>
    have hd0 : d0 < 128 := hd d0 (by simp)
    have hds : ∀ x ∈ ds, x < 128 := fun x hx => hd x (by simp [hx])
    simp only [contLE, List.reverse_cons, List.append_assoc, List.singleton_append]
    rw [unpackAux_cont ds hds]
    simp only [unpackOctetNumberAux]
    have h1 : d0 / 128 % 2 = 0 := by omega
    have h2 : d0 % 128 = d0 := by omega
    simp only [h1, h2, if_true, List.length_append, List.length_reverse, List.length_map, List.length_singleton]
    simp only [val128] at hv
    congr 2
    · omega
    · omega

/-! ### long-form length -/

theorem minLE_spec (n : Nat) : Py.fromLE (minLE n) = n ∧ IsBytes (minLE n) := by
  induction n using Nat.strongRecOn with
  | _ n ih =>
    unfold minLE
    split
    · subst_vars; exact ⟨rfl, by intro x hx; simp at hx⟩
    · obtain ⟨h1, h2⟩ := ih (n / 256) (by omega)
      refine ⟨by simp only [Py.fromLE, h1]; omega, ?_⟩
      intro d hd; simp at hd; rcases hd with rfl | hd
      · omega
      · exact h2 d hd

theorem minLE_length_le (k n : Nat) (h : n < 256 ^ k) : (minLE n).length ≤ k := by
  induction k generalizing n with
  | zero => simp at h; subst h; unfold minLE; simp
  | succ k ih =>
    unfold minLE
    split
    · simp
    · have : n / 256 < 256 ^ k := by rw [Nat.pow_succ] at h; omega
      have := ih (n / 256) this
      simp only [List.length_cons]; omega

theorem minLE_pos (n : Nat) (h : 0 < n) : 0 < (minLE n).length := by
  unfold minLE; split
  · omega
  · simp

theorem readLen_rev (ds : List Nat) (tail : Bytes) (acc : Nat) :
    readLenOctets ds.length (ds.reverse ++ tail) acc = .ok (acc * 256 ^ ds.length + Py.fromLE ds) := by
  induction ds generalizing tail with
  | nil => simp [readLenOctets, Py.fromLE]
  | cons d ds ih =>
    -- peel the *last* read: reverse (d :: ds) = reverse ds ++ [d]
    have key : ∀ (k : Nat) (xs : Bytes) (y : Nat) (t : Bytes) (a : Nat), xs.length = k →
        readLenOctets (k + 1) (xs ++ y :: t) a = (readLenOctets k (xs ++ y :: t) a).bind (fun v => .ok (v * 256 + y)) := by
      intro k
      induction k with
      | zero => intro xs y t a hx; have : xs = [] := List.eq_nil_of_length_eq_zero hx; subst this; simp [readLenOctets, Except.bind]
      | succ k ihk =>
        intro xs y t a hx
        cases xs with
        | nil => simp at hx
        | cons x xs =>
          simp only [List.cons_append, readLenOctets]
          exact ihk xs y t (a * 256 + x) (by simpa using hx)
    simp only [List.reverse_cons, List.append_assoc, List.singleton_append, List.length_cons]
    rw [key ds.length ds.reverse d tail acc (by simp), ih (d :: tail)]
    simp only [Except.bind, Py.fromLE]
    congr 1
    rw [Nat.pow_succ, Nat.add_mul, Nat.mul_assoc]; omega

/-! ### header -/

/-- tags the reader can return: class 0..3, universal numbers among the 37 defined ones -/
def Tag.WF (t : Tag) : Prop := t.cls ≤ 3 ∧ (t.cls = 0 → t.num ≤ 36)

instance (t : Tag) : Decidable t.WF := by unfold Tag.WF; infer_instance

def headerLen (t : Tag) (n : Nat) : Nat := (identifierOctets t).length + (lengthOctets n).length

theorem readLength_packed (n : Nat) (hn : n < 256 ^ 127) (tail : Bytes) :
    readLength (lengthOctets n ++ tail) = .ok ((lengthOctets n).length, n) := by
  unfold lengthOctets
  by_cases h : n < 128
  · simp only [h, if_true, List.cons_append, List.nil_append, readLength, List.length_singleton]
    have h1 : ¬ n = 128 := by omega
    have h2 : ¬ n ≥ 128 := by omega
    simp [h1, h2]
  · have hpos := minLE_pos n (by omega)
    have hle := minLE_length_le 127 n hn
    obtain ⟨hv, _⟩ := minLE_spec n
    simp only [h, if_false, List.cons_append, readLength, List.length_cons, List.length_reverse]
    have h1 : ¬ (minLE n).length + 128 = 128 := by omega
    have h2 : (minLE n).length + 128 ≥ 128 := by omega
    have h3 : ((minLE n).length + 128) % 128 = (minLE n).length := by omega
    simp only [h1, h2, h3, if_true, if_false]
    rw [readLen_rev]
    simp only [Bind.bind, Except.bind, hv]
    congr 2
    · omega
    · omega

theorem readIdentifier_packed (t : Tag) (ht : t.WF) (tail : Bytes) :
    readIdentifier (identifierOctets t ++ tail) = .ok (t, (identifierOctets t).length) := by
  obtain ⟨hcls, huniv⟩ := ht
  obtain ⟨cls, num, cons⟩ := t
  simp only at hcls huniv
  have hk : ¬ (cls = 0 ∧ ¬ knownUniversal num = true) := by
    intro ⟨h0, hk⟩; have := huniv h0; simp [knownUniversal] at hk; omega
  unfold identifierOctets
  simp only
  by_cases hnum : num < 31
  · simp only [hnum, if_true, List.cons_append, List.nil_append, readIdentifier, List.length_singleton]
    have ho1 : (cls * 64 + (if cons = true then 32 else 0) + num) / 64 % 4 = cls := by cases cons <;> simp <;> omega
    have ho2 : ((cls * 64 + (if cons = true then 32 else 0) + num) / 32 % 2 = 1) = (cons = true) := by
      cases cons <;> simp <;> omega
    have ho3 : (cls * 64 + (if cons = true then 32 else 0) + num) % 32 = num := by cases cons <;> simp <;> omega
    have hne31 : ¬ num = 31 := by omega
    simp only [ho1, ho2, ho3, hne31, if_false, Bind.bind, Except.bind, hk]
    cases cons <;> simp
  · simp only [hnum, if_false, List.cons_append, readIdentifier, List.length_cons]
    have ho1 : (cls * 64 + (if cons = true then 32 else 0) + 31) / 64 % 4 = cls := by cases cons <;> simp <;> omega
    have ho2 : ((cls * 64 + (if cons = true then 32 else 0) + 31) / 32 % 2 = 1) = (cons = true) := by
      cases cons <;> simp <;> omega
    have ho3 : (cls * 64 + (if cons = true then 32 else 0) + 31) % 32 = 31 := by cases cons <;> simp <;> omega
    simp only [ho1, ho2, ho3, if_true]
    rw [unpack_pack_octetNumber num (by omega)]
    simp only [Bind.bind, Except.bind, hk, if_false]
    cases cons <;> simp <;> omega

theorem readHeader_packed (t : Tag) (ht : t.WF) (c rest : Bytes) (hc : c.length < 256 ^ 127) :
    readHeader (identifierOctets t ++ lengthOctets c.length ++ c ++ rest)
      = .ok ⟨t, headerLen t c.length, c.length⟩ := by
  unfold readHeader
  simp only [List.append_assoc]
  rw [readIdentifier_packed t ht]
  simp only [Bind.bind, Except.bind, List.drop_left]
  rw [readLength_packed _ hc]
  simp [headerLen]

end DpapiNg.Asn1
