/-
  `Blob.blobPack` (the model of `DPAPINGBlob.pack`, both layouts) IS the interpretation of the pack plan that the translator regenerates
  from /repo's source on every run (obligations `Gen.BPlanBlob_eq`, `Gen.BPlanSchema_eq`, closed by `rfl` / `decide`), with every CMS
  object packed by the regenerated writer programs of `Proofs/WProg.lean`.  Together with `C06.blob_layout` (model = minimal DER of the
  RFC 5652 tree) this ties the emitted bytes to the specification from the source's own structure.
-/
import DpapiNg.Model.BPlan
import DpapiNg.Proofs.WProg
namespace DpapiNg.Blob
open DpapiNg DpapiNg.Asn1 DpapiNg.WProg DpapiNg.BPlan

def blobPackPlan : List Step × List CExpr :=
  ([.bind "recipient_info" (.obj "KEKRecipientInfo"
      [("version", .int 4),
       ("kekid", .obj "KEKIdentifier" [("key_identifier", .packOf "key_identifier"),
          ("other", .obj "OtherKeyAttribute" [("key_attr_id", .oid oidMicrosoftSoftware), ("key_attr", .packOf "protection_descriptor")])]),
       ("key_encryption_algorithm", .obj "AlgorithmIdentifier" [("algorithm", .field "enc_cek_algorithm"), ("parameters", .field "enc_cek_parameters")]),
       ("encrypted_key", .field "enc_cek")]),
    .bind "enveloped_data" (.obj "EnvelopedData"
      [("version", .int 2), ("recipient_infos", .list [.var "recipient_info"]),
       ("encrypted_content_info", .obj "EncryptedContentInfo"
          [("content_type", .oid oidData),
           ("algorithm", .obj "AlgorithmIdentifier" [("algorithm", .field "enc_content_algorithm"), ("parameters", .field "enc_content_parameters")]),
           ("content", .ifLayout (.field "enc_content") .emptyBytes)])]),
    .packTo "enveloped_data" "EnvelopedData",
    .bind "content_info" (.obj "ContentInfo" [("content_type", .oid oidEnvelopedData), ("content", .buf "enveloped_data")]),
    .packTo "content_info" "ContentInfo"],
   [.buf "content_info", .ifLayout .emptyBytes (.field "enc_content")])

/-- dataclass fields (those `__init__` takes) in declaration order; the translator regenerates this table too (`Gen.BPlanSchema_eq`) -/
def schemaTable : List (String × List String) :=
  [("AlgorithmIdentifier", ["algorithm", "parameters"]),
   ("ContentInfo", ["content_type", "content"]),
   ("EncryptedContentInfo", ["content_type", "algorithm", "content"]),
   ("EnvelopedData", ["version", "recipient_infos", "encrypted_content_info"]),
   ("KEKIdentifier", ["key_identifier", "date", "other"]),
   ("KEKRecipientInfo", ["version", "kekid", "key_encryption_algorithm", "encrypted_key"]),
   ("OtherKeyAttribute", ["key_attr_id", "key_attr"])]
def schema (cls : String) : List String := (schemaTable.lookup cls).getD []

def call3 : String → Val → R Bytes := fun cls v =>
  if cls = "EnvelopedData" then runOps call2 v envelopedDataProg
  else if cls = "ContentInfo" then runOps WProg.noCall v contentInfoProg
  else call2 cls v

def blobEnv (b : Blob) (inEnvelope : Bool) : BPlan.Env where
  fields f :=
    if f = "enc_cek_algorithm" then .oid b.encCekAlg else if f = "enc_cek_parameters" then optBytes b.encCekParams
    else if f = "enc_cek" then .bytes b.encCek else if f = "enc_content_algorithm" then .oid b.encContentAlg
    else if f = "enc_content_parameters" then optBytes b.encContentParams else if f = "enc_content" then .bytes b.encContent else .none
  packs f :=
    if f = "key_identifier" then Gkdi.keyIdPack b.keyId else if f = "protection_descriptor" then protDescPack b.sid else .error .keyError
  inEnvelope := inEnvelope
  schema := schema
  vars := []
  bufs := []

theorem blobPack_eq_plan (b : Blob) (inEnvelope : Bool) :
    blobPack b inEnvelope = BPlan.run call3 blobPackPlan (blobEnv b inEnvelope) := by
  unfold blobPack blobPackPlan BPlan.run
  simp (config := { decide := true }) [runSteps, runJoin, eval, evalFields, evalList, blobEnv, schema, schemaTable, List.lookup, call3]
  cases Gkdi.keyIdPack b.keyId with
  | error e => rfl
  | ok kid =>
    cases protDescPack b.sid with
    | error e => rfl
    | ok pd =>
      cases inEnvelope <;>
        simp [bind, Except.bind, Except.map, envelopedDataPack_eq_prog, contentInfoPack_eq_prog, EnvelopedData.toVal, KekRi.toVal, KekId.toVal,
          OtherAttr.toVal, AlgId.toVal, EncContentInfo.toVal, contentInfoVal, optBytes]

end DpapiNg.Blob
