import DpapiNg.Spec.Cms
namespace DpapiNg.Blob
open DpapiNg DpapiNg.Asn1 DpapiNg.Spec.Cms

theorem wf_seq : tSEQ.WF := by decide
theorem wf_set : tSET.WF := by decide
theorem wf_oid : tOID.WF := by decide
theorem wf_int : tINTEGER.WF := by decide
theorem wf_oct : tOCTET.WF := by decide
theorem wf_utf8 : tUTF8.WF := by decide
theorem wf_c0c : (ctx 0 true).WF := by decide
theorem wf_c0p : (ctx 0 false).WF := by decide
theorem wf_c2c : (ctx 2 true).WF := by decide

theorem wSeq_ok (c : Bytes) : wSeq c = .ok (tlv tSEQ c) := packTLV_ok _ wf_seq c
theorem wSet_ok (c : Bytes) : wSet c = .ok (tlv tSET c) := packTLV_ok _ wf_set c
theorem packInteger_ok (v : Int) : packInteger v = .ok (tlv tINTEGER (packIntegerContent v)) := packTLV_ok _ wf_int _
theorem packOctet_ok (c : Bytes) : packOctetString c = .ok (tlv tOCTET c) := packTLV_ok _ wf_oct _
theorem packOctetTag_ok (c : Bytes) (t : Tag) (ht : t.WF) : packOctetString c (some t) = .ok (tlv t c) := packTLV_ok _ ht _
theorem packUtf8_ok (c : Bytes) : packUtf8 c = .ok (tlv tUTF8 c) := packTLV_ok _ wf_utf8 _

theorem truthy_some (x : Bytes) : truthy (some x) = !x.isEmpty := rfl

theorem protDescPack_eq (sid : Bytes) : protDescPack sid = .ok (protDescTree sid).encode := by
  unfold protDescPack
  simp only [oidSidProtector, packOid_ok 1 3 [6, 1, 4, 1, 311, 74, 1, 1] (by omega) (by omega), packUtf8_ok, wSeq_ok,
    Bind.bind, Except.bind]
  simp [protDescTree, seq, oidNode, Der.encode, encodeList]

theorem algIdPack_eq (a b : Nat) (r : List Nat) (p : Option Bytes) (ha : a ≤ 2) (hb : b ≤ 39) :
    algIdPack ⟨a :: b :: r, p⟩ = .ok (seq (oidNode a b r :: optRaw p)).encode := by
  unfold algIdPack
  simp only [packOid_ok a b r ha hb, wSeq_ok, Bind.bind, Except.bind]
  by_cases ht : truthy p = true
  · simp [ht, seq, oidNode, optRaw, Der.encode, encodeList]
  · simp [ht, seq, oidNode, optRaw, Der.encode, encodeList]

theorem encode_ne_nil_seq (kids : List Der) : (seq kids).encode ≠ [] := by
  simp only [seq, Der.encode]; exact tlv_ne_nil _ _

/-- The emitted blob is exactly the minimal-DER encoding of the RFC 5652 tree (plus the ciphertext after
    the envelope in the trailing layout). -/
theorem blobPack_eq_spec (b : Blob) (kid : Bytes) (a1 b1 : Nat) (r1 : List Nat) (a2 b2 : Nat) (r2 : List Nat) (inEnv : Bool)
    (hk : Gkdi.keyIdPack b.keyId = .ok kid)
    (h1 : b.encCekAlg = a1 :: b1 :: r1) (ha1 : a1 ≤ 2) (hb1 : b1 ≤ 39)
    (h2 : b.encContentAlg = a2 :: b2 :: r2) (ha2 : a2 ≤ 2) (hb2 : b2 ≤ 39) :
    blobPack b inEnv = .ok ((blobTree kid b a1 b1 r1 a2 b2 r2 inEnv).encode ++ (if inEnv then [] else b.encContent)) := by
  have hpdne : ((protDescTree b.sid).encode).isEmpty = false := by
    cases h : (protDescTree b.sid).encode with
    | nil => exact absurd h (by simp only [protDescTree]; exact encode_ne_nil_seq _)
    | cons x xs => rfl
  unfold blobPack
  simp only [hk, protDescPack_eq, Bind.bind, Except.bind]
  unfold envelopedDataPack
  simp only [packInteger_ok, List.mapM_cons, List.mapM_nil, Bind.bind, Except.bind, pure, Except.pure]
  unfold kekRiPack kekIdPack otherAttrPack encContentInfoPack contentInfoPack
  simp only [packInteger_ok, packOctet_ok, h1, h2, algIdPack_eq a1 b1 r1 _ ha1 hb1, algIdPack_eq a2 b2 r2 _ ha2 hb2,
    oidMicrosoftSoftware, oidData, oidEnvelopedData,
    packOid_ok 1 3 [6, 1, 4, 1, 311, 74, 1] (by omega) (by omega), packOid_ok 1 2 [840, 113549, 1, 7, 1] (by omega) (by omega),
    packOid_ok 1 2 [840, 113549, 1, 7, 3] (by omega) (by omega),
    wSeq_ok, wSet_ok, packTLV_ok _ wf_c2c, packOctetTag_ok _ _ wf_c0c, packOctetTag_ok _ _ wf_c0p,
    Bind.bind, Except.bind, pure, Except.pure, truthy, orEmpty, Option.getD, hpdne, Bool.not_false, if_true]
  cases inEnv with
  | true =>
    by_cases hc : b.encContent = []
    · simp [hc, blobTree, seq, oidNode, intNode, Der.encode, encodeList, optRaw, truthy, orEmpty]
    · have : b.encContent.isEmpty = false := by cases h : b.encContent <;> simp_all
      simp [hc, this, blobTree, seq, oidNode, intNode, Der.encode, encodeList, optRaw, truthy, orEmpty, packOctetTag_ok _ _ wf_c0p,
        Bind.bind, Except.bind]
  | false =>
    simp [blobTree, seq, oidNode, intNode, Der.encode, encodeList, optRaw, truthy, orEmpty]

end DpapiNg.Blob
