/-
  decode ∘ encode = id for DPAPI-NG blobs: reader lemmas over `tlv`, then the nested CMS structure.
-/
import DpapiNg.Proofs.BlobLayout
import DpapiNg.Proofs.GkdiRt
namespace DpapiNg.Blob
open DpapiNg DpapiNg.Asn1 DpapiNg.Spec.Cms

/-- everything is far below the 127-length-octet limit of the length encoding -/
abbrev Lim : Nat := 256 ^ 127

theorem drop_tlv (t : Tag) (c rest : Bytes) : (tlv t c ++ rest).drop (tlv t c).length = rest := List.drop_left

theorem rdSeq_tlv (c rest : Bytes) (hc : c.length < Lim) : rdSeq (tlv tSEQ c ++ rest) = .ok (c, rest) := by
  unfold rdSeq readSequence
  rw [validateTag_tlv tSEQ wf_seq c rest hc none tSEQ rfl]
  simp [Except.map, drop_tlv]

theorem rdSeq_hdr (t : Tag) (c rest : Bytes) :
    rdSeq (tlv t c ++ rest) (some ⟨t, headerLen t c.length, c.length⟩) = .ok (c, rest) := by
  unfold rdSeq readSequence
  rw [validateTag_tlv_header t c rest tSEQ]
  simp [Except.map, drop_tlv]

theorem rdSet_tlv (c rest : Bytes) (hc : c.length < Lim) : rdSet (tlv tSET c ++ rest) = .ok (c, rest) := by
  unfold rdSet readSet
  rw [validateTag_tlv tSET wf_set c rest hc none tSET rfl]
  simp [Except.map, drop_tlv]

theorem rdOctets_tlv (c rest : Bytes) (hc : c.length < Lim) : rdOctets (tlv tOCTET c ++ rest) = .ok (c, rest) := by
  unfold rdOctets readOctetString
  rw [validateTag_tlv tOCTET wf_oct c rest hc none tOCTET rfl]
  simp [Except.map, drop_tlv]

theorem rdOctets_tag (t : Tag) (ht : t.WF) (c rest : Bytes) (hc : c.length < Lim) :
    rdOctets (tlv t c ++ rest) (some t) = .ok (c, rest) := by
  unfold rdOctets readOctetString
  rw [validateTag_tlv t ht c rest hc (some t) tOCTET rfl]
  simp [Except.map, drop_tlv]

theorem rdInt_tlv (v : Int) (rest : Bytes) (hc : (packIntegerContent v).length < Lim) :
    rdInt (tlv tINTEGER (packIntegerContent v) ++ rest) = .ok (v, rest) := by
  unfold rdInt readInteger
  rw [validateTag_tlv tINTEGER wf_int _ rest hc none tINTEGER rfl]
  have hne : (packLE v).reverse ≠ [] := by
    intro h; exact packLE_nonempty v (by simpa using h)
  simp [Bind.bind, Except.bind, Except.map, packIntegerContent, hne, read_pack, drop_tlv]

theorem rdOid_tlv (a b : Nat) (r : List Nat) (ha : a ≤ 2) (hb : b ≤ 39) (rest : Bytes) (hc : (oidContent a b r).length < Lim) :
    rdOid (tlv tOID (oidContent a b r) ++ rest) = .ok (a :: b :: r, rest) := by
  unfold rdOid
  rw [readOid_tlv a b r ha hb rest hc]
  simp [Except.map, drop_tlv]

theorem rdUtf8_tlv (c rest : Bytes) (hv : utf8Valid c = true) (hc : c.length < Lim) :
    rdUtf8 (tlv tUTF8 c ++ rest) = .ok (c, rest) := by
  unfold rdUtf8 readUtf8Raw
  rw [validateTag_tlv tUTF8 wf_utf8 c rest hc none tUTF8 rfl]
  simp [Bind.bind, Except.bind, hv, drop_tlv]

theorem readHeader_tlv (t : Tag) (ht : t.WF) (c rest : Bytes) (hc : c.length < Lim) :
    readHeader (tlv t c ++ rest) = .ok ⟨t, headerLen t c.length, c.length⟩ := by
  have := readHeader_packed t ht c rest hc
  simpa [tlv] using this

/-- parameters as the property's well-formedness demands: absent, or present and non-empty -/
def ParamsWF (p : Option Bytes) : Prop := p = none ∨ ∃ x, p = some x ∧ x ≠ []

theorem optRaw_encode (p : Option Bytes) (h : ParamsWF p) :
    encodeList (optRaw p) = orEmpty p ∧ ((if orEmpty p = [] then none else some (orEmpty p)) = p) := by
  rcases h with rfl | ⟨x, rfl, hx⟩
  · simp [optRaw, truthy, orEmpty, encodeList]
  · have : x.isEmpty = false := by cases x <;> simp_all
    simp [optRaw, truthy, orEmpty, encodeList, Der.encode, this, hx]

theorem tlv_len_ge (t : Tag) (c : Bytes) : c.length ≤ (tlv t c).length := by rw [tlv_length]; omega

theorem algIdUnpack_encode (a b : Nat) (r : List Nat) (p : Option Bytes) (ha : a ≤ 2) (hb : b ≤ 39) (hp : ParamsWF p) (rest : Bytes)
    (hlen : ((seq (oidNode a b r :: optRaw p)).encode).length < Lim) :
    algIdUnpack ((seq (oidNode a b r :: optRaw p)).encode ++ rest) = .ok (⟨a :: b :: r, p⟩, rest) := by
  obtain ⟨he, hq⟩ := optRaw_encode p hp
  simp only [seq, oidNode, Der.encode, encodeList, he] at hlen ⊢
  have h1 := tlv_len_ge tSEQ (tlv tOID (oidContent a b r) ++ orEmpty p)
  have h2 := tlv_len_ge tOID (oidContent a b r)
  unfold algIdUnpack
  rw [rdSeq_tlv _ _ (by simp only [List.length_append] at h1 ⊢; omega)]
  simp only [Bind.bind, Except.bind]
  rw [rdOid_tlv a b r ha hb _ (by simp only [List.length_append] at h1; omega)]
  simp only [pure, Except.pure, hq]

end DpapiNg.Blob

namespace DpapiNg.Blob
open DpapiNg DpapiNg.Asn1 DpapiNg.Spec.Cms

theorem utf8SID_valid : utf8Valid utf8SID = true := by decide +kernel

theorem protDescUnpack_encode (sid : Bytes) (hv : utf8Valid sid = true) (hlen : ((protDescTree sid).encode).length < Lim) :
    protDescUnpack (protDescTree sid).encode = .ok sid := by
  simp only [protDescTree, seq, oidNode, Der.encode, encodeList, List.append_nil] at hlen ⊢
  generalize hU : tlv tUTF8 utf8SID ++ tlv tUTF8 sid = U at hlen ⊢
  generalize hS3 : tlv tSEQ U = S3 at hlen ⊢
  generalize hS2 : tlv tSEQ S3 = S2 at hlen ⊢
  generalize hS1 : tlv tSEQ S2 = S1 at hlen ⊢
  generalize hO : tlv tOID (oidContent 1 3 [6, 1, 4, 1, 311, 74, 1, 1]) = O at hlen ⊢
  have g0 := tlv_len_ge tSEQ (O ++ S1)
  have g1 : S2.length ≤ S1.length := by rw [← hS1]; exact tlv_len_ge _ _
  have g2 : S3.length ≤ S2.length := by rw [← hS2]; exact tlv_len_ge _ _
  have g3 : U.length ≤ S3.length := by rw [← hS3]; exact tlv_len_ge _ _
  have g4 : (oidContent 1 3 [6, 1, 4, 1, 311, 74, 1, 1]).length ≤ O.length := by rw [← hO]; exact tlv_len_ge _ _
  have g5 : utf8SID.length ≤ (tlv tUTF8 utf8SID).length := tlv_len_ge _ _
  have g6 : sid.length ≤ (tlv tUTF8 sid).length := tlv_len_ge _ _
  have gU : U.length = (tlv tUTF8 utf8SID).length + (tlv tUTF8 sid).length := by rw [← hU]; simp
  simp only [List.length_append] at g0
  unfold protDescUnpack
  have e0 := rdSeq_tlv (O ++ S1) [] (by simp only [List.length_append]; omega)
  simp only [List.append_nil] at e0
  rw [e0]
  simp only [Bind.bind, Except.bind]
  rw [← hO, rdOid_tlv 1 3 _ (by omega) (by omega) S1 (by omega)]
  simp only []
  have e1 := rdSeq_tlv S2 [] (by omega)
  simp only [List.append_nil] at e1
  rw [← hS1, e1]
  simp only []
  have e2 := rdSeq_tlv S3 [] (by omega)
  simp only [List.append_nil] at e2
  rw [← hS2, e2]
  simp only []
  have e3 := rdSeq_tlv U [] (by omega)
  simp only [List.append_nil] at e3
  rw [← hS3, e3]
  simp only []
  rw [← hU, rdUtf8_tlv utf8SID _ utf8SID_valid (by omega)]
  simp only []
  have e4 := rdUtf8_tlv sid [] hv (by omega)
  simp only [List.append_nil] at e4
  rw [e4]
  simp [oidSidProtector, pure, Except.pure]

end DpapiNg.Blob

namespace DpapiNg.Blob
open DpapiNg DpapiNg.Asn1 DpapiNg.Spec.Cms

/-- KEKIdentifier { keyIdentifier, OtherKeyAttribute { microsoft-software, raw attribute } } -/
def kekIdTree (kid attr : Bytes) : Der := seq [.prim tOCTET kid, seq [oidNode 1 3 [6, 1, 4, 1, 311, 74, 1], .raw attr]]

theorem kekIdUnpack_encode (kid attr rest : Bytes) (hattr : attr ≠ []) (hlen : ((kekIdTree kid attr).encode).length < Lim) :
    kekIdUnpack ((kekIdTree kid attr).encode ++ rest) = .ok (⟨kid, none, some ⟨oidMicrosoftSoftware, some attr⟩⟩, rest) := by
  simp only [kekIdTree, seq, oidNode, Der.encode, encodeList, List.append_nil] at hlen ⊢
  generalize hO : tlv tOID (oidContent 1 3 [6, 1, 4, 1, 311, 74, 1]) = O at hlen ⊢
  generalize hK : tlv tOCTET kid = K at hlen ⊢
  have g0 := tlv_len_ge tSEQ (K ++ tlv tSEQ (O ++ attr))
  have g1 := tlv_len_ge tSEQ (O ++ attr)
  have g2 : kid.length ≤ K.length := by rw [← hK]; exact tlv_len_ge _ _
  have g3 : (oidContent 1 3 [6, 1, 4, 1, 311, 74, 1]).length ≤ O.length := by rw [← hO]; exact tlv_len_ge _ _
  simp only [List.length_append] at g0 g1
  unfold kekIdUnpack
  rw [rdSeq_tlv _ rest (by simp only [List.length_append]; omega)]
  simp only [Bind.bind, Except.bind]
  rw [← hK, rdOctets_tlv kid _ (by omega)]
  simp only []
  have hh := readHeader_tlv tSEQ wf_seq (O ++ attr) [] (by simp only [List.length_append]; omega)
  simp only [List.append_nil] at hh
  rw [hh]
  have c1 : ¬ (tSEQ.cls = 0 ∧ tSEQ.num = 24) := by decide
  have c2 : tSEQ.cls = 0 ∧ tSEQ.num = 16 := by decide
  simp only [c1, if_false, pure, Except.pure, c2, and_self, if_true]
  have e1 := rdSeq_hdr tSEQ (O ++ attr) []
  simp only [List.append_nil] at e1
  have e2 := rdOid_tlv 1 3 [6, 1, 4, 1, 311, 74, 1] (by omega) (by omega) attr (by omega)
  rw [hO] at e2
  have n1 : ¬ (True ∧ (16 : Nat) = 24) := by decide
  simp only [n1, if_false]
  have n2 : (tSEQ.cls = 0 ∧ tSEQ.num = 16) := by decide
  simp only [n2, and_self, if_true, e1, e2, hattr, if_false, oidMicrosoftSoftware]

/-- [2] KEKRecipientInfo { version, kekid, keyEncryptionAlgorithm, encryptedKey } -/
def kekRiTree (ver : Int) (kid attr : Bytes) (a b : Nat) (r : List Nat) (p : Option Bytes) (ek : Bytes) : Der :=
  .cons (ctx 2 true) [intNode ver, kekIdTree kid attr, seq (oidNode a b r :: optRaw p), .prim tOCTET ek]

theorem recipientInfoUnpack_encode (ver : Int) (kid attr : Bytes) (a b : Nat) (r : List Nat) (p : Option Bytes) (ek rest : Bytes)
    (hattr : attr ≠ []) (ha : a ≤ 2) (hb : b ≤ 39) (hp : ParamsWF p)
    (hlen : ((kekRiTree ver kid attr a b r p ek).encode).length < Lim) :
    recipientInfoUnpack ((kekRiTree ver kid attr a b r p ek).encode ++ rest)
      = .ok (⟨ver, ⟨kid, none, some ⟨oidMicrosoftSoftware, some attr⟩⟩, ⟨a :: b :: r, p⟩, ek⟩, rest) := by
  simp only [kekRiTree, intNode, Der.encode, encodeList, List.append_nil] at hlen ⊢
  generalize hI : tlv tINTEGER (packIntegerContent ver) = I at hlen ⊢
  generalize hKI : (kekIdTree kid attr).encode = KI at hlen ⊢
  generalize hA : (seq (oidNode a b r :: optRaw p)).encode = A at hlen ⊢
  generalize hE : tlv tOCTET ek = E at hlen ⊢
  have g0 := tlv_len_ge (ctx 2 true) (I ++ (KI ++ (A ++ E)))
  have g1 : (packIntegerContent ver).length ≤ I.length := by rw [← hI]; exact tlv_len_ge _ _
  have g2 : ek.length ≤ E.length := by rw [← hE]; exact tlv_len_ge _ _
  simp only [List.length_append] at g0
  unfold recipientInfoUnpack
  rw [readHeader_tlv (ctx 2 true) wf_c2c _ rest (by simp only [List.length_append]; omega)]
  have c1 : ¬ ¬ ((ctx 2 true).cls = 2 ∧ (ctx 2 true).num = 2) := by decide
  simp only [Bind.bind, Except.bind, c1, if_false, pure, Except.pure]
  rw [rdSeq_hdr (ctx 2 true) _ rest]
  simp only []
  rw [← hI, rdInt_tlv ver _ (by omega)]
  simp only []
  rw [← hKI, kekIdUnpack_encode kid attr _ hattr (by rw [hKI]; omega)]
  simp only []
  rw [← hA, algIdUnpack_encode a b r p ha hb hp _ (by rw [hA]; omega)]
  simp only []
  have e := rdOctets_tlv ek [] (by omega)
  simp only [List.append_nil] at e
  rw [← hE, e]

theorem recipientInfos_single (x : Bytes) (ri : KekRi) (h : recipientInfoUnpack x = .ok (ri, [])) (hx : x ≠ []) :
    recipientInfosUnpack x.length x = .ok [ri] := by
  cases x with
  | nil => exact absurd rfl hx
  | cons y ys =>
    simp only [List.length_cons, recipientInfosUnpack, h, Bind.bind, Except.bind, pure, Except.pure]

end DpapiNg.Blob

namespace DpapiNg.Blob
open DpapiNg DpapiNg.Asn1 DpapiNg.Spec.Cms

/-- EncryptedContentInfo { data, contentEncryptionAlgorithm, [0] content? } -/
def eciTree (a b : Nat) (r : List Nat) (p : Option Bytes) (content : Bytes) : Der :=
  seq ([oidNode 1 2 [840, 113549, 1, 7, 1], seq (oidNode a b r :: optRaw p)] ++ (if content ≠ [] then [.prim (ctx 0 false) content] else []))

theorem eciUnpack_encode (a b : Nat) (r : List Nat) (p : Option Bytes) (content rest : Bytes)
    (ha : a ≤ 2) (hb : b ≤ 39) (hp : ParamsWF p) (hlen : ((eciTree a b r p content).encode).length < Lim) :
    encContentInfoUnpack ((eciTree a b r p content).encode ++ rest)
      = .ok (⟨oidData, ⟨a :: b :: r, p⟩, if content = [] then none else some content⟩, rest) := by
  simp only [eciTree, seq, oidNode, Der.encode, encodeList, List.cons_append, List.nil_append] at hlen ⊢
  generalize hO : tlv tOID (oidContent 1 2 [840, 113549, 1, 7, 1]) = O at hlen ⊢
  generalize hA : tlv tSEQ (tlv tOID (oidContent a b r) ++ encodeList (optRaw p)) = A at hlen ⊢
  have hAeq : (seq (oidNode a b r :: optRaw p)).encode = A := by simp [seq, oidNode, Der.encode, encodeList, hA]
  have g3 : (oidContent 1 2 [840, 113549, 1, 7, 1]).length ≤ O.length := by rw [← hO]; exact tlv_len_ge _ _
  unfold encContentInfoUnpack
  by_cases hc : content = []
  · simp only [hc, ne_eq, not_true_eq_false, if_false, encodeList, List.append_nil] at hlen ⊢
    have g0 := tlv_len_ge tSEQ (O ++ A)
    simp only [List.length_append] at g0
    rw [rdSeq_tlv _ rest (by simp only [List.length_append]; omega)]
    simp only [Bind.bind, Except.bind]
    rw [← hO, rdOid_tlv 1 2 _ (by omega) (by omega) A (by omega)]
    simp only []
    have e := algIdUnpack_encode a b r p ha hb hp [] (by rw [hAeq]; omega)
    rw [hAeq, List.append_nil] at e
    rw [e]
    simp [oidData, pure, Except.pure]
  · simp only [hc, ne_eq, not_false_eq_true, if_true, encodeList, Der.encode, List.append_nil] at hlen ⊢
    have g0 := tlv_len_ge tSEQ (O ++ (A ++ tlv (ctx 0 false) content))
    have g1 := tlv_len_ge (ctx 0 false) content
    simp only [List.length_append] at g0
    rw [rdSeq_tlv _ rest (by simp only [List.length_append]; omega)]
    simp only [Bind.bind, Except.bind]
    rw [← hO, rdOid_tlv 1 2 _ (by omega) (by omega) _ (by omega)]
    simp only []
    have e := algIdUnpack_encode a b r p ha hb hp (tlv (ctx 0 false) content) (by rw [hAeq]; omega)
    rw [hAeq] at e
    rw [e]
    simp only []
    have hne : ¬ tlv (ctx 0 false) content = [] := tlv_ne_nil _ _
    simp only [hne, if_false]
    have e2 := rdOctets_tag (ctx 0 false) wf_c0p content [] (by omega)
    simp only [List.append_nil] at e2
    rw [e2]
    simp [oidData, Except.map, pure, Except.pure]

/-- EnvelopedData { version 2, SET { one KEKRecipientInfo }, EncryptedContentInfo } -/
def envTree (ri eci : Der) : Der := seq [intNode 2, .cons tSET [ri], eci]

theorem envelopedDataUnpack_encode (ri eci : Der) (riv : KekRi) (eciv : EncContentInfo)
    (hri : recipientInfoUnpack ri.encode = .ok (riv, [])) (hrine : ri.encode ≠ [])
    (heci : encContentInfoUnpack eci.encode = .ok (eciv, []))
    (hlen : ((envTree ri eci).encode).length < Lim) :
    envelopedDataUnpack (envTree ri eci).encode = .ok ⟨2, [riv], eciv⟩ := by
  simp only [envTree, seq, intNode, Der.encode, encodeList, List.append_nil] at hlen ⊢
  generalize hI : tlv tINTEGER (packIntegerContent 2) = I at hlen ⊢
  have g0 := tlv_len_ge tSEQ (I ++ (tlv tSET ri.encode ++ eci.encode))
  have g1 := tlv_len_ge tSET ri.encode
  have g2 : (packIntegerContent 2).length ≤ I.length := by rw [← hI]; exact tlv_len_ge _ _
  simp only [List.length_append] at g0
  unfold envelopedDataUnpack
  have e0 := rdSeq_tlv (I ++ (tlv tSET ri.encode ++ eci.encode)) [] (by simp only [List.length_append]; omega)
  simp only [List.append_nil] at e0
  rw [e0]
  simp only [Bind.bind, Except.bind]
  rw [← hI, rdInt_tlv 2 _ (by omega)]
  have n2 : ¬ ((2 : Int) ≠ 2) := by decide
  simp only [n2, if_false, pure, Except.pure]
  rw [rdSet_tlv ri.encode eci.encode (by omega)]
  simp only []
  rw [recipientInfos_single ri.encode riv hri hrine]
  simp only [heci]

/-- ContentInfo { envelopedData, [0] content } -/
def ciTree (content : Der) : Der := seq [oidNode 1 2 [840, 113549, 1, 7, 3], .cons (ctx 0 true) [content]]

theorem contentInfo_encode (content : Der) (trailing : Bytes) (hlen : ((ciTree content).encode).length < Lim) :
    ∃ h, readHeader ((ciTree content).encode ++ trailing) = .ok h ∧ h.tagLength + h.length = ((ciTree content).encode).length ∧
      contentInfoUnpack (((ciTree content).encode ++ trailing).take (h.tagLength + h.length)) h = .ok (oidEnvelopedData, content.encode) := by
  simp only [ciTree, seq, oidNode, Der.encode, encodeList, List.append_nil] at hlen ⊢
  generalize hO : tlv tOID (oidContent 1 2 [840, 113549, 1, 7, 3]) = O at hlen ⊢
  generalize hC : tlv (ctx 0 true) content.encode = Cc at hlen ⊢
  have g0 := tlv_len_ge tSEQ (O ++ Cc)
  have g1 : content.encode.length ≤ Cc.length := by rw [← hC]; exact tlv_len_ge _ _
  have g3 : (oidContent 1 2 [840, 113549, 1, 7, 3]).length ≤ O.length := by rw [← hO]; exact tlv_len_ge _ _
  simp only [List.length_append] at g0
  refine ⟨⟨tSEQ, headerLen tSEQ (O ++ Cc).length, (O ++ Cc).length⟩, readHeader_tlv tSEQ wf_seq _ trailing (by simp only [List.length_append]; omega),
    by simp [tlv_length], ?_⟩
  have ht : (tlv tSEQ (O ++ Cc) ++ trailing).take (headerLen tSEQ (O ++ Cc).length + (O ++ Cc).length) = tlv tSEQ (O ++ Cc) := by
    rw [← tlv_length]; exact List.take_left
  simp only [ht]
  unfold contentInfoUnpack
  have e0 := rdSeq_hdr tSEQ (O ++ Cc) []
  simp only [List.append_nil] at e0
  rw [e0]
  simp only [Bind.bind, Except.bind]
  rw [← hO, rdOid_tlv 1 2 _ (by omega) (by omega) Cc (by omega)]
  simp only []
  have e1 := rdOctets_tag (ctx 0 true) wf_c0c content.encode [] (by omega)
  simp only [List.append_nil] at e1
  rw [← hC, e1]
  simp [oidEnvelopedData, pure, Except.pure]

end DpapiNg.Blob

namespace DpapiNg.Blob
open DpapiNg DpapiNg.Asn1 DpapiNg.Spec.Cms DpapiNg.Gkdi

/-- what a blob must satisfy for `pack` to be injective on it (all of it holds for every blob `ncrypt_protect_secret` builds) -/
structure Blob.WF (b : Blob) : Prop where
  keyId : b.keyId.WF
  sid : utf8Valid b.sid = true
  cekParams : ParamsWF b.encCekParams
  contentParams : ParamsWF b.encContentParams

theorem blobTree_eq (kid : Bytes) (b : Blob) (a1 b1 : Nat) (r1 : List Nat) (a2 b2 : Nat) (r2 : List Nat) (inEnv : Bool) :
    (blobTree kid b a1 b1 r1 a2 b2 r2 inEnv).encode =
      (ciTree (envTree (kekRiTree 4 kid (protDescTree b.sid).encode a1 b1 r1 b.encCekParams b.encCek)
        (eciTree a2 b2 r2 b.encContentParams (if inEnv then b.encContent else [])))).encode := by
  cases inEnv <;> simp [blobTree, ciTree, envTree, kekRiTree, kekIdTree, eciTree, seq, Der.encode, encodeList]

theorem blobUnpack_blobPack (b : Blob) (a1 b1 : Nat) (r1 : List Nat) (a2 b2 : Nat) (r2 : List Nat) (inEnv : Bool)
    (hwf : b.WF)
    (h1 : b.encCekAlg = a1 :: b1 :: r1) (ha1 : a1 ≤ 2) (hb1 : b1 ≤ 39)
    (h2 : b.encContentAlg = a2 :: b2 :: r2) (ha2 : a2 ≤ 2) (hb2 : b2 ≤ 39)
    (hlen : ∀ kid, keyIdPack b.keyId = .ok kid → ((blobTree kid b a1 b1 r1 a2 b2 r2 inEnv).encode).length < Lim) :
    (blobPack b inEnv).bind blobUnpack = .ok b := by
  have hk := keyId_rt b.keyId hwf.keyId
  cases hkp : keyIdPack b.keyId with
  | error e => rw [hkp] at hk; cases hk
  | ok kid =>
    rw [hkp] at hk
    have hku : keyIdUnpack kid = .ok b.keyId := hk
    have hlen := hlen kid hkp
    rw [blobPack_eq_spec b kid a1 b1 r1 a2 b2 r2 inEnv hkp h1 ha1 hb1 h2 ha2 hb2]
    show blobUnpack _ = _
    rw [blobTree_eq] at hlen ⊢
    generalize hcontent : (if inEnv then b.encContent else []) = content at hlen ⊢
    generalize htrail : (if inEnv then [] else b.encContent) = trailing
    -- length facts for the nested nodes
    have hpdne : (protDescTree b.sid).encode ≠ [] := by simp only [protDescTree]; exact encode_ne_nil_seq _
    obtain ⟨h, hh, hn, hci⟩ := contentInfo_encode _ trailing hlen
    have L0 : ((envTree (kekRiTree 4 kid (protDescTree b.sid).encode a1 b1 r1 b.encCekParams b.encCek)
        (eciTree a2 b2 r2 b.encContentParams content)).encode).length < Lim := by
      have := hlen
      simp only [ciTree, seq, oidNode, Der.encode, encodeList, List.append_nil] at this
      have g0 := tlv_len_ge tSEQ (tlv tOID (oidContent 1 2 [840, 113549, 1, 7, 3]) ++ tlv (ctx 0 true) (envTree (kekRiTree 4 kid (protDescTree b.sid).encode a1 b1 r1 b.encCekParams b.encCek) (eciTree a2 b2 r2 b.encContentParams content)).encode)
      have g1 := tlv_len_ge (ctx 0 true) (envTree (kekRiTree 4 kid (protDescTree b.sid).encode a1 b1 r1 b.encCekParams b.encCek) (eciTree a2 b2 r2 b.encContentParams content)).encode
      simp only [List.length_append] at g0
      omega
    have L1 : ((kekRiTree 4 kid (protDescTree b.sid).encode a1 b1 r1 b.encCekParams b.encCek).encode).length < Lim ∧
        ((eciTree a2 b2 r2 b.encContentParams content).encode).length < Lim := by
      have := L0
      simp only [envTree, seq, Der.encode, encodeList, List.append_nil] at this
      generalize (kekRiTree 4 kid (protDescTree b.sid).encode a1 b1 r1 b.encCekParams b.encCek).encode = X at this ⊢
      generalize (eciTree a2 b2 r2 b.encContentParams content).encode = Y at this ⊢
      have g0 := tlv_len_ge tSEQ ((intNode 2).encode ++ (tlv tSET X ++ Y))
      have g1 := tlv_len_ge tSET X
      simp only [List.length_append] at g0 this
      omega
    have L2 : ((protDescTree b.sid).encode).length < Lim := by
      have := L1.1
      simp only [kekRiTree, kekIdTree, seq, Der.encode, encodeList, List.append_nil] at this
      generalize (protDescTree b.sid).encode = P at this ⊢
      have g0 := tlv_len_ge (ctx 2 true) ((intNode 4).encode ++ (tlv tSEQ (tlv tOCTET kid ++ tlv tSEQ ((oidNode 1 3 [6, 1, 4, 1, 311, 74, 1]).encode ++ P)) ++ (tlv tSEQ ((oidNode a1 b1 r1).encode ++ encodeList (optRaw b.encCekParams)) ++ tlv tOCTET b.encCek)))
      have g1 := tlv_len_ge tSEQ (tlv tOCTET kid ++ tlv tSEQ ((oidNode 1 3 [6, 1, 4, 1, 311, 74, 1]).encode ++ P))
      have g2 := tlv_len_ge tSEQ ((oidNode 1 3 [6, 1, 4, 1, 311, 74, 1]).encode ++ P)
      simp only [List.length_append] at g0 g1 g2 this
      omega
    have eRi := recipientInfoUnpack_encode 4 kid (protDescTree b.sid).encode a1 b1 r1 b.encCekParams b.encCek [] hpdne ha1 hb1 hwf.cekParams L1.1
    have eEci := eciUnpack_encode a2 b2 r2 b.encContentParams content [] ha2 hb2 hwf.contentParams L1.2
    simp only [List.append_nil] at eRi eEci
    have hrine : (kekRiTree 4 kid (protDescTree b.sid).encode a1 b1 r1 b.encCekParams b.encCek).encode ≠ [] := by
      simp only [kekRiTree, Der.encode]; exact tlv_ne_nil _ _
    have eEnv := envelopedDataUnpack_encode _ _ _ _ eRi hrine eEci L0
    have ePd := protDescUnpack_encode b.sid hwf.sid L2
    unfold blobUnpack
    simp only [hh, Bind.bind, Except.bind, hci, eEnv, hku, ePd, orEmpty, pure, Except.pure]
    have n1 : ¬ (oidEnvelopedData ≠ oidEnvelopedData) := by simp
    have n2 : ¬ ((4 : Int) ≠ 4) := by decide
    have n3 : ¬ (oidMicrosoftSoftware ≠ oidMicrosoftSoftware) := by simp
    simp only [n1, n2, n3, if_false, hn]
    have hdrop : (((ciTree (envTree (kekRiTree 4 kid (protDescTree b.sid).encode a1 b1 r1 b.encCekParams b.encCek)
        (eciTree a2 b2 r2 b.encContentParams content))).encode ++ trailing).drop ((ciTree (envTree (kekRiTree 4 kid (protDescTree b.sid).encode a1 b1 r1 b.encCekParams b.encCek)
        (eciTree a2 b2 r2 b.encContentParams content))).encode).length) = trailing := List.drop_left
    simp only [hdrop]
    -- the content selection: in-envelope content when present, else the trailing bytes
    have hsel : (if truthy (if content = [] then none else some content) = true then
        (if content = [] then none else some content : Option Bytes).getD [] else trailing) = b.encContent := by
      cases inEnv with
      | true =>
        simp only [if_true] at hcontent htrail
        subst hcontent; subst htrail
        by_cases hc : b.encContent = []
        · simp [hc, truthy]
        · cases hb : b.encContent with
          | nil => exact absurd hb hc
          | cons x xs => simp [truthy]
      | false =>
        simp only [Bool.false_eq_true, if_false] at hcontent htrail
        subst hcontent; subst htrail
        simp [truthy]
    cases b
    simp_all
end DpapiNg.Blob
