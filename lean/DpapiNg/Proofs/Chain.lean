import DpapiNg.Model.Chain
namespace DpapiNg.Chain
variable {Key Ctx : Type} (kdf : Key → Ctx → Key) (c1 : Nat → Ctx) (c2 : Nat → Nat → Ctx)

theorem walk1_add (k : Key) (l n m : Nat) :
    walk1 kdf c1 (walk1 kdf c1 k l n) (l - n) m = walk1 kdf c1 k l (n + m) := by
  induction n generalizing k l with
  | zero => simp [walk1]
  | succ n ih =>
    simp only [walk1]
    have : l - (n+1) = (l-1) - n := by omega
    rw [this, ih]
    have : n + 1 + m = (n + m) + 1 := by omega
    rw [this]; simp [walk1]

theorem walk2_add (k : Key) (i l n m : Nat) :
    walk2 kdf c2 (walk2 kdf c2 k i l n) i (l - n) m = walk2 kdf c2 k i l (n + m) := by
  induction n generalizing k l with
  | zero => simp [walk2]
  | succ n ih =>
    simp only [walk2]
    have : l - (n+1) = (l-1) - n := by omega
    rw [this, ih]
    have : n + 1 + m = (n + m) + 1 := by omega
    rw [this]; simp [walk2]

theorem walk1_K1 (k31 : Key) (a n : Nat) (ha : a ≤ 31) (hn : n ≤ a) :
    walk1 kdf c1 (K1 kdf c1 k31 a) a n = K1 kdf c1 k31 (a - n) := by
  unfold K1
  have h := walk1_add kdf c1 k31 31 (31 - a) n
  have e : 31 - (31 - a) = a := by omega
  rw [e] at h; rw [h]; congr 1; omega

theorem walk2_K2 (k31 : Key) (i b n : Nat) (hb : b ≤ 31) (hn : n ≤ b) :
    walk2 kdf c2 (K2 kdf c1 c2 k31 i b) i b n = K2 kdf c1 c2 k31 i (b - n) := by
  unfold K2
  have h := walk2_add kdf c2 (kdf (K1 kdf c1 k31 i) (c2 i 31)) i 31 (31 - b) n
  have e : 31 - (31 - b) = b := by omega
  rw [e] at h; rw [h]; congr 1; omega

end DpapiNg.Chain
