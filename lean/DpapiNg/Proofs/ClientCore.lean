/-
  Core algebra of `_encrypt_blob` / `_decrypt_blob`: the GCM parameters carry the nonce, and under
  the functional laws of the primitives decryption inverts encryption whenever both sides hold
  the same KEK.
-/
import DpapiNg.Model.Client
import DpapiNg.Proofs.Asn1Rt
import DpapiNg.Proofs.Kek
namespace DpapiNg.Client
open DpapiNg DpapiNg.Asn1 DpapiNg.Gkdi DpapiNg.Blob

theorem small_lt (n : Nat) (h : n < 2 ^ 64) : n < 256 ^ 127 :=
  Nat.lt_of_lt_of_le h (by
    have : (2 : Nat) ^ 64 = 256 ^ 8 := by decide
    rw [this]; exact Nat.pow_le_pow_right (by omega) (by omega))

/-- `SEQUENCE { OCTET STRING iv, INTEGER 16 }` and reading the nonce back -/
theorem gcmParams_iv (iv : Bytes) (h : iv.length < 2 ^ 32) :
    ∃ p, gcmParams iv = .ok p ∧ gcmIv (some p) = .ok iv ∧ p ≠ [] := by
  have hOct : tOCTET.WF := by decide
  have hInt : tINTEGER.WF := by decide
  have hSeq : tSEQ.WF := by decide
  unfold gcmParams
  simp only [packOctetString, packInteger, Option.getD, packTLV_ok tOCTET hOct, packTLV_ok tINTEGER hInt, wSeq,
    packTLV_ok tSEQ hSeq, bind, Except.bind]
  refine ⟨_, rfl, ?_, ?_⟩
  · unfold gcmIv
    have ht : truthy (some (tlv tSEQ (tlv tOCTET iv ++ tlv tINTEGER (packIntegerContent 16)))) = true := by
      simp [truthy, truthy_tlv]
    simp only [ht, not_true_eq_false, if_false, orEmpty, Option.getD, bind, Except.bind]
    have hlen1 : (tlv tOCTET iv ++ tlv tINTEGER (packIntegerContent 16)).length < 256 ^ 127 := by
      have e16 : packIntegerContent 16 = [16] := by decide +kernel
      have l1 : (tlv tOCTET iv).length ≤ iv.length + 10 := by
        rw [tlv_length]; simp only [headerLen, identifierOctets, tOCTET, Tag.universal]
        have : (lengthOctets iv.length).length ≤ 9 := by
          unfold lengthOctets; split
          · simp
          · have := minLE_length_le 4 iv.length (by
              have : (256 : Nat) ^ 4 = 2 ^ 32 := by decide
              omega)
            simp; omega
        simp; omega
      have l2 : (tlv tINTEGER (packIntegerContent 16)).length = 3 := by rw [e16]; decide
      apply small_lt
      rw [List.length_append, l2]
      have : (2 : Nat) ^ 32 + 13 < 2 ^ 64 := by decide
      omega
    have r1 := validateTag_tlv tSEQ hSeq (tlv tOCTET iv ++ tlv tINTEGER (packIntegerContent 16)) [] hlen1 none tSEQ rfl
    simp only [List.append_nil] at r1
    simp only [rdSeq, readSequence, r1, Except.map]
    have r2 := validateTag_tlv tOCTET hOct iv (tlv tINTEGER (packIntegerContent 16)) (small_lt _ (by
      have : (2 : Nat) ^ 32 < 2 ^ 64 := by decide
      omega)) none tOCTET rfl
    simp only [rdOctets, readOctetString, r2, Except.map, pure, Except.pure]
  · exact tlv_ne_nil _ _

/-- `_decrypt_blob` inverts `_encrypt_blob` whenever the decrypting side derives the same KEK
    (which C02 + C03 establish): AES-KW unwrap ∘ wrap and AES-GCM decrypt ∘ encrypt are the only
    laws used. -/
theorem decrypt_encrypt (C : Crypto) (L : C.Laws) (data : Bytes) (keyS keyR : Envelope) (sid : Bytes) (d : Draws) (b : Blob)
    (hiv : d.iv.length < 2 ^ 32)
    (henc : encryptBlobValue C data keyS sid d = .ok b)
    (hkek : ∀ kek kid, newKek C keyS d.kekRnd = .ok (kek, kid) → getKek C keyR kid = .ok kek) :
    decryptBlob C b keyR = .ok data := by
  obtain ⟨p, hp, hpiv, _⟩ := gcmParams_iv d.iv hiv
  unfold encryptBlobValue at henc
  simp only [hp, hpiv, bind, Except.bind] at henc
  cases hg : C.gcmEncrypt d.cek d.iv data with
  | error e => simp [hg] at henc
  | ok ct =>
    simp only [hg] at henc
    cases hn : newKek C keyS d.kekRnd with
    | error e => simp [hn] at henc
    | ok kk =>
      obtain ⟨kek, kid⟩ := kk
      simp only [hn] at henc
      cases hw : C.keyWrap kek d.cek with
      | error e => simp [hw] at henc
      | ok w =>
        simp only [hw, pure, Except.pure, Except.ok.injEq] at henc
        subst henc
        unfold decryptBlob
        simp only [hkek kek kid hn, bind, Except.bind, cekDecrypt, if_true, L.unwrap_wrap kek d.cek w hw,
          contentDecrypt, hpiv, L.decrypt_encrypt d.cek d.iv data ct hg]

/-- what a blob carries: the GCM nonce is the second draw, the wrapped key is the wrap of the first
    draw under the KEK, and in nonce mode the key identifier carries the third draw -/
theorem blob_carries_draws (C : Crypto) (data : Bytes) (key : Envelope) (sid : Bytes) (d : Draws) (b : Blob)
    (hiv : d.iv.length < 2 ^ 32) (henc : encryptBlobValue C data key sid d = .ok b) :
    gcmIv b.encContentParams = .ok d.iv ∧
    (∃ kek kid, newKek C key d.kekRnd = .ok (kek, kid) ∧ b.keyId = kid ∧ C.keyWrap kek d.cek = .ok b.encCek) ∧
    C.gcmEncrypt d.cek d.iv data = .ok b.encContent := by
  obtain ⟨p, hp, hpiv, _⟩ := gcmParams_iv d.iv hiv
  unfold encryptBlobValue at henc
  simp only [hp, hpiv, bind, Except.bind] at henc
  cases hg : C.gcmEncrypt d.cek d.iv data with
  | error e => simp [hg] at henc
  | ok ct =>
    simp only [hg] at henc
    cases hn : newKek C key d.kekRnd with
    | error e => simp [hn] at henc
    | ok kk =>
      obtain ⟨kek, kid⟩ := kk
      simp only [hn] at henc
      cases hw : C.keyWrap kek d.cek with
      | error e => simp [hw] at henc
      | ok w =>
        simp only [hw, pure, Except.pure, Except.ok.injEq] at henc
        subst henc
        exact ⟨hpiv, ⟨kek, kid, rfl, rfl, hw⟩, rfl⟩

theorem newKek_nonce_keyInfo (C : Crypto) (key : Envelope) (rnd kek : Bytes) (kid : KeyId) (hpub : key.isPublicKey = false)
    (h : newKek C key rnd = .ok (kek, kid)) : kid.keyInfo = rnd := by
  unfold newKek at h
  by_cases hka : key.kdfAlgorithm ≠ kdfAlgName
  · simp [hka] at h
  · simp only [hka, if_false] at h
    obtain ⟨_, _, h⟩ := bind_eq_ok h
    obtain ⟨_, _, h⟩ := bind_eq_ok h
    simp only [hpub, Bool.false_eq_true, if_false, bind, Except.bind, pure, Except.pure, Except.ok.injEq, Prod.mk.injEq] at h
    rw [← h.2]

end DpapiNg.Client
