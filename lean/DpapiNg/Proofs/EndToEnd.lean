/-
  Lemmas for the API-level round trip through one KeyCache (C01.protect_then_unprotect_same_cache).
-/
import DpapiNg.Proofs.ClientCore
namespace DpapiNg.Client
open DpapiNg DpapiNg.Gkdi DpapiNg.Blob

/-- the envelope `_get_protection_gke_from_cache` hands to `_encrypt_blob`: the cached one narrowed to (l1, l2) -/
def narrowed (rkEnv : Envelope) (rk : Bytes) (l0 l1 l2 : Nat) (l2Key : Bytes) : Envelope :=
  ⟨rkEnv.version, rkEnv.flags, l0, l1, l2, rk, rkEnv.kdfAlgorithm, rkEnv.kdfParameters, rkEnv.secretAlgorithm,
    rkEnv.secretParameters, rkEnv.privateKeyLength, rkEnv.publicKeyLength, rkEnv.domainName, rkEnv.forestName, [], l2Key⟩

/-- the cached envelope recovers the KEK of a blob made from its narrowed form: both run the same `compute_l2_key` -/
theorem getKek_narrowed (C : Crypto) (rkEnv : Envelope) (rk : Bytes) (l0 l1 l2 : Nat) (hn : Bytes) (alg : Hash) (l2Key rnd kek : Bytes) (kid : KeyId)
    (hnp : rkEnv.isPublicKey = false) (hl0 : rkEnv.l0 = l0)
    (h1 : kdfParamsUnpack rkEnv.kdfParameters = .ok hn) (h2 : hashOfName hn = .ok alg)
    (h3 : computeL2 C alg l1 l2 rkEnv = .ok l2Key)
    (hk : newKek C (narrowed rkEnv rk l0 l1 l2 l2Key) rnd = .ok (kek, kid)) :
    getKek C rkEnv kid = .ok kek := by
  unfold newKek at hk
  by_cases hka : rkEnv.kdfAlgorithm ≠ kdfAlgName
  · simp [narrowed, hka] at hk
  · have hnp' : (narrowed rkEnv rk l0 l1 l2 l2Key).isPublicKey = false := hnp
    simp only [narrowed, hka, if_false, h1, h2, bind, Except.bind] at hk
    have hnp2 : (narrowed rkEnv rk l0 l1 l2 l2Key).isPublicKey = false := hnp
    simp only [narrowed] at hnp2
    simp only [hnp2, Bool.false_eq_true, if_false, pure, Except.pure, Except.ok.injEq, Prod.mk.injEq] at hk
    obtain ⟨hkek, hkid⟩ := hk
    subst hkid; subst hkek
    unfold getKek
    have hflag : (rkEnv.flags % 2 = 1) = False := by
      have := hnp; simp only [Envelope.isPublicKey, decide_eq_false_iff_not] at this; simp [this]
    simp only [hnp, Bool.false_eq_true, if_false, hl0, ne_eq, not_true_eq_false, hka, h1, h2, h3, bind, Except.bind,
      KeyId.isPublicKey, hflag, decide_false, pure, Except.pure]

end DpapiNg.Client

namespace DpapiNg.Client
open DpapiNg DpapiNg.Gkdi DpapiNg.Blob

/-- a cache hit leaves the hit envelope as the seed, and asking again for a covered position returns it unchanged -/
theorem cacheGet_again (C : Crypto) (s s' : CState) (sd rk : Bytes) (l0 l1 l2 : Nat) (e : Cache.Env Envelope) (hr : l1 ≤ 31 ∧ l2 ≤ 31)
    (h : cacheGet C s sd rk l0 l1 l2 = (.hit e, s')) :
    s'.seeds (rk, sd, l0) = some e ∧ Cache.Pos.le ⟨l1, l2⟩ e.pos ∧ cacheGet C s' sd rk l0 l1 l2 = (.hit e, s') ∧
    ((∀ k e', s.seeds k = some e' → e'.payload.isPublicKey = false ∧ e'.payload.l0 = k.2.2) → e.payload.isPublicKey = false ∧ e.payload.l0 = l0) := by
  unfold cacheGet Cache.getKey at h
  have hfr : Cache.fromRoot rkOf (rootEnv C) s (rk, sd, l0) = (.hit e, s') →
      s'.seeds (rk, sd, l0) = some e ∧ Cache.Pos.le ⟨l1, l2⟩ e.pos ∧ e.payload.isPublicKey = false ∧ e.payload.l0 = l0 := by
    intro hf
    unfold Cache.fromRoot at hf
    split at hf
    · split at hf
      · rename_i r _ pl hpl
        simp only [Prod.mk.injEq, Cache.Got.hit.injEq] at hf
        obtain ⟨he, hs⟩ := hf
        subst he; subst hs
        refine ⟨by simp [Cache.setSeed], Cache.Pos.le_top (p := ⟨l1, l2⟩) hr, ?_⟩
        unfold rootEnv at hpl
        obtain ⟨_, _, hpl⟩ := bind_eq_ok hpl
        obtain ⟨_, _, hpl⟩ := bind_eq_ok hpl
        obtain ⟨_, _, hpl⟩ := bind_eq_ok hpl
        cases hpl
        exact ⟨by simp [Envelope.isPublicKey], rfl⟩
      · cases hf
    · cases hf
  have key : s'.seeds (rk, sd, l0) = some e ∧ Cache.Pos.le ⟨l1, l2⟩ e.pos ∧
      ((∀ k e', s.seeds k = some e' → e'.payload.isPublicKey = false ∧ e'.payload.l0 = k.2.2) → e.payload.isPublicKey = false ∧ e.payload.l0 = l0) := by
    split at h
    · rename_i e0 he0
      split at h
      · rename_i hle
        simp only [Prod.mk.injEq, Cache.Got.hit.injEq] at h
        obtain ⟨he, hs⟩ := h
        subst he; subst hs
        exact ⟨he0, hle, fun hall => hall _ _ he0⟩
      · have := hfr h; exact ⟨this.1, this.2.1, fun _ => this.2.2⟩
    · have := hfr h; exact ⟨this.1, this.2.1, fun _ => this.2.2⟩
  refine ⟨key.1, key.2.1, ?_, key.2.2⟩
  unfold cacheGet Cache.getKey
  simp only [key.1, key.2.1, if_true]

end DpapiNg.Client

namespace DpapiNg.Client
open DpapiNg DpapiNg.Gkdi DpapiNg.Blob

/-- encryptBlobValue copies the SID it is given into the blob -/
theorem encryptBlobValue_sid (C : Crypto) (data : Bytes) (key : Envelope) (sid : Bytes) (d : Draws) (b : Blob)
    (h : encryptBlobValue C data key sid d = .ok b) : b.sid = sid := by
  unfold encryptBlobValue at h
  obtain ⟨_, _, h⟩ := bind_eq_ok h
  obtain ⟨_, _, h⟩ := bind_eq_ok h
  obtain ⟨_, _, h⟩ := bind_eq_ok h
  obtain ⟨⟨_, _⟩, _, h⟩ := bind_eq_ok h
  obtain ⟨_, _, h⟩ := bind_eq_ok h
  cases h; rfl

theorem encryptBlobValue_keyId (C : Crypto) (data : Bytes) (key : Envelope) (sid : Bytes) (d : Draws) (b : Blob)
    (h : encryptBlobValue C data key sid d = .ok b) :
    b.keyId.rootKeyId = key.rootKeyId ∧ b.keyId.l0 = key.l0 ∧ b.keyId.l1 = key.l1 ∧ b.keyId.l2 = key.l2 := by
  unfold encryptBlobValue at h
  obtain ⟨_, _, h⟩ := bind_eq_ok h
  obtain ⟨_, _, h⟩ := bind_eq_ok h
  obtain ⟨_, _, h⟩ := bind_eq_ok h
  obtain ⟨⟨kek, kid⟩, hk, h⟩ := bind_eq_ok h
  obtain ⟨_, _, h⟩ := bind_eq_ok h
  cases h
  unfold newKek at hk
  split at hk
  · cases hk
  · obtain ⟨_, _, hk⟩ := bind_eq_ok hk
    obtain ⟨_, _, hk⟩ := bind_eq_ok hk
    obtain ⟨⟨_, _⟩, _, hk⟩ := bind_eq_ok hk
    cases hk
    exact ⟨rfl, rfl, rfl, rfl⟩

/-- what `_get_protection_gke_from_cache` returns when it returns an envelope -/
theorem protectionGke_some (C : Crypto) (s s' : CState) (sd rk : Bytes) (timeNs : Nat) (env : Envelope)
    (h : protectionGke C s sd rk timeNs = (.ok (some env), s')) :
    ∃ l0 l1 l2 envC hn alg l2Key, l1 ≤ 31 ∧ l2 ≤ 31 ∧ cacheGet C s sd rk l0 l1 l2 = (.hit envC, s') ∧
      kdfParamsUnpack envC.payload.kdfParameters = .ok hn ∧ hashOfName hn = .ok alg ∧
      computeL2 C alg l1 l2 envC.payload = .ok l2Key ∧ env = narrowed envC.payload rk l0 l1 l2 l2Key := by
  unfold protectionGke at h
  simp only [] at h
  have hr1 : Time.l1 (Time.currentTime timeNs) ≤ 31 := by unfold Time.l1; omega
  have hr2 : Time.l2 (Time.currentTime timeNs) ≤ 31 := by unfold Time.l2; omega
  generalize Time.l0 (Time.currentTime timeNs) = l0 at h
  generalize Time.l1 (Time.currentTime timeNs) = l1 at h hr1
  generalize Time.l2 (Time.currentTime timeNs) = l2 at h hr2
  generalize hcg : cacheGet C s sd rk l0 l1 l2 = cg at h
  obtain ⟨got, sg⟩ := cg
  cases got with
  | fail e => simp at h
  | miss => simp at h
  | hit envC =>
    simp only [Prod.mk.injEq] at h
    obtain ⟨hr, hsg⟩ := h
    subst hsg
    obtain ⟨hn, h1, hr⟩ := bind_eq_ok hr
    obtain ⟨alg, h2, hr⟩ := bind_eq_ok hr
    obtain ⟨l2Key, h3, hr⟩ := bind_eq_ok hr
    simp only [pure, Except.pure, Except.ok.injEq, Option.some.injEq] at hr
    exact ⟨l0, l1, l2, envC, hn, alg, l2Key, hr1, hr2, hcg, h1, h2, h3, hr.symm⟩

end DpapiNg.Client
